#!/bin/sh
# setup_cmd: build the whole framework offline from files on disk.
set -e
cd "$(dirname "$0")"
export CARGO_NET_OFFLINE=true
[ -f harness/Cargo.lock ] || cp /repo/Cargo.lock harness/Cargo.lock
(cd harness && cargo build --offline)
(cd harness && cargo build --offline --manifest-path /repo/jaq/Cargo.toml --target-dir "$PWD/target-cli")
(cd lean && lake build JaqVerif jaqmodel)
echo "setup ok"
