"""C01 helpers: request construction, outcome comparison (shared by checks/c01.py and ad-hoc runs)."""
import subprocess

FUEL_N = 150     # Sem fuel for programs whose compiled table has no cycle
FUEL_R = 16      # Sem fuel for (possibly) recursive programs
LIMIT = 4        # items pulled from the real iterator / shown from the models


def parse_cases(gen_out):
    cases = []
    for l in gen_out.splitlines():
        f = l.split("\t")
        if len(f) == 5:
            cases.append({"id": f[0], "kind": f[1], "code_hex": f[2], "sx": f[3], "input": f[4],
                          "code": bytes.fromhex(f[2]).decode("utf-8", "replace")})
    return cases


def run_request(prelude, c, fuel_n=FUEL_N, fuel_r=FUEL_R, limit=LIMIT):
    return "c01.run %d %d %d %s %s %s" % (fuel_n, fuel_r, limit, prelude, c["sx"], c["input"])


def split_model(ans):
    """-> (status, asis, cartfixed, fixed, sem); status in ok-N / ok-R (+F) / C / UNSUPPORTED / bad"""
    if ans.startswith("ok "):
        parts = ans.split(" | ")
        if len(parts) == 5:
            return ("ok-" + parts[0][3:].strip(), parts[1], parts[2], parts[3], parts[4])
        return ("bad", ans, ans, ans, ans)
    if ans.startswith("C "):
        return ("C", "C", "C", "C", "C")
    return (ans.split(" ")[0], ans, ans, ans, ans)


def items(s):
    return [] if s == "-" else s.split(" ; ")


def conclusive(s):
    """outcome of a model is conclusive (comparable with the real run) iff it did not run out of fuel"""
    return "FUEL" not in items(s)


def prefix_compatible(a, b):
    """two model outcomes where at least one ran out of fuel: the values before must agree"""
    ia, ib = items(a), items(b)
    fa, fb = "FUEL" in ia, "FUEL" in ib
    ia = [x for x in ia if x != "FUEL"]
    ib = [x for x in ib if x != "FUEL"]
    n = min(len(ia), len(ib))
    if ia[:n] != ib[:n]:
        return False
    if not fa and len(ib) > len(ia):
        return False
    if not fb and len(ia) > len(ib):
        return False
    return True


def run_real(harness_bin, env, sel, limit=LIMIT, timeout=600):
    """run the real code on the selected cases in one child process; returns {id: outcome} or raises TimeoutExpired"""
    data = "".join("%s\t%s\t%s\t%d\n" % (c["id"], c["code_hex"], c["input"], limit) for c in sel)
    p = subprocess.run([harness_bin, "c01", "run"], input=data, timeout=timeout, env=env,
                       stdout=subprocess.PIPE, stderr=subprocess.PIPE, text=True, errors="replace")
    out = {}
    for l in p.stdout.splitlines():
        f = l.split("\t")
        if len(f) == 2:
            out[f[0]] = f[1]
    return out, p.returncode


def run_real_partial(harness_bin, env, sel, limit=LIMIT, timeout=120):
    """one child process; returns ({id: outcome} of the cases that finished, status) with status in
    ok / timeout / crash.  The harness prints one line per case, in order, flushed at each newline, so after a
    hang or crash the first case without a line is the offender."""
    data = "".join("%s\t%s\t%s\t%d\n" % (c["id"], c["code_hex"], c["input"], limit) for c in sel)
    status = "ok"
    try:
        p = subprocess.run([harness_bin, "c01", "run"], input=data.encode(), timeout=timeout, env=env,
                           stdout=subprocess.PIPE, stderr=subprocess.PIPE)
        stdout = p.stdout
        if p.returncode != 0:
            status = "crash"
    except subprocess.TimeoutExpired as e:
        stdout = e.stdout or b""
        status = "timeout"
    if isinstance(stdout, bytes):
        stdout = stdout.decode("utf-8", "replace")
    out = {}
    lines = stdout.split("\n")
    if status != "ok" and lines and lines[-1] != "":
        lines = lines[:-1]          # a line cut off in the middle
    for l in lines:
        f = l.split("\t")
        if len(f) == 2:
            out[f[0]] = f[1]
    return out, status


def run_real_chunked(harness_bin, env, sel, limit=LIMIT, chunk=400, timeout=120, workers=4):
    """real code on all selected cases, in child processes of `chunk` cases.  A hang or crash of the real code
    costs one timeout: the offending case (the first one without an answer line) gets the outcome
    `TIMEOUT` / `CRASH`, the remaining cases of the chunk are run in a fresh process."""
    from concurrent.futures import ThreadPoolExecutor
    chunks = [sel[i:i + chunk] for i in range(0, len(sel), chunk)]

    def work(cs):
        res = {}
        rest = cs
        while rest:
            out, status = run_real_partial(harness_bin, env, rest, limit, timeout)
            done = 0
            while done < len(rest) and rest[done]["id"] in out:
                res[rest[done]["id"]] = out[rest[done]["id"]]
                done += 1
            if done == len(rest):
                break
            res[rest[done]["id"]] = "TIMEOUT" if status == "timeout" else "CRASH"
            rest = rest[done + 1:]
        return res

    res = {}
    with ThreadPoolExecutor(max_workers=workers) as ex:
        for out in ex.map(work, chunks):
            res.update(out)
    return res
