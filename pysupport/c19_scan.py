"""C19 translator: lists every item of the core crates' source that could carry state shared between
filter executions (process-wide items, interior mutability, `unsafe`), and renders the list as
Lean data (lean/JaqVerif/Gen/C19Shared.lean).  Pure text scan over comment- and string-stripped
Rust source; standard library only."""
import os
import re

CRATES = ["jaq-core", "jaq-std", "jaq-json", "jaq-fmts", "jaq-all"]

# identifier -> kind (kinds are the names used in the allow-list)
IDENT_KINDS = {
    "thread_local": "thread_local", "lazy_static": "lazy_static",
    "Cell": "Cell", "RefCell": "RefCell", "UnsafeCell": "UnsafeCell", "SyncUnsafeCell": "UnsafeCell",
    "OnceCell": "OnceCell", "OnceLock": "OnceLock", "LazyLock": "LazyLock", "LazyCell": "LazyCell",
    "Lazy": "Lazy", "Once": "Once",
    "Mutex": "Mutex", "RwLock": "RwLock", "Condvar": "Condvar", "ReentrantLock": "Mutex",
    "Barrier": "Barrier", "mpsc": "channel", "ArcSwap": "ArcSwap", "ThreadLocal": "thread_local",
    "Exclusive": "Mutex", "set_var": "env_write", "remove_var": "env_write", "set_current_dir": "env_write",
    "self_cell": "self_cell",
    "unsafe": "unsafe",
}
PATH_RE = re.compile(r"(?<![\w'])((?:[A-Za-z_]\w*\s*::\s*)*)([A-Za-z_]\w*)((?:\s*::\s*[A-Za-z_]\w*)*)(\s*!)?")


def strip_rust(src):
    """Blank out comments, string/char literals (keeping line structure)."""
    out = []
    i, n = 0, len(src)

    def blank(s):
        return "".join(c if c == "\n" else " " for c in s)

    while i < n:
        c = src[i]
        if src.startswith("//", i):
            j = src.find("\n", i)
            j = n if j < 0 else j
            out.append(blank(src[i:j]))
            i = j
        elif src.startswith("/*", i):
            depth, j = 1, i + 2
            while j < n and depth:
                if src.startswith("/*", j):
                    depth += 1
                    j += 2
                elif src.startswith("*/", j):
                    depth -= 1
                    j += 2
                else:
                    j += 1
            out.append(blank(src[i:j]))
            i = j
        elif c == '"' or (c in "rb" and re.match(r'(?:b?r#*"|b")', src[i:i + 8]) and (i == 0 or not (src[i - 1].isalnum() or src[i - 1] == "_"))):
            m = re.match(r'(b?)(r(#*))?"', src[i:])
            if m.group(2) is not None:  # raw string
                close = '"' + m.group(3)
                j = src.find(close, i + m.end())
                j = n if j < 0 else j + len(close)
            else:
                j = i + m.end()
                while j < n and src[j] != '"':
                    j += 2 if src[j] == "\\" else 1
                j += 1
            out.append('""' + blank(src[i + 2:j]) if j - i >= 2 else blank(src[i:j]))
            i = j
        elif c == "'":
            # char literal or lifetime
            if i + 1 < n and src[i + 1] == "\\":
                j = src.find("'", i + 2)
                # '\'' case
                if j == i + 2:
                    j = src.find("'", i + 3)
                j = n if j < 0 else j + 1
                out.append(blank(src[i:j]))
                i = j
            elif i + 2 < n and src[i + 2] == "'":
                out.append("   ")
                i += 3
            else:
                out.append(c)
                i += 1
        else:
            out.append(c)
            i += 1
    return "".join(out)


def scan_file(path):
    """Occurrences in one file: list of (line_no, kind, path_text)."""
    src = strip_rust(open(path, encoding="utf-8", errors="replace").read())
    occ = []
    for ln, line in enumerate(src.split("\n"), 1):
        for m in PATH_RE.finditer(line):
            pre, ident, post, bang = m.group(1), m.group(2), m.group(3), m.group(4)
            segs = [s.strip() for s in (pre + ident + post).split("::")]
            kinds = set()
            for s in segs:
                if s in IDENT_KINDS:
                    kinds.add(IDENT_KINDS[s])
                elif re.fullmatch(r"Atomic[A-Z]\w*", s):
                    kinds.add("Atomic")
            text = "::".join(segs) + ("!" if bang else "")
            for k in sorted(kinds):
                occ.append((ln, k, text))
        # the `static` keyword (not the lifetime `'static`)
        for m in re.finditer(r"(?<![\w'])static\b(\s+mut\b)?", line):
            rest = line[m.end():].strip()
            name = re.match(r"(?:ref\s+)?([A-Za-z_]\w*)", rest)
            occ.append((ln, "static_mut" if m.group(1) else "static", name.group(1) if name else "?"))
    return occ


def scan(repo):
    """Returns (items, occurrences, forbid) where items = sorted list of
    (crate, file, kind, path, count), occurrences = list of dicts with line numbers,
    forbid = {crate: bool} (`#![forbid(unsafe_code)]` present in src/lib.rs)."""
    counts, occs, forbid = {}, [], {}
    for crate in CRATES:
        root = os.path.join(repo, crate, "src")
        lib = os.path.join(root, "lib.rs")
        libsrc = strip_rust(open(lib).read()) if os.path.exists(lib) else ""
        forbid[crate] = bool(re.search(r"#!\[\s*forbid\s*\(([^)]*\b)?unsafe_code\b[^)]*\)\s*\]", libsrc))
        for d, _, files in sorted(os.walk(root)):
            for f in sorted(files):
                if not f.endswith(".rs"):
                    continue
                p = os.path.join(d, f)
                rel = os.path.relpath(p, os.path.join(repo, crate))
                for ln, kind, text in scan_file(p):
                    key = (crate, rel, kind, text)
                    counts[key] = counts.get(key, 0) + 1
                    occs.append({"crate": crate, "file": rel, "line": ln, "kind": kind, "path": text})
    items = sorted(k + (v,) for k, v in counts.items())
    return items, occs, forbid


def lean_str(s):
    return '"' + s.replace("\\", "\\\\").replace('"', '\\"') + '"'


def render(items, occs, forbid):
    lines = ["/- GENERATED by checks/c19.py (pysupport/c19_scan.py) from the source of the core crates on every run.",
             "   Every occurrence of a process-wide item, an interior-mutability type or `unsafe`",
             "   (comments and string literals removed), grouped by (crate, file, kind, path) with its count.",
             "   Line numbers (informative only):"]
    for o in occs:
        lines.append("     %s/%s:%d  %s  %s" % (o["crate"], o["file"], o["line"], o["kind"], o["path"]))
    lines += ["-/", "import JaqVerif.C19.Allow", "", "namespace Jaq.C19.Gen", "",
              "def sharedItems : List SharedItem := ["]
    lines.append(",\n".join("  ⟨%s, %s, %s, %s, %d⟩" % (lean_str(c), lean_str(f), lean_str(k), lean_str(t), n)
                            for c, f, k, t, n in items))
    lines += ["]", "", "/-- crate ↦ `#![forbid(unsafe_code)]` present in src/lib.rs -/",
              "def forbidUnsafe : List (String × Bool) := ["]
    lines.append(",\n".join("  (%s, %s)" % (lean_str(c), "true" if forbid[c] else "false") for c in CRATES))
    lines += ["]", "", "end Jaq.C19.Gen", ""]
    return "\n".join(lines)


if __name__ == "__main__":
    import sys
    items, occs, forbid = scan(sys.argv[1] if len(sys.argv) > 1 else "/repo")
    print(render(items, occs, forbid))
