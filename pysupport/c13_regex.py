#!/usr/bin/env python3
"""C13 regex oracle (child process of checks/c13.py).

stdin : `RX1 \t <hex subject (valid UTF-8)> \t <hex regex> \t <flags> \t <real [match($re; $flags)]>`
stdout: JSON {"checked", "objects", "failures": [...], "engine_agree", "engine_differ", "engine_skipped"}

Ground truth for "offsets and lengths count characters" is Python's own string indexing:
for every match object and capture that jaq printed, `subject[offset : offset+length] == string`
and `len(string) == length` with Python `str` (code point) indices.  Python's `re` engine is
additionally run on the same pattern (ASCII classes, `$` as `\\Z`); agreement of the first match's
span is only counted (engines may legitimately differ), never reported.
"""
import json
import re
import sys

sys.path.insert(0, __file__.rsplit("/", 1)[0])
from c13_oracle import parse_vx  # noqa: E402


def main():
    failures = []
    checked = objects = agree = differ = skipped = 0
    for line in sys.stdin:
        p = line.rstrip("\n").split("\t")
        if len(p) != 5 or p[0] != "RX1" or not p[4].startswith("V "):
            continue
        try:
            subj = bytes.fromhex(p[1]).decode("utf-8")
            rx = bytes.fromhex(p[2]).decode("utf-8")
        except UnicodeDecodeError:
            continue
        flags = p[3]
        ms, _ = parse_vx(p[4][2:].split(" "))
        checked += 1
        first = None
        for m in ms:
            d = dict((k.decode(), v) for k, v in m[1])
            objs = [d] + [dict((k.decode(), v) for k, v in c[1]) for c in d.get("captures", [])]
            if first is None:
                first = d
            for o in objs:
                if o.get("offset") is None or not isinstance(o.get("string"), bytes):
                    continue
                objects += 1
                st = o["string"].decode("utf-8", "surrogateescape")
                off, ln = o["offset"], o["length"]
                if subj[off:off + ln] != st or len(st) != ln:
                    failures.append({"subject_hex": p[1], "regex_hex": p[2], "flags": flags, "offset": off, "length": ln,
                                     "string_hex": o["string"].hex(), "python_slice_hex": subj[off:off + ln].encode().hex()})
        # engine comparison (informative)
        try:
            pf = re.ASCII
            for c in flags:
                pf |= {"i": re.I, "s": re.S, "x": re.X, "m": re.M}.get(c, 0)
            prx = re.sub(r"(?<!\\)\$", r"\\Z", rx)
            pm = re.compile(prx, pf).search(subj)
        except (re.error, RecursionError, OverflowError):
            skipped += 1
            continue
        if (pm is None) == (first is None) and (pm is None or (pm.start(), pm.end() - pm.start()) == (first["offset"], first["length"])):
            agree += 1
        else:
            differ += 1
    json.dump({"checked": checked, "objects": objects, "failures": failures[:100], "n_failures": len(failures),
               "engine_agree": agree, "engine_differ": differ, "engine_skipped": skipped}, sys.stdout)


if __name__ == "__main__":
    main()
