"""C07 translator: turn the output of `jaqverif c07 tables` into lean/JaqVerif/Gen/C07Tables.lean."""


def _bytes(hexs):
    return "[" + ", ".join(str(int(hexs[i:i + 2], 16)) for i in range(0, len(hexs), 2)) + "]"


def parse(out):
    rows = {"T": {}, "B": {}, "UT": {}, "UB": {}}
    frame, kw = {}, {}
    for l in out.splitlines():
        p = l.split(" ")
        if p[0] in rows and len(p) == 3:
            rows[p[0]][int(p[1])] = p[2]
        elif p[0] == "FRAME":
            frame[p[1]] = p[2]
        elif p[0] == "KW":
            kw[p[1]] = p[2]
    for k in rows:
        if sorted(rows[k]) != list(range(256)):
            raise ValueError("table %s incomplete" % k)
    return rows, frame, kw


def lean_source(out):
    rows, frame, kw = parse(out)
    L = []
    L.append("/- GENERATED on every run of `bin/check C07` from the real writer and reader of jaq-json")
    L.append("   (`jaqverif c07 tables`); do not edit.  One row per byte value 0..255. -/")
    L.append("namespace Jaq.C07.Gen")
    L.append("")

    def table(name, doc, key, opt):
        L.append("/-- %s -/" % doc)
        ty = "List (Option (List UInt8))" if opt else "List (List UInt8)"
        L.append("def %s : %s := [" % (name, ty))
        items = []
        for b in range(256):
            h = rows[key][b]
            if opt:
                items.append("  none" if h == "-" else "  some " + _bytes(h))
            else:
                items.append("  " + _bytes(h))
        L.append(",\n".join(items))
        L.append("]")
        L.append("")

    table("escT", "what the writer emits for byte `b` inside a text string (`write_utf8!`)", "T", False)
    table("escB", "what the writer emits for byte `b` inside a byte string (`write_bytes!`)", "B", False)
    table("unescT", "what the reader appends for the escape `\\\\b` (alone) in a text string; `none` = error or needs more input", "UT", True)
    table("unescB", "what the reader appends for the escape `\\\\b` (alone) in a byte string; `none` = error or needs more input", "UB", True)
    L.append("/-- the writer's output for the empty text string / empty byte string (frame) -/")
    L.append("def frameT : List UInt8 := %s" % _bytes(frame["T"]))
    L.append("def frameB : List UInt8 := %s" % _bytes(frame["B"]))
    for k in ["null", "true", "false", "nan", "inf", "ninf"]:
        L.append("def kw_%s : List UInt8 := %s" % (k, _bytes(kw[k])))
    L.append("")
    L.append("end Jaq.C07.Gen")
    return "\n".join(L) + "\n"


if __name__ == "__main__":
    import sys
    sys.stdout.write(lean_source(sys.stdin.read()))
