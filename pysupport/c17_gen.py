"""Case generator for the C17 process-level correspondence.

A case is a dict
  id      stable text
  argv    list of bytes (arguments after argv[0])
  stdin   bytes or None (None: stdin is /dev/null-like empty input)
  files   {relative path: bytes}  files created in the case's directory
  noisy   the filter may write to stderr by itself (stderr, debug, halt_error)
  kind    singles | pairs | larger | argv-fuzz | streams
All randomness comes from the `random.Random` handed in (seeded from ctx.seed).
"""
import random

# ---------------------------------------------------------------- documented option set
# name -> (tokens, needs) ; `needs` names auxiliary files the option refers to
OPTIONS = {
    "-n": ([b"-n"], []),
    "--null-input": ([b"--null-input"], []),
    "-R": ([b"-R"], []),
    "--raw-input": ([b"--raw-input"], []),
    "--raw-input0": ([b"--raw-input0"], []),
    "-s": ([b"-s"], []),
    "--slurp": ([b"--slurp"], []),
    "--from json": ([b"--from", b"json"], []),
    "--from raw": ([b"--from", b"raw"], []),
    "--from yaml": ([b"--from", b"yaml"], []),
    "--to json": ([b"--to", b"json"], []),
    "--to raw": ([b"--to", b"raw"], []),
    "--to raw0": ([b"--to", b"raw0"], []),
    "--to yaml": ([b"--to", b"yaml"], []),
    "--to toml": ([b"--to", b"toml"], []),
    "--to xml": ([b"--to", b"xml"], []),
    "--to csv": ([b"--to", b"csv"], []),
    "--to tsv": ([b"--to", b"tsv"], []),
    "--to cbor": ([b"--to", b"cbor"], []),
    "-c": ([b"-c"], []),
    "--compact-output": ([b"--compact-output"], []),
    "-r": ([b"-r"], []),
    "--raw-output": ([b"--raw-output"], []),
    "--raw-output0": ([b"--raw-output0"], []),
    "-j": ([b"-j"], []),
    "--join-output": ([b"--join-output"], []),
    "-i": ([b"-i"], []),            # only generated together with stdin input (files: C18)
    "-S": ([b"-S"], []),
    "--sort-keys": ([b"--sort-keys"], []),
    "-C": ([b"-C"], []),
    "-M": ([b"-M"], []),
    "--tab": ([b"--tab"], []),
    "--indent 0": ([b"--indent", b"0"], []),
    "--indent 3": ([b"--indent", b"3"], []),
    "--indent 7": ([b"--indent", b"+7"], []),
    "-f": ([b"-f"], ["filterfile"]),
    "--from-file": ([b"--from-file"], ["filterfile"]),
    "-L": ([b"-L", b"lib"], []),
    "--arg": ([b"--arg", b"a", b"va"], []),
    "--argjson": ([b"--argjson", b"b", b'{"k":[1,2]}'], []),
    "--argjson bad": ([b"--argjson", b"b", b"1 2"], []),
    "--slurpfile": ([b"--slurpfile", b"c", b"sl.json"], ["sl.json"]),
    "--slurpfile bad": ([b"--slurpfile", b"c", b"slbad.json"], ["slbad.json"]),
    "--rawfile": ([b"--rawfile", b"d", b"rw.txt"], ["rw.txt"]),
    "--rawfile missing": ([b"--rawfile", b"d", b"nonexistent.txt"], []),
    "--args": ([b"--args"], []),
    "-e": ([b"-e"], []),
    "--exit-status": ([b"--exit-status"], []),
}
# one canonical spelling per documented option (singles and pairs are taken over these)
CANON = ["-n", "-R", "--raw-input0", "-s", "--from json", "--from raw", "--to yaml", "--to raw",
         "--to csv", "--to toml", "-c", "-r", "--raw-output0", "-j", "-i", "-S", "-C", "-M", "--tab",
         "--indent 3", "-f", "-L", "--arg", "--argjson", "--slurpfile", "--rawfile", "--args", "-e"]

AUX = {
    "sl.json": b'1 [2] "x"\n',
    "slbad.json": b'1 [2 "x"\n',
    "rw.txt": b"raw \xff text\n",
}

# ---------------------------------------------------------------- filters
# (text, noisy)
ATOMS = [
    (".", 0), ("empty", 0), (".,.", 0), ("1,2", 0), ("null", 0), ("false", 0), ("true", 0),
    ('"x"', 0), ('"a\\u0000b"', 0), ('"l1\\nl2"', 0), ("[.]", 0), ("{b:2,a:.}", 0), ("[1,[2]]", 0),
    ("input", 0), ("inputs", 0), ("[inputs]", 0), ("[.,input]", 0), ('try input catch "C"', 0),
    ("first(inputs)", 0), ("limit(2; inputs)", 0), ("reduce inputs as $x (0; .+1)", 0),
    ("., input, .", 0), ("(input|[.]), (input|{x:.})", 0),
    ("error", 0), ('error("boom")', 0), ("halt", 0), ("halt(3)", 0), ("halt(300)", 0), ("halt(-1)", 0),
    ("halt_error", 1), ('"bye\\n"|halt_error(1)', 1), ('{"m":1}|halt_error(0)', 1),
    ("$ENV.C17_MARK", 0), ("$ENV|length", 0), ("input_filename", 0), ("[., input_filename]", 0),
    ("$ARGS", 0), ("$ARGS.positional", 0), ("$ARGS.named|keys_unsorted", 0), ("$__prog_args", 0),
    ("$a", 0), ("$b", 0), ("$c", 0), ("$d|length", 0), ("[$a,$b]", 0),
    ("select(. != 1)", 0), ("if . == 2 then error else . end", 0), (".[]?", 0), (".a", 0), ("-.", 0),
    ("if . == 2 then halt(7) else ., 10 end", 0), ("., error, 3", 0), ("1, halt(4), 2", 0),
    ("if . == 1 then null elif . == 2 then false else . end", 0), ("(., 5) | select(. == 5)", 0),
    ("+", 0), (". as [$x] | $x", 0), ("try error catch .", 0), ("[.[]?]", 0), ("{a:1}", 0),
    ("[limit(3; repeat(.))]", 0), ("debug", 1), ("stderr", 1), ("tojson", 0), ("not", 0),
    ("length", 0), ("[.,1]|tostring", 0),
    ("false, 1", 0), ("1, null", 0), ("null, true", 0), ("., false", 0), ("false, .", 0),
]
# filters that expose everything the command line binds
REVEAL = "[$ARGS, input_filename, $ENV.C17_MARK, .]"


def gen_filter(rng, depth=0):
    r = rng.random()
    if depth >= 2 or r < 0.55:
        return rng.choice(ATOMS)
    a, na = gen_filter(rng, depth + 1)
    b, nb = gen_filter(rng, depth + 1)
    if r < 0.8:
        return "(%s), (%s)" % (a, b), na or nb
    return "(%s) | (%s)" % (a, b), na or nb


# ---------------------------------------------------------------- input streams
JSON_VALS = [b"1", b"2", b"3", b"null", b"false", b"true", b'"s"', b"[1,2]", b'{"b":2,"a":1}',
             b'"a\\u0000b"', b"3.5", b"[]", b'{"a":{"c":[1]}}', b'"l1\\nl2"', b"[[1,[2]]]", b"0"]
BAD = [b"}", b"[1,", b'{"a"', b'"abc', b"nul", b"]", b"1e", b"{,}"]
RAW_LINES = [b"line1", b"", b"two words", b'"q"', b"\xff\xfe", b"1", b"x\ty"]
YAML_DOCS = [b"1\n", b"- 1\n- 2\n", b"a: 1\nb: [2, 3]\n", b"null\n", b'"s"\n', b"false\n"]


def gen_json_stream(rng, n=None, bad_at=None):
    n = rng.randrange(0, 6) if n is None else n
    vals = [rng.choice(JSON_VALS) for _ in range(n)]
    if bad_at is not None and bad_at <= n:
        vals.insert(bad_at, rng.choice(BAD))
    sep = rng.choice([b" ", b"\n", b"\n\n", b" \t"])
    s = sep.join(vals)
    if vals and rng.random() < 0.8:
        s += b"\n"
    return s


def gen_stream(rng, fmt):
    """bytes of one input source for the (expected) format"""
    if fmt == "raw":
        n = rng.randrange(0, 5)
        s = b"\n".join(rng.choice(RAW_LINES) for _ in range(n))
        return s + (b"\n" if n and rng.random() < 0.7 else b"")
    if fmt == "raw0":
        n = rng.randrange(0, 5)
        s = b"\0".join(rng.choice(RAW_LINES) for _ in range(n))
        return s + (b"\0" if n and rng.random() < 0.5 else b"")
    if fmt == "yaml":
        n = rng.randrange(0, 4)
        s = b"---\n".join(rng.choice(YAML_DOCS) for _ in range(n))
        if rng.random() < 0.15:
            s += b"- [1\n"
        if rng.random() < 0.05:
            s += b"\xff"
        return s
    bad_at = rng.randrange(0, 5) if rng.random() < 0.25 else None
    return gen_json_stream(rng, bad_at=bad_at)


FILE_NAMES = ["a.json", "b", "c.yaml", "d.txt", "e.json", ".json", "f.yml.txt", "g."]


def gen_inputs(rng, forced_fmt, allow_files=True):
    """returns (stdin bytes or None, [(name, bytes or None)])  (None content: file missing)"""
    if not allow_files or rng.random() < 0.45:
        fmt = forced_fmt or "json"
        return gen_stream(rng, fmt), []
    m = rng.choice([1, 1, 2, 2, 3])
    names = rng.sample(FILE_NAMES, m)
    if rng.random() < 0.1:
        names.append(names[0])           # the same file twice
    files = []
    for nm in names:
        fmt = forced_fmt or ("yaml" if nm.endswith(".yaml") else "json")
        files.append((nm, gen_stream(rng, fmt)))
    if rng.random() < 0.08:
        files.insert(rng.randrange(0, len(files) + 1), ("missing.json", None))
    return None, files


# ---------------------------------------------------------------- assembling a command line
def forced_format(optnames):
    fmt = None
    for o in optnames:
        if o in ("-R", "--raw-input", "--from raw"):
            fmt = "raw"
        elif o == "--raw-input0":
            fmt = "raw0"
        elif o == "--from json":
            fmt = "json"
        elif o == "--from yaml":
            fmt = "yaml"
    return fmt


def assemble(rng, cid, kind, optnames, filt=None, shuffle=True, inputs=None):
    optnames = list(optnames)
    if shuffle:
        rng.shuffle(optnames)
    if filt is None:
        filt = gen_filter(rng)
    ftext, noisy = filt
    files = {}
    from_file = any(o in ("-f", "--from-file") for o in optnames)
    has_args = "--args" in optnames
    allow_files = "-i" not in optnames
    stdin, infiles = inputs if inputs is not None else gen_inputs(rng, forced_format(optnames), allow_files)
    for o in optnames:
        for need in OPTIONS[o][1]:
            if need in AUX:
                files[need] = AUX[need]
    if from_file:
        files["prog.jq"] = ftext.encode()
        fpos = b"prog.jq"
    else:
        fpos = ftext.encode()
    for nm, content in infiles:
        if content is not None:
            files[nm] = content
    # positions: options before / between / after the positionals
    opts = [OPTIONS[o][0] for o in optnames if o != "--args"]
    pos = [fpos] + [nm.encode() for nm, _ in infiles]
    argv = []
    # `-f` must precede the filter argument to have its documented effect; the other options go anywhere
    slots = [[] for _ in range(len(pos) + 1)]
    for o, toks in zip([o for o in optnames if o != "--args"], opts):
        if o in ("-f", "--from-file"):
            slots[0].append(toks)
        else:
            slots[rng.randrange(0, len(slots))].append(toks)
    for i, p in enumerate(pos):
        for toks in slots[i]:
            argv += toks
        argv.append(p)
    for toks in slots[len(pos)]:
        argv += toks
    if has_args:
        argv += [b"--args"] + [rng.choice([b"p1", b"p 2", b"", b"-n", b"\xc3\xa9"]) for _ in range(rng.randrange(0, 3))]
        argv = [a for a in argv]
    return {"id": cid, "kind": kind, "argv": argv, "stdin": stdin, "files": files, "noisy": bool(noisy),
            "opts": sorted(optnames), "filter": ftext}


# ---------------------------------------------------------------- argv fuzz (Cli::parse state machine)
FUZZ_TOKENS = [b"-", b"--", b"-n", b"-nr", b"-rn", b"-cS", b"-es", b"-nL", b"-Ln", b"-L", b"lib", b"--indent", b"2",
               b"+4", b"x", b"-1", b"", b"--from", b"json", b"raw", b"bogus", b"--to", b"yaml", b"--arg", b"a", b"v",
               b"--argjson", b"[1]", b"--args", b"--foo", b"-z", b"---", b"-n-", b"\xff", b"-\xff", b"--tab",
               b"--raw-output0", b"--raw-input0", b"-j", b"-r", b"-c", b"-e", b"-s", b"-R", b"-f", b"-h", b"-V",
               b"--help", b"--version", b"--slurpfile", b"sl.json", b"--rawfile", b"rw.txt", b"a.json", b"b",
               b"--null-input", b"--exit-status", b"-ne", b"-nc", b"-jn", b"18446744073709551616", b"007",
               b"--library-path", b"--compact-output", b"--sort-keys", b"-C", b"-M", b"-i"]


def gen_fuzz(rng, cid):
    n = rng.randrange(0, 7)
    toks = [rng.choice(FUZZ_TOKENS) for _ in range(n)]
    filt = rng.choice([REVEAL, REVEAL, ".", "[., $ARGS.positional]", "$ARGS.named"]).encode()
    toks.insert(rng.randrange(0, len(toks) + 1), filt)
    if rng.random() < 0.4:
        toks.insert(rng.randrange(0, len(toks) + 1), b"--")
    # keep `--indent` values small (a huge indent is a memory question, not C17's)
    files = {"a.json": b"1 2\n", "b": b'"bb"\n', "sl.json": AUX["sl.json"], "rw.txt": AUX["rw.txt"],
             "lib/.keep": b""}
    # `-i` with input files belongs to C18: the plan marks it and the check skips it
    return {"id": cid, "kind": "argv-fuzz", "argv": toks, "stdin": b"7 8\n", "files": files, "noisy": False,
            "opts": [], "filter": filt.decode()}


def generate(seed, tier):
    rng = random.Random(seed * 7919 + 17)
    cases = []
    k = [0]

    def cid(prefix):
        k[0] += 1
        return "%s%04d" % (prefix, k[0])

    reps_single, reps_pair, n_larger, n_fuzz, n_streams = (8, 1, 250, 300, 250) if tier == "quick" else (40, 8, 3000, 3000, 2500)
    # no option at all
    for _ in range(reps_single * 2):
        cases.append(assemble(rng, cid("z"), "singles", []))
    for o in CANON:
        for _ in range(reps_single):
            cases.append(assemble(rng, cid("s"), "singles", [o]))
    # other spellings once or twice
    for o in OPTIONS:
        if o not in CANON:
            for _ in range(2 if tier == "quick" else 8):
                cases.append(assemble(rng, cid("s"), "singles", [o]))
    for i, a in enumerate(CANON):
        for b in CANON[i + 1:]:
            for _ in range(reps_pair):
                cases.append(assemble(rng, cid("p"), "pairs", [a, b]))
    names = list(OPTIONS)
    for _ in range(n_larger):
        m = rng.randrange(3, 8)
        sub = rng.sample(names, m)
        cases.append(assemble(rng, cid("l"), "larger", sub))
    for _ in range(n_fuzz):
        cases.append(gen_fuzz(rng, cid("f")))
    # input accounting: consumption-heavy filters x streams with a bad value at every position
    acct = [f for f in ATOMS if "input" in f[0]] + [(".", 0), ("., error, 3", 0), ("if . == 2 then halt(7) else ., 10 end", 0)]
    for _ in range(n_streams):
        f = rng.choice(acct)
        if rng.random() < 0.3:
            g = rng.choice(acct)
            f = ("(%s), (%s)" % (f[0], g[0]), 0)
        n = rng.randrange(0, 7)
        bad = rng.randrange(0, n + 1) if rng.random() < 0.5 else None
        opts = rng.sample(["-n", "-c", "-e", "-s", "-c"], rng.randrange(0, 3))
        if rng.random() < 0.3:
            opts.append("-e")
            if rng.random() < 0.6:
                f = rng.choice([("false, 1", 0), ("1, null", 0), ("null, true", 0), ("., false", 0), ("false, .", 0),
                                ("., input", 0), ("select(. != null)", 0)])
        opts = sorted(set(opts))
        if rng.random() < 0.5:
            inputs = (gen_json_stream(rng, n, bad), [])
        else:
            m = rng.choice([1, 2, 3])
            fl = []
            for j in range(m):
                nj = rng.randrange(0, 4)
                bj = rng.randrange(0, nj + 1) if rng.random() < 0.25 else None
                fl.append(("in%d.json" % j, gen_json_stream(rng, nj, bj)))
            inputs = (None, fl)
        cases.append(assemble(rng, cid("a"), "streams", opts, filt=f, inputs=inputs))
    return cases
