#!/usr/bin/env python3
"""C13 independent consumers (search / oracle only; run as a child process by checks/c13.py).

stdin : the case lines of `jaqverif c13 gen`  (`id \t request \t real`)
stdout: one JSON object {"counts": {...}, "failures": [...], "notes": [...]}

Every consumer is fed the REAL output of jaq and must recover exactly the original data:
  @sh    -> /bin/sh -c  (argv printed NUL-separated; inputs with NUL bytes are never given to sh)
  @csv   -> Python csv.reader          @tsv  -> a Linear-TSV reader written here
  @html  -> html.unescape              @uri  -> urllib.parse.unquote_to_bytes
  @base64-> base64.b64decode(validate) @json -> json.loads
"""
import base64
import csv
import html
import io
import json
import os
import subprocess
import sys
import urllib.parse


# ------------------------------------------------------------------ VX
def parse_vx(toks, i=0):
    t = toks[i]
    h, r = t[0], t[1:]
    if h == "N":
        return None, i + 1
    if h == "T":
        return True, i + 1
    if h == "F":
        return False, i + 1
    if h in "IG":
        return int(r), i + 1
    if h == "D":
        return ("float", r), i + 1
    if h == "L":
        return ("dec", bytes.fromhex(r)), i + 1
    if h == "S":
        return bytes.fromhex(r), i + 1
    if h == "B":
        return ("bstr", bytes.fromhex(r)), i + 1
    if h == "A":
        n = int(r)
        out = []
        i += 1
        for _ in range(n):
            v, i = parse_vx(toks, i)
            out.append(v)
        return out, i
    if h == "O":
        n = int(r)
        out = []
        i += 1
        for _ in range(n):
            k, i = parse_vx(toks, i)
            v, i = parse_vx(toks, i)
            out.append((k, v))
        return ("obj", out), i
    raise ValueError(t)


def parse_all(toks):
    vals, i = [], 0
    while i < len(toks):
        v, i = parse_vx(toks, i)
        vals.append(v)
    return vals


def scalar_text(v):
    """text of null / bool / integer as `tostring` prints it; None if v is not such a scalar"""
    if v is None:
        return b"null"
    if v is True:
        return b"true"
    if v is False:
        return b"false"
    if isinstance(v, int):
        return str(v).encode()
    if isinstance(v, tuple) and v[0] == "dec":
        return v[1]
    return None


def word_of(v):
    if isinstance(v, bytes):
        return v
    return scalar_text(v)


def field_text(v):
    if v is None:
        return b""
    if isinstance(v, bytes):
        return v
    return scalar_text(v)


# ------------------------------------------------------------------ sh
SH = "/bin/sh"
PRELUDE = b"p() { printf '%s\\0' \"$#\" \"$@\"; }\n"


def run_sh(cmds):
    """cmds: list of bytes command lines (`p <jaq output>`); returns list of argv lists or None"""
    script = PRELUDE + b"\n".join(cmds) + b"\n"
    try:
        p = subprocess.run([SH, "-c", script], stdin=subprocess.DEVNULL, stdout=subprocess.PIPE, stderr=subprocess.PIPE,
                           timeout=30, env={"PATH": "/nonexistent", "LC_ALL": "C"}, cwd="/")
    except subprocess.TimeoutExpired:
        return None
    if p.returncode != 0:
        return None
    parts = p.stdout.split(b"\0")
    if parts and parts[-1] == b"":
        parts.pop()
    out, i = [], 0
    try:
        while i < len(parts):
            n = int(parts[i])
            out.append(parts[i + 1:i + 1 + n])
            i += 1 + n
    except ValueError:
        return None
    return out


def check_sh(cases, failures, counts, max_single=40):
    """cases: (id, request, cmdline bytes, expected argv).  Batches of commands go through one
    `sh -c`; a batch that does not come back as expected is bisected (bounded number of extra
    shell runs) to name concrete failing cases; further bad batches are only counted."""
    todo = [c for c in cases if b"\0" not in c[2]]
    counts["sh_skipped_nul"] = len(cases) - len(todo)
    budget = [max_single]

    def ok(batch):
        res = run_sh([b"p " + c[2] for c in batch])
        return res is not None and len(res) == len(batch) and all(r == c[3] for r, c in zip(res, batch)), res

    def locate(batch):
        # bisect to one failing case
        while len(batch) > 1 and budget[0] > 0:
            budget[0] -= 1
            half = batch[:len(batch) // 2]
            good, _ = ok(half)
            batch = batch[len(batch) // 2:] if good else half
        return batch[0]

    B = 400
    bad_batches = 0
    for k in range(0, len(todo), B):
        batch = todo[k:k + B]
        counts["sh"] = counts.get("sh", 0) + len(batch)
        good, _ = ok(batch)
        if good:
            continue
        bad_batches += 1
        if budget[0] <= 0:
            continue
        c = locate(batch)
        _, r = ok([c])
        failures.append({"oracle": "sh", "id": c[0], "request": c[1], "jaq_output_hex": c[2].hex(),
                         "expected_argv_hex": [w.hex() for w in c[3]],
                         "sh_argv_hex": None if r is None else [[w.hex() for w in a] for a in r]})
    counts["sh_bad_batches"] = bad_batches


# ------------------------------------------------------------------ tsv
def tsv_read(line):
    out = []
    for f in line.split(b"\t"):
        r, i = bytearray(), 0
        while i < len(f):
            if f[i] == 0x5C and i + 1 < len(f) and f[i + 1:i + 2] in (b"t", b"n", b"r", b"\\", b"0"):
                r.append({b"t": 9, b"n": 10, b"r": 13, b"\\": 0x5C, b"0": 0}[f[i + 1:i + 2]])
                i += 2
            else:
                r.append(f[i])
                i += 1
        out.append(bytes(r))
    return out


def main():
    failures, notes, counts = [], [], {}
    sh_cases = []
    for line in sys.stdin:
        p = line.rstrip("\n").split("\t")
        if len(p) != 3 or not p[2].startswith("V S"):
            continue
        cid, req, real = p
        out = bytes.fromhex(real[3:])
        toks = req.split(" ")
        try:
            if toks[0] == "c13.f":
                op = toks[1]
                args = parse_all(toks[2:])
                v = args[0]
            elif toks[0] == "c13.fmt":
                op = "fmt." + toks[1]
                args = parse_all(toks[2:])
            else:
                continue
        except (ValueError, IndexError):
            continue

        def fail(oracle, **kw):
            failures.append(dict(oracle=oracle, id=cid, request=req, jaq_output_hex=out.hex(), **kw))

        if op == "sh":
            items = v if isinstance(v, list) else [v]
            words = [word_of(x) for x in items]
            if all(w is not None for w in words) and not any(b"\0" in w for w in words):
                sh_cases.append((cid, req, out, words))
        elif op == "fmt.sh":
            l0, v0, l1, v1, l2 = args
            if (l0, l1, l2) == (b"echo ", b" ", b""):
                ws = []
                for x in (v0, v1):
                    ws += [word_of(y) for y in (x if isinstance(x, list) else [x])]
                if all(w is not None for w in ws) and not any(b"\0" in w for w in ws):
                    sh_cases.append((cid, req, out, [b"echo"] + ws))
        elif op == "csv" and isinstance(v, list):
            exp = [field_text(x) for x in v]
            if any(e is None for e in exp):
                continue
            counts["csv"] = counts.get("csv", 0) + 1
            try:
                rows = list(csv.reader(io.StringIO(out.decode("latin-1"), newline="")))
            except csv.Error as e:
                fail("csv", error=str(e))
                continue
            got = [[f.encode("latin-1") for f in r] for r in rows]
            if out == b"":
                ok = got == [] and (v == [] or v == [None])
            else:
                ok = got == [exp]
            if not ok:
                fail("csv", expected=[e.hex() for e in exp], got=[[f.hex() for f in r] for r in got])
        elif op == "tsv" and isinstance(v, list):
            exp = [field_text(x) for x in v]
            if any(e is None for e in exp):
                continue
            counts["tsv"] = counts.get("tsv", 0) + 1
            if b"\n" in out:
                fail("tsv", error="a record contains a raw line feed")
                continue
            got = tsv_read(out)
            if not (got == exp or (exp == [] and got == [b""])):
                fail("tsv", expected=[e.hex() for e in exp], got=[f.hex() for f in got])
        elif op == "html" and isinstance(v, bytes):
            counts["html"] = counts.get("html", 0) + 1
            back = html.unescape(out.decode("latin-1")).encode("latin-1", "replace")
            if back != v or any(c in out for c in b"<>\"'"):
                fail("html", expected=v.hex(), got=back.hex())
        elif op == "uri" and isinstance(v, bytes):
            counts["uri"] = counts.get("uri", 0) + 1
            back = urllib.parse.unquote_to_bytes(out)
            unres = set(b"ABCDEFGHIJKLMNOPQRSTUVWXYZabcdefghijklmnopqrstuvwxyz0123456789-._~%")
            if back != v or any(c not in unres for c in out):
                fail("uri", expected=v.hex(), got=back.hex())
        elif op == "urid" and isinstance(v, bytes):
            counts["urid_vs_python"] = counts.get("urid_vs_python", 0) + 1
            if urllib.parse.unquote_to_bytes(v) != out:
                fail("urid", expected=urllib.parse.unquote_to_bytes(v).hex(), got=out.hex())
        elif op == "base64" and isinstance(v, bytes):
            counts["base64"] = counts.get("base64", 0) + 1
            try:
                back = base64.b64decode(out, validate=True)
            except Exception as e:  # binascii.Error
                fail("base64", error=str(e))
                continue
            if back != v or base64.b64encode(v) != out:
                fail("base64", expected=v.hex(), got=back.hex())
        elif op == "base64d" and isinstance(v, bytes):
            # jaq accepted `v`: an independent decoder must accept it too and give the same bytes,
            # and `v` must be THE encoding of the result (nothing ignored, nothing truncated)
            counts["base64d_accepted"] = counts.get("base64d_accepted", 0) + 1
            try:
                back = base64.b64decode(v, validate=True)
            except Exception as e:
                fail("base64d", error="python rejects what jaq accepts: " + str(e))
                continue
            if back != out or base64.b64encode(out) != v:
                fail("base64d", expected=back.hex(), got=out.hex())
        elif op == "json" and isinstance(v, bytes):
            try:
                sv = v.decode("utf-8")
            except UnicodeDecodeError:
                continue
            counts["json"] = counts.get("json", 0) + 1
            try:
                back = json.loads(out.decode("utf-8"))
            except Exception as e:
                fail("json", error=str(e))
                continue
            if back != sv:
                fail("json", expected=v.hex())
    if os.path.exists(SH):
        check_sh(sh_cases, failures, counts)
    else:
        notes.append("/bin/sh not found: @sh oracle skipped")
    json.dump({"counts": counts, "failures": failures[:200], "n_failures": len(failures), "notes": notes}, sys.stdout)


if __name__ == "__main__":
    main()
