"""C05: running the sweep workers of the harness as killable child processes.

A worker (`jaqverif c05 <sub> --shard i/n --start k --progress f …`) runs the cases `idx >= k`
with `idx % n == i`.  It ends with
  * exit 0 and a `DONE` line                       — shard finished,
  * exit 98 after a `T <idx>` line                 — its watchdog saw case idx exceed the time budget,
  * a signal / other status                         — the process died in the case recorded in the progress file
    (stack overflow and memory exhaustion are excepted by the property; anything else is a violation).
In the last two cases the shard is resumed at idx+1.
"""
import os
import resource
import subprocess
import threading
import time
from concurrent.futures import ThreadPoolExecutor


def _limits(mem_bytes):
    def f():
        resource.setrlimit(resource.RLIMIT_AS, (mem_bytes, mem_bytes))
        resource.setrlimit(resource.RLIMIT_CORE, (0, 0))
    return f


class ShardResult:
    def __init__(self):
        self.lines = []       # all protocol lines except T
        self.timeouts = []    # case indices
        self.deaths = []      # (idx, cls, returncode, stderr tail)
        self.restarts = 0
        self.incomplete = None
        self.abandoned = []   # (target text, idx, resumed at)


def classify_death(rc, err):
    e = err or ""
    if "has overflowed its stack" in e or "stack overflow" in e:
        return "stack-overflow"
    if "memory allocation of" in e or "out of memory" in e.lower() or "capacity overflow" in e:
        return "out-of-memory"
    if rc in (-11, 139) and not e.strip():
        # SIGSEGV without a message: guard page hit on a thread without handler (stack exhaustion)
        return "segv"
    return "abort"


def run_shard(bin_path, sub, shard, nshards, extra, tmpdir, env, mem_bytes, per_run_timeout, max_restarts=400,
              deadline=None, max_trouble=3, progress_every=1):
    res = ShardResult()
    start = 0
    prog = os.path.join(tmpdir, "%s-%d.progress" % (sub, shard))
    groups = {}     # (lo, hi) -> text : case ranges that belong to one target (announced by `G` lines)
    trouble = {}    # (lo, hi) -> number of timeouts/deaths in that range

    def bump(idx):
        """next start after a timeout/death at idx; a target that keeps failing is abandoned for this shard"""
        for (lo, hi), text in groups.items():
            if lo <= idx < hi:
                trouble[(lo, hi)] = trouble.get((lo, hi), 0) + 1
                if trouble[(lo, hi)] >= max_trouble:
                    res.abandoned.append((text, idx, hi))
                    return hi
        return idx + 1

    while True:
        if deadline is not None and time.time() > deadline:
            res.incomplete = "deadline reached at start=%d" % start
            return res
        try:
            os.remove(prog)
        except OSError:
            pass
        cmd = [bin_path, "c05", sub, "--shard", "%d/%d" % (shard, nshards), "--start", str(start), "--progress", prog,
               "--progress-every", str(progress_every)] + extra
        try:
            p = subprocess.run(cmd, stdout=subprocess.PIPE, stderr=subprocess.PIPE, env=env, timeout=per_run_timeout,
                               preexec_fn=_limits(mem_bytes))
            rc, out, err = p.returncode, p.stdout, p.stderr
        except subprocess.TimeoutExpired as e:
            rc, out, err = -999, e.stdout or b"", e.stderr or b""
        out = out.decode("utf-8", "replace")
        err = err.decode("utf-8", "replace")
        tline = None
        done = False
        for l in out.split("\n"):
            if not l:
                continue
            if l.startswith("G "):
                g = l.split(" ", 3)
                groups[(int(g[1]), int(g[2]))] = g[3] if len(g) > 3 else ""
            elif l.startswith("T "):
                tline = int(l[2:].split("\t")[0])
            elif l.startswith("DONE"):
                done = True
                res.lines.append(l)
            else:
                res.lines.append(l)
        if rc == 0 and done:
            return res
        res.restarts += 1
        if rc == 98 and tline is not None:
            res.timeouts.append(tline)
            start = bump(tline)
        else:
            try:
                idx = int(open(prog).read().strip() or "-1")
            except (OSError, ValueError):
                idx = -1
            if idx < start:
                res.incomplete = "worker died before its first case (rc=%s): %s" % (rc, err[-400:])
                return res
            cls = "wall-timeout" if rc == -999 else classify_death(rc, err)
            if progress_every > 1 and rc != -999:
                # the progress file only names the batch: run the batch again, announcing every case
                end = idx + progress_every * nshards
                cmd2 = [bin_path, "c05", sub, "--shard", "%d/%d" % (shard, nshards), "--start", str(idx), "--end", str(end),
                        "--progress", prog] + [a for a in extra]
                try:
                    os.remove(prog)
                except OSError:
                    pass
                try:
                    p2 = subprocess.run(cmd2, stdout=subprocess.PIPE, stderr=subprocess.PIPE, env=env, timeout=per_run_timeout,
                                        preexec_fn=_limits(mem_bytes))
                    rc2, err2 = p2.returncode, p2.stderr.decode("utf-8", "replace")
                except subprocess.TimeoutExpired:
                    rc2, err2 = -999, ""
                if rc2 not in (0, 98):
                    try:
                        idx = int(open(prog).read().strip() or idx)
                    except (OSError, ValueError):
                        pass
                    cls, rc, err = ("wall-timeout" if rc2 == -999 else classify_death(rc2, err2)), rc2, err2
                else:
                    cls = cls + "-not-reproduced"
                    idx = end - 1
            res.deaths.append((idx, cls, rc, err[-600:]))
            start = bump(idx)
        if res.restarts > max_restarts:
            res.incomplete = "too many restarts (%d), stopped at %d" % (res.restarts, start)
            return res


def run_workers(ctx, sub, nshards, extra, tmpdir, mem_gb=3, per_run_timeout=3000, deadline=None, progress_every=1):
    env = dict(os.environ)
    env.update({"VERIF_SEED": str(ctx.seed), "VERIF_TIER": ctx.tier})
    results = [None] * nshards

    def one(i):
        results[i] = run_shard(ctx.harness_bin, sub, i, nshards, extra, tmpdir, env, mem_gb << 30, per_run_timeout,
                               deadline=deadline, progress_every=progress_every)

    with ThreadPoolExecutor(max_workers=min(nshards, 16)) as ex:
        list(ex.map(one, range(nshards)))
    return results
