"""C18: scenarios for `jaq --in-place`, their execution under strace (clean, with an injected
failing call, or killed before the n-th call) and the assertions made afterwards.

A scenario is plain data (JSON-serialisable) so that a replay file reproduces it exactly.
"""
import json
import os
import shutil
import stat
import subprocess
import tempfile

import c18_trace as T

# --------------------------------------------------------------------------- scenario families
# Each family: opts, filter, ok(i) -> content, bad(i, k) -> content failing at position k (or None),
# kind of failure, whether a `halt` may end the run with status 0.

def _j(v, indent=None):
    return (json.dumps(v, indent=indent) + "\n").encode()


def _ints(i, n=4):
    return [10 * i + x for x in range(n)]


def _with(lst, k, v):
    lst = list(lst)
    lst.insert(min(k, len(lst)), v)
    return lst


FAMILIES = {
    # output larger than the input (pretty printing, two outputs per input)
    "grow": dict(opts=[], filter=". , .", ok=lambda i: _j({"a": _ints(i), "b": "xy"}), bad=None),
    # output smaller than the input
    "shrink": dict(opts=["-c"], filter=".a | length", ok=lambda i: _j({"a": _ints(i, 12), "pad": " " * 40}, indent=4),
                   bad=None),
    # filter error after k outputs
    "ferr": dict(opts=["-c"], filter='.[] | if . == "x" then error else . end', ok=lambda i: _j(_ints(i, 5)),
                 bad=lambda i, k: _j(_with(_ints(i, 5), k, "x")), fault="filter"),
    # filter error on input value k (one input value per line), several outputs per value
    "ferr2": dict(opts=[], filter='if . == "x" then (1, error) else (., [.]) end',
                  ok=lambda i: b"".join(_j(v) for v in _ints(i, 3)),
                  bad=lambda i, k: b"".join(_j(v) for v in _with(_ints(i, 3), k, "x")), fault="filter"),
    # invalid JSON at value k
    "perr": dict(opts=["-c"], filter=".", ok=lambda i: b" ".join(str(v).encode() for v in _ints(i)) + b"\n",
                 bad=lambda i, k: b" ".join(_with([str(v).encode() for v in _ints(i)], k, b"]")) + b"\n", fault="parse"),
    # truncated input (parse error at the end of the file)
    "trunc": dict(opts=[], filter=".", ok=lambda i: _j({"k": _ints(i)}),
                  bad=lambda i, k: _j(1) * k + _j({"k": _ints(i)})[:-4], fault="parse"),
    # halt / halt_error end the run (status 0 for halt)
    "halt": dict(opts=["-c"], filter='.[] | if . == "h" then halt else . end', ok=lambda i: _j(_ints(i)),
                 bad=lambda i, k: _j(_with(_ints(i), k, "h")), fault="filter", may_halt=True),
    "halterr": dict(opts=["-c"], filter='.[] | if . == "h" then ("bye\\n" | halt_error(3)) else . end', ok=lambda i: _j(_ints(i)),
                    bad=lambda i, k: _j(_with(_ints(i), k, "h")), fault="filter"),
    # the writer refuses a value (write failure that is not a system call failure)
    "tomlerr": dict(opts=["--to", "toml"], filter=".", ok=lambda i: _j({"a": i}) + _j({"b": {"c": i}}),
                    bad=lambda i, k: b"".join(_with([_j({"a": i}), _j({"b": i})], k, _j([1]))), fault="write"),
    "raw0err": dict(opts=["--raw-output0"], filter=".[]", ok=lambda i: _j(["a%d" % i, "b"]),
                    bad=lambda i, k: _j(_with(["a%d" % i, "b"], k, "n\0n")), fault="write"),
    # input consumed by the filter itself
    "ninput": dict(opts=["-n", "-c"], filter="[inputs] | length, .", ok=lambda i: b"\n".join(_j(v) for v in _ints(i)),
                   bad=lambda i, k: b"".join(_with([_j(v) for v in _ints(i)], k, b"}\n")), fault="parse"),
    "slurp": dict(opts=["-s", "-c"], filter=".", ok=lambda i: b"".join(_j(v) for v in _ints(i)),
                  bad=lambda i, k: b"".join(_with([_j(v) for v in _ints(i)], k, b"}\n")), fault="parse"),
    "yaml": dict(opts=["--to", "yaml"], filter=".", ok=lambda i: _j({"a": _ints(i), "s": "x: y"}), bad=None),
    "rawjoin": dict(opts=["-j"], filter=".[]", ok=lambda i: _j(["l%d" % i, "m", 3]), bad=None),
    "sortkeys": dict(opts=["-S", "--tab"], filter=".", ok=lambda i: _j({"z": i, "a": [i, {"y": 1, "b": 2}]}), bad=None),
    # no output at all: the file becomes empty
    "emptyout": dict(opts=[], filter="empty", ok=lambda i: _j(_ints(i)), bad=None),
    # empty input file (mmap fails, load_file falls back to read): no value, no output
    "emptyin": dict(opts=[], filter=".", ok=lambda i: b"", bad=None),
    # forced colours end up in the file (manual, "Advanced")
    "color": dict(opts=["-C", "-c"], filter=".", ok=lambda i: _j([i, "s", None]), bad=None),
    # many write calls
    "big": dict(opts=[], filter=".", ok=lambda i: _j(list(range(60 + i))), bad=lambda i, k: _j(list(range(60)))[:-3], fault="parse"),
    "update": dict(opts=["-c"], filter='.a[1:3] |= map(. * 2) | .n = (.a | add)', ok=lambda i: _j({"a": _ints(i, 5)}),
                   bad=lambda i, k: _j({"a": _with(_ints(i, 5), k, "s")}), fault="filter"),
}

MODES = [0o644, 0o444, 0o600, 0o755, 0o400, 0o664]
STYLES = ["rel", "abs", "dot", "sub", "updown", "abssub"]
NAMES = ["a.json", "b c.json", "\u00fc-\u4e2d.json"]   # blank and non-ASCII characters in names


def make(family, nfiles, fail, k, style, modes, sid=None):
    """fail: index of the failing file or None; k: error position"""
    f = FAMILIES[family]
    files = []
    for i in range(nfiles):
        bad = fail is not None and i == fail
        content = f["bad"](i, k) if bad else f["ok"](i)
        rel = NAMES[i]
        if style in ("sub", "abssub") and i != 1:
            rel = "sub/" + rel          # files in different directories: the temp file must follow
        files.append({"rel": rel, "content": content.hex(), "mode": modes[i % len(modes)]})
    return {
        "id": sid or "%s-n%d-f%s-k%d-%s-%o" % (family, nfiles, "x" if fail is None else fail, k, style, modes[0]),
        "family": family, "opts": f["opts"], "filter": f["filter"], "files": files, "style": style,
        "fail": fail, "k": k, "fault": f.get("fault") if fail is not None else None,
        "may_halt": bool(f.get("may_halt")),
    }


def arg_path(sc, root, rel):
    st = sc["style"]
    if st in ("abs", "abssub"):
        return os.path.join(root, rel)
    if st == "dot":
        return "./" + rel
    if st == "updown":
        return "x/../" + rel
    return rel


def setup(sc, root):
    os.makedirs(os.path.join(root, "x"), exist_ok=True)
    for f in sc["files"]:
        p = os.path.join(root, f["rel"])
        os.makedirs(os.path.dirname(p), exist_ok=True)
        with open(p, "wb") as h:
            h.write(bytes.fromhex(f["content"]))
        os.chmod(p, f["mode"])


def snapshot(root):
    """{absolute path: (bytes, mode)} of every regular file below root"""
    out = {}
    for d, _, names in os.walk(root):
        for n in names:
            p = os.path.join(d, n)
            st = os.lstat(p)
            if stat.S_ISREG(st.st_mode):
                with open(p, "rb") as h:
                    out[p] = (h.read(), stat.S_IMODE(st.st_mode))
    return out


def clean_env():
    e = {k: v for k, v in os.environ.items() if k not in ("JQ_COLORS", "NO_COLOR", "LOG")}
    e["LC_ALL"] = "C"
    return e


def stdout_runs(jaq, sc, root):
    """The same invocation without --in-place, file by file: [(rc, stdout)]"""
    res = []
    for f in sc["files"]:
        p = subprocess.run([jaq] + sc["opts"] + [sc["filter"], arg_path(sc, root, f["rel"])], cwd=root,
                           stdin=subprocess.DEVNULL, stdout=subprocess.PIPE, stderr=subprocess.PIPE, timeout=300,
                           env=clean_env())
        res.append((p.returncode, p.stdout))
    return res


class Run:
    pass


def run_inplace(jaq, sc, root, inject=None):
    argv = [jaq, "-i"] + sc["opts"] + [sc["filter"]] + [arg_path(sc, root, f["rel"]) for f in sc["files"]]
    r = Run()
    r.argv = argv
    r.rc, r.stdout, r.stderr, text = T.run_strace(argv, root, inject=inject, env=clean_env())
    r.calls, r.end = T.parse_trace(text)
    r.targets = [os.path.join(root, f["rel"]) for f in sc["files"]]
    r.tr = T.translate(r.calls, root, root, set(r.targets))
    return r


def with_root(fn):
    """Run fn(root) in a fresh directory below the system temp directory; always removed."""
    root = os.path.realpath(tempfile.mkdtemp(prefix="c18-"))
    try:
        return fn(root)
    finally:
        for d, _, _ in os.walk(root):
            try:
                os.chmod(d, 0o700)
            except OSError:
                pass
        shutil.rmtree(root, ignore_errors=True)


# --------------------------------------------------------------------------- model requests

def fs_tokens(snap):
    return ["F,%s,%s,%d" % (T.hexpath(p), c.hex(), m) for p, (c, m) in sorted(snap.items())]


def trace_request(kind, fs0, ops, queries):
    ft = fs_tokens(fs0)
    return " ".join(["c18.trace", kind, str(len(ft))] + ft + [str(len(ops))] + ops +
                    [str(len(queries))] + [T.hexpath(q) for q in queries])


def parse_trace_answer(ans, queries):
    """-> dict(acc, rej, phase, v, jobs=[(path, tmp, mode, fault, output)], state={path: (bytes, mode)|None})"""
    toks = ans.split(" ")
    if len(toks) < 5 or not toks[0].startswith("A"):
        return None
    d = {"acc": toks[0] == "A1", "rej": toks[1][1:], "phase": toks[2][1:], "v": toks[3][1:], "jobs": [], "state": {}}
    n = int(toks[4])
    for t in toks[5:5 + n]:
        x = t.split(",")
        d["jobs"].append({"path": x[1], "tmp": x[2], "mode": int(x[3]), "fault": x[4],
                          "output": b"" if x[5] == "e" else bytes.fromhex(x[5])})
    rest = toks[5 + n:]
    if not rest or rest[0] != "|":
        return None
    st = rest[1:]
    if len(st) != len(queries):
        return None
    for q, s in zip(queries, st):
        if s == "-":
            d["state"][q] = None
        else:
            c, m = s.split(",")
            d["state"][q] = (bytes.fromhex(c), int(m))
    return d


# --------------------------------------------------------------------------- assertions

def describe_state(v):
    if v is None:
        return "absent"
    c, m = v
    return "%o:%s" % (m, c[:60].hex() + ("…(%d bytes)" % len(c) if len(c) > 60 else ""))


def property_problems(sc, root, fs0, fs1, run, outs, completed, injected_after_rename_ok=False):
    """The property itself, stated on the real run alone (no model involved).
    outs: [(rc, stdout)] of the same invocation without --in-place, file by file.
    Returns a list of (key, message)."""
    probs = []
    renamed = {dst for _, dst in run.tr.renames}
    first_untouched = None
    for i, t in enumerate(run.targets):
        orig = fs0[t]
        now = fs1.get(t)
        rc_i, out_i = outs[i]
        if t in renamed:
            if rc_i != 0 or sc["may_halt"] and i == sc["fail"]:
                probs.append(("replaced-after-error", "file %d was replaced although the run on it ends with an error (status %d without -i)" % (i, rc_i)))
            if now is None or now[0] != out_i:
                probs.append(("replaced-with-incomplete-output", "file %d was renamed over but holds %s instead of the complete output %s"
                              % (i, describe_state(now), out_i[:60].hex())))
            if first_untouched is not None:
                probs.append(("order", "file %d was replaced although the earlier file %d was not" % (i, first_untouched)))
        else:
            if now is None or now != orig:
                probs.append(("original-lost", "file %d was not renamed over but holds %s instead of its original %s"
                              % (i, describe_state(now), describe_state(orig))))
            if first_untouched is None:
                first_untouched = i
    if completed:
        extra = sorted(set(fs1) - set(fs0))
        if extra:
            probs.append(("temp-left", "files left behind on completion: %s" % [os.path.relpath(e, root) for e in extra]))
        if run.rc == 0 and not sc["may_halt"]:
            for i, t in enumerate(run.targets):
                if t not in renamed:
                    probs.append(("not-replaced", "status 0 but file %d was not replaced" % i))
                elif fs1.get(t) is not None and fs1[t][1] != fs0[t][1]:
                    probs.append(("mode-changed", "file %d: permission bits %o became %o" % (i, fs0[t][1], fs1[t][1])))
    return probs
