"""Independent readers of what jaq writes (C14, search only): Python tomllib, csv, xml.dom.minidom.

Each function gets the value (decoded VX tuples, see c14_vx) and the bytes jaq wrote and returns
None when the independent reader agrees, else a short description of the disagreement.
"""
import csv
import io
import math
import struct

try:
    import tomllib
except ImportError:  # pragma: no cover
    tomllib = None


def _f64(bits):
    return struct.unpack(">d", bits.to_bytes(8, "big"))[0]


def _toml_eq(v, t):
    h = v[0]
    if h == "T":
        return t is True
    if h == "F":
        return t is False
    if h in "IG":
        return isinstance(t, int) and not isinstance(t, bool) and t == v[1]
    if h == "D":
        f = _f64(v[1])
        if not isinstance(t, float):
            return False
        return (math.isnan(f) and math.isnan(t)) or f == t
    if h == "L":
        try:
            f = float(v[1])
        except ValueError:
            return False
        return isinstance(t, (int, float)) and float(t) == f
    if h == "S":
        try:
            return isinstance(t, str) and t == v[1].decode("utf8")
        except UnicodeDecodeError:
            return True  # lossy conversion is documented
    if h == "A":
        return isinstance(t, list) and len(t) == len(v[1]) and all(_toml_eq(a, b) for a, b in zip(v[1], t))
    if h == "O":
        if not isinstance(t, dict) or len(t) != len(v[1]):
            return False
        for k, x in v[1]:
            if k[0] != "S":
                return False
            try:
                ks = k[1].decode("utf8")
            except UnicodeDecodeError:
                return True
            if ks not in t or not _toml_eq(x, t[ks]):
                return False
        return True
    return False


def toml_oracle(v, written):
    if tomllib is None:
        return None
    try:
        text = written.decode("utf8")
    except UnicodeDecodeError:
        return "output is not UTF-8"
    try:
        t = tomllib.loads(text)
    except Exception as e:  # tomllib.TOMLDecodeError, ValueError
        return "tomllib rejects jaq's output: %s" % str(e)[:80]
    return None if _toml_eq(v, t) else "tomllib reads a different value"


def csv_oracle(v, written):
    """`v` is a row of scalars; Python's csv module must see the same field texts."""
    if v[0] != "A":
        return None
    want = []
    for x in v[1]:
        h = x[0]
        if h == "N":
            want.append("")
        elif h == "T":
            want.append("true")
        elif h == "F":
            want.append("false")
        elif h in "IG":
            want.append(str(x[1]))
        elif h == "L":
            want.append(x[1])
        elif h == "S":
            try:
                s = x[1].decode("utf8")
            except UnicodeDecodeError:
                return None
            if "\x00" in s or "\r" in s:
                return None  # csv module limitations (NUL, universal newlines), not jaq's
            want.append(s)
        else:
            return None  # floats: text is ryu's
    try:
        text = written.decode("utf8")
    except UnicodeDecodeError:
        return None
    rows = list(csv.reader(io.StringIO(text, newline=""), strict=True))
    got = rows[0] if rows else []
    if len(rows) > 1:
        return "csv module sees %d rows" % len(rows)
    if got != want and not (want == [""] and got == []):
        return "csv module reads %r, expected %r" % (got[:4], want[:4])
    return None


def xml_oracle(written):
    """well-formedness (expat, no namespace processing, no external entities) of a document with a
    single root element; None = well-formed"""
    import xml.parsers.expat as expat
    try:
        p = expat.ParserCreate()
        p.Parse(written, True)
    except Exception as e:
        return "expat rejects the document: %s" % str(e)[:80]
    return None
