"""VX decoding and small helpers for the C14 check (values as nested tuples)."""


def parse_vx(text):
    toks = text.split(" ")
    v, rest = _parse(toks, 0)
    if rest != len(toks):
        raise ValueError("trailing VX tokens: " + text[:80])
    return v


def _parse(toks, i):
    t = toks[i]
    h, r = t[0], t[1:]
    if h in "NTF" and not r:
        return (h,), i + 1
    if h in "IG":
        return (h, int(r)), i + 1
    if h == "D":
        return ("D", int(r, 16)), i + 1
    if h == "L":
        return ("L", bytes.fromhex(r).decode("ascii", "replace")), i + 1
    if h in "SB":
        return (h, bytes.fromhex(r)), i + 1
    if h == "A":
        n = int(r)
        i += 1
        out = []
        for _ in range(n):
            v, i = _parse(toks, i)
            out.append(v)
        return ("A", out), i
    if h == "O":
        n = int(r)
        i += 1
        out = []
        for _ in range(n):
            k, i = _parse(toks, i)
            v, i = _parse(toks, i)
            out.append((k, v))
        return ("O", out), i
    raise ValueError("bad VX token " + t)


def leaves(v, keys=True):
    """all scalar leaves (object keys included)"""
    if v[0] == "A":
        for x in v[1]:
            yield from leaves(x, keys)
    elif v[0] == "O":
        for k, x in v[1]:
            if keys:
                yield from leaves(k, keys)
            yield from leaves(x, keys)
    else:
        yield v


def obj_keys(v):
    if v[0] == "A":
        for x in v[1]:
            yield from obj_keys(x)
    elif v[0] == "O":
        for k, x in v[1]:
            yield k
            yield from obj_keys(k)
            yield from obj_keys(x)


def hexarg(b):
    return b.hex() if b else "-"


def show(v, limit=120):
    """readable rendering for reports"""
    def go(v):
        h = v[0]
        if h == "N":
            return "null"
        if h == "T":
            return "true"
        if h == "F":
            return "false"
        if h in "IG":
            return str(v[1]) + ("n" if h == "G" else "")
        if h == "D":
            import struct
            return repr(struct.unpack(">d", v[1].to_bytes(8, "big"))[0])
        if h == "L":
            return v[1]
        if h == "S":
            return repr(v[1].decode("utf8", "backslashreplace")).replace("'", '"')
        if h == "B":
            return "b" + repr(v[1])[1:]
        if h == "A":
            return "[" + ",".join(go(x) for x in v[1]) + "]"
        if h == "O":
            return "{" + ",".join(go(k) + ":" + go(x) for k, x in v[1]) + "}"
        return "?"
    s = go(v)
    return s if len(s) <= limit else s[:limit] + "…"
