"""C07: independent generator of RFC 8259 texts (search/oracle only).

Every text is spelled from a random abstract value with random choices of white space, escapes
(literal / short / \\uXXXX with either hex case / surrogate pairs), number spellings (sign, leading
digit rules, fraction, exponent with e/E and sign), and duplicate object keys.  Python's `json`
module is the independent reader: `expected_vx(text)` is what it assigns to the text, rendered in
the VX encoding of the harness (integer literals exact at any size, non-integer literals as the
literal text, strings as UTF-8, objects in first-insertion order with the last value winning)."""
import json
import random
import struct

WS = [" ", "\t", "\r", "\n"]
SHORT = {'"': '\\"', "\\": "\\\\", "/": "\\/", "\b": "\\b", "\f": "\\f", "\n": "\\n", "\r": "\\r", "\t": "\\t"}
CHARS = ['"', "\\", "/", "\b", "\f", "\n", "\r", "\t", "\x00", "\x1f", " ", "a", "u", "x", "b", "\x7f", "\x80", "é", "߿", "ࠀ", "€",
         "퟿", "", "￿", "\U00010000", "😀", "\U0010ffff", "0", "A"]


def ws(r):
    return "".join(r.choice(WS) for _ in range(r.choice([0, 0, 0, 1, 1, 2, 5])))


def hex4(r, n):
    h = "%04x" % n
    return "".join(c.upper() if r.random() < 0.5 else c for c in h)


def spell_char(r, c):
    o = ord(c)
    choices = []
    if o >= 0x20 and c not in '"\\':
        choices.append(c)
    if c in SHORT:
        choices.append(SHORT[c])
    if o < 0x10000:
        choices.append("\\u" + hex4(r, o))
    else:
        v = o - 0x10000
        choices.append("\\u" + hex4(r, 0xD800 + (v >> 10)) + "\\u" + hex4(r, 0xDC00 + (v & 0x3FF)))
    return r.choice(choices)


def rand_string(r):
    n = r.choice([0, 1, 1, 2, 3, 6])
    return "".join(r.choice(CHARS) if r.random() < 0.7 else chr(r.choice([r.randrange(0x20, 0x7f), r.randrange(0xa0, 0xd800), r.randrange(0xe000, 0x110000)])) for _ in range(n))


def spell_string(r, s):
    return '"' + "".join(spell_char(r, c) for c in s) + '"'


def spell_number(r):
    neg = "-" if r.random() < 0.4 else ""
    k = r.random()
    if k < 0.25:
        ip = "0"
    elif k < 0.5:
        ip = str(r.randrange(1, 1000))
    elif k < 0.75:
        ip = r.choice(["9223372036854775807", "9223372036854775808", "9223372036854775809", "18446744073709551616",
                       "123456789012345678901234567890", "9007199254740993", "4294967296", "1000000000000000000000"])
    else:
        ip = str(r.randrange(1, 10)) + "".join(str(r.randrange(10)) for _ in range(r.randrange(0, 40)))
    frac = ""
    if r.random() < 0.4:
        frac = "." + "".join(str(r.randrange(10)) for _ in range(r.choice([1, 1, 2, 3, 17, 30])))
    exp = ""
    if r.random() < 0.35:
        exp = r.choice("eE") + r.choice(["", "+", "-"]) + r.choice(["0", "1", "2", "7", "00", "05", "10", "22", "23", "300", "308", "309", "324", "400", "1000"])
    return neg + ip + frac + exp


def gen_value(r, depth):
    """returns the text of one value"""
    k = r.randrange(9 if depth > 0 else 6)
    if k == 0:
        return r.choice(["null", "true", "false"])
    if k in (1, 2):
        return spell_number(r)
    if k in (3, 4, 5):
        return spell_string(r, rand_string(r))
    if k in (6, 7) and k == 6:
        n = r.choice([0, 1, 2, 3])
        items = [ws(r) + gen_value(r, depth - 1) + ws(r) for _ in range(n)]
        return "[" + (",".join(items) if n else ws(r)) + "]"
    n = r.choice([0, 1, 2, 3, 4])
    keys = [rand_string(r) for _ in range(n)]
    if n >= 2 and r.random() < 0.5:
        keys[r.randrange(1, n)] = keys[0]          # duplicate key
    items = [ws(r) + spell_string(r, k_) + ws(r) + ":" + ws(r) + gen_value(r, depth - 1) + ws(r) for k_ in keys]
    return "{" + (",".join(items) if n else ws(r)) + "}"


def gen_text(r):
    return ws(r) + gen_value(r, 3) + ws(r)


class Lit(str):
    """a non-integer number literal as the independent reader tokenised it"""


def hexs(b):
    return b.hex()


def to_vx(v, calc):
    """VX of what Python's json assigned; `calc`: non-integer literals as the double they denote"""
    if v is None:
        return "N"
    if v is True:
        return "T"
    if v is False:
        return "F"
    if isinstance(v, Lit):
        if calc:
            return "D%016x" % struct.unpack(">Q", struct.pack(">d", float(v)))[0]
        return "L" + hexs(v.encode())
    if isinstance(v, int):
        return ("I%d" if -2 ** 63 <= v < 2 ** 63 else "G%d") % v
    if isinstance(v, str):
        return "S" + hexs(v.encode("utf-8"))
    if isinstance(v, list):
        return " ".join(["A%d" % len(v)] + [to_vx(x, calc) for x in v])
    if isinstance(v, dict):
        return " ".join(["O%d" % len(v)] + [to_vx(k, calc) + " " + to_vx(x, calc) for k, x in v.items()])
    raise ValueError(v)


def expected_vx(text, calc=False):
    v = json.loads(text, parse_float=Lit, parse_int=int)
    return to_vx(v, calc)


def texts(seed, n):
    r = random.Random(seed)
    return [gen_text(r) for _ in range(n)]
