"""C06: run a command under strace and turn the trace into the event tokens of the Lean monitor
(lean/JaqVerif/C06/Trace.lean, lean/Driver/C06.lean)."""
import os
import re
import resource
import signal
import subprocess
import tempfile

MARK_BEGIN = "/__C06_EXEC_BEGIN__"
MARK_END = "/__C06_EXEC_END__"

TRACE_SET = "%file,%network,%process,read,readv,pread64,write,writev,pwrite64"

OPEN_CALLS = {"open", "openat", "openat2", "creat"}
PROBE_CALLS = {
    "stat", "lstat", "newfstatat", "fstatat64", "statx", "access", "faccessat", "faccessat2", "readlink",
    "readlinkat", "getxattr", "lgetxattr", "listxattr", "llistxattr", "statfs", "name_to_handle_at",
    "inotify_add_watch", "stat64", "lstat64", "statfs64",
}
MUTATE_CALLS = {
    "rename", "renameat", "renameat2", "link", "linkat", "symlink", "symlinkat", "unlink", "unlinkat", "rmdir",
    "mkdir", "mkdirat", "mknod", "mknodat", "chmod", "fchmodat", "fchmodat2", "chown", "lchown", "fchownat",
    "truncate", "utime", "utimes", "utimensat", "futimesat", "setxattr", "lsetxattr", "removexattr",
    "lremovexattr", "mount", "umount", "umount2", "pivot_root", "swapon", "swapoff", "acct", "uselib",
    "chdir", "chroot", "open_tree", "move_mount", "fsconfig", "fspick", "mount_setattr", "quotactl", "truncate64",
    "open_by_handle_at",
}
EXEC_CALLS = {"execve", "execveat"}
PROC_SPAWN = {"fork", "vfork"}
CLONE_CALLS = {"clone", "clone3"}
SIGNAL_CALLS = {"kill", "tkill", "tgkill", "rt_sigqueueinfo", "rt_tgsigqueueinfo", "pidfd_send_signal"}
PROC_OTHER = {"ptrace", "process_vm_readv", "process_vm_writev", "pidfd_open", "pidfd_getfd", "kcmp", "unshare", "setns"}
# in strace's %process / %file classes but without any effect on files, network or other processes
IGNORED = {"exit", "exit_group", "wait4", "waitid", "waitpid", "arch_prctl", "set_tid_address", "getcwd",
           "rt_sigreturn", "getpid", "gettid", "getppid"}
NET_CALLS = {
    "socket", "socketpair", "connect", "bind", "listen", "accept", "accept4", "sendto", "recvfrom", "sendmsg",
    "recvmsg", "sendmmsg", "recvmmsg", "shutdown", "getsockname", "getpeername", "setsockopt", "getsockopt",
}
READ_CALLS = {"read", "readv", "pread64"}
WRITE_CALLS = {"write", "writev", "pwrite64"}

LINE = re.compile(r"^(\d+)\s+(.*)$")
CALL = re.compile(r"^([a-z_0-9]+)\((.*)$", re.S)


def hexs(s):
    b = s if isinstance(s, bytes) else s.encode("utf-8", "surrogateescape")
    return b.hex() if b else "-"


def c_unescape(s):
    """strace string literal body -> bytes"""
    out = bytearray()
    i, n = 0, len(s)
    simple = {"n": 10, "t": 9, "r": 13, "v": 11, "f": 12, "a": 7, "b": 8, "e": 27, "\\": 92, '"': 34, "'": 39, "0": 0}
    while i < n:
        c = s[i]
        if c != "\\":
            out += c.encode("utf-8", "surrogateescape")
            i += 1
            continue
        i += 1
        if i >= n:
            break
        c = s[i]
        if c == "x":
            m = re.match(r"[0-9a-fA-F]{1,2}", s[i + 1:])
            if m:
                out.append(int(m.group(0), 16))
                i += 1 + len(m.group(0))
                continue
        if c in "01234567":
            m = re.match(r"[0-7]{1,3}", s[i:])
            out.append(int(m.group(0), 8) & 255)
            i += len(m.group(0))
            continue
        out.append(simple.get(c, ord(c) & 255))
        i += 1
    return bytes(out)


def split_args(s):
    """Split the argument text of a strace line at top-level commas; returns (args, rest-after-close-paren)."""
    args, cur, depth, i, n = [], [], 0, 0, len(s)
    while i < n:
        c = s[i]
        if c == '"':
            j = i + 1
            while j < n and s[j] != '"':
                j += 2 if s[j] == "\\" else 1
            cur.append(s[i:j + 1])
            i = j + 1
            continue
        if c in "([{<":
            depth += 1
        elif c in ")]}>":
            if c == ")" and depth == 0:
                args.append("".join(cur).strip())
                return [a for a in args if a != ""] if args != [""] else [], s[i + 1:]
            if c == ">" and i > 0 and s[i - 1] in "-=":
                pass  # `=>` / `->` in structs
            else:
                depth = max(0, depth - 1)
        elif c == "," and depth == 0:
            args.append("".join(cur).strip())
            cur = []
            i += 1
            continue
        cur.append(c)
        i += 1
    args.append("".join(cur).strip())
    return args, ""


def str_arg(a):
    """`"…"` or `"…"...` -> bytes, else None"""
    m = re.match(r'^"((?:[^"\\]|\\.)*)"', a, re.S)
    return c_unescape(m.group(1)) if m else None


def fd_of(a):
    """`3</path>` / `AT_FDCWD</cwd>` / `3` -> (number or 'AT_FDCWD', path or None)"""
    m = re.match(r"^(AT_FDCWD|-?\d+)(?:<(.*)>)?$", a, re.S)
    if not m:
        return None, None
    num = m.group(1)
    p = m.group(2)
    if p is not None:
        p = c_unescape(p)
    return (num if num == "AT_FDCWD" else int(num)), p


def norm_path(p, base):
    """absolute path bytes; `//` collapsed, trailing `/` removed; `.` and `..` are kept (the monitor
    rejects them inside the time-zone database)."""
    if not p.startswith(b"/"):
        p = (base or b"/") + b"/" + p
    p = re.sub(rb"/+", b"/", p)
    if len(p) > 1 and p.endswith(b"/"):
        p = p[:-1]
    return p


class Parsed:
    def __init__(self):
        self.events = []     # tokens for the Lean monitor
        self.lines = []      # the strace line each event came from
        self.pids = set()
        self.raw = 0


def parse_strace(text, cwd, cli_inputs=None):
    """-> Parsed.  `cli_inputs` (absolute path bytes): CLI mode — there is no marker call; execution starts when
    the first command-line input is opened (a begin marker is inserted right before that event)."""
    P = Parsed()
    cwd = cwd.encode() if isinstance(cwd, str) else cwd
    pending = {}
    began = False
    for line in text.splitlines():
        m = LINE.match(line)
        if not m:
            continue
        pid, rest = int(m.group(1)), m.group(2)
        P.pids.add(pid)
        if rest.startswith("+++") or rest.startswith("---"):
            continue
        if rest.endswith("<unfinished ...>"):
            pending[pid] = rest[: -len("<unfinished ...>")].rstrip()
            continue
        mr = re.match(r"^<\.\.\. ([a-z_0-9]+) resumed>(.*)$", rest, re.S)
        if mr:
            head = pending.pop(pid, mr.group(1) + "(")
            rest = head + mr.group(2)
        mc = CALL.match(rest)
        if not mc:
            continue
        P.raw += 1
        name, argtext = mc.group(1), mc.group(2)
        args, tail = split_args(argtext)
        ev = classify(name, args, tail, cwd, P.pids)
        if ev is None:
            continue
        if ev == "M":
            began = True
        if cli_inputs is not None and not began and ev.startswith("R:") and bytes.fromhex(ev[2:]) in cli_inputs:
            P.events.append("M")
            P.lines.append("(execution starts: first command-line input is opened)")
            began = True
        if cli_inputs is not None and not began and ev == "I":
            P.events.append("M")
            P.lines.append("(execution starts: standard input is read)")
            began = True
        P.events.append(ev)
        P.lines.append(line[:300])
    return P


def classify(name, args, tail, cwd, pids):
    def path_at(i_fd, i_path):
        """path argument relative to a dirfd argument"""
        if len(args) <= i_path:
            return None
        p = str_arg(args[i_path])
        if p is None:
            return None          # NULL or an address
        _, base = fd_of(args[i_fd]) if i_fd is not None and len(args) > i_fd else (None, None)
        if p == b"" and i_fd is not None:
            return b""           # AT_EMPTY_PATH: about the descriptor itself
        return norm_path(p, base if base else cwd)

    if name in OPEN_CALLS:
        if name == "creat":
            p, flags = path_at(None, 0), "O_CREAT|O_WRONLY|O_TRUNC"
        elif name == "open":
            p, flags = path_at(None, 0), args[1] if len(args) > 1 else ""
        else:
            p, flags = path_at(0, 1), args[2] if len(args) > 2 else ""
        if p is None:
            return "?:" + name
        if p.startswith(b"/__C06_"):
            return None
        w = re.search(r"O_WRONLY|O_RDWR|O_CREAT|O_TRUNC|O_APPEND|O_TMPFILE|__O_TMPFILE", flags)
        return ("W:" if w else "R:") + hexs(p)
    if name in PROBE_CALLS:
        if name in ("newfstatat", "fstatat64", "statx", "faccessat", "faccessat2", "readlinkat", "name_to_handle_at"):
            p = path_at(0, 1)
        elif name == "inotify_add_watch":
            p = path_at(None, 1)
        else:
            p = path_at(None, 0)
        if p is None or p == b"":
            return None          # fstat-like on an open descriptor, or NULL path (std's statx probe)
        if p.startswith(MARK_BEGIN.encode()):
            return "M"
        if p.startswith(MARK_END.encode()):
            return "Z"
        if p.startswith(b"/__C06_"):
            return None
        return "P:" + hexs(p)
    if name in EXEC_CALLS:
        return "X:" + name
    if name in MUTATE_CALLS:
        if name in ("renameat", "renameat2", "unlinkat", "mkdirat", "mknodat", "fchmodat", "fchmodat2", "fchownat",
                    "utimensat", "futimesat", "linkat", "open_tree", "move_mount", "fspick", "mount_setattr"):
            p = path_at(0, 1)
        elif name == "symlinkat":
            p = path_at(1, 2)
        elif name == "symlink":
            p = path_at(None, 1)
        else:
            p = path_at(None, 0)
        return "U:%s:%s" % (name, hexs(p or b"?"))
    if name in NET_CALLS:
        return "S:" + name
    if name in PROC_SPAWN:
        return "X:" + name
    if name in CLONE_CALLS:
        return "T" if "CLONE_THREAD" in " ".join(args) else "X:" + name
    if name in SIGNAL_CALLS:
        try:
            target = int(args[0].split("<")[0])
        except (ValueError, IndexError):
            return "X:" + name
        return None if target in pids or target == 0 else "X:" + name
    if name in PROC_OTHER:
        return "X:" + name
    if name in IGNORED:
        return None
    if name in READ_CALLS or name in WRITE_CALLS:
        fd, _ = fd_of(args[0]) if args else (None, None)
        if name in READ_CALLS:
            return "I" if fd == 0 else None
        return "O" if fd == 1 else ("E" if fd == 2 else None)
    return "?:" + name


def _limits():
    os.setsid()
    try:
        resource.setrlimit(resource.RLIMIT_AS, (4 << 30, 4 << 30))
        resource.setrlimit(resource.RLIMIT_CORE, (0, 0))
        resource.setrlimit(resource.RLIMIT_FSIZE, (64 << 20, 64 << 20))
    except (ValueError, OSError):
        pass


def run_traced(cmd, cwd, env, timeout=10, stdin=None, tmpdir=None):
    """Run cmd under strace -f.  Returns (returncode or None on timeout, stdout bytes, stderr bytes, trace text)."""
    fd, tf = tempfile.mkstemp(prefix="c06-", suffix=".strace", dir=tmpdir)
    os.close(fd)
    full = ["strace", "-f", "--seccomp-bpf", "-y", "-s", "64", "-e", "trace=" + TRACE_SET, "-e", "signal=none", "-o", tf] + list(cmd)
    p = subprocess.Popen(full, cwd=cwd, env=env, stdin=subprocess.PIPE if stdin is not None else subprocess.DEVNULL,
                         stdout=subprocess.PIPE, stderr=subprocess.PIPE, preexec_fn=_limits)
    try:
        out, err = p.communicate(stdin, timeout=timeout)
        rc = p.returncode
    except subprocess.TimeoutExpired:
        try:
            os.killpg(p.pid, signal.SIGKILL)
        except OSError:
            pass
        out, err = p.communicate()
        rc = None
    try:
        text = open(tf, errors="surrogateescape").read()
    finally:
        try:
            os.unlink(tf)
        except OSError:
            pass
    return rc, out, err, text


def split_cases(events, lines):
    """Trace of a batch child -> one (events, lines) per case: everything after the previous end marker up to
    and including this case's end marker; a last piece without end marker (crash / time-out) is kept too."""
    segs, ce, cl = [], [], []
    for e, l in zip(events, lines):
        ce.append(e)
        cl.append(l)
        if e == "Z":
            segs.append((ce, cl, True))
            ce, cl = [], []
    if "M" in ce:
        segs.append((ce, cl, False))
    return segs
