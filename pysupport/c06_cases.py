"""C06 case generators: every native / prelude definition with path-like, URL-like and command-like
arguments and inputs; small generated programs; adversarial documents per decoder."""
import json
import random
import struct


def evil_strings(D):
    """path-like / URL-like / command-like strings; D = sentinel directory (nothing may appear in it)"""
    return [
        "/etc/passwd",
        D + "/secret.txt",
        D + "/created-by-jaq",
        "file:///etc/passwd",
        "file://" + D + "/secret.txt",
        "http://127.0.0.1:1/",
        "https://example.invalid/x?y=$(id)",
        "$(touch %s/pwn1)" % D,
        "`touch %s/pwn2`" % D,
        "|ls",
        "| touch %s/pwn3" % D,
        "; touch %s/pwn4 #" % D,
        "../../../../../../etc/passwd",
        "/dev/tcp/127.0.0.1/1",
        "/proc/self/environ",
        "~/.ssh/id_rsa",
        "\\\\127.0.0.1\\share\\x",
        "@" + D + "/secret.txt",
        "-o%s/pwn5" % D,
        "/usr/share/zoneinfo/../../../etc/passwd",
        "Europe/../../../../../etc/passwd",
        ":/etc/passwd",
        ">%s/pwn6" % D,
        "2>%s/pwn7 <%s/secret.txt" % (D, D),
        "%s/pwn8\u0000.txt" % D,
        "tcp://127.0.0.1:1",
        "localhost:1",
        "PATH",
        "Europe/Berlin",
        "%Y-%m-%dT%H:%M:%S %Z %Q %c %s",
        "%Q",
    ]


BENIGN_INPUTS = [
    "null", "0", "1700000000.5", "\"abc\"", "[3,1,2]", "{\"a\":1,\"b\":[1,2]}",
    "[2024,1,2,3,4,5.5,0,0]", "\"2024-01-02T03:04:05Z\"", "[\"a\",\"b\"]", "true", "\"YQ==\"", "[[1,2],[3,4]]",
]

TIME_INPUTS = [
    ("\"2024-01-02 Europe/Berlin\"", "\"%Y-%m-%d %Q\""),
    ("\"2024-01-02 /etc/passwd\"", "\"%Y-%m-%d %Q\""),
    ("\"2024-01-02 ../../../etc/passwd\"", "\"%Y-%m-%d %Q\""),
    ("\"2024-01-02 [/etc/passwd]\"", "\"%Y-%m-%d [%Q]\""),
    ("\"2024-01-02 CET\"", "\"%Y-%m-%d %Z\""),
    ("\"2024-01-02T03:04:05+01:00[Europe/../../etc/passwd]\"", "\"%Y-%m-%dT%H:%M:%S%:z[%Q]\""),
    # complete instants (date AND time), so that zone resolution is really reached
    ("\"2024-01-02 03:04:05 ../../../etc/passwd\"", "\"%Y-%m-%d %H:%M:%S %Q\""),
    ("\"2024-01-02 03:04:05 ../../../etc/localtime\"", "\"%F %T %Q\""),
    ("\"2024-01-02 03:04:05 /etc/localtime\"", "\"%F %T %Q\""),
    ("\"2024-01-02 03:04:05 posix/../../../etc/localtime\"", "\"%F %T %Q\""),
    ("\"2024-01-02 03:04:05 right/Europe/Vienna\"", "\"%F %T %Q\""),
    ("\"2024-01-02T03:04:05[../../../etc/localtime]\"", "\"%FT%T[%Q]\""),
    ("\"2024-01-02 03:04:05 +01:00 ../../etc/localtime\"", "\"%F %T %:z %Q\""),
    ("1700000000", "\"%Y-%m-%dT%H:%M:%S %Z %Q\""),
    ("[2024,1,2,3,4,5,0,0]", "\"%c %Z %Q %s\""),
]


def jstr(s):
    return json.dumps(s)


def call_text(name, kinds, args):
    if name.startswith("@"):
        return name + " \"x\\(.)y\"" if args is None else name
    if kinds in ("-", ""):
        return name
    return "%s(%s)" % (name, "; ".join(args))


def wrap(e, i):
    """typed variants of an evil string as JSON text"""
    k = i % 4
    if k == 0:
        return jstr(e)
    if k == 1:
        return json.dumps([e, e])
    if k == 2:
        return json.dumps({"path": e, "file": e, "url": e, "cmd": e, e: e})
    return json.dumps([{"name": e, "value": e}])


def native_cases(fns, D, per_fn, rng, tag):
    """fns: list of (name, kinds).  per_fn cases each: input × arguments from the pools.
    kinds: string of v/f (native) or 'a'*arity (definition: arguments of unknown kind)."""
    evil = evil_strings(D)
    cases = []
    for idx, (name, kinds) in enumerate(fns):
        ar = 0 if kinds in ("-", "") else len(kinds)
        for k in range(per_fn):
            e = evil[(idx * 7 + k * 5 + rng.randrange(len(evil))) % len(evil)]
            mode = k % 4
            if mode == 0:      # evil input, evil arguments
                inp, args = jstr(e), [jstr(e)] * ar
            elif mode == 1:    # benign input, evil arguments
                inp = BENIGN_INPUTS[(idx + k) % len(BENIGN_INPUTS)]
                args = [jstr(evil[(idx + k + j) % len(evil)]) for j in range(ar)]
            elif mode == 2:    # evil structured input, arguments taken from the input
                inp = wrap(e, idx + k)
                args = [[".", ".[0]?", ".path?", ".[]?"][(idx + j) % 4] for j in range(ar)]
            else:              # time shaped
                ti, tf = TIME_INPUTS[(idx + k) % len(TIME_INPUTS)]
                inp, args = ti, [tf] + [jstr(e)] * (ar - 1) if ar else []
            text = call_text(name, kinds, args)
            if name.startswith("@") and k % 2 == 1:
                text = name + " \"a\\(.)b\\(.[0]?)\""
            cases.append({"kind": tag, "fn": "%s/%d" % (name, ar), "filter": text, "input": "J" + inp,
                          "inputs": ["J" + jstr(e), "J" + wrap(e, k)], "limit": 24})
        # the date/time filters are the only ones with a documented file access (time-zone database):
        # every time-shaped input (zone names with `..`, absolute paths, complete and partial instants)
        if ar <= 1 and any(t in name for t in ("time", "date", "strf", "strp")):
            for j, (ti, tf) in enumerate(TIME_INPUTS):
                text = call_text(name, kinds, [tf] if ar else [])
                cases.append({"kind": tag, "fn": "%s/%d" % (name, ar), "filter": text, "input": "J" + ti,
                              "inputs": ["J" + ti, "J" + tf], "limit": 24})
    return cases


def program_cases(natives, defs, D, n, rng):
    """small random programs mixing natives, definitions and core constructs around evil literals"""
    evil = evil_strings(D)
    zero = [nm for nm, k in natives if k == "-" and not nm.startswith("@")] + [nm for nm, a in defs if a == 0 and not nm.startswith("@")]
    zero = [z for z in zero if z not in ("halt", "halt_error", "repl", "error", "error_empty", "repeat", "recurse", "inputs", "input_filename")]
    fmts = [nm for nm, k in natives if nm.startswith("@")] + [nm for nm, a in defs if nm.startswith("@")]
    unary = [nm for nm, k in natives if len(k) == 1 and k != "-"] + [nm for nm, a in defs if a == 1]
    unary = [u for u in unary if u not in ("halt", "halt_error", "repeat", "error", "until", "recurse", "last", "limit", "range", "while",
                                           "combinations", "walk", "paths")]

    def lit():
        return jstr(rng.choice(evil))

    def gen(d):
        r = rng.random()
        if d <= 0 or r < 0.2:
            return rng.choice([".", lit(), rng.choice(zero), rng.choice(zero), ".[]?", ".path?", "env.C06_PROBE", "[.]"])
        if r < 0.35:
            return "%s | %s" % (gen(d - 1), gen(d - 1))
        if r < 0.45:
            return "(%s, %s)" % (gen(d - 1), gen(d - 1))
        if r < 0.55:
            return "%s(%s)" % (rng.choice(unary), gen(d - 1))
        if r < 0.62:
            return "try (%s) catch (%s)" % (gen(d - 1), gen(d - 1))
        if r < 0.68:
            return "[%s]" % gen(d - 1)
        if r < 0.73:
            return "{(%s|tostring): %s}" % (gen(d - 1), gen(d - 1))
        if r < 0.78:
            return "%s \"a\\(%s)b\"" % (rng.choice(fmts), gen(d - 1))
        if r < 0.82:
            return "reduce (%s) as $x (%s; . + [$x])" % (gen(d - 1), "[]")
        if r < 0.86:
            return "if %s then %s else %s end" % (gen(d - 1), gen(d - 1), gen(d - 1))
        if r < 0.9:
            return "def f: %s; def g(h): h | %s; g(f)" % (gen(d - 1), gen(d - 1))
        if r < 0.93:
            return "limit(3; %s)" % gen(d - 1)
        if r < 0.96:
            return "(%s) as $v | %s" % (gen(d - 1), gen(d - 1))
        return "first(%s // %s)" % (gen(d - 1), gen(d - 1))

    cases = []
    for i in range(n):
        text = gen(rng.choice([2, 3, 3, 4]))
        e = rng.choice(evil)
        cases.append({"kind": "program", "fn": "-", "filter": text, "input": "J" + wrap(e, i),
                      "inputs": ["J" + jstr(e), "J1"], "limit": 16})
    return cases


# ------------------------------------------------------------------------------------------------ documents

def cbor_head(major, n):
    if n < 24:
        return bytes([major << 5 | n])
    if n < 256:
        return bytes([major << 5 | 24, n])
    if n < 65536:
        return bytes([major << 5 | 25]) + struct.pack(">H", n)
    return bytes([major << 5 | 26]) + struct.pack(">I", n)


def cbor_text(s):
    b = s.encode()
    return cbor_head(3, len(b)) + b


def cbor_tag(t, inner):
    return cbor_head(6, t) + inner


def documents(D):
    """(decoder, format name for --from, file extension, document bytes, description)"""
    sec = D + "/secret.txt"
    pwn = D + "/pwn-doc"
    docs = []

    def add(fmt, doc, what):
        ext = {"yaml": "yaml", "xml": "xml", "cbor": "cbor", "toml": "toml", "csv": "csv", "tsv": "tsv", "json": "json"}[fmt]
        docs.append({"fmt": fmt, "ext": ext, "doc": doc if isinstance(doc, bytes) else doc.encode(), "what": what})

    # ---- YAML
    add("yaml", "a: !!python/object/apply:os.system [\"touch %s\"]\n" % pwn, "python apply tag")
    add("yaml", "a: !!python/object/new:subprocess.Popen [[\"touch\", \"%s\"]]\n" % pwn, "python new tag")
    add("yaml", "a: !include %s\nb: !include_dir /etc\n" % sec, "include tag")
    add("yaml", "a: !file %s\nb: !env PATH\nc: !ENV ${HOME}\nd: !exec 'touch %s'\n" % (sec, pwn), "file/env/exec tags")
    add("yaml", "--- !ruby/object:Gem::Installer\ni: x\n--- !ruby/object:Kernel\ncmd: touch %s\n" % pwn, "ruby object tags")
    add("yaml", "a: !!binary L2V0Yy9wYXNzd2Q=\nb: !!set {x, y}\nc: !!js/function 'function(){ require(\"fs\") }'\n", "binary/set/js tags")
    add("yaml", "%%YAML 1.1\n%%TAG !e! tag:example.com,2000:app/\n--- !e!foo \"%s\"\n" % sec, "TAG directive")
    add("yaml", "a: &a [\"/etc/passwd\", \"file://%s\"]\nb: *a\nc: {<<: {x: *a}, y: *a}\n" % sec, "anchors, aliases, merge key")
    add("yaml", "a: &a [x,x,x,x,x,x,x,x]\nb: &b [*a,*a,*a,*a,*a,*a,*a,*a]\nc: &c [*b,*b,*b,*b,*b,*b,*b,*b]\nd: [*c,*c,*c,*c]\n", "alias expansion (small)")
    add("yaml", "!<tag:yaml.org,2002:str> %s\n--- !<!include> %s\n--- !!str |\n  $(touch %s)\n" % (sec, sec, pwn), "verbatim tags")
    add("yaml", "? !!python/tuple [a, b]\n: !!python/name:os.system\n? |\n  %s\n: >-\n  file://%s\n" % (sec, sec), "complex keys")
    add("yaml", "- *unknown\n- !unknown &x y\n- !!merge <<\n", "unknown alias / tags")
    add("yaml", "#!/bin/sh\n#include \"%s\"\n$ref: \"%s\"\n$include: %s\nimport: [%s]\nextends: file://%s\n" % (sec, sec, sec, sec, sec), "$ref / include-like keys")
    # ---- XML
    add("xml", "<?xml version=\"1.0\"?><!DOCTYPE a [<!ENTITY xxe SYSTEM \"file://%s\">]><a>&xxe;</a>" % sec, "external general entity (file)")
    add("xml", "<?xml version=\"1.0\"?><!DOCTYPE a [<!ENTITY xxe SYSTEM \"%s\">]><a b=\"&xxe;\">&xxe;</a>" % sec, "external entity (plain path), also in attribute")
    add("xml", "<!DOCTYPE a [<!ENTITY xxe SYSTEM \"http://127.0.0.1:1/x\">]><a>&xxe;</a>", "external entity (http)")
    add("xml", "<!DOCTYPE a [<!ENTITY %% p SYSTEM \"file://%s\"> %%p; <!ENTITY %% q \"<!ENTITY r SYSTEM 'file://%s'>\"> %%q;]><a>&r;</a>" % (sec, sec), "parameter entities")
    add("xml", "<!DOCTYPE a SYSTEM \"http://127.0.0.1:1/x.dtd\"><a/>", "external DTD (SYSTEM)")
    add("xml", "<!DOCTYPE a PUBLIC \"-//X//Y\" \"file://%s\"><a/>" % sec, "external DTD (PUBLIC)")
    add("xml", "<?xml-stylesheet type=\"text/xsl\" href=\"file://%s\"?><?php system('touch %s'); ?><a/>" % (sec, pwn), "processing instructions")
    add("xml", "<a xmlns:xi=\"http://www.w3.org/2001/XInclude\"><xi:include href=\"%s\" parse=\"text\"/><xi:include href=\"file://%s\"><xi:fallback>f</xi:fallback></xi:include></a>" % (sec, sec), "XInclude")
    add("xml", "<a xmlns:xsi=\"http://www.w3.org/2001/XMLSchema-instance\" xsi:schemaLocation=\"urn:x file://%s\" xsi:noNamespaceSchemaLocation=\"http://127.0.0.1:1/s.xsd\"/>" % sec, "schemaLocation")
    add("xml", "<!DOCTYPE a [<!ENTITY a0 \"x\"><!ENTITY a1 \"&a0;&a0;&a0;&a0;\"><!ENTITY a2 \"&a1;&a1;&a1;&a1;\">]><a>&a2;</a>", "internal entity expansion (small)")
    add("xml", "<!DOCTYPE a [<!NOTATION n SYSTEM \"%s\"><!ENTITY e SYSTEM \"%s\" NDATA n><!ATTLIST a b ENTITY #IMPLIED>]><a b=\"e\"/>" % (sec, sec), "notation / unparsed entity")
    add("xml", "<a><![CDATA[$(touch %s)]]><!-- #include file=\"%s\" --><b href=\"file://%s\" src=\"%s\"/></a>" % (pwn, sec, sec, sec), "CDATA, SSI comment, href/src")
    # ---- CBOR
    add("cbor", cbor_tag(32, cbor_text("file://" + sec)), "tag 32 URI (file)")
    add("cbor", cbor_tag(32, cbor_text("http://127.0.0.1:1/")), "tag 32 URI (http)")
    add("cbor", cbor_tag(24, cbor_head(2, 3) + cbor_tag(32, cbor_text("x"))[:3]), "tag 24 embedded CBOR")
    add("cbor", cbor_tag(55799, cbor_tag(36, cbor_text("Content-Type: message/external-body; access-type=local-file; name=\"%s\"" % sec))), "self-described + MIME tag")
    add("cbor", cbor_tag(35, cbor_text("(?{ system('touch %s') })" % pwn)), "tag 35 regex")
    add("cbor", cbor_tag(2, cbor_head(2, 9) + b"\xff" * 9) + cbor_tag(3, cbor_head(2, 2) + b"\x01\x00"), "bignum tags")
    add("cbor", cbor_head(5, 2) + cbor_text("path") + cbor_text(sec) + cbor_tag(1000000, cbor_text("k")) + cbor_tag(37, cbor_head(2, 16) + b"\x00" * 16), "map with path, unknown tags")
    add("cbor", b"\x9f" + cbor_tag(0, cbor_text("2024-01-02T03:04:05+01:00[Europe/../../etc/passwd]")) + cbor_tag(1, b"\x1a\x65\x00\x00\x00") + b"\xff", "date tags, indefinite array")
    add("cbor", cbor_tag(27, cbor_head(4, 2) + cbor_text("os.system") + cbor_text("touch " + pwn)), "tag 27 generic object")
    add("cbor", cbor_tag(258, cbor_head(4, 1) + cbor_tag(32, cbor_text(sec))) + b"\xf6", "set tag, then null")
    # ---- TOML
    add("toml", "include = \"%s\"\nimport = [\"file://%s\"]\n[tool]\ncmd = \"$(touch %s)\"\npath = '%s'\n" % (sec, sec, pwn, sec), "include-like keys")
    add("toml", "d = 2024-01-02T03:04:05+01:00\nl = 2024-01-02T03:04:05\n\"%s\" = 1\n[\"file://%s\"]\nx.y.z = 1\n" % (sec, sec), "dates, path keys")
    add("toml", "a = \"\"\"\n#!include %s\n\\\n  $(touch %s)\"\"\"\nb = [ { p = \"%s\" }, { p = \"|ls\" } ]\n" % (sec, pwn, sec), "multi-line strings")
    add("toml", "#!include <%s>\n[[a]]\nb = 0x7fffffffffffffff\n[[a]]\nb = inf\n" % sec, "comment directive, array of tables")
    # ---- CSV / TSV
    add("csv", "=cmd|' /C touch %s'!A0,@SUM(1+1)*cmd|' /C calc'!A0,+HYPERLINK(\"file://%s\")\r\n\"%s\",\"a\"\"b\",-2+3\r\n" % (pwn, sec, sec), "formula injection")
    add("csv", "path,url\n%s,file://%s\n\"$(touch %s)\",\"|ls\"\n" % (sec, sec, pwn), "paths in cells")
    add("tsv", "=cmd|' /C calc'!A0\t%s\n\\t\\n\\\\\tfile://%s\n" % (sec, sec), "tsv cells")
    # ---- JSON (through fromjson / default --from)
    add("json", json.dumps({"$ref": "file://" + sec, "__proto__": {"x": 1}, "include": sec, "cmd": "$(touch %s)" % pwn}), "json refs")
    return docs


def mutate(doc, rng):
    b = bytearray(doc)
    for _ in range(rng.randrange(1, 4)):
        if not b:
            break
        k = rng.randrange(5)
        i = rng.randrange(len(b))
        if k == 0:
            b[i] = rng.randrange(256)
        elif k == 1:
            del b[i]
        elif k == 2:
            b.insert(i, rng.choice(b"&%<>!*:[]{}\"'\\\x00\xff"))
        elif k == 3:
            j = rng.randrange(len(b))
            b[i:i] = b[j:j + rng.randrange(1, 12)]
        else:
            b[i] ^= 1 << rng.randrange(8)
    return bytes(b)


def decoder_cases(D, rng, n_mut):
    docs = documents(D)
    cases = []
    for d in docs:
        variants = [d["doc"]] + [mutate(d["doc"], rng) for _ in range(n_mut)]
        for vi, doc in enumerate(variants):
            fmt = d["fmt"]
            text_input = fmt not in ("cbor",)
            if text_input:
                try:
                    doc.decode("utf-8")
                    inp = "T" + (doc.hex() or "-")
                except UnicodeDecodeError:
                    inp = "B" + (doc.hex() or "-")
            else:
                inp = "B" + (doc.hex() or "-")
            flt = "from%s" % fmt
            if vi % 2 == 1:
                flt = "[%s] | tostring, (.. | strings | ., (try fromjson catch .))" % flt
            cases.append({"kind": "decoder", "fn": "from%s/0" % fmt, "filter": flt, "input": inp, "inputs": [],
                          "limit": 64, "what": d["what"] + (" (mutated %d)" % vi if vi else "")})
    return cases, docs
