"""C18: run the real jaq binary under strace and translate the system-call trace into the
operations (`Op`) of the Lean model `JaqVerif/C18/InPlace.lean`.

Only the Python standard library is used.
"""
import os
import re
import subprocess
import tempfile

LINE = re.compile(r"^(\d+)\s+(\w+)\((.*)\)\s+=\s+(-?\d+|\?|0x[0-9a-f]+)(.*)$")
STRACE = ["strace", "-f", "-xx", "-s", "16777216"]


def split_args(s):
    """Split a strace argument list at top-level commas."""
    out, cur, depth, q = [], [], 0, False
    i, n = 0, len(s)
    while i < n:
        c = s[i]
        if q:
            cur.append(c)
            if c == "\\" and i + 1 < n:
                cur.append(s[i + 1])
                i += 1
            elif c == '"':
                q = False
        elif c == '"':
            q = True
            cur.append(c)
        elif c in "{[(":
            depth += 1
            cur.append(c)
        elif c in "}])":
            depth -= 1
            cur.append(c)
        elif c == "," and depth == 0:
            out.append("".join(cur).strip())
            cur = []
        else:
            cur.append(c)
        i += 1
    if cur or out:
        out.append("".join(cur).strip())
    return out


def unquote(a):
    """strace -xx string literal -> bytes (None if it is not a complete literal)."""
    if not (a.startswith('"') and a.endswith('"')):
        return None
    body = a[1:-1]
    if body == "":
        return b""
    if not re.fullmatch(r"(\\x[0-9a-f]{2})*", body):
        return None
    return bytes.fromhex(body.replace("\\x", ""))


class Call:
    __slots__ = ("pid", "name", "args", "ret", "rest", "nth", "raw", "idx")

    def __init__(self, pid, name, args, ret, rest, raw):
        self.pid, self.name, self.args, self.ret, self.rest, self.raw = pid, name, args, ret, rest, raw
        self.nth = 0   # 1-based count among calls of the same name (what `when=` of strace counts)
        self.idx = 0

    @property
    def ok(self):
        return self.ret not in ("?",) and not self.ret.startswith("-")

    @property
    def executed(self):
        return self.ret != "?"


def parse_trace(text):
    """-> (calls, end) ; end = ('exit', code) | ('signal', name) | ('unknown', None)"""
    calls, end = [], ("unknown", None)
    counts = {}
    for raw in text.splitlines():
        m = re.match(r"^\d+\s+\+\+\+ exited with (\d+) \+\+\+", raw)
        if m:
            end = ("exit", int(m.group(1)))
            continue
        m = re.match(r"^\d+\s+\+\+\+ killed by (\w+)", raw)
        if m:
            end = ("signal", m.group(1))
            continue
        m = LINE.match(raw)
        if not m:
            continue  # signals, unfinished/resumed (single-threaded process: not expected)
        c = Call(int(m.group(1)), m.group(2), split_args(m.group(3)), m.group(4), m.group(5), raw)
        counts[c.name] = counts.get(c.name, 0) + 1
        c.nth = counts[c.name]
        c.idx = len(calls)
        calls.append(c)
    return calls, end


class TraceTimeout(Exception):
    pass


def run_strace(argv, cwd, inject=None, timeout=300, env=None):
    """Run argv under strace.  Returns (rc, stdout bytes, stderr bytes, trace text).
    rc is the exit status of the traced program (strace passes it on; 128+sig when killed)."""
    fd, tf = tempfile.mkstemp(prefix="c18trace")
    os.close(fd)
    try:
        cmd = STRACE + ["-o", tf]
        for i in inject or []:
            cmd += ["-e", "inject=" + i]
        cmd += list(argv)
        try:
            p = subprocess.run(cmd, cwd=cwd, stdin=subprocess.DEVNULL, stdout=subprocess.PIPE, stderr=subprocess.PIPE,
                               timeout=timeout, env=env)
        except subprocess.TimeoutExpired:
            raise TraceTimeout(" ".join(cmd[:-len(argv)] + [os.path.basename(argv[0])] + list(argv[1:])))
        with open(tf, "r", errors="replace") as f:
            text = f.read()
        return p.returncode, p.stdout, p.stderr, text
    finally:
        os.unlink(tf)


def hexpath(p):
    d, n = os.path.split(p)
    return d.encode().hex() + "/" + n.encode().hex()


def mode_of(arg):
    """`S_IFREG|0644` / `0100644` -> permission bits"""
    m = re.search(r"0[0-7]*$", arg.strip())
    return int(m.group(0), 8) & 0o7777 if m else None


MODIFYING = {"truncate", "ftruncate", "link", "linkat", "symlink", "symlinkat", "mkdir", "mkdirat", "rmdir",
             "pwrite64", "pwritev", "pwritev2", "writev", "fallocate", "copy_file_range", "sendfile",
             "creat", "mknod", "mknodat", "fchown", "chown", "lchown", "fchownat", "utimensat", "setxattr",
             "fsetxattr", "open"}


class Translation:
    def __init__(self):
        self.ops = []          # model tokens
        self.op_calls = []     # the Call behind each op
        self.foreign = []      # calls that touch the scenario but are outside the protocol alphabet
        self.failed = []       # failed calls on scenario paths / fds (the faults that occurred)
        self.temps = []        # temp paths created
        self.renames = []      # (tmp, target)
        self.first_idx = None  # index of the first call that concerns the scenario


def translate(calls, cwd, root, targets):
    """Translate the calls into model operations.  Only paths below `root` matter.
    `targets`: absolute normalised target paths (to recognise `load` and `stat`)."""
    tr = Translation()
    fds = {}           # fd -> (abs path, writable)
    last_load = None   # collapse the open+mmap / open+read pair of load_file into one `load`
    root_ = root.rstrip("/") + "/"

    def resolve(b):
        if b is None:
            return None
        s = b.decode("utf-8", "surrogateescape")
        if not os.path.isabs(s):
            s = os.path.join(cwd, s)
        return os.path.normpath(s)

    def inside(p):
        return p is not None and (p + "/").startswith(root_)

    def emit(tok, c):
        tr.ops.append(tok)
        tr.op_calls.append(c)

    def note(c):
        if tr.first_idx is None:
            tr.first_idx = c.idx

    for c in calls:
        a = c.args
        if not c.executed:
            continue
        n = c.name
        if n == "openat" and len(a) >= 3:
            p = resolve(unquote(a[1]))
            # once the run has reached the scenario's files, a file created anywhere is its business
            # (a temp file placed in another directory must not escape the automaton)
            creating = tr.first_idx is not None and "O_CREAT" in a[2] and p is not None
            if not inside(p) and not creating:
                continue
            note(c)
            flags = a[2]
            if not c.ok:
                tr.failed.append(c)
                continue
            fd = int(c.ret)
            if "O_CREAT" in flags:
                if "O_EXCL" in flags:
                    fds[fd] = (p, True)
                    tr.temps.append(p)
                    emit("T," + hexpath(p), c)
                    last_load = None
                else:
                    tr.foreign.append(c)
            elif "O_WRONLY" in flags or "O_RDWR" in flags or "O_TRUNC" in flags or "O_APPEND" in flags:
                fds[fd] = (p, True)
                tr.foreign.append(c)
            else:
                fds[fd] = (p, False)
                if p in targets:
                    if last_load != p:
                        emit("L," + hexpath(p), c)
                    last_load = p
        elif n == "close" and a:
            try:
                fds.pop(int(a[0]), None)
            except ValueError:
                pass
        elif n in ("dup", "dup2", "dup3", "fcntl") and a:
            try:
                fd = int(a[0])
            except ValueError:
                continue
            if fd in fds and (n != "fcntl" or (len(a) > 1 and a[1].startswith("F_DUPFD"))) and c.ok:
                fds[int(c.ret)] = fds[fd]
        elif n == "write" and a:
            try:
                fd = int(a[0])
            except ValueError:
                continue
            if fd not in fds:
                continue
            note(c)
            p = fds[fd][0]
            if not c.ok:
                tr.failed.append(c)
                continue
            data = unquote(a[1])
            r = int(c.ret)
            if data is None:
                tr.foreign.append(c)
                continue
            emit("W,%s,%s" % (hexpath(p), data[:r].hex()), c)
        elif n in ("unlink", "unlinkat"):
            p = resolve(unquote(a[0] if n == "unlink" else a[1]))
            if not inside(p) and p not in tr.temps:
                continue
            note(c)
            if not c.ok:
                tr.failed.append(c)
                continue
            emit("U," + hexpath(p), c)
        elif n in ("rename", "renameat", "renameat2"):
            if n == "rename":
                src, dst = a[0], a[1]
            else:
                src, dst = a[1], a[3]
            ps, pd = resolve(unquote(src)), resolve(unquote(dst))
            if not (inside(ps) or inside(pd)):
                continue
            note(c)
            if not c.ok:
                tr.failed.append(c)
                continue
            tr.renames.append((ps, pd))
            emit("R,%s,%s" % (hexpath(ps), hexpath(pd)), c)
        elif n in ("chmod", "fchmodat", "fchmod"):
            if n == "fchmod":
                try:
                    p = fds.get(int(a[0]), (None,))[0]
                except ValueError:
                    p = None
                marg = a[1]
            elif n == "chmod":
                p, marg = resolve(unquote(a[0])), a[1]
            else:
                p, marg = resolve(unquote(a[1])), a[2]
            if not inside(p):
                continue
            note(c)
            if not c.ok:
                tr.failed.append(c)
                continue
            emit("C,%s,%d" % (hexpath(p), mode_of(marg)), c)
        elif n in ("statx", "newfstatat", "stat", "lstat"):
            parg = a[1] if n in ("statx", "newfstatat") else a[0]
            b = unquote(parg)
            if b is None or b == b"":
                # statx(fd, "", AT_EMPTY_PATH): part of load_file (length for mmap / read)
                try:
                    if int(a[0]) in fds and not c.ok:
                        note(c)
                        tr.failed.append(c)
                except ValueError:
                    pass
                continue
            p = resolve(b)
            if not inside(p):
                continue
            note(c)
            if not c.ok:
                tr.failed.append(c)
                continue
            if p in targets:
                m = re.search(r"st(?:x)?_mode=([^,}]+)", c.raw)
                emit("S,%s,%d" % (hexpath(p), mode_of(m.group(1)) if m else -1), c)
        elif n in MODIFYING:
            hit = False
            for x in a:
                b = unquote(x)
                if b is not None and inside(resolve(b)):
                    hit = True
                else:
                    try:
                        if int(x) in fds:
                            hit = True
                    except ValueError:
                        pass
            if hit:
                note(c)
                tr.foreign.append(c)
        elif n in ("mmap", "read", "pread64") and not c.ok:
            # a failed mmap/read of an input file (e.g. empty file: mmap fails, load_file falls back to read)
            try:
                fd = int(a[4] if n == "mmap" else a[0])
            except (ValueError, IndexError):
                continue
            if fd in fds:
                note(c)
                tr.failed.append(c)
    return tr
