"""Translator of C15: the operator grouping matrix printed by the real parser -> Lean source."""


def parse_matrix(out):
    ops, rows = {}, {}
    for l in out.splitlines():
        p = l.split(" ")
        if p[0] == "OP":
            ops[int(p[1])] = bytes.fromhex(p[2]).decode()
        elif p[0] == "ROW":
            rows[int(p[1])] = p[2]
    n = len(ops)
    return [ops[i] for i in range(n)], [rows[i] for i in range(n)]


def lean_source(ops, rows):
    def lit(s):
        return "[" + ", ".join("'%s'" % c for c in s) + "]"
    s = "/- GENERATED on every run by checks/c15.py from `jaqverif c15 matrix` (the REAL parser\n"
    s += "   `jaq_core::load::parse(text, |p| p.term())` on `a op1 b op2 c` for every ordered operator pair).\n"
    s += "   Do not edit. -/\nnamespace Jaq.C15.Gen\n\n"
    s += "/-- operator texts, in the order of the rows and columns of `groupT` -/\n"
    s += "def opNames : List (List Char) := [" + ", ".join(lit(o) for o in ops) + "]\n\n"
    s += "/-- `groupT[i][j] = true` iff the real parser reads `a opᵢ b opⱼ c` as `a opᵢ (b opⱼ c)`,\n"
    s += "    `false` iff as `(a opᵢ b) opⱼ c` -/\n"
    s += "def groupT : List (List Bool) := [\n"
    s += ",\n".join("  [" + ", ".join("true" if c == "R" else "false" for c in r) + "]" for r in rows)
    s += "]\n\nend Jaq.C15.Gen\n"
    return s
