"""Case generators of the C15 check (all randomness from the `random.Random(seed)` passed in)."""
import itertools

ATOMS = ["a", "1", "$x", ".", ".k", "f(0)", "[]", "-3", "..", '"s"', "b?", ".[0]"]


def pairs(ops):
    out = []
    for o1, o2 in itertools.product(ops, repeat=2):
        out += ["a %s b %s c" % (o1, o2), "(a %s b) %s c" % (o1, o2), "a %s (b %s c)" % (o1, o2),
                "a%sb%sc" % (o1, o2) if " " not in o1 + o2 and o1.isalpha() is False and o2.isalpha() is False else ". %s 1 %s $x" % (o1, o2)]
    return out


GROUPINGS3 = [
    "a {0} b {1} c {2} d",
    "((a {0} b) {1} c) {2} d",
    "(a {0} (b {1} c)) {2} d",
    "(a {0} b) {1} (c {2} d)",
    "a {0} ((b {1} c) {2} d)",
    "a {0} (b {1} (c {2} d))",
]


def triples(ops, rng, all_groupings):
    out = []
    for t in itertools.product(ops, repeat=3):
        out.append(GROUPINGS3[0].format(*t))
        if all_groupings:
            out += [g.format(*t) for g in GROUPINGS3[1:]]
        else:
            out.append(GROUPINGS3[1 + rng.randrange(5)].format(*t))
    return out


def shapes(n):
    """all binary tree shapes with n internal nodes, as nested tuples / None leaves"""
    if n == 0:
        return [None]
    out = []
    for k in range(n):
        for l in shapes(k):
            for r in shapes(n - 1 - k):
                out.append((l, r))
    return out


def prefix(shape, ops_it, leaf_it):
    if shape is None:
        return "L%d" % next(leaf_it)
    o = next(ops_it)
    return "B%d %s %s" % (o, prefix(shape[0], ops_it, leaf_it), prefix(shape[1], ops_it, leaf_it))


def render_requests(ops, rng, thorough):
    """requests to the Lean printer; yields (stream, [request])"""
    n = len(ops)
    # exhaustive: all trees with <= 2 operators x {minimal, full} parentheses (plain shorthand forms, fixed trivia stream)
    reqs = []
    for k in (1, 2):
        for sh in shapes(k):
            for os_ in itertools.product(range(n), repeat=k):
                for mode in (0, 1):
                    reqs.append("c15.rtree %d 0 %s" % (mode, prefix(sh, iter(os_), itertools.count(0))))
    yield "trees<=2ops-min/full", reqs
    # all trees with 3 operators (5 shapes x 25^3), minimal parentheses, random leaves; thorough: + random parens/trivia
    reqs = []
    for sh in shapes(3):
        for os_ in itertools.product(range(n), repeat=3):
            leaf = rng.randrange(12)
            reqs.append("c15.rtree 0 %d %s" % (rng.randrange(1, 1 << 30) if rng.random() < 0.5 else 0,
                                               prefix(sh, iter(os_), itertools.count(leaf))))
            if thorough:
                reqs.append("c15.rtree 2 %d %s" % (rng.randrange(1, 1 << 30), prefix(sh, iter(os_), itertools.count(leaf))))
    yield "trees-3ops", reqs
    # random larger operator trees, all modes, random trivia
    reqs = []
    for _ in range(40000 if thorough else 8000):
        k = rng.randrange(4, 9)
        sh = rng.choice(shapes(k)) if k <= 6 else random_shape(rng, k)
        os_ = [rng.randrange(n) for _ in range(k)]
        reqs.append("c15.rtree %d %d %s" % (rng.randrange(3), rng.randrange(1, 1 << 30),
                                            prefix(sh, iter(os_), itertools.count(rng.randrange(12)))))
    yield "trees-4to8ops-random", reqs
    # random terms of the whole surface syntax (all shorthand forms), all modes, random trivia
    reqs = ["c15.rand %d %d %d" % (rng.randrange(1, 1 << 30), i % 10, i % 3) for i in range(60000 if thorough else 12000)]
    yield "full-syntax-random", reqs


def random_shape(rng, k):
    if k == 0:
        return None
    l = rng.randrange(k)
    return (random_shape(rng, l), random_shape(rng, k - 1 - l))


# every documented shorthand (and the constructs that extend to the right), with holes for operands
SUGAR = [
    ".a.b", ".a.b.c", '."a"', '."a"."b"', '.["a"]', '.a["b"]', '.a.["b"]', '."a".b', '.a."b"?', ".a?.b?", "{X}.a", "X.a", "X.a.b", 'X."a"',
    "X[]", "X[]?", "X[][]", "X?", "X??", "X?[]", "-X?", "-X[]", "-X.a", "-X?.a", "- -X", "..", "..?", "..[]", ".. | X",
    "{a}", "{a, b}", "{$x}", "{$x, a}", '{"a"}', '{"a\\(X)": Y}', '{"a\\(X)"}', "{(X): Y}", "{(X, Y): Z}", "{(X): Y, (Z): X}",
    "{a: X}", "{a: X | Y}", "{a: X, b: Y}", "{a: (X, Y)}", "{if: X}", "{then: X, else: Y, end: Z}", "{and: X}", "{or}", "{reduce}", "{def: X}",
    '{@json "a": X}', '{@base64 "a\\(X)"}', "{$x: X}", "{$__loc__}", "{a: X,}", "{a,}",
    "if X then Y end", "if X then Y else Z end", "if X then Y elif Z then X end", "if X then Y elif Z then X else Y end",
    "if X then Y elif Z then X elif Y then Z else X end", "if X then Y end?", "if X then Y end.a", "if X, Y then Z | X end",
    '"a\\(X)b"', '"\\(X)"', '"\\(X)\\(Y)"', '"a\\(X)b\\(Y)c"', '"\\(X | Y, Z)"', '"\\("\\(X)")"', '@json "a\\(X)"', '@base64 "\\(X)"', "@json", "@text X",
    '"\\u00e9\\n\\t\\\\\\"\\/\\b\\f\\r"', '"a" "b"',
    "def f($x): X; Y", "def f($x; $y): X; Y", "def f(g; $x): X; Y", "def f: X; Y", "def f: X; def g: Y; Z", "def f: def g: X; Y; Z",
    "X | def f: Y; Z", "X + def f: Y; Z | X", "def f: X; Y, Z", "def f(g): X; f(Y)",
    "X as $x | Y", "X as [$x] | Y", "X as [$x, $y] | Y", "X as {a: $x} | Y", "X as {$x} | Y", "X as {$x, b: [$y]} | Y", 'X as {"a": $x} | Y',
    'X as {"a\\(Z)": $x} | Y', "X as {(Z): $x} | Y", 'X as {@json "a": $x} | Y', "X as {if: $x} | Y", "X as [[$x], {a: {b: $y}}] | Y", "X as {a: $x,} | Y",
    "X as $x | Y as $y | Z", "X as $x | Y | Z", "X | Y as $x | Z", "X, Y as $x | Z", "X + Y as $x | Z", "X as $x | Y, Z", "X = Y as $x | Z",
    "X as $x | Y + Z", "(X as $x | Y) | Z", "(X as $x | Y), Z", "[X as $x | Y, Z]", "{a: X as $x | Y}",
    "reduce X as $x (Y; Z)", "foreach X as $x (Y; Z)", "foreach X as $x (Y; Z; X)", "reduce X as [$x, $y] (Y; Z)", "reduce X as $x (Y; Z) | X",
    "reduce -X as $x (Y; Z)", "reduce X? as $x (Y; Z)", "reduce X.a as $x (Y; Z)", "reduce X as $x (Y; Z)?", "reduce X as $x (Y; Z).a",
    "reduce X as $x (Y)", "reduce X as $x", "foreach X as $x (Y; Z; X; Y)", "reduce X as $x (Y; Z) + X", "X + reduce Y as $x (Z; X)",
    "try X", "try X catch Y", "try X catch Y | Z", "try X | Y", "try -X", "try X?", "try X.a", "try try X catch Y catch Z", "try X catch try Y", "try (X, Y)",
    "X + try Y catch Z + X", "try X + Y", "try X catch Y?", "(try X)?", "try (X?)",
    "label $x | X", "label $x | X | Y", "X | label $x | Y, Z", "label $x | break $x", "X + label $x | Y", "break $x", "break $x | X", "[label $x | X, Y]",
    "X[Y]", "X[Y:Z]", "X[Y:]", "X[:Z]", "X[Y]?", "X[Y:Z]?", ".[X]", ".[X:Y]", ".[]", ".[]?", ".[X]?.a", ".[X | Y]", ".[X, Y]", ".[X:Y, Z]",
    "X.[Y]", "X.[]", "f(X)", "f(X; Y)", "f(X; Y; Z)", "f(X | Y; Z, X)", "f(def g: X; Y)", "a::b(X)", "a::b", "$x", "$__loc__", "f[X]", "f(X)[Y]", "f(X).a?",
    "[X]", "[X, Y]", "[X | Y]", "[]", "{}", "[[X]]", "[X][Y]", "(X)", "((X))", "(X).a", "(X)?", "(X)[Y]", "(X, Y) | Z", "X | (Y, Z)",
    "X // Y", "X //= Y", "X // Y // Z", "X or Y and Z", "X and Y or Z", "X == Y != Z", "X < Y <= Z", "X - Y - Z", "X / Y / Z", "X % Y % Z",
    "X = Y = Z", "X |= Y |= Z", "X += Y -= Z", "X | Y | Z", "X , Y , Z", "X * Y + Z", "X + Y * Z", "X - -Y", "X--Y", "X+-Y", "X|-Y", "-X + Y", "-X * -Y",
]

OPERANDS = ["a", "1", "$v", ".", ".k", ".k?", '"s"', "f(0)", "[]", "{}", "-3", "..", ".[0]", "(1, 2)", "(a | b)", ".a.b", "[1]", "{a: 1}",
            "if a then b end", "try a", "reduce a as $x (0; 1)", "1.5e3", '"x\\(1)"', "@json", "a::b", "$__loc__", "(a as $x | b)",
            "def f: 1; 2", "label $l | 1", "a as $x | b", "1, 2", "1 | 2", "1 + 2", "- 1", "a?", "break $l"]


def fill(tmpl, xs):
    return tmpl.replace("X", "\0X").replace("Y", "\0Y").replace("Z", "\0Z") \
        .replace("\0X", xs[0]).replace("\0Y", xs[1]).replace("\0Z", xs[2])


def sugar_shapes(rng, thorough):
    out = []
    for tmpl in SUGAR:
        holes = [h for h in "XYZ" if h in tmpl]
        if not holes:
            out.append(tmpl)
            continue
        # every operand shape in every single hole (others fixed), plus random combinations
        for i, h in enumerate(holes):
            for o in OPERANDS:
                xs = ["a", "b", "c"]
                xs["XYZ".index(h)] = o
                out.append(fill(tmpl, xs))
        for _ in range(30 if thorough else 8):
            out.append(fill(tmpl, [rng.choice(OPERANDS) for _ in range(3)]))
    return out


VOCAB = [".", "..", ".a", "a", "f", "$x", "1", "2.5", '"s"', '"a\\(1)b"', "@json", "|", ",", "as", "=", "|=", "+=", "//", "//=", "or", "and", "==",
         "<", "+", "-", "*", "/", "%", "?", ":", ";", "(", ")", "[", "]", "{", "}", "if", "then", "elif", "else", "end", "try", "catch",
         "reduce", "foreach", "def", "label", "break", "$__loc__", "::", "a::b", "#c\n", "# c \\\n d\n", "!=", "<=", "-=", "=!", "&", "1e", "1.", "\\", "'",
         '"', "@", "$", "not", "import", "include", "module", "__loc__", "..a", "...", "?//", "\n", "\t", " ", "é", "0x1", "1e+", "\\(", '"\\u12"', '"\\ud800"', '"\\x"']


def soups(rng, n):
    out = []
    for _ in range(n):
        k = rng.randrange(1, 9)
        toks = [rng.choice(VOCAB) for _ in range(k)]
        sep = rng.choice(["", " ", " ", " "])
        out.append(sep.join(toks))
    # balanced-ish soups: a valid skeleton with one token replaced / inserted / deleted
    skel = ["a", "|", "b", ",", "[", "c", "+", "1", "]", "as", "$x", "|", "{", "k", ":", ".", "[", "0", "]", "?", "}", "//", "if", "d", "then",
            "e", "else", "f", "(", "g", ";", "h", ")", "end"]
    for _ in range(n // 3):
        s = list(skel)
        for _ in range(rng.randrange(1, 3)):
            i = rng.randrange(len(s))
            c = rng.randrange(3)
            if c == 0:
                s[i] = rng.choice(VOCAB)
            elif c == 1:
                s.insert(i, rng.choice(VOCAB))
            else:
                del s[i]
        a = rng.randrange(len(s))
        b = rng.randrange(a, len(s) + 1)
        out.append(" ".join(s[a:b] if rng.random() < 0.5 else s))
    return out


def mutations(texts, rng, per_text):
    """character- and token-level mutations of manual examples (mostly still lexable)"""
    ins = [" ", "\n", "#x\n", "# \\\n y\n", "(", ")", "?", ".", "|", ",", "-", "as $v |", "[]", ";", ":", '"', "\\", "=", "//", " and ", "1", "e", "$", "@", "::"]
    out = []
    for t in texts:
        if not t.strip() or len(t) > 400:
            continue
        for _ in range(per_text):
            s = t
            for _ in range(rng.randrange(1, 3)):
                c = rng.randrange(4)
                i = rng.randrange(len(s) + 1)
                if c == 0:
                    s = s[:i] + rng.choice(ins) + s[i:]
                elif c == 1 and s:
                    j = min(len(s), i + rng.randrange(1, 3))
                    s = s[:i] + s[j:]
                elif c == 2 and s:
                    j = rng.randrange(len(s) + 1)
                    a, b = min(i, j), max(i, j)
                    s = s[:a] + s[a:b][::-1] + s[b:] if b - a < 6 else s[:a] + "(" + s[a:b] + ")" + s[b:]
                else:
                    s = s.replace(" ", rng.choice(["", "  ", "\n", " #c\n"]), 1)
            out.append(s)
    return out


LEXEMES = ["a", "a1", "_", "m::f", "m::$v", "m::@f", "m::f::g", "m::_", "$x", "$_1", "@f", "@base64d", "1", "10", "1.5", "1e3", "1e+3", "1E-3", "1.5e3", "0.0E0",
           ".", "..", ".a", "._a", ".a1", "+", "-", "<", "<=", "=", "==", "!=", "//", "//=", "|", "|=", "*", "%", ":", ";", ",", "?",
           '"s"', '""', '"a\\(1)b"', '"\\u00e9\\n"', "(1)", "[1]", "{}", "( )", "[ # c\n ]"]
FOLLOWERS = ["", " ", "a", "_", "1", ".", "..", ".a", "e", "E", "e1", "e+1", "+", "-", "=", "|", "<", "/", "%", "!", "::", ":", "::b", "::$b", "::@b", "::1",
             "#c\n", "#c", "# c \\\n d", "\n", "\r\n", "\u00a0", "\u2003", "\u200b", "(", ")", "[", "]", "}", '"t"', "$y", "@g", "?", ";", ",", "\\", "$", "@"]


def lexemes(rng, thorough):
    """every lexeme class followed immediately by every kind of character that could (or could not) be glued to it:
    the separation condition `Token.glues` of Layout.lean, exercised exhaustively against the real lexer"""
    out = []
    for l in LEXEMES:
        for f in FOLLOWERS:
            out.append(l + f)
            out.append("[" + l + f + " ]")
            out.append('"\\(' + l + f + ' )"')
    for _ in range(6000 if thorough else 1500):
        k = rng.randrange(2, 6)
        out.append("".join(rng.choice(LEXEMES + FOLLOWERS) for _ in range(k)))
    return out
