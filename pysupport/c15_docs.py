"""Extraction of code spans / examples from the manual (docs/*.dj), at run time."""
import glob, os, re


def code_spans(repo):
    """All code spans (inline and fenced) of docs/*.dj; for spans with `-->` also the part before it."""
    out = []
    for p in sorted(glob.glob(os.path.join(repo, "docs", "*.dj"))):
        src = open(p, encoding="utf-8").read()
        spans = []
        for m in re.finditer(r"^(`{3,})[^\n]*\n(.*?)^\1", src, re.M | re.S):
            spans.append(m.group(2))
        src2 = re.sub(r"^(`{3,})[^\n]*\n(.*?)^\1", "", src, flags=re.M | re.S)
        for m in re.finditer(r"(`+)(.+?)\1", src2, re.S):
            spans.append(m.group(2))
        for s in spans:
            if "-->" in s:
                a, b = s.split("-->", 1)
                out.append((os.path.basename(p), "example", a))
                out.append((os.path.basename(p), "output", b))
            else:
                out.append((os.path.basename(p), "span", s))
    return out
