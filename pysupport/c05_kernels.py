"""C05: Lean theorems + correspondence of the kernels (proof part of the check)."""
import verif

# Both defects of round 1 are repaired in the tree (496d12c implode, 5b5826b lexer): `c05.implode` and `c05.space`
# answer with the model of the CURRENT code; the models of the tree as found (`-asfound`) are asked as well, so that the
# evidence shows on which cases the two differ (exactly the cases that used to panic).
ASFOUND_VARIANT = {"c05.implode": "c05.implode-asfound", "c05.space": "c05.space-asfound"}
PANIC_KEY = {"c05.implode": "panic:%s:implode/0", "c05.space": "report:span:lex-report",
             "c05.regexoff": "panic:%s:matches/2", "c05.envshape": "panic:%s:native-env-shape", "c05.cwalk": "panic:%s:compile-locals"}


def run(ctx):
    ctx.build_model()
    proof = ctx.lean_check()
    ctx.log("lean:", "ok" if proof["ok"] else "BROKEN", len(proof["theorems"]), "theorems")
    import os
    out = ctx.harness(["c05", "kernels", "--docs", os.path.join(verif.REPO, "docs")])
    cases = [l.split("\t") for l in out.splitlines() if l]
    cases = [c + [""] * (4 - len(c)) for c in cases if len(c) >= 3]
    reqs = [c[1] for c in cases]
    old_reqs = [(ASFOUND_VARIANT[r.split(" ")[0]] + " " + r.split(" ", 1)[1]) if r.split(" ")[0] in ASFOUND_VARIANT else r for r in reqs]
    ans = ctx.model(reqs)
    ans_old = ctx.model(old_reqs)
    bad = panics = differs_from_asfound = 0
    per_op = {}
    for (cid, req, real, site), m, mo in zip(cases, ans, ans_old):
        op = req.split(" ")[0]
        per_op[op] = per_op.get(op, 0) + 1
        defect = real == "P" or real == "detached"
        if defect:
            panics += 1
            # the real code panics / reports a span outside the text: a violation whatever the model says
            key = PANIC_KEY.get(op, "panic:%s:" + op)
            key = key % site if "%s" in key else key
            what = ("kernel `%s`: the real code panics (%s)" % (req[:200], site)) if real == "P" else \
                   ("lexer `space` leaves a string that is not part of the filter text (the reported span is outside): `%s`" % req[:200])
            ctx.violation(key, what, {"sweep": "kernel", "request": req[:400], "real": real, "model_current": m, "model_as_found": mo})
        if m != mo:
            differs_from_asfound += 1
        if real == m:
            continue
        bad += 1
        if bad <= 20:
            ctx.violation("c05-corr:" + req[:200], "kernel correspondence: real code and proved model disagree on `%s`" % req[:200],
                          {"sweep": "kernel", "case_id": cid, "request": req[:400], "real": real, "model_current": m, "model_as_found": mo},
                          broken=["correspondence c05-kernels"])
    ctx.log("kernel correspondence: %d cases, %d disagreements, %d real panics/detached spans, %d cases on which the tree as found differed (panicked)"
            % (len(cases), bad, panics, differs_from_asfound))
    by_op = {}
    for c in cases:
        by_op.setdefault(c[1].split(" ")[0], []).append(c)
    samples = [{"request": c[1][:300], "real": c[2]} for op in sorted(by_op) for c in by_op[op][:1]]
    return {"cases": len(cases), "per_op": per_op, "disagreements": bad, "real_panics": panics,
            "cases_where_tree_as_found_panicked": differs_from_asfound, "traces_validated_against_impl": len(cases), "samples": samples}
