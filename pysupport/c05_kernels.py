"""C05: Lean theorems + correspondence of the kernels (proof part of the check)."""
import verif

# ops whose model exists for the CURRENT tree and for the repaired tree (design/fixes/C05-*.diff):
# the real code must agree with one of them; agreeing with the current model on a panic is the defect itself.
FIXED_VARIANT = {"c05.implode": "c05.implode-fixed", "c05.space": "c05.space-fixed"}
PANIC_KEY = {"c05.implode": "panic:%s:implode/0", "c05.space": "report:span:lex-report"}


def run(ctx):
    ctx.build_model()
    proof = ctx.lean_check()
    ctx.log("lean:", "ok" if proof["ok"] else "BROKEN", len(proof["theorems"]), "theorems")
    out = ctx.harness(["c05", "kernels"])
    cases = [l.split("\t") for l in out.splitlines() if l]
    cases = [c + [""] * (4 - len(c)) for c in cases if len(c) >= 3]
    reqs = [c[1] for c in cases]
    fixed_reqs = [(FIXED_VARIANT[r.split(" ")[0]] + " " + r.split(" ", 1)[1]) if r.split(" ")[0] in FIXED_VARIANT else r for r in reqs]
    ans = ctx.model(reqs)
    ans_fixed = ctx.model(fixed_reqs)
    bad = panics = fixed_seen = 0
    per_op = {}
    for (cid, req, real, site), m, mf in zip(cases, ans, ans_fixed):
        op = req.split(" ")[0]
        per_op[op] = per_op.get(op, 0) + 1
        defect = real == "P" or real == "detached"
        if defect:
            panics += 1
            # the real code panics / reports a span outside the text: a violation whatever the model says
            key = PANIC_KEY.get(op, "panic:%s:" + op)
            key = key % site if "%s" in key else key
            what = ("kernel `%s`: the real code panics (%s)" % (req, site)) if real == "P" else \
                   ("lexer `space` leaves a string that is not part of the filter text (the reported span is outside): `%s`" % req)
            ctx.violation(key, what, {"sweep": "kernel", "request": req, "real": real, "model_current": m, "model_fixed": mf})
        if real == m:
            continue
        if real == mf:
            fixed_seen += 1          # the repaired behaviour: the fix has been applied to the tree
            continue
        bad += 1
        if bad <= 20:
            ctx.violation("c05-corr:" + req, "kernel correspondence: real code and proved model disagree on `%s`" % req,
                          {"sweep": "kernel", "case_id": cid, "request": req, "real": real, "model_current": m, "model_fixed": mf},
                          broken=["correspondence c05-kernels"])
    ctx.log("kernel correspondence: %d cases, %d disagreements, %d real panics/detached spans, %d cases follow the repaired model"
            % (len(cases), bad, panics, fixed_seen))
    samples = [{"request": c[1], "real": c[2]} for c in (cases[:2] + cases[len(cases) // 2: len(cases) // 2 + 2] + cases[-2:])]
    return {"cases": len(cases), "per_op": per_op, "disagreements": bad, "real_panics": panics,
            "cases_following_repaired_model": fixed_seen, "traces_validated_against_impl": len(cases), "samples": samples}
