//! C19 — thread tests and compile-time facts (own crate of property C19, see Cargo.toml.in).
//!
//! Compile-time facts: the functions in `static_facts` make this crate FAIL TO BUILD when
//! `Filter`/`Lut` stop being `Send + Sync` (in both configurations) or, with feature `sync`, when
//! `Val` stops being `Send + Sync`.  checks/c19.py turns such a build failure into a VIOLATION.
//!
//!   facts                     : prints the configuration (`sync=…`) and the facts that were compiled
//!   conc <T,T,…> <R>          : cases on stdin (format of `jaqverif c19 gen`); per program: compile
//!                               ONCE, sequential reference, then for every T: T threads run the
//!                               shared filter R times (own context + inputs each), some threads
//!                               compile the same/another program meanwhile and run their own
//!                               filter; feature `sync`: the SAME `Val` inputs (Arc) are shared by
//!                               all threads.  Prints `REF id \t out`, `MISMATCH …`, `STAT …`.
//!   cow                       : `c19.cow` requests on stdin → `id \t request \t real` (Rc or Arc)
#[path = "../../harness/src/common.rs"]
pub mod common;
#[path = "../../harness/src/prng.rs"]
pub mod prng;
#[path = "../../harness/src/vx.rs"]
pub mod vx;
#[allow(dead_code)]
#[path = "../../harness/src/props/c19.rs"]
mod c19;

use c19::Case;
use jaq_all::data::{DataKind, Filter};
use jaq_json::Val;
use std::sync::Barrier;

// ------------------------------------------------------------------ compile-time facts
fn assert_send_sync<T: Send + Sync>() {}

#[allow(dead_code)]
mod static_facts {
    use super::*;
    /// the filter type of the library facade (`jaq_all::data::Filter = jaq_core::Filter<DataKind>`)
    pub fn filter_datakind() {
        assert_send_sync::<Filter>();
        assert_send_sync::<jaq_core::Filter<DataKind>>();
    }
    pub fn lut_datakind() {
        assert_send_sync::<jaq_core::Lut<DataKind>>();
    }
    /// the filter type of the README/doc example (`Ctx::<data::JustLut<Val>>`)
    pub fn filter_justlut() {
        assert_send_sync::<jaq_core::Filter<jaq_core::data::JustLut<Val>>>();
        assert_send_sync::<jaq_core::Lut<jaq_core::data::JustLut<Val>>>();
    }
    pub fn native_and_ids() {
        assert_send_sync::<jaq_core::Native<DataKind>>();
        assert_send_sync::<jaq_core::compile::TermId>();
    }
    pub fn references_cross_threads() {
        fn assert_send<T: Send>() {}
        assert_send::<&Filter>();
        assert_send::<&jaq_core::Lut<DataKind>>();
    }
    /// values in their thread-safe representation
    #[cfg(feature = "sync")]
    pub fn val_sync() {
        assert_send_sync::<Val>();
        assert_send_sync::<jaq_json::Num>();
        assert_send_sync::<jaq_json::Map>();
        assert_send_sync::<Vec<Val>>();
        assert_send_sync::<jaq_json::Error>();
    }
}

pub const SYNC: bool = cfg!(feature = "sync");

// ------------------------------------------------------------------------- concurrency

fn compile_caught(prog: &str) -> Option<Filter> {
    common::catch(|| common::compile(prog)).ok()?.ok()
}

struct Group {
    prog: String,
    cases: Vec<Case>,
}

fn groups(cases: Vec<Case>) -> Vec<Group> {
    let mut gs: Vec<Group> = Vec::new();
    for c in cases {
        match gs.last_mut() {
            Some(g) if g.prog == c.prog => g.cases.push(c),
            _ => gs.push(Group { prog: c.prog.clone(), cases: vec![c] }),
        }
    }
    gs
}

#[derive(Default)]
struct Stat {
    programs: usize,
    cases: usize,
    runs: usize,
    compiles: usize,
    mismatches: usize,
    shared_val_runs: usize,
}

/// what one thread reports
#[derive(Default)]
struct Report {
    runs: usize,
    compiles: usize,
    shared_val_runs: usize,
    mismatches: Vec<String>,
}

fn conc(ts: &[usize], reps: usize) {
    let gs = groups(c19::read_cases());
    let mut st = Stat::default();
    // compile every program ONCE; sequential reference on this thread, nothing else running
    let filters: Vec<Option<Filter>> = gs.iter().map(|g| compile_caught(&g.prog)).collect();
    let mut refs: Vec<Vec<String>> = Vec::new();
    for (g, f) in gs.iter().zip(&filters) {
        st.programs += 1;
        match f {
            None => {
                for c in &g.cases {
                    println!("REF\t{}\tCOMPILE-ERROR", c.id);
                }
                refs.push(Vec::new());
            }
            Some(f) => {
                st.compiles += 1;
                let r: Vec<String> = g.cases.iter().map(|c| c19::run_case(f, c)).collect();
                for (c, o) in g.cases.iter().zip(&r) {
                    println!("REF\t{}\t{}", c.id, o);
                    st.cases += 1;
                }
                refs.push(r);
            }
        }
    }
    // values shared between the threads (only expressible when `Val: Sync`)
    #[cfg(feature = "sync")]
    let shared: Vec<Vec<(Val, Vec<Val>)>> = gs
        .iter()
        .map(|g| g.cases.iter().map(|c| (c19::parse_json(&c.input), c.inputs.iter().map(|s| c19::parse_json(s)).collect())).collect())
        .collect();
    for &t in ts {
        let barrier = Barrier::new(t);
        let (gs, filters, refs, barrier) = (&gs, &filters, &refs, &barrier);
        #[cfg(feature = "sync")]
        let shared = &shared;
        let reports: Vec<Report> = std::thread::scope(|s| {
            let hs: Vec<_> = (0..t)
                .map(|k| {
                    s.spawn(move || {
                        let mut rep = Report::default();
                        for (gi, g) in gs.iter().enumerate() {
                            let Some(filter) = &filters[gi] else { continue };
                            let cases = &g.cases;
                            // all threads start on the same shared filter at the same time
                            barrier.wait();
                            for r in 0..reps {
                                // threads that compile while the others run (first repetition only)
                                let compiler_thread = r == 0 && t >= 4 && k % 8 == 3;
                                let own = if compiler_thread {
                                    if k == 3 {
                                        let _other = compile_caught(&gs[(gi + 1) % gs.len()].prog);
                                        rep.compiles += 1;
                                    }
                                    rep.compiles += 1;
                                    compile_caught(&g.prog)
                                } else {
                                    None
                                };
                                let (f, mode): (&Filter, &'static str) = match &own {
                                    Some(f) => (f, "compiled-concurrently"),
                                    None => (filter, "shared-filter"),
                                };
                                for j in 0..cases.len() {
                                    let ci = (j + k + r) % cases.len();
                                    #[allow(unused_mut)]
                                    let mut done = None;
                                    #[cfg(feature = "sync")]
                                    {
                                        if (k + r) % 2 == 0 {
                                            let (i, ins) = &shared[gi][ci];
                                            rep.shared_val_runs += 1;
                                            done = Some(("shared-filter+shared-values", c19::run_filter(f, i.clone(), ins.clone())));
                                        }
                                    }
                                    let (mode, out) = done.unwrap_or_else(|| (mode, c19::run_case(f, &cases[ci])));
                                    rep.runs += 1;
                                    if out != refs[gi][ci] {
                                        rep.mismatches.push(format!(
                                            "MISMATCH\t{}\tT={}\tthread={}\tmode={}\texpected={}\tgot={}",
                                            cases[ci].line(), t, k, mode, refs[gi][ci], out
                                        ));
                                    }
                                }
                            }
                        }
                        rep
                    })
                })
                .collect();
            hs.into_iter()
                .map(|h| h.join().unwrap_or_else(|_| Report { mismatches: vec![format!("MISMATCH\t-\t-\t-\t-\tT={t}\tthread=?\tmode=thread-panicked\texpected=-\tgot=THREAD-PANIC")], ..Report::default() }))
                .collect()
        });
        for rep in reports {
            st.runs += rep.runs;
            st.compiles += rep.compiles;
            st.shared_val_runs += rep.shared_val_runs;
            for m in rep.mismatches {
                st.mismatches += 1;
                if st.mismatches <= 60 {
                    println!("{m}");
                }
            }
        }
    }
    // the shared inputs must still be what they were (nobody wrote through the Arc)
    #[cfg(feature = "sync")]
    for (g, sh) in gs.iter().zip(shared.iter()) {
        for (c, (i, ins)) in g.cases.iter().zip(sh.iter()) {
            let same = vx::enc(i) == vx::enc(&c19::parse_json(&c.input))
                && ins.iter().zip(&c.inputs).all(|(v, s)| vx::enc(v) == vx::enc(&c19::parse_json(s)));
            if !same {
                st.mismatches += 1;
                println!("MISMATCH\t{}\tT=-\tthread=-\tmode=shared-input-changed\texpected={}\tgot={}", c.line(), c.input, vx::enc(i));
            }
        }
    }
    // moving a filter to another thread and running it there (Send)
    for (gi, g) in gs.iter().enumerate() {
        if gi % 8 != 0 || refs[gi].is_empty() {
            continue;
        }
        if let Some(f2) = compile_caught(&g.prog) {
            let c0 = g.cases[0].clone();
            let out = std::thread::spawn(move || c19::run_case(&f2, &c0)).join().unwrap_or_else(|_| "THREAD-PANIC".into());
            st.runs += 1;
            st.compiles += 1;
            if out != refs[gi][0] {
                st.mismatches += 1;
                println!("MISMATCH\t{}\tT=1\tthread=0\tmode=moved-filter\texpected={}\tgot={}", g.cases[0].line(), refs[gi][0], out);
            }
        }
    }
    println!(
        "STAT conc sync={} programs={} cases={} runs={} compiles={} shared_value_runs={} mismatches={}",
        SYNC, st.programs, st.cases, st.runs, st.compiles, st.shared_val_runs, st.mismatches
    );
}

fn main() {
    std::panic::set_hook(Box::new(|_| {}));
    let args: Vec<String> = std::env::args().skip(1).collect();
    match args.first().map(|s| s.as_str()) {
        Some("facts") => {
            println!("sync={SYNC}");
            println!("fact Filter<DataKind>: Send + Sync");
            println!("fact Lut<DataKind>: Send + Sync");
            println!("fact Filter<JustLut<Val>>: Send + Sync");
            println!("fact Native<DataKind>, TermId: Send + Sync");
            println!("fact &Filter: Send");
            if SYNC {
                println!("fact Val, Num, Map, Vec<Val>, Error: Send + Sync (feature sync)");
            }
        }
        Some("conc") => {
            let ts: Vec<usize> = args.get(1).map(|s| s.split(',').filter_map(|x| x.parse().ok()).collect()).unwrap_or_else(|| vec![2, 4, 8, 16]);
            let reps = args.get(2).and_then(|s| s.parse().ok()).unwrap_or(2);
            conc(&ts, reps);
        }
        Some("cow") => {
            use std::io::BufRead;
            for (i, l) in std::io::stdin().lock().lines().enumerate() {
                let l = l.unwrap();
                let real = common::catch(|| c19::cow_real(&l)).unwrap_or_else(|p| format!("PANIC {p}"));
                println!("cow{i}\t{l}\t{real}");
            }
        }
        _ => {
            eprintln!("usage: jaqverif-c19 facts | conc <T,…> <R> | cow");
            std::process::exit(2);
        }
    }
}
