"""Orchestration framework shared by all property checks (see DESIGN.md §4).

A check module `checks/cXX.py` defines `run(ctx)`.  It uses `ctx` to
  * rebuild the Rust harness / the jaq CLI against /repo's *current* working tree,
  * regenerate Lean tables (translator) and rebuild + audit the Lean theorems,
  * run the compiled Lean model driver on request lines (correspondence),
  * record violations (matched against known_findings.json) and evidence.
Only the Python standard library is used.
"""
import fcntl
import hashlib
import json
import os
import re
import subprocess
import sys
import time

VERIF = os.path.dirname(os.path.dirname(os.path.abspath(__file__)))
REPO = os.environ.get("JAQ_REPO", "/repo")
LEAN = os.path.join(VERIF, "lean")
HARNESS = os.path.join(VERIF, "harness")
ALLOWED_AXIOMS = {"propext", "Classical.choice", "Quot.sound"}
FORBIDDEN = re.compile(
    r"\b(sorry|admit|native_decide|bv_decide|implemented_by|unsafe)\b|^\s*axiom\s|maxHeartbeats\s+0\b",
    re.M,
)

OFFLINE_ENV = {"CARGO_NET_OFFLINE": "true", "GOPROXY": "off", "PIP_NO_INDEX": "1"}


class CheckError(Exception):
    """The machinery itself failed (not a verdict about the property)."""


def sh(cmd, cwd=None, timeout=None, env=None, input=None, check=False):
    e = dict(os.environ)
    e.update(OFFLINE_ENV)
    if env:
        e.update(env)
    p = subprocess.run(
        cmd, cwd=cwd, timeout=timeout, env=e, input=input,
        stdout=subprocess.PIPE, stderr=subprocess.STDOUT, text=True, errors="replace",
    )
    if check and p.returncode != 0:
        raise CheckError("command failed (%d): %s\n%s" % (p.returncode, cmd, p.stdout[-4000:]))
    return p.returncode, p.stdout


class BuildLock:
    """Serialises cargo / lake builds between concurrently running checks."""

    def __init__(self, name):
        self.path = os.path.join(VERIF, ".lock-" + name)

    def __enter__(self):
        self.f = open(self.path, "w")
        fcntl.flock(self.f, fcntl.LOCK_EX)
        return self

    def __exit__(self, *a):
        fcntl.flock(self.f, fcntl.LOCK_UN)
        self.f.close()


def strip_lean_comments(src):
    """Remove `--` line comments and (nested) `/- -/` block comments."""
    out = []
    i, n, depth = 0, len(src), 0
    while i < n:
        if src.startswith("/-", i):
            depth += 1
            i += 2
        elif depth and src.startswith("-/", i):
            depth -= 1
            i += 2
        elif depth:
            i += 1
        elif src.startswith("--", i):
            j = src.find("\n", i)
            i = n if j < 0 else j
        elif src[i] == '"':
            j = i + 1
            while j < n and src[j] != '"':
                j += 2 if src[j] == "\\" else 1
            out.append('""')
            i = j + 1
        else:
            out.append(src[i])
            i += 1
    return "".join(out)


def lean_theorems(path):
    """Fully qualified names of the theorems declared in a Lean file (namespace aware)."""
    src = strip_lean_comments(open(path).read())
    ns, names = [], []
    for line in src.splitlines():
        m = re.match(r"\s*namespace\s+(\S+)", line)
        if m:
            ns.append(m.group(1))
            continue
        m = re.match(r"\s*end\s+(\S+)\s*$", line)
        if m and ns and ns[-1] == m.group(1):
            ns.pop()
            continue
        m = re.match(r"\s*(?:@\[[^\]]*\]\s*)*(?:private\s+|protected\s+)?theorem\s+([^\s:({\[]+)", line)
        if m:
            nm = m.group(1)
            names.append(nm if nm.startswith("_root_.") else ".".join(ns + [nm]))
    return names


def lean_imports_closure(module, seen=None):
    """Transitive closure of project-local imports of a Lean module (paths)."""
    seen = seen if seen is not None else {}
    path = os.path.join(LEAN, module.replace(".", "/") + ".lean")
    if module in seen or not os.path.exists(path):
        return seen
    seen[module] = path
    for line in open(path):
        m = re.match(r"\s*(?:public\s+)?import\s+(\S+)", line)
        if m and (m.group(1).startswith("JaqVerif") or m.group(1).startswith("Driver")):
            lean_imports_closure(m.group(1), seen)
    return seen


class Ctx:
    def __init__(self, prop, tier, seed, replay=None):
        self.prop = prop
        self.tier = tier
        self.seed = seed
        self.replay = replay
        self.t0 = time.time()
        self.violations = []      # dicts: key, what, replay(dict)
        self.notes = []
        self.coverage = {}
        self.assumptions = []
        self.proof = None         # filled by lean_check
        self.broken = []          # names of theorems / correspondences that no longer check
        self.level = "proof"
        os.makedirs(os.path.join(VERIF, "evidence"), exist_ok=True)
        os.makedirs(os.path.join(VERIF, "replays"), exist_ok=True)

    # ------------------------------------------------------------------ builds
    def log(self, *a):
        print("[%s %6.1fs]" % (self.prop, time.time() - self.t0), *a, file=sys.stderr, flush=True)

    def build_harness(self):
        """cargo build of the harness against /repo's working tree (hooks on)."""
        with BuildLock("cargo"):
            lock_src = os.path.join(REPO, "Cargo.lock")
            lock_dst = os.path.join(HARNESS, "Cargo.lock")
            if not os.path.exists(lock_dst):
                import shutil
                shutil.copy(lock_src, lock_dst)
            rc, out = sh(["cargo", "build", "--offline"], cwd=HARNESS, timeout=1800)
            if rc != 0:
                raise CheckError("harness does not build against /repo:\n" + out[-6000:])
        self.harness_bin = os.path.join(HARNESS, "target", "debug", "jaqverif")
        return self.harness_bin

    def build_jaq(self):
        """Build the jaq CLI from /repo's working tree into the harness target directory."""
        with BuildLock("cargo"):
            rc, out = sh(
                ["cargo", "build", "--offline", "--manifest-path", os.path.join(REPO, "jaq", "Cargo.toml"),
                 "--target-dir", os.path.join(HARNESS, "target-cli")],
                cwd=HARNESS, timeout=1800)
            if rc != 0:
                raise CheckError("jaq CLI does not build:\n" + out[-6000:])
        self.jaq_bin = os.path.join(HARNESS, "target-cli", "debug", "jaq")
        return self.jaq_bin

    def harness(self, args, input=None, timeout=3600, check=True):
        e = {"VERIF_SEED": str(self.seed), "VERIF_TIER": self.tier}
        p = subprocess.run([self.harness_bin] + list(args), input=input, timeout=timeout,
                           env={**os.environ, **OFFLINE_ENV, **e},
                           stdout=subprocess.PIPE, stderr=subprocess.PIPE, text=True, errors="replace")
        if check and p.returncode != 0:
            raise CheckError("harness %s failed (%d): %s" % (args, p.returncode, p.stderr[-3000:]))
        return p.stdout

    def write_gen(self, name, content):
        """Write lean/JaqVerif/Gen/<name>.lean if its content changed (translator output)."""
        d = os.path.join(LEAN, "JaqVerif", "Gen")
        os.makedirs(d, exist_ok=True)
        path = os.path.join(d, name + ".lean")
        old = open(path).read() if os.path.exists(path) else None
        if old != content:
            with open(path, "w") as f:
                f.write(content)
            return True
        return False

    def lake_build(self, targets, timeout=3000):
        with BuildLock("lake"):
            rc, out = sh(["lake", "build"] + list(targets), cwd=LEAN, timeout=timeout)
        return rc == 0, out

    def build_model(self):
        ok, out = self.lake_build(["jaqmodel"])
        if not ok:
            raise CheckError("model driver does not build:\n" + out[-6000:])
        self.model_bin = os.path.join(LEAN, ".lake", "build", "bin", "jaqmodel")
        return self.model_bin

    def lean_check(self, modules=None, extra_theorem_files=None):
        """Build Props/<prop>.lean, scan its import closure for forbidden constructs and
        `#print axioms` every theorem in it.  Returns dict(ok, theorems, failed, log)."""
        prop_mod = "JaqVerif.Props." + self.prop
        modules = modules or [prop_mod]
        ok, out = self.lake_build(modules)
        res = {"ok": ok, "theorems": [], "bad_axioms": {}, "forbidden": [], "log": out[-8000:] if not ok else ""}
        closure = {}
        for m in modules:
            lean_imports_closure(m, closure)
        for m, path in closure.items():
            src = strip_lean_comments(open(path).read())
            for hit in FORBIDDEN.finditer(src):
                res["forbidden"].append("%s: %s" % (m, hit.group(0).strip()))
        thm_files = [os.path.join(LEAN, m.replace(".", "/") + ".lean") for m in modules]
        names = []
        for p in thm_files + list(extra_theorem_files or []):
            names += lean_theorems(p)
        res["theorems"] = names
        if ok and names:
            os.makedirs(os.path.join(LEAN, "Audit"), exist_ok=True)
            audit = os.path.join(LEAN, "Audit", self.prop + ".lean")
            with open(audit, "w") as f:
                for m in modules:
                    f.write("import %s\n" % m)
                for n in names:
                    f.write("#print axioms %s\n" % n)
            with BuildLock("lake"):
                rc, aout = sh(["lake", "env", "lean", audit], cwd=LEAN, timeout=1200)
            axioms = {}
            for m in re.finditer(r"'([^']+)' depends on axioms: \[([^\]]*)\]", aout):
                axioms[m.group(1)] = {a.strip() for a in m.group(2).replace("\n", " ").split(",") if a.strip()}
            for m in re.finditer(r"'([^']+)' does not depend on any axioms", aout):
                axioms[m.group(1)] = set()
            for n in names:
                if n not in axioms:
                    res["bad_axioms"][n] = ["<not reported by #print axioms>"]
                elif not axioms[n] <= ALLOWED_AXIOMS:
                    res["bad_axioms"][n] = sorted(axioms[n] - ALLOWED_AXIOMS)
            if rc != 0:
                res["ok"] = False
                res["log"] = aout[-4000:]
        if res["forbidden"] or res["bad_axioms"]:
            res["ok"] = False
        if self.tier == "thorough" and ok:
            with BuildLock("lake"):
                rc, cout = sh(["lake", "env", "leanchecker"] + modules, cwd=LEAN, timeout=3000)
            res["leanchecker"] = "ok" if rc == 0 else cout[-2000:]
            if rc != 0:
                res["ok"] = False
        self.proof = res
        return res

    def model(self, requests, timeout=3600):
        """Run the compiled Lean driver on request lines; returns the answer lines."""
        if not requests:
            return []
        data = "\n".join(requests) + "\n"
        p = subprocess.run([self.model_bin], input=data, timeout=timeout,
                           stdout=subprocess.PIPE, stderr=subprocess.PIPE, text=True, errors="replace")
        if p.returncode != 0:
            raise CheckError("model driver failed: " + p.stderr[-2000:])
        ans = p.stdout.split("\n")
        if ans and ans[-1] == "":
            ans.pop()
        if len(ans) != len(requests):
            raise CheckError("model driver answered %d lines for %d requests" % (len(ans), len(requests)))
        return ans

    # ------------------------------------------------------------- verdicts
    def violation(self, key, what, case, kind="failing-input", broken=None):
        """Record a violation.  `key` identifies the failing input / call site (matched against
        known_findings.json); `case` is the replayable description."""
        self.violations.append({"key": key, "what": what, "case": case, "kind": kind,
                                "broken": broken or []})

    def known_findings(self):
        path = os.path.join(VERIF, "known_findings.json")
        if not os.path.exists(path):
            return []
        return [e for e in json.load(open(path)).get("findings", []) if e.get("property") == self.prop]

    def finish(self):
        wall = time.time() - self.t0
        known = self.known_findings()
        reported, known_hit = [], []
        for v in self.violations:
            hit = None
            for e in known:
                if e.get("status", "open") != "open":
                    continue  # `fixed` entries suppress nothing
                if ("key" in e and e["key"] == v["key"]) or ("match" in e and re.search(e["match"], v["key"])):
                    hit = e
                    break
            (known_hit if hit else reported).append((v, hit))
        if self.proof is not None and not self.proof["ok"] and not reported:
            # a proof obligation no longer checks and no concrete failing input was found
            v = {"key": "proof-broken:" + self.prop,
                 "what": "proof obligations of %s no longer check" % self.prop,
                 "case": {"forbidden": self.proof["forbidden"], "bad_axioms": self.proof["bad_axioms"],
                          "log": self.proof["log"]},
                 "kind": "no-failing-input-found", "broken": ["JaqVerif.Props." + self.prop]}
            reported.append((v, None))
        lines = []
        seen_known = set()
        for v, e in known_hit:
            tag = e.get("key") or e.get("match")
            if tag in seen_known:
                continue
            seen_known.add(tag)
            lines.append("KNOWN-FINDING: property=%s %s" % (self.prop, e.get("what", v["what"])))
        # group unlisted violations by key: one replay file per distinct key (at most 10 lines)
        by_key = {}
        reported.sort(key=lambda ve: 0 if ve[0]["kind"] == "failing-input" else 1)
        have_real = any(v["kind"] == "failing-input" for v, _ in reported)
        for v, _ in reported:
            if have_real and v["kind"] != "failing-input":
                continue  # a concrete failing input exists: report that, not the broken tie
            by_key.setdefault(v["key"], v)
        n = 0
        for key, v in by_key.items():
            n += 1
            if n > 10:
                break
            h = hashlib.sha1(key.encode()).hexdigest()[:10]
            rp = os.path.join(VERIF, "replays", "%s-%s-%s.json" % (self.prop, self.seed, h))
            with open(rp, "w") as f:
                json.dump({"property": self.prop, "tier": self.tier, "seed": self.seed, "kind": v["kind"],
                           "key": key, "what": v["what"], "case": v["case"], "broken": v["broken"]},
                          f, indent=1, default=str)
            suffix = " no-failing-input-found" if v["kind"] == "no-failing-input-found" else ""
            lines.append("VIOLATION property=%s replay=%s%s" % (self.prop, rp, suffix))
        cov = dict(self.coverage)
        if self.proof is not None:
            names = self.proof["theorems"]
            bad = set(self.proof["bad_axioms"])
            cov.setdefault("obligations", len(names))
            cov.setdefault("discharged", len([n for n in names if n not in bad]) if self.proof["ok"] or names else 0)
            if not self.proof["ok"] and not self.proof["bad_axioms"] and not self.proof["forbidden"]:
                cov["discharged"] = 0
            cov.setdefault("checker_cmd", "cd lean && lake build JaqVerif.Props.%s && lake env lean Audit/%s.lean  (#print axioms of every theorem; thorough: lake env leanchecker)" % (self.prop, self.prop))
            cov.setdefault("trusted_base", [
                "Lean 4.33.0 kernel; axioms allowed in property theorems: propext, Classical.choice, Quot.sound (audited by #print axioms on this run)",
                "the hand-written Lean model is tied to /repo by the correspondence run of this check (Rust harness, VX codec, compiled driver jaqmodel)",
                "generated Lean tables are printed by the harness from the real functions on every run",
            ])
            cov["theorems"] = names
            cov["partial_theorems"] = [n for n in names if n.endswith("_partial")]
        ev = {
            "property_id": self.prop, "tier": self.tier, "seed": self.seed, "level": self.level,
            "coverage": cov, "assumptions": self.assumptions, "wall_s": round(wall, 2),
            "violations": len(by_key), "known_findings_hit": sorted(seen_known), "notes": self.notes,
        }
        with open(os.path.join(VERIF, "evidence", self.prop + ".json"), "w") as f:
            json.dump(ev, f, indent=1, default=str)
        for l in lines:
            print(l, flush=True)
        self.log("done: %d violation(s), %d known finding(s), %.1fs" % (len(by_key), len(seen_known), wall))
        return 1 if by_key else 0


def diff_corr(ctx, cases, name, classify=None, max_report=20, harmless=None):
    """Generic correspondence: `cases` is a list of (case_id, request, real_answer).  Runs the
    model on the requests and records a violation per disagreement.  Returns number of
    disagreements.  `classify(case_id, request, real, model)` may return a key for known-finding
    matching (default: the request itself).  `harmless(req, real, model)` may return True for a
    difference that does not by itself violate the property (e.g. another representation of the
    same value): such a disagreement still breaks the correspondence and is reported, but as
    `no-failing-input-found` unless a real failing input is found as well."""
    reqs = [c[1] for c in cases]
    ans = ctx.model(reqs)
    bad = nreal = nharmless = 0
    for (cid, req, real), m in zip(cases, ans):
        if real != m:
            bad += 1
            soft = bool(harmless and harmless(req, real, m))
            if soft:
                nharmless += 1
                if nharmless > 3:
                    continue
            else:
                nreal += 1
                if nreal > max_report:
                    continue
            key = classify(cid, req, real, m) if classify else "%s:%s" % (name, req)
            ctx.violation(key, "%s: real code and proved model disagree on `%s`%s" % (
                              name, req, " (same value, different representation: correspondence broken, property not shown violated by this input)" if soft else ""),
                          {"case_id": cid, "request": req, "real": real, "model": m},
                          kind="no-failing-input-found" if soft else "failing-input",
                          broken=["correspondence " + name])
    return bad


def main(argv):
    import argparse
    import importlib
    ap = argparse.ArgumentParser()
    ap.add_argument("prop")
    ap.add_argument("--tier", default=os.environ.get("VERIF_TIER", "quick"), choices=["quick", "thorough"])
    ap.add_argument("--replay")
    a = ap.parse_args(argv)
    try:
        seed = int(os.environ.get("VERIF_SEED", "20260922"))
    except ValueError:
        seed = 20260922
    prop = a.prop.upper()
    sys.path.insert(0, os.path.join(VERIF, "checks"))
    mod = importlib.import_module(prop.lower())
    ctx = Ctx(prop, a.tier, seed, a.replay)
    try:
        mod.run(ctx)
        rc = ctx.finish()
    except CheckError as e:
        print("CHECK-ERROR property=%s %s" % (prop, str(e)[:6000]), file=sys.stderr, flush=True)
        rc = 2
    sys.exit(rc)
