#!/usr/bin/env python3
"""Prints a markdown status table from evidence/*.json and checks/*.manifest.json (pasted into DESIGN.md §0)."""
import glob, json, os
H = os.path.dirname(os.path.abspath(__file__))
rows = []
for p in sorted(glob.glob(os.path.join(H, "evidence/C*.json"))):
    e = json.load(open(p)); c = e["coverage"]; pid = e["property_id"]
    part = [n.split(".")[-1] for n in c.get("partial_theorems", [])]
    rows.append("| %s | %s/%s | %s | %s | %s | %s s | %s |" % (
        pid, c.get("discharged", "-"), c.get("obligations", "-"),
        (", ".join("`%s`" % x for x in part[:6]) + (" …" if len(part) > 6 else "")) or "—",
        c.get("evaluations", "-"), c.get("traces_validated_against_impl", "-"),
        e["wall_s"], ", ".join(e.get("known_findings_hit", [])) or "—"))
print("| property | theorems discharged/obligations | `_partial` theorems | cases run (quick) | model-vs-code comparisons | quick wall (idle machine) | open known findings hit |")
print("|---|---|---|---|---|---|---|")
print("\n".join(rows))
