#!/usr/bin/env python3
"""Regenerates MANIFEST.json from the table below (one place to edit)."""
import json, os
HERE = os.path.dirname(os.path.abspath(__file__))
BASELINE = "cd /repo && (cargo nextest run --workspace --no-fail-fast --offline || cargo test --workspace --no-fail-fast --offline)"

# property -> (technique, level text, level note, design_ref)
CHECKS = {
 "C09": ("Lean 4 theorems over a hand-written model of Num/Val arithmetic (exactness, representation independence, operator equations) + differential correspondence of the model against the real operators",
         "Theorems (Props/C09.lean, kernel-checked, axioms audited) prove for integers of ANY magnitude and representation that + - * % neg length are the exact integers, that integer consumers do not see the representation, when a result is an integer, and the non-numeric operator equations. The model is tied to jaq-json/src/{num,lib}.rs by running both on ~50k operand pairs (all boundary/representation pairs exhaustively, floats bit-for-bit) plus a real-code-only metamorphic check of ~100 integer-consuming filters.",
         "Trusted: Lean kernel; hand model <-> code tie is differential (pool + seeded random), not exhaustive over all integers; IEEE double arithmetic modelled in integer arithmetic and validated against hardware on the pool; num-bigint assumed exact.",
         "DESIGN.md §6 C09"),
}

NOT_YET = {}

def main():
    props = [json.loads(l) for l in open(os.path.join(HERE, "properties.jsonl"))]
    checks = []
    for pid, (tech, text, note, ref) in sorted(CHECKS.items()):
        checks.append({
            "property_id": pid,
            "quick_cmd": "bin/check %s --tier quick" % pid,
            "thorough_cmd": "bin/check %s --tier thorough" % pid,
            "evidence_file": "evidence/%s.json" % pid,
            "replay_cmd_template": "bin/check %s --replay {path}" % pid,
            "engine": "lean+harness",
            "level_claimed": {"category": "proof", "text": text, "design_ref": ref},
            "level_note": note,
            "technique": tech,
        })
    na = []
    for p in props:
        if p["id"] not in CHECKS:
            na.append({"property_id": p["id"], "reason": NOT_YET.get(p["id"], "check under construction in this round (model and theorems not yet committed); see DESIGN.md §9 order of work — not a statement that proof cannot apply")})
    m = {
        "version": 1,
        "setup_cmd": "./setup.sh",
        "hooks": {
            "guard": "jaq_verif",
            "enable": "RUSTFLAGS='--cfg jaq_verif' (set in harness/.cargo/config.toml; the harness and the CLI are built from /repo's working tree with it)",
            "baseline_off_cmd": BASELINE,
            "source_commits": [],
            "add_only": True,
        },
        "engines": [
            {"name": "lean", "path": "lean", "serves_properties": sorted(CHECKS), "kind_free_text": "Lean 4.33 library JaqVerif (models, lemmas, Props/Cxx.lean theorems) + compiled line-protocol driver jaqmodel"},
            {"name": "harness", "path": "harness", "serves_properties": sorted(CHECKS), "kind_free_text": "Rust crate linking /repo's crates by path: runs the real code in-process, generates cases, prints translator tables"},
            {"name": "orchestrator", "path": "bin/check", "serves_properties": sorted(CHECKS), "kind_free_text": "python3: rebuilds, regenerates, audits axioms, diffs model vs code, decides VIOLATION / KNOWN-FINDING, writes evidence"},
        ],
        "checks": checks,
        "not_applicable": na,
        "notes": "Technique family: machine-checked proof in Lean 4 with model-code correspondence. See DESIGN.md. Fix commits in /repo are recorded in known_findings.json (status=fixed).",
    }
    json.dump(m, open(os.path.join(HERE, "MANIFEST.json"), "w"), indent=1)

if __name__ == "__main__":
    main()
