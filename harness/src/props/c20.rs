//! C20 — date and time filters (jaq-std/src/time.rs through the real filters).
//!   gen    : `id \t request \t real \t meta` lines for the correspondence with the Lean model
//!            (`gmtime`, `mktime`, `todate`, `fromdate`, `gmtime|mktime`, `todate|fromdate`);
//!            `meta` carries what the property oracle in checks/c20.py needs
//!            (`kind=…;sec=…;us=…;expect_us=…;variant=…`).
//!   fmt    : `FMT <ok|FAIL|SKIP> \t format \t input \t got` — `strftime(F)|strptime(F)|mktime`
//!            round trip for complete formats (real code only; jiff's formatter is a parameter).
//! Every evaluation runs under `catch`, so a panic is an observation (`P mul`, `P add`, `P other`).
use super::common::*;
use super::prng::{self, Rng};
use super::vx;
use jaq_all::data::{Ctx, Data, Filter, Runner};
use jaq_core::Vars;
use jaq_json::{Num, Val};
use jaq_std::input::RcIter;
use num_bigint::BigInt;

pub const SEC_MIN: i64 = -377705023201; // -9999-01-02T01:59:59Z
pub const SEC_MAX: i64 = 253402207200; //  9999-12-30T22:00:00Z

/// Run a compiled filter on one input (one output expected); classify the outcome.
fn run1(f: &Filter, input: Val, vars: Vec<Val>) -> String {
    let r = catch(|| {
        let runner = Runner::default();
        let inputs: Box<dyn Iterator<Item = Result<Val, String>>> = Box::new(std::iter::empty());
        let rc = RcIter::new(inputs);
        let data = Data { runner: &runner, lut: &f.lut, inputs: &rc };
        let ctx = Ctx::new(&data, Vars::new(vars));
        let mut out: Vec<String> = Vec::new();
        for y in f.id.run((ctx, input)).take(3) {
            match y {
                Ok(v) => out.push(format!("V {}", vx::enc_canon(&v))),
                Err(exn) => {
                    out.push(match exn.get_err() {
                        Ok(e) => format!("E {}", cls(&e.to_string())),
                        Err(_) => "X".to_string(),
                    });
                    break;
                }
            }
        }
        if out.len() == 1 {
            out.pop().unwrap()
        } else {
            format!("M{} {}", out.len(), out.join(" ; "))
        }
    });
    match r {
        Ok(s) => s,
        Err(p) if p.contains("multiply with overflow") => "P mul".into(),
        Err(p) if p.contains("add with overflow") => "P add".into(),
        Err(p) => format!("P other:{}", p.replace(['\t', '\n', ' '], "_")),
    }
}

/// error class: `typ:<type>` (cannot use … as …), `fail` (cannot convert … to time), `jiff` (rest)
fn cls(msg: &str) -> String {
    if msg.starts_with("cannot use ") {
        match msg.rfind(" as ") {
            Some(i) => format!("typ:{}", msg[i + 4..].replace(' ', "_")),
            None => "typ".into(),
        }
    } else if msg.contains("cannot convert ") && msg.contains(" to time") {
        "fail".into()
    } else {
        "jiff".into()
    }
}

/// Hinnant's days_from_civil — used ONLY to generate interesting inputs (never as an oracle)
fn days_from_civil(y: i64, m: i64, d: i64) -> i64 {
    let y = if m <= 2 { y - 1 } else { y };
    let era = y.div_euclid(400);
    let yoe = y.rem_euclid(400);
    let mp = (m + 9) % 12;
    let doy = (153 * mp + 2) / 5 + d - 1;
    let doe = yoe * 365 + yoe / 4 - yoe / 100 + doy;
    era * 146097 + doe - 719468
}

fn big_i(i: i128) -> Val {
    Val::Num(Num::big_int(BigInt::from(i)))
}

/// integer epochs of the edge set
fn edge_epochs() -> Vec<i128> {
    let mut v: Vec<i128> = vec![];
    fn around_into(v: &mut Vec<i128>, x: i128, r: i128) {
        for d in -r..=r {
            v.push(x + d);
        }
    }
    around_into(&mut v, 0, 2);
    around_into(&mut v, SEC_MIN as i128, 3);
    around_into(&mut v, SEC_MAX as i128, 3);
    // civil year limits with and without jiff's offset margin
    around_into(&mut v, -377705116800, 2); // -9999-01-01T00:00:00Z
    around_into(&mut v, 253402300799, 2); //   9999-12-31T23:59:59Z
    for y in [-9999i64, -9998, -9997, -4801, -4800, -401, -400, -101, -100, -5, -4, -1, 0, 1, 4, 100, 400, 1582, 1600, 1700, 1800,
              1900, 1901, 1904, 1968, 1969, 1970, 1971, 1972, 1999, 2000, 2001, 2004, 2023, 2024, 2025, 2038, 2100, 2200, 2400,
              4000, 8000, 9996, 9997, 9998, 9999] {
        for (m, d) in [(1, 1), (1, 31), (2, 28), (3, 1), (6, 30), (12, 31)] {
            let t = days_from_civil(y, m, d) * 86400;
            for off in [-1i64, 0, 1, 86399, 86400] {
                v.push((t + off) as i128);
            }
        }
    }
    for k in [31u32, 32, 53, 62, 63, 64] {
        let p = 1i128 << k;
        around_into(&mut v, p, 2);
        around_into(&mut v, -p, 2);
    }
    // i * 1000000 at the i64 limits, and multiples of 2^64 / 10^6 (a wrapped product is in range)
    for c in [9223372036854i128, 18446744073709, 18446744073710, 36893488147419, 36893488147420, 9223372036855, 9223372290257,
              9223371659149, 9223372036854775] {
        around_into(&mut v, c, 2);
        around_into(&mut v, -c, 2);
    }
    for k in [86400i128, 86400 * 365, 86400 * 366, 1_000_000_000, 4_102_444_800, 951_782_400, -2_208_988_800, -62_135_596_800,
              -62_167_219_200, 1_709_164_800] {
        around_into(&mut v, k, 1);
    }
    v.sort();
    v.dedup();
    v
}

fn int_val(i: i128) -> Val {
    match isize::try_from(i) {
        Ok(x) => int(x),
        Err(_) => big_i(i),
    }
}

struct Emit {
    id: usize,
    filters: Vec<(&'static str, Filter)>,
}

impl Emit {
    fn new() -> Self {
        let fs = [("gmtime", "gmtime"), ("mktime", "mktime"), ("todate", "todate"), ("fromdate", "fromdate"),
                  ("gm_mk", "gmtime | mktime"), ("to_from", "todate | fromdate")];
        Emit { id: 0, filters: fs.iter().map(|(n, c)| (*n, compile(c).expect("compile"))).collect() }
    }
    fn emit(&mut self, op: &str, v: &Val, meta: &str) {
        let f = &self.filters.iter().find(|(n, _)| *n == op).expect("op").1;
        let real = run1(f, v.clone(), vec![]);
        println!("{}{}\tc20.{} 1 {}\t{}\t{}", op, self.id, op, vx::enc(v), real, meta);
        self.id += 1;
    }
    fn epoch(&mut self, v: &Val, meta: &str) {
        for op in ["gmtime", "todate", "gm_mk", "to_from"] {
            self.emit(op, v, meta);
        }
    }
}

fn fmeta(kind: &str, f: f64) -> String {
    // the exact value of the float in micro-seconds is recomputed by the check from the bits
    format!("kind={kind};bits={:016x}", f.to_bits())
}

pub fn gen(tier: &str) {
    let thorough = tier == "thorough";
    let mut rng = Rng::new(prng::seed_from_env() ^ 0xC20);
    let mut e = Emit::new();

    // ---- integer epochs: edge set in every integer representation, and as floats
    for t in edge_epochs() {
        let m = format!("kind=int;sec={t}");
        e.epoch(&int_val(t), &m);
        if isize::try_from(t).is_ok() && (t.abs() < 10 || t.abs() > (1 << 40)) {
            e.epoch(&big_i(t), &m); // small value in big representation
        }
        let f = t as f64;
        e.epoch(&float(f), &fmeta("float", f));
    }
    // ---- random integer epochs: in range, near range, anywhere in i64
    let n = if thorough { 60000 } else { 6000 };
    for i in 0..n {
        let t: i128 = match i % 4 {
            0 | 1 => SEC_MIN as i128 + (rng.next() % ((SEC_MAX - SEC_MIN) as u64 + 1)) as i128,
            2 => (rng.next() as i64 >> (rng.below(40))) as i128,
            _ => (rng.next() % 4_102_444_800u64) as i128 - 2_000_000_000,
        };
        e.epoch(&int_val(t), &format!("kind=int;sec={t}"));
    }
    // ---- fractional epochs at micro-second resolution (positive, negative), odd floats
    let mut fl: Vec<f64> = vec![0.5, -0.5, 1.5, -1.5, 0.000001, -0.000001, 0.999999, -0.999999, 1.000057, 0.123456, -0.123456,
                                1e-7, -1e-7, 5e-324, -5e-324, 0.0, -0.0, 1.9999999, -1.9999999, 86399.999999, -86400.000001,
                                1709164800.25, -2208988800.75, 951782399.999999, 253402207199.5, 253402207200.0, 253402207200.5,
                                -377705023200.5, -377705023201.0, -377705023201.5, 9223372036854.0, 9223372036854.775, 9223372036855.0,
                                9.223372036854775e12, 9.223372036854776e12, -9.223372036854775e12, -9.223372036854776e12,
                                18446744073709.55, 1e15, 1e18, 1e19, 1e300, -1e300, f64::MAX, f64::MIN, f64::MIN_POSITIVE,
                                f64::INFINITY, f64::NEG_INFINITY, f64::NAN, -f64::NAN, 4294967296.5, 9007199254.740992, 9007199254.740993];
    let nf = if thorough { 40000 } else { 5000 };
    for i in 0..nf {
        let us: i64 = match i % 4 {
            0 => (rng.next() % (1u64 << 54)) as i64 - (1i64 << 53),
            1 => (rng.next() % 4_000_000_000_000_000u64) as i64 - 2_000_000_000_000_000,
            2 => -((rng.next() % 100_000_000_000_000u64) as i64),
            _ => (rng.next() % 20_000_000u64) as i64 - 10_000_000,
        };
        fl.push(us as f64 / 1e6);
    }
    for _ in 0..(nf / 10) {
        fl.push(f64::from_bits(rng.next())); // any bit pattern
    }
    for f in fl {
        e.epoch(&float(f), &fmeta("float", f));
    }
    for d in ["1.5", "-1.5", "1e3", "1e1000", "-1e1000", "0.000001", "1709164800.123456", "253402207200.0", "1e-400", "9223372036854775807.0"] {
        e.epoch(&dec(d), &format!("kind=dec;text={d}"));
    }
    for v in nonnum_pool() {
        e.epoch(&v, "kind=nonnum");
    }

    // ---- broken-down arrays
    let years: Vec<Val> = vec![int(-32769), int(-32768), int(-10000), int(-9999), int(-9998), int(-1), int(0), int(1), int(1970),
                               int(2023), int(2024), int(2100), int(9998), int(9999), int(10000), int(32767), int(32768), int(1 << 31),
                               big_i(1 << 64), big_i(2024)];
    let months: Vec<Val> = vec![int(-129), int(-128), int(-2), int(-1), int(0), int(1), int(10), int(11), int(12), int(126), int(127),
                                int(128), int(255), int(256), big_i(127), big_i(1)];
    let days: Vec<Val> = vec![int(-128), int(-1), int(0), int(1), int(28), int(29), int(30), int(31), int(32), int(127), int(128), int(255),
                              int(isize::MAX)];
    let hours: Vec<Val> = vec![int(-1), int(0), int(23), int(24), int(127), int(128)];
    let mins: Vec<Val> = vec![int(-1), int(0), int(59), int(60), int(127), int(128)];
    let secs: Vec<Val> = vec![int(-1), int(0), int(1), int(59), int(60), int(127), int(128), int(300), int(isize::MAX), big_i(1 << 70),
                              float(0.0), float(-0.0), float(0.5), float(59.999999), float(59.9999999999), float(59.99999999999999),
                              float(60.0), float(-0.5), float(-1e-9), float(f64::NAN), float(f64::INFINITY), float(f64::NEG_INFINITY),
                              float(1e300), float(-1e300), float(127.5), float(128.0), float(-128.5), float(5e-324), float(1e-9),
                              float(0.9999999999999999), float(0.123456), float(58.123456), float(30.000001), dec("1.5"), dec("59.5"),
                              Val::Null, tstr(b"1"), arr(vec![])];
    let wrong: Vec<Val> = vec![Val::Null, Val::Bool(true), tstr(b"1"), float(1.0), float(1.5), dec("1"), dec("1.0"), arr(vec![int(1)]), obj(vec![])];
    let base = |y: &Val, mo: &Val, d: &Val, h: &Val, mi: &Val, s: &Val| arr(vec![y.clone(), mo.clone(), d.clone(), h.clone(), mi.clone(), s.clone()]);
    let (by, bmo, bd, bh, bmi, bs) = (int(2024), int(1), int(29), int(12), int(30), int(45));
    for y in &years {
        for mo in &months {
            for d in &days {
                e.emit("mktime", &base(y, mo, d, &bh, &bmi, &bs), "kind=arr");
            }
        }
    }
    for h in &hours {
        for mi in &mins {
            for s in &secs {
                e.emit("mktime", &base(&by, &bmo, &bd, h, mi, s), "kind=arr");
            }
        }
    }
    for s in &secs {
        for y in [int(-9999), int(9999), int(1969), int(1970)] {
            for (mo, d, h, mi) in [(0, 1, 0, 0), (0, 2, 1, 59), (11, 30, 22, 0), (11, 30, 21, 59), (11, 31, 23, 59), (0, 2, 1, 58)] {
                e.emit("mktime", &base(&y, &int(mo), &int(d), &int(h), &int(mi), s), "kind=arr");
            }
        }
    }
    for w in &wrong {
        for pos in 0..6 {
            let mut a = vec![by.clone(), bmo.clone(), bd.clone(), bh.clone(), bmi.clone(), bs.clone()];
            a[pos] = w.clone();
            e.emit("mktime", &arr(a), "kind=arr");
            // a month that overflows `+ 1` together with another defect: which is noticed first?
            let mut a = vec![by.clone(), int(127), bd.clone(), bh.clone(), bmi.clone(), bs.clone()];
            if pos != 1 {
                a[pos] = w.clone();
                e.emit("mktime", &arr(a), "kind=arr");
            }
        }
    }
    for len in 0..9 {
        let full = vec![by.clone(), bmo.clone(), bd.clone(), bh.clone(), bmi.clone(), bs.clone(), tstr(b"x"), Val::Null, int(7)];
        e.emit("mktime", &arr(full[..len].to_vec()), "kind=arr");
    }
    for v in nonnum_pool().into_iter().chain(num_pool().into_iter().take(8)) {
        e.emit("mktime", &v, "kind=arr");
    }
    // random arrays: mostly valid dates, random times, integer or micro-second seconds
    let na = if thorough { 40000 } else { 4000 };
    for _ in 0..na {
        let y = if rng.chance(1, 8) { rng.below(20001) as isize - 10000 } else { rng.below(600) as isize + 1700 };
        let mo = if rng.chance(1, 20) { rng.below(300) as isize - 150 } else { rng.below(12) as isize };
        let d = if rng.chance(1, 20) { rng.below(300) as isize - 150 } else { rng.below(31) as isize + 1 };
        let h = if rng.chance(1, 30) { rng.below(300) as isize - 150 } else { rng.below(24) as isize };
        let mi = if rng.chance(1, 30) { rng.below(300) as isize - 150 } else { rng.below(60) as isize };
        let s = match rng.below(4) {
            0 => int(rng.below(60) as isize),
            1 => float(rng.below(60_000_000) as f64 / 1e6),
            2 => float(rng.below(60) as f64 + rng.below(1000) as f64 / 1000.0),
            _ => float((rng.next() % 70_000_000_000) as f64 / 1e9 - 2.0),
        };
        e.emit("mktime", &arr(vec![int(y), int(mo), int(d), int(h), int(mi), s]), "kind=arr");
    }

    // ---- ISO 8601 / RFC 3339 texts for `fromdate`: built from a known instant, so the check
    //      knows which instant an accepted text must denote (`expect_ns`)
    let mut instants: Vec<(i64, u32)> = vec![(0, 0), (0, 500_000_000), (-1, 500_000_000), (1709164800, 0), (1709164799, 999_999_999),
        (SEC_MIN, 0), (SEC_MIN + 1, 0), (SEC_MAX, 0), (SEC_MAX - 1, 123_456_000), (SEC_MAX, 999_999_999), (-62167219200, 0),
        (-62167219201, 0), (-62135596800, 1000), (951782400, 100), (4102444800, 0), (-2208988800, 250_000_000)];
    let ni = if thorough { 3000 } else { 300 };
    for _ in 0..ni {
        let s = SEC_MIN + (rng.next() % ((SEC_MAX - SEC_MIN) as u64 + 1)) as i64;
        let ns = match rng.below(4) {
            0 => 0,
            1 => rng.below(1_000_000) as u32 * 1000,
            2 => rng.below(1000) as u32 * 1_000_000,
            _ => rng.below(1_000_000_000) as u32,
        };
        instants.push((s, ns));
    }
    let offsets: [i64; 12] = [0, 3600, -3600, 19800, -34200, 93540, -93540, 86400, -86400, 60, -60, 43200];
    for (k, (s, ns)) in instants.iter().enumerate() {
        let mut offs: Vec<i64> = vec![0];
        offs.push(offsets[k % offsets.len()]);
        if k < 16 {
            offs.extend(offsets);
        }
        for off in offs {
            for variant in ["z", "offset", "comma", "lower", "space", "nosec", "basic", "frac10", "frac-pad9", "plus-year", "bracket"] {
                if let Some(text) = iso_text(*s, *ns, off, variant) {
                    let expect = *s as i128 * 1_000_000_000 + *ns as i128;
                    e.emit("fromdate", &tstr(text.as_bytes()), &format!("kind=iso;variant={variant};expect_ns={expect};text={text}"));
                }
            }
        }
    }
    for t in ["2024-02-30T00:00:00Z", "2023-02-29T00:00:00Z", "2024-02-29T00:00:00Z", "1900-02-29T00:00:00Z", "2000-02-29T00:00:00Z",
              "2024-00-10T00:00:00Z", "2024-13-10T00:00:00Z", "2024-01-00T00:00:00Z", "2024-01-32T00:00:00Z", "2024-04-31T00:00:00Z",
              "2024-01-01T24:00:00Z", "2024-01-01T23:60:00Z", "2024-01-01T23:59:60Z", "2024-01-01T23:59:61Z", "2024-01-01T00:00:00+26:00",
              "2024-01-01T00:00:00+25:59", "2024-01-01T00:00:00-25:59", "2024-01-01T00:00:00+23:60", "2024-01-01T00:00:00", "2024-01-01",
              "", "x", "2024-01-01T00:00:00.Z", "2024-01-01T00:00:00.1234567890Z", "-000000-01-01T00:00:00Z", "-000001-01-01T00:00:00Z",
              "-009999-01-01T00:00:00Z", "-009999-01-02T01:59:58Z", "-009999-01-02T01:59:58.999999999Z", "-009999-01-02T01:59:59Z",
              "-010000-01-01T00:00:00Z", "9999-12-30T22:00:00.999999999Z", "9999-12-30T22:00:01Z", "9999-12-31T23:59:59Z",
              "9999-12-31T23:59:59+02:00", "9999-12-31T23:59:59+01:59", "-009999-01-01T00:00:00-02:00", "-009999-01-01T00:00:00-01:59:59",
              "10000-01-01T00:00:00Z", "2024-1-1T00:00:00Z", "2024-01-01T0:00:00Z", " 2024-01-01T00:00:00Z", "2024-01-01T00:00:00Z ",
              "2024-01-01T00:00:00ZZ", "2024-01-01T00:00:00+01", "2024-01-01T00:00:00+0100", "２０２４-01-01T00:00:00Z"] {
        e.emit("fromdate", &tstr(t.as_bytes()), &format!("kind=isoraw;text={t}"));
    }
    for v in nonnum_pool().into_iter().chain(num_pool().into_iter().take(6)) {
        if !matches!(v, Val::TStr(_)) {
            e.emit("fromdate", &v, "kind=nonstr");
        }
    }
}

/// civil fields of an instant shifted by `off` seconds (generation only)
fn civil(s: i64) -> (i64, i64, i64, i64, i64, i64) {
    let days = s.div_euclid(86400);
    let sod = s.rem_euclid(86400);
    // civil_from_days (Hinnant)
    let z = days + 719468;
    let era = z.div_euclid(146097);
    let doe = z.rem_euclid(146097);
    let yoe = (doe - doe / 1460 + doe / 36524 - doe / 146096) / 365;
    let doy = doe - (365 * yoe + yoe / 4 - yoe / 100);
    let mp = (5 * doy + 2) / 153;
    let d = doy - (153 * mp + 2) / 5 + 1;
    let m = if mp < 10 { mp + 3 } else { mp - 9 };
    let y = yoe + era * 400 + if m <= 2 { 1 } else { 0 };
    (y, m, d, sod / 3600, sod % 3600 / 60, sod % 60)
}

/// text of the instant `(s, ns)` written with UTC offset `off` in a syntactic variant
fn iso_text(s: i64, ns: u32, off: i64, variant: &str) -> Option<String> {
    let (y, mo, d, h, mi, se) = civil(s + off);
    if !(-9999..=9999).contains(&y) {
        return None;
    }
    let ys = if y < 0 { format!("-{:06}", -y) } else if variant == "plus-year" { format!("+{:06}", y) } else { format!("{:04}", y) };
    let mut frac = if ns == 0 { String::new() } else { format!(".{:09}", ns).trim_end_matches('0').to_string() };
    match variant {
        "comma" => {
            if ns == 0 {
                return None;
            }
            frac = frac.replace('.', ",");
        }
        "frac10" => frac = format!(".{:09}0", ns),
        "frac-pad9" => frac = format!(".{:09}", ns),
        _ => {}
    }
    let offs = if off == 0 && variant != "offset" {
        "Z".to_string()
    } else {
        if off % 60 != 0 {
            return None;
        }
        let a = off.abs();
        format!("{}{:02}:{:02}", if off < 0 { '-' } else { '+' }, a / 3600, a % 3600 / 60)
    };
    if variant == "z" && off != 0 {
        return None;
    }
    Some(match variant {
        "lower" => format!("{ys}-{mo:02}-{d:02}t{h:02}:{mi:02}:{se:02}{frac}{}", offs.to_lowercase()),
        "space" => format!("{ys}-{mo:02}-{d:02} {h:02}:{mi:02}:{se:02}{frac}{offs}"),
        "nosec" => {
            if se != 0 || ns != 0 {
                return None;
            }
            format!("{ys}-{mo:02}-{d:02}T{h:02}:{mi:02}{offs}")
        }
        "basic" => {
            if y < 0 {
                return None;
            }
            format!("{ys}{mo:02}{d:02}T{h:02}{mi:02}{se:02}{frac}{}", offs.replace(':', ""))
        }
        "bracket" => format!("{ys}-{mo:02}-{d:02}T{h:02}:{mi:02}:{se:02}{frac}{offs}[UTC]"),
        _ => format!("{ys}-{mo:02}-{d:02}T{h:02}:{mi:02}:{se:02}{frac}{offs}"),
    })
}

/// complete formats: every field needed to determine the instant, unambiguous to parse
const FORMATS: &[&str] = &["%Y-%m-%dT%H:%M:%SZ", "%F %T", "%s", "%d/%m/%Y %H.%M.%S", "%Y-%j %T", "%a, %d %b %Y %H:%M:%S %z",
                           "%A %B %e %Y %I:%M:%S %p", "%FT%T%:z", "%G-W%V-%u %T"];

/// `strftime(F) | strptime(F) | mktime` for complete formats on integer epochs
pub fn fmt(tier: &str) {
    let mut rng = Rng::new(prng::seed_from_env() ^ 0xF20);
    let vars = vec!["f".to_string()];
    let f = compile_vars("strftime($f) | strptime($f) | mktime", &vars).expect("compile");
    let f1 = compile_vars("strftime($f)", &vars).expect("compile");
    let mut ts: Vec<i64> = edge_epochs().into_iter().filter(|t| *t >= SEC_MIN as i128 && *t <= SEC_MAX as i128).map(|t| t as i64).collect();
    let n = if tier == "thorough" { 3000 } else { 300 };
    for _ in 0..n {
        ts.push(SEC_MIN + (rng.next() % ((SEC_MAX - SEC_MIN) as u64 + 1)) as i64);
        ts.push((rng.next() % 4_102_444_800u64) as i64 - 1_000_000_000);
    }
    for fm in FORMATS {
        for t in &ts {
            let input = int(*t as isize);
            let got = run1(&f, input.clone(), vec![tstr(fm.as_bytes())]);
            let want = format!("V {}", vx::enc_canon(&input));
            let text = run1(&f1, input.clone(), vec![tstr(fm.as_bytes())]);
            let status = if got == want { "ok" } else { "FAIL" };
            println!("FMT {status}\t{fm}\t{t}\t{got}\t{text}");
        }
    }
}

// ------------------------------------------------------------------------------------------------
// strftime / strptime: correspondence with the Lean model `JaqVerif/C20/Strtime.lean`
//   fmtcorr  : `id \t c20.strftime <hexfmt> <vx> \t real` and `id \t c20.strptime <hexfmt> <hextext> \t real`
//   dirtable : `DT \t <directive letter> \t <epoch seconds> \t <hex of the real rendering>` for a FIXED
//              list of instants and every modelled single directive (translated into
//              `lean/JaqVerif/Gen/C20Strtime.lean` by the check and re-proved by `decide`)

/// the directives of the model (`JaqVerif/C20/Strtime.lean: dirOfChar`)
pub const MODEL_DIRS: &[&str] = &["%Y", "%m", "%d", "%e", "%H", "%M", "%S", "%j", "%a", "%b", "%h", "%z", "%Z", "%s", "%%", "%F", "%T"];
/// directives / extensions outside the model (answered `U`)
const OTHER_DIRS: &[&str] = &["%A", "%B", "%y", "%I", "%p", "%u", "%:z", "%f", "%G", "%V", "%C", "%D", "%R", "%n", "%t", "%Q", "%c",
                              "%-d", "%_H", "%5Y", "%w", "%U", "%k", "%l", "%P", "%N", "%q", "%::z", "%.3f", "%E", "%"];
const SEPS: &[&str] = &[" ", "-", ":", "/", ",", ".", "T", "Z", "x", "  ", "\t", "%%", ", ", "", "", "+", "0", "9", " \n", "W"];

fn hexs(b: &[u8]) -> String {
    if b.is_empty() {
        return "-".into();
    }
    b.iter().map(|x| format!("{:02x}", x)).collect()
}

/// the text of a `V S<hex>` answer
fn answer_text(real: &str) -> Option<Vec<u8>> {
    let h = real.strip_prefix("V S")?;
    if h.len() % 2 != 0 || h.contains(' ') {
        return None;
    }
    (0..h.len() / 2).map(|i| u8::from_str_radix(&h[2 * i..2 * i + 2], 16).ok()).collect()
}

fn in_range_edges() -> Vec<i64> {
    edge_epochs().into_iter().filter(|t| *t >= SEC_MIN as i128 && *t <= SEC_MAX as i128).map(|t| t as i64).collect()
}

fn mutate(rng: &mut Rng, text: &[u8], pool: &[Vec<u8>]) -> Vec<u8> {
    let mut t = text.to_vec();
    let n = t.len();
    match rng.below(14) {
        0 if n > 0 => {
            t.remove(rng.below(n));
        }
        1 => t.insert(rng.below(n + 1), *rng.pick(b"0123456789 -+:%aZ\t,./")),
        2 if n > 0 => {
            let i = rng.below(n);
            t[i] = *rng.pick(b"0123456789");
        }
        3 if n > 0 => {
            let i = rng.below(n);
            t[i] = if t[i].is_ascii_lowercase() { t[i].to_ascii_uppercase() } else { t[i].to_ascii_lowercase() };
        }
        4 => t.push(*rng.pick(b"0 9Z\n")),
        5 => t.insert(0, *rng.pick(b" -+0\t")),
        6 if n > 0 => {
            // double a blank / put a blank before a digit
            let i = rng.below(n);
            t.insert(i, b' ');
        }
        7 if n > 0 => t.truncate(rng.below(n)),
        8 => t = rng.pick(pool).clone(),
        9 if n > 0 => {
            // bump a digit: fields out of range (month 13, day 32, hour 24, second 60/61, ...)
            let ds: Vec<usize> = (0..n).filter(|i| t[*i].is_ascii_digit()).collect();
            if !ds.is_empty() {
                let i = *rng.pick(&ds);
                t[i] = b'0' + ((t[i] - b'0') + 1 + rng.below(8) as u8) % 10;
            }
        }
        10 if n > 0 => {
            // swap sign characters
            for c in t.iter_mut() {
                if *c == b'+' {
                    *c = b'-';
                } else if *c == b'-' && rng.chance(1, 2) {
                    *c = b'+';
                }
            }
        }
        11 if n > 0 => {
            let i = rng.below(n);
            t[i] = *rng.pick(&[0xc3u8, 0xa9, 0xff, 0x0b, 0x0c, b'\r', 0x00]);
        }
        12 if n > 1 => {
            let i = rng.below(n - 1);
            t.swap(i, i + 1);
        }
        _ => {
            // offsets other than +0000
            if let Some(p) = t.windows(5).position(|w| w == b"+0000") {
                let rep: &[u8] = *rng.pick(&[&b"+0100"[..], b"-0130", b"+2559", b"-2559", b"+2600", b"+0060", b"+010203", b"+01:00", b"+01", b"-0000", b"+000000", b"+0000.5", b"+000060"]);
                t.splice(p..p + 5, rep.iter().copied());
            } else {
                t.extend_from_slice(b" +0100");
            }
        }
    }
    t
}

pub fn fmtcorr(tier: &str) {
    let thorough = tier == "thorough";
    let mut rng = Rng::new(prng::seed_from_env() ^ 0x5F20);
    let vars = vec!["f".to_string()];
    let fstrf = compile_vars("strftime($f)", &vars).expect("compile");
    let fstrp = compile_vars("strptime($f)", &vars).expect("compile");
    let edges = in_range_edges();
    let rand_t = |rng: &mut Rng| -> i64 {
        match rng.below(3) {
            0 => SEC_MIN + (rng.next() % ((SEC_MAX - SEC_MIN) as u64 + 1)) as i64,
            1 => (rng.next() % 4_102_444_800u64) as i64 - 1_000_000_000,
            _ => -62_167_219_200 + (rng.next() % 63_113_904_000u64) as i64 - 31_556_952_000, // years -1000..1000
        }
    };

    // ---- formats
    let mut formats: Vec<(String, usize)> = vec![]; // (format, number of instants)
    let all = if thorough { edges.len() } else { edges.len() / 3 };
    for d in MODEL_DIRS {
        formats.push((d.to_string(), all));
    }
    for f in FORMATS {
        formats.push((f.to_string(), all / 2));
    }
    for f in ["", " ", "x", "%Y%m%d", "%Y%m%d%H%M%S", "%s%Y", "%e%H", "%z%S", "%H%M%S%z", "%d %b %Y", "%Y-%m-%d", "%Y-%m-%d %H", "%Y-%m-%d %H:%M",
              "%Y-%m-%d %M", "%Y-%m-%d %S", "%Y-%m-%d %H %S", "%Y-%j", "%Y %j %m", "%Y %m %j", "%j", "%m-%d", "%Y", "%H:%M:%S", "%a %F", "%a %Y-%j",
              "%s %z", "%F %T %z", "%F %T %Z", "%s %F", "%F %s", "%Y %Y", "%m %b %d %Y", "%b %m %d %Y", "%%%Y%%", "%T %F", "%e.%m.%Y", "%h %e, %Y",
              "é%Y", "%Y\u{e9}", "%F\n%T", "%F\t%T", "  %F  %T  ", "%S:%M:%H %d/%m/%Y", "%Y-%m-%dT%H:%M:%S%z", "%FT%TZ"] {
        formats.push((f.to_string(), 60));
    }
    let nrand = if thorough { 1500 } else { 220 };
    for k in 0..nrand {
        let n = 1 + rng.below(7);
        let mut f = String::new();
        for i in 0..n {
            let other = k % 5 == 4 && rng.chance(1, 3);
            f.push_str(if other { *rng.pick(OTHER_DIRS) } else { *rng.pick(MODEL_DIRS) });
            if i + 1 < n || rng.chance(1, 4) {
                f.push_str(*rng.pick(SEPS));
            }
        }
        formats.push((f, if thorough { 40 } else { 24 }));
    }
    // complete by construction: permutations of the civil fields with separators
    for _ in 0..(if thorough { 300 } else { 60 }) {
        let mut parts: Vec<&str> = vec!["%Y", if rng.chance(1, 2) { "%m" } else { "%b" }, if rng.chance(1, 2) { "%d" } else { "%e" }, "%H", "%M", "%S"];
        if rng.chance(1, 3) {
            parts = vec!["%Y", "%j", "%H", "%M", "%S"];
        }
        if rng.chance(1, 4) {
            parts = vec!["%F", "%T"];
        }
        if rng.chance(1, 3) {
            parts.push("%a");
        }
        if rng.chance(1, 3) {
            parts.push("%z");
        }
        for i in (1..parts.len()).rev() {
            parts.swap(i, rng.below(i + 1));
        }
        let mut f = String::new();
        for p in parts {
            f.push_str(p);
            f.push_str(*rng.pick(&[" ", "-", ":", "/", ", ", ".", "T", "x", "\t"]));
        }
        formats.push((f, if thorough { 40 } else { 24 }));
    }

    // ---- strftime on integer epochs; strptime on the texts printed and on mutations of them
    let mut id = 0usize;
    let mut pool: Vec<Vec<u8>> = vec![b"2024-02-29T12:30:45Z".to_vec(), b"".to_vec(), b" ".to_vec(), b"1709209845".to_vec()];
    for (fm, n) in &formats {
        let fv = tstr(fm.as_bytes());
        let hf = hexs(fm.as_bytes());
        let mut ts: Vec<i64> = vec![];
        if *n >= edges.len() {
            ts.extend(&edges);
        } else {
            for _ in 0..(*n * 2 / 3) {
                ts.push(*rng.pick(&edges));
            }
        }
        for _ in 0..(*n / 3 + 1) {
            ts.push(rand_t(&mut rng));
        }
        for t in ts {
            let input = int(t as isize);
            let real = run1(&fstrf, input.clone(), vec![fv.clone()]);
            println!("sf{}\tc20.strftime {} {}\t{}", id, hf, vx::enc(&input), real);
            id += 1;
            if let Some(text) = answer_text(&real) {
                let r2 = run1(&fstrp, tstr(&text), vec![fv.clone()]);
                println!("sp{}\tc20.strptime {} {}\t{}", id, hf, hexs(&text), r2);
                id += 1;
                if rng.chance(1, 3) {
                    let m = mutate(&mut rng, &text, &pool);
                    let r3 = run1(&fstrp, tstr(&m), vec![fv.clone()]);
                    println!("sm{}\tc20.strptime {} {}\t{}", id, hf, hexs(&m), r3);
                    id += 1;
                }
                if pool.len() < 400 && rng.chance(1, 20) {
                    pool.push(text);
                }
            }
        }
    }
    // ---- strftime on other inputs: fractional epochs, arrays, out of range, non-numbers
    let mut others: Vec<Val> = vec![float(-1.5), float(-0.5), float(0.5), float(1.5), float(1709164800.25), float(-2208988800.75), float(f64::NAN),
        float(f64::INFINITY), float(1e300), float(253402207200.5), float(-377705023201.5), int(SEC_MAX as isize + 1), int(SEC_MIN as isize - 1),
        int(isize::MAX), int(isize::MIN), big_i(1 << 70), dec("1.5"), dec("1e3"),
        arr(vec![int(2024), int(1), int(29), int(12), int(30), int(45)]), arr(vec![int(2024), int(1), int(29), int(12), int(30), float(45.5)]),
        arr(vec![int(2024), int(1), int(30), int(12), int(30), int(45)]), arr(vec![int(-9999), int(0), int(1), int(0), int(0), int(0)]),
        arr(vec![int(9999), int(11), int(31), int(23), int(59), int(59)]), arr(vec![int(-5), int(5), int(7), int(1), int(2), int(3)]),
        arr(vec![int(2024), int(127), int(1), int(0), int(0), int(0)]), arr(vec![int(2024), int(1)]), arr(vec![])];
    others.extend(nonnum_pool());
    for v in &others {
        for fm in ["%Y-%m-%dT%H:%M:%SZ", "%s", "%a %e %b %Y %j %T %z %Z", "%A"] {
            let real = run1(&fstrf, v.clone(), vec![tstr(fm.as_bytes())]);
            println!("so{}\tc20.strftime {} {}\t{}", id, hexs(fm.as_bytes()), vx::enc(v), real);
            id += 1;
        }
    }
    // ---- hand-written texts
    for (fm, text) in [("%Y-%m-%d", "-005-01-01"), ("%Y%m", "-00501"), ("%Y-%m-%d", "2024-01-05"), ("%Y-%m-%d %H", "2024-01-05 07"),
        ("%Y-%m-%d %M", "2024-01-05 08"), ("%Y-%j", "2024-366"), ("%Y-%j", "2023-366"), ("%Y-%j", "2023-000"), ("%s", "12345"), ("%s", "-12345"),
        ("%s", "+12345"), ("%s", " 12345"), ("%s", "- 12345"), ("%s", "12345 "), ("%s", "99999999999999999999"), ("%s", "9223372036854775808"),
        ("%s", "9223372036854775807"), ("%s", "0000000000000000000001"), ("%s", "253402207200"), ("%s", "253402207201"), ("%s", "-377705023201"),
        ("%s", "-377705023202"), ("%a %Y-%m-%d", "Mon 2024-01-05"), ("%a %Y-%m-%d", "fRI 2024-01-05"), ("%a", "Fri"), ("%b", "Jan"),
        ("%F %T", "9999-12-31 23:59:59"), ("%F %T", "9999-12-30 22:00:00"), ("%F %T", "9999-12-30 22:00:01"), ("%F %T %z", "9999-12-31 23:59:59 +0200"),
        ("%F %T %z", "-9999-01-01 00:00:00 -0200"), ("%F %T %z", "-9999-01-01 00:00:00 -0159"), ("%F %T", "2024-01-05 23:59:60"),
        ("%F %T", "2024-01-05 23:59:61"), ("%F %T", "2024-01-05  7: 8: 9"), ("%F %T", "2024-1-5 7:8:9"), ("%F %T", "2024-01-05T07"),
        ("%F%T", "2024-01-0507:08:09"), ("", ""), (" ", ""), (" ", "   "), ("%%", ""), ("%%", "%"), ("x", "x"), ("x", "y"), ("x", ""),
        ("%s %z", "1700000000 +0100"), ("%s %z", "1700000000 -2559"), ("%F %z", "2024-01-05 +0100"), ("%F %z", "2024-01-05 +010203"),
        ("%F %Z", "2024-01-05 UTC"), ("%Y-%m-%d", "+2024-01-05"), ("%Y-%m-%d", "10000-01-05"), ("%Y-%m-%d", "-9999-01-01"),
        ("%Y-%m-%d", "2023-02-29"), ("%Y-%m-%d", "2024-02-29"), ("%Y-%m-%d", "2024-04-31"), ("%Y-%m-%d", "2024-00-10"), ("%Y-%m-%d", "2024-13-10"),
        ("%Y-%m-%d", "2024-01-00"), ("%Y-%m-%d", "2024-01-32"), ("%Y %b %e", "2024 fEb  9"), ("%Y %b %e", "2024 Febr 9"), ("%H", "24"), ("%M", "60"),
        ("%Y %m %j", "2024 03 060"), ("%Y %m %j", "2024 02 061"), ("%Y %d %j", "2024 03 061"), ("%Y %j %a", "2024 061 Fri"), ("%Y %j %a", "2024 061 Sat")] {
        let real = run1(&fstrp, tstr(text.as_bytes()), vec![tstr(fm.as_bytes())]);
        println!("sh{}\tc20.strptime {} {}\t{}", id, hexs(fm.as_bytes()), hexs(text.as_bytes()), real);
        id += 1;
    }
}

/// the FIXED instants of the directive table (range limits, leap days, years < 1000, year 0,
/// negative years, every weekday, every month)
pub fn table_instants() -> Vec<i64> {
    let mut v: Vec<i64> = vec![SEC_MIN, SEC_MAX, 0, -1, 1, 1_000_000_000, -62_198_755_200, -62_167_219_200, -62_135_596_800, -62_135_596_801];
    let at = |y: i64, m: i64, d: i64, h: i64, mi: i64, s: i64| days_from_civil(y, m, d) * 86400 + h * 3600 + mi * 60 + s;
    v.extend([at(2024, 2, 29, 12, 30, 45), at(2000, 2, 29, 23, 59, 59), at(1900, 2, 28, 0, 0, 0), at(1900, 3, 1, 1, 2, 3), at(2023, 12, 31, 23, 59, 59),
              at(2024, 12, 31, 9, 8, 7), at(1, 1, 1, 0, 0, 0), at(50, 12, 20, 5, 6, 7), at(999, 12, 31, 10, 20, 30), at(1000, 1, 1, 0, 0, 1),
              at(0, 2, 29, 4, 5, 6), at(-1, 3, 4, 13, 14, 15), at(-149, 2, 7, 0, 0, 0), at(-999, 7, 9, 20, 0, 0), at(-1000, 10, 10, 10, 10, 10),
              at(-9999, 12, 31, 23, 59, 59), at(9999, 1, 1, 0, 0, 0)]);
    for d in 1..=7 {
        v.push(at(2024, 1, d, d, 2 * d, 3 * d));
    }
    for m in 1..=12 {
        v.push(at(2023, m, 15, m + 10, 4 * m, 5 * m - 1));
    }
    v
}

pub fn dirtable() {
    let vars = vec!["f".to_string()];
    let fstrf = compile_vars("strftime($f)", &vars).expect("compile");
    for d in MODEL_DIRS {
        for t in table_instants() {
            let real = run1(&fstrf, int(t as isize), vec![tstr(d.as_bytes())]);
            match answer_text(&real) {
                Some(text) => println!("DT\t{}\t{}\t{}", &d[1..], t, hexs(&text)),
                None => println!("DT\t{}\t{}\t!{}", &d[1..], t, real),
            }
        }
    }
}

pub fn main(args: &[String]) {
    let tier = std::env::var("VERIF_TIER").unwrap_or_else(|_| "quick".into());
    match args.first().map(|s| s.as_str()) {
        Some("gen") => gen(&tier),
        Some("fmt") => fmt(&tier),
        Some("fmtcorr") => fmtcorr(&tier),
        Some("dirtable") => dirtable(),
        _ => eprintln!("c20 gen|fmt|fmtcorr|dirtable"),
    }
}
