//! C03 — streams are produced on demand.
//!   gen [quick|thorough] : `id \t program \t request \t real` lines.  Every case is a program of
//!        the modelled fragment, a list of inputs and a number `k`; the *real* interpreter is
//!        run with a counting input iterator and exactly `k` items of `filter.id.run(..)` are
//!        taken (in a thread with a time budget: divergence shows as `DIVERGE`).  The request
//!        asks the Lean driver for the same run of the iterator model and of the reference.
//!   run1 <k> <prog> <vx inputs…> : one real run (replay helper)
use super::common::*;
use super::prng::{self, Rng};
use super::vx;
use jaq_all::data::{Ctx, Data, Runner};
use jaq_core::Vars;
use jaq_json::Val;
use jaq_std::input::RcIter;
use std::sync::mpsc;
use std::time::Duration;

#[derive(Clone, Debug, PartialEq)]
pub enum L {
    Null,
    False,
    True,
    Int(i64),
    Arr(Vec<i64>),
}

impl L {
    fn val(&self) -> Val {
        match self {
            L::Null => Val::Null,
            L::False => Val::Bool(false),
            L::True => Val::Bool(true),
            L::Int(i) => int(*i as isize),
            L::Arr(a) => arr(a.iter().map(|i| int(*i as isize)).collect()),
        }
    }
    fn text(&self) -> String {
        match self {
            L::Null => "null".into(),
            L::False => "false".into(),
            L::True => "true".into(),
            L::Int(i) => format!("{i}"),
            L::Arr(a) => format!("[{}]", a.iter().map(|i| i.to_string()).collect::<Vec<_>>().join(",")),
        }
    }
}

/// Programs: the core forms of the Lean fragment `T` plus derived forms that are printed as
/// jaq's own definitions (`isempty`, `any`, `all`, `nth`, `repeat`, `recurse`, …) for the real
/// run and lowered to core forms (following `jaq-core/src/defs.jq`) for the model.
#[derive(Clone, Debug, PartialEq)]
pub enum P {
    Id,
    Lit(L),
    Empty,
    Error,
    Halt(i64),
    Comma(Box<P>, Box<P>),
    Pipe(Box<P>, Box<P>),
    As(Box<P>, Box<P>),
    Ite(Box<P>, Box<P>, Box<P>),
    Alt(Box<P>, Box<P>),
    Or(Box<P>, Box<P>),
    And(Box<P>, Box<P>),
    Input,
    Inputs,
    First(Box<P>),
    Limit(usize, Box<P>),
    Skip(usize, Box<P>),
    Try(Box<P>, Box<P>),
    Label(Box<P>),
    Var(usize),
    Range(i64, i64, i64),
    Index(Box<P>, Box<P>),
    // derived
    IsEmpty(Box<P>),
    Any(Box<P>, Box<P>),
    All(Box<P>, Box<P>),
    Nth(usize, Box<P>),
    Repeat(Box<P>),
    Recurse(Box<P>),
    /// `def dv: dv; dv` — runs forever without output
    Diverge,
    ErrorOf(Box<P>),
    Not,
    // round 2
    Arr(Box<P>),
    Math(char, Box<P>, Box<P>),
    /// `reduce xs as $x (init; upd)` (`upd` sees `$x` as `Var(0)`)
    Reduce(Box<P>, Box<P>, Box<P>),
    /// `foreach xs as $x (init; upd[; proj])`
    Foreach(Box<P>, Box<P>, Box<P>, Option<Box<P>>),
    /// call of a definition with arguments (closures): `repeat(f)`, `while(c; u)`, `d4(a; f)`, …
    App(Dn, Vec<P>),
    // only produced by lowering
    Call(usize),
    TCall(usize),
    FVar(usize),
    CallA(bool, usize, usize, Vec<(bool, P)>),
    TCallA(usize, usize, Vec<(bool, P)>),
}

/// definitions with arguments: those of `jaq-core/src/defs.jq` and the test definitions of `PRELUDE`
#[derive(Clone, Copy, Debug, PartialEq, Eq, Hash)]
pub enum Dn {
    Repeat,
    Recurse,
    While,
    Until,
    D1,
    D2,
    D3,
    D4,
    D5,
    D6,
}

pub const PRELUDE: &str = "def d1(f): f, f; def d2(f; g): f | g; def d3(f): first(f), 5; def d4($a; f): $a, f, $a; \
def d5(f): d1(f); def d6(f): f, d6(f | 1);";

impl Dn {
    fn name(self) -> &'static str {
        match self {
            Dn::Repeat => "repeat",
            Dn::Recurse => "recurse",
            Dn::While => "while",
            Dn::Until => "until",
            Dn::D1 => "d1",
            Dn::D2 => "d2",
            Dn::D3 => "d3",
            Dn::D4 => "d4",
            Dn::D5 => "d5",
            Dn::D6 => "d6",
        }
    }
    /// kinds of the parameters: `true` = filter argument, `false` = `$`-argument
    pub fn params(self) -> &'static [bool] {
        match self {
            Dn::Repeat | Dn::Recurse | Dn::D1 | Dn::D3 | Dn::D5 | Dn::D6 => &[true],
            Dn::While | Dn::Until | Dn::D2 => &[true, true],
            Dn::D4 => &[false, true],
        }
    }
    pub fn all() -> [Dn; 10] {
        [Dn::Repeat, Dn::Recurse, Dn::While, Dn::Until, Dn::D1, Dn::D2, Dn::D3, Dn::D4, Dn::D5, Dn::D6]
    }
}

fn b(p: P) -> Box<P> {
    Box::new(p)
}
pub fn comma(l: P, r: P) -> P {
    P::Comma(b(l), b(r))
}
pub fn pipe(l: P, r: P) -> P {
    P::Pipe(b(l), b(r))
}
pub fn lit(i: i64) -> P {
    P::Lit(L::Int(i))
}
fn commas(mut ps: Vec<P>) -> P {
    let mut acc = ps.pop().unwrap();
    while let Some(p) = ps.pop() {
        acc = comma(p, acc);
    }
    acc
}
fn commas_left(ps: Vec<P>) -> P {
    let mut it = ps.into_iter();
    let mut acc = it.next().unwrap();
    for p in it {
        acc = comma(acc, p);
    }
    acc
}

/// jq text; `env` holds for every binder in scope whether it is a label, and its number
fn text(p: &P, env: &mut Vec<(bool, usize)>, fresh: &mut usize) -> String {
    let t = |p: &P, env: &mut Vec<(bool, usize)>, fresh: &mut usize| text(p, env, fresh);
    match p {
        P::Id => ".".into(),
        P::Lit(l) => l.text(),
        P::Empty => "empty".into(),
        P::Error => "error".into(),
        P::Halt(c) => format!("halt({c})"),
        P::Comma(l, r) => format!("({}, {})", t(l, env, fresh), t(r, env, fresh)),
        P::Pipe(l, r) => format!("({} | {})", t(l, env, fresh), t(r, env, fresh)),
        P::As(l, r) => {
            let ls = t(l, env, fresh);
            *fresh += 1;
            let n = *fresh;
            env.push((false, n));
            let rs = t(r, env, fresh);
            env.pop();
            format!("({ls} as $v{n} | {rs})")
        }
        P::Ite(c, a, e) => format!("(if {} then {} else {} end)", t(c, env, fresh), t(a, env, fresh), t(e, env, fresh)),
        P::Alt(l, r) => format!("({} // {})", t(l, env, fresh), t(r, env, fresh)),
        P::Or(l, r) => format!("({} or {})", t(l, env, fresh), t(r, env, fresh)),
        P::And(l, r) => format!("({} and {})", t(l, env, fresh), t(r, env, fresh)),
        P::Input => "input".into(),
        P::Inputs => "inputs".into(),
        P::First(f) => format!("first({})", t(f, env, fresh)),
        P::Limit(n, f) => format!("limit({n}; {})", t(f, env, fresh)),
        P::Skip(n, f) => format!("skip({n}; {})", t(f, env, fresh)),
        P::Try(f, c) => format!("(try {} catch {})", t(f, env, fresh), t(c, env, fresh)),
        P::Label(f) => {
            *fresh += 1;
            let n = *fresh;
            env.push((true, n));
            let fs = t(f, env, fresh);
            env.pop();
            format!("(label $l{n} | {fs})")
        }
        P::Var(i) => {
            let (is_label, n) = env[env.len() - 1 - *i];
            if is_label {
                format!("break $l{n}")
            } else {
                format!("$v{n}")
            }
        }
        P::Range(a, bb, c) => format!("range({a}; {bb}; {c})"),
        P::Index(f, i) => format!("({})[{}]", t(f, env, fresh), t(i, env, fresh)),
        P::IsEmpty(g) => format!("isempty({})", t(g, env, fresh)),
        P::Any(g, c) => format!("any({}; {})", t(g, env, fresh), t(c, env, fresh)),
        P::All(g, c) => format!("all({}; {})", t(g, env, fresh), t(c, env, fresh)),
        P::Nth(n, g) => format!("nth({n}; {})", t(g, env, fresh)),
        P::Repeat(f) => format!("repeat({})", t(f, env, fresh)),
        P::Recurse(f) => format!("recurse({})", t(f, env, fresh)),
        P::Diverge => "dv".into(),
        P::ErrorOf(f) => format!("error({})", t(f, env, fresh)),
        P::Not => "not".into(),
        P::Arr(f) => format!("[{}]", t(f, env, fresh)),
        P::Math(op, l, r) => format!("({} {op} {})", t(l, env, fresh), t(r, env, fresh)),
        P::Reduce(xs, i, u) => {
            let (xs, i) = (t(xs, env, fresh), t(i, env, fresh));
            *fresh += 1;
            let n = *fresh;
            env.push((false, n));
            let u = t(u, env, fresh);
            env.pop();
            format!("reduce ({xs}) as $v{n} ({i}; {u})")
        }
        P::Foreach(xs, i, u, pr) => {
            let (xs, i) = (t(xs, env, fresh), t(i, env, fresh));
            *fresh += 1;
            let n = *fresh;
            env.push((false, n));
            let u = t(u, env, fresh);
            let pr = pr.as_ref().map(|pr| t(pr, env, fresh));
            env.pop();
            match pr {
                Some(pr) => format!("foreach ({xs}) as $v{n} ({i}; {u}; {pr})"),
                None => format!("foreach ({xs}) as $v{n} ({i}; {u})"),
            }
        }
        P::App(d, args) => {
            let a: Vec<String> = args.iter().map(|a| t(a, env, fresh)).collect();
            format!("{}({})", d.name(), a.join("; "))
        }
        P::Call(_) | P::TCall(_) | P::FVar(_) | P::CallA(..) | P::TCallA(..) => unreachable!(),
    }
}

pub fn program_text(p: &P) -> String {
    format!("def null: [][0]; def dv: dv; {PRELUDE} {}", text(p, &mut Vec::new(), &mut 0))
}

/// is this a `$`-argument the model binds directly (`.`, a literal, a variable)?
fn simple_arg(p: &P, env: &[bool]) -> bool {
    match p {
        P::Id | P::Lit(_) => true,
        P::Var(i) => !env[env.len() - 1 - *i],
        _ => false,
    }
}

/// add `by` to the de Bruijn indices of the free variables of `p` (those `>= cut`)
fn shift(p: &P, cut: usize, by: usize) -> P {
    let s = |p: &P| b(shift(p, cut, by));
    let s1 = |p: &P| b(shift(p, cut + 1, by));
    match p {
        P::Var(i) => P::Var(if *i >= cut { *i + by } else { *i }),
        P::Id | P::Lit(_) | P::Empty | P::Error | P::Halt(_) | P::Input | P::Inputs | P::Range(..) | P::Diverge | P::Not => p.clone(),
        P::Comma(x, y) => P::Comma(s(x), s(y)),
        P::Pipe(x, y) => P::Pipe(s(x), s(y)),
        P::As(x, y) => P::As(s(x), s1(y)),
        P::Ite(c, x, y) => P::Ite(s(c), s(x), s(y)),
        P::Alt(x, y) => P::Alt(s(x), s(y)),
        P::Or(x, y) => P::Or(s(x), s(y)),
        P::And(x, y) => P::And(s(x), s(y)),
        P::First(f) => P::First(s(f)),
        P::Limit(n, f) => P::Limit(*n, s(f)),
        P::Skip(n, f) => P::Skip(*n, s(f)),
        P::Try(f, c) => P::Try(s(f), s(c)),
        P::Label(f) => P::Label(s1(f)),
        P::Index(f, i) => P::Index(s(f), s(i)),
        P::IsEmpty(g) => P::IsEmpty(s(g)),
        P::Any(g, c) => P::Any(s(g), s(c)),
        P::All(g, c) => P::All(s(g), s(c)),
        P::Nth(n, g) => P::Nth(*n, s(g)),
        P::Repeat(f) => P::Repeat(s(f)),
        P::Recurse(f) => P::Recurse(s(f)),
        P::ErrorOf(f) => P::ErrorOf(s(f)),
        P::Arr(f) => P::Arr(s(f)),
        P::Math(op, x, y) => P::Math(*op, s(x), s(y)),
        P::Reduce(xs, i, u) => P::Reduce(s(xs), s(i), s1(u)),
        P::Foreach(xs, i, u, pr) => P::Foreach(s(xs), s(i), s1(u), pr.as_ref().map(|pr| s1(pr))),
        P::App(d, args) => P::App(*d, args.iter().map(|a| shift(a, cut, by)).collect()),
        P::Call(_) | P::TCall(_) | P::FVar(_) | P::CallA(..) | P::TCallA(..) => unreachable!("shift after lowering"),
    }
}

/// Lowering of the derived forms to the core fragment.  Forms whose definition in `defs.jq` takes
/// no closure apart from a generator that is used once (`isempty`, `any`, `all`, `nth`, `not`,
/// `error(f)`) are unfolded in place; `repeat`, `recurse`, `while`, `until` and the definitions
/// of `PRELUDE` become calls with closures, exactly as the compiler produces them
/// (`CallDef(id, args, skip, call type)`; all of them are top-level definitions, so `skip` is the
/// number of bindings in scope at the call site).
pub struct Lower {
    pub defs: Vec<P>,
    known: std::collections::HashMap<Dn, usize>,
}

impl Lower {
    pub fn new() -> Lower {
        Lower { defs: Vec::new(), known: Default::default() }
    }

    /// entry definition of `d` (its body and the local definitions it needs are created on first use)
    fn def(&mut self, d: Dn) -> usize {
        if let Some(i) = self.known.get(&d) {
            return *i;
        }
        let f0 = || P::FVar(0);
        let f1 = || P::FVar(1);
        // a definition `def d(…): def rec: BODY; rec;`: `rec` sees the arguments of `d` (skip 0),
        // the call in `d`'s body catches the tail calls of `rec` to itself (`CatchOne`)
        let mut with_rec = |this: &mut Lower, body: &dyn Fn(usize) -> P| -> usize {
            let rec = this.defs.len();
            this.defs.push(P::Empty);
            this.defs[rec] = body(rec);
            let entry = this.defs.len();
            this.defs.push(P::CallA(true, rec, 0, vec![]));
            entry
        };
        let tc = |rec: usize| P::TCallA(rec, 0, vec![]);
        let i = match d {
            // def repeat(f): def rec: f, rec; rec;
            Dn::Repeat => with_rec(self, &|rec| comma(f0(), tc(rec))),
            // def recurse(f): def rec: ., (f | rec); rec;
            Dn::Recurse => with_rec(self, &|rec| comma(P::Id, pipe(f0(), tc(rec)))),
            // def while(cond; update): def rec: if cond then ., (update | rec) else empty end; rec;
            Dn::While => with_rec(self, &|rec| P::Ite(b(f1()), b(comma(P::Id, pipe(f0(), tc(rec)))), b(P::Empty))),
            // def until(cond; update): def rec: if cond then . else update | rec end; rec;
            Dn::Until => with_rec(self, &|rec| P::Ite(b(f1()), b(P::Id), b(pipe(f0(), tc(rec))))),
            // def d1(f): f, f;
            Dn::D1 => self.push(comma(f0(), f0())),
            // def d2(f; g): f | g;
            Dn::D2 => self.push(pipe(f1(), f0())),
            // def d3(f): first(f), 5;
            Dn::D3 => self.push(comma(P::First(b(f0())), lit(5))),
            // def d4($a; f): $a, f, $a;
            Dn::D4 => self.push(comma(P::Var(1), comma(f0(), P::Var(1)))),
            // def d5(f): d1(f);   (the argument is passed on: `closure` reuses the binding)
            Dn::D5 => {
                let d1 = self.def(Dn::D1);
                self.push(P::CallA(false, d1, 1, vec![(true, f0())]))
            }
            // def d6(f): f, d6(f | 1);   (tail call with a new closure)
            Dn::D6 => {
                let me = self.defs.len();
                self.defs.push(P::Empty);
                self.defs[me] = comma(f0(), P::TCallA(me, 1, vec![(true, pipe(f0(), lit(1)))]));
                me
            }
        };
        self.known.insert(d, i);
        i
    }

    fn push(&mut self, p: P) -> usize {
        self.defs.push(p);
        self.defs.len() - 1
    }

    /// does the call of `d` from outside need the trampoline (`CatchOne`)?  only `d6` calls itself
    fn catches(d: Dn) -> bool {
        d == Dn::D6
    }

    /// `env`: for every binding in scope whether it is a label
    pub fn lower(&mut self, p: &P, env: &mut Vec<bool>) -> P {
        macro_rules! l {
            ($p:expr) => {
                b(self.lower($p, env))
            };
        }
        macro_rules! l1 {
            ($p:expr, $lab:expr) => {{
                env.push($lab);
                let r = b(self.lower($p, env));
                env.pop();
                r
            }};
        }
        match p {
            P::Id | P::Lit(_) | P::Empty | P::Error | P::Halt(_) | P::Input | P::Inputs | P::Var(_) | P::Range(..)
            | P::Call(_) | P::TCall(_) | P::FVar(_) | P::CallA(..) | P::TCallA(..) => p.clone(),
            P::Comma(x, y) => P::Comma(l!(x), l!(y)),
            P::Pipe(x, y) => P::Pipe(l!(x), l!(y)),
            P::As(x, y) => P::As(l!(x), l1!(y, false)),
            P::Ite(c, x, y) => P::Ite(l!(c), l!(x), l!(y)),
            P::Alt(x, y) => P::Alt(l!(x), l!(y)),
            P::Or(x, y) => P::Or(l!(x), l!(y)),
            P::And(x, y) => P::And(l!(x), l!(y)),
            P::First(f) => P::First(l!(f)),
            P::Limit(n, f) => P::Limit(*n, l!(f)),
            P::Skip(n, f) => P::Skip(*n, l!(f)),
            P::Try(f, c) => P::Try(l!(f), l!(c)),
            P::Label(f) => P::Label(l1!(f, true)),
            P::Index(f, i) => P::Index(l!(f), l!(i)),
            P::Arr(f) => P::Arr(l!(f)),
            P::Math(op, x, y) => P::Math(*op, l!(x), l!(y)),
            P::Reduce(xs, i, u) => P::Reduce(l!(xs), l!(i), l1!(u, false)),
            P::Foreach(xs, i, u, pr) => {
                let (xs, i, u) = (l!(xs), l!(i), l1!(u, false));
                let pr = pr.as_ref().map(|pr| l1!(pr, false));
                P::Foreach(xs, i, u, pr)
            }
            // def isempty(g): first((g | false), true);
            P::IsEmpty(g) => P::First(b(comma(pipe(*l!(g), P::Lit(L::False)), P::Lit(L::True)))),
            // def all(g; cond): isempty(g | cond and empty);
            P::All(g, c) => {
                let inner = pipe(*l!(g), P::And(l!(c), b(P::Empty)));
                P::First(b(comma(pipe(inner, P::Lit(L::False)), P::Lit(L::True))))
            }
            // def any(g; cond): isempty(g | cond or empty) | not;
            P::Any(g, c) => {
                let inner = pipe(*l!(g), P::Or(l!(c), b(P::Empty)));
                let isempty = P::First(b(comma(pipe(inner, P::Lit(L::False)), P::Lit(L::True))));
                pipe(isempty, self.lower(&P::Not, env))
            }
            // def not: if . then false else true end;
            P::Not => P::Ite(b(P::Id), b(P::Lit(L::False)), b(P::Lit(L::True))),
            // def nth(n; g): first(skip(n; g));
            P::Nth(n, g) => P::First(b(P::Skip(*n, l!(g)))),
            // def error(msgs): (msgs | error_empty) as $x | .;
            P::ErrorOf(f) => pipe(*l!(f), P::Error),
            P::Repeat(f) => self.lower(&P::App(Dn::Repeat, vec![(**f).clone()]), env),
            P::Recurse(f) => self.lower(&P::App(Dn::Recurse, vec![(**f).clone()]), env),
            // def dv: dv;
            P::Diverge => {
                let i = self.defs.len();
                self.defs.push(P::TCall(i));
                P::Call(i)
            }
            P::App(d, args) => {
                let kinds = d.params();
                assert_eq!(kinds.len(), args.len());
                // a `$`-argument that is not simple is bound first: `d4(e; g)` = `e as $t | d4($t; g)`
                if let Some(j) = (0..args.len()).find(|j| !kinds[*j] && !simple_arg(&args[*j], env)) {
                    let mut args2: Vec<P> = args.iter().map(|a| shift(a, 0, 1)).collect();
                    args2[j] = P::Var(0);
                    let e = l!(&args[j]);
                    env.push(false);
                    let rest = b(self.lower(&P::App(*d, args2), env));
                    env.pop();
                    return P::As(e, rest);
                }
                let entry = self.def(*d);
                let largs: Vec<(bool, P)> = kinds.iter().zip(args).map(|(k, a)| (*k, self.lower(a, env))).collect();
                P::CallA(Lower::catches(*d), entry, env.len(), largs)
            }
        }
    }
}

fn toks(p: &P, out: &mut Vec<String>) {
    let un = |name: &str, ps: &[&P], out: &mut Vec<String>| {
        out.push(name.into());
        for p in ps {
            toks(p, out);
        }
    };
    match p {
        P::Id => out.push("id".into()),
        P::Lit(l) => {
            out.push("lit".into());
            vx::enc_into(&l.val(), out);
        }
        P::Empty => out.push("empty".into()),
        P::Error => out.push("error".into()),
        P::Halt(c) => out.extend(["halt".into(), c.to_string()]),
        P::Comma(l, r) => un("comma", &[l, r], out),
        P::Pipe(l, r) => un("pipe", &[l, r], out),
        P::As(l, r) => un("as", &[l, r], out),
        P::Ite(c, t, e) => un("ite", &[c, t, e], out),
        P::Alt(l, r) => un("alt", &[l, r], out),
        P::Or(l, r) => un("or", &[l, r], out),
        P::And(l, r) => un("and", &[l, r], out),
        P::Input => out.push("input".into()),
        P::Inputs => out.push("inputs".into()),
        P::First(f) => un("first", &[f], out),
        P::Limit(n, f) => {
            out.extend(["limit".into(), n.to_string()]);
            toks(f, out)
        }
        P::Skip(n, f) => {
            out.extend(["skip".into(), n.to_string()]);
            toks(f, out)
        }
        P::Try(f, c) => un("try", &[f, c], out),
        P::Label(f) => un("label", &[f], out),
        P::Var(i) => out.extend(["var".into(), i.to_string()]),
        P::Call(i) => out.extend(["call".into(), i.to_string()]),
        P::TCall(i) => out.extend(["tcall".into(), i.to_string()]),
        P::Range(a, bb, c) => out.extend(["range".into(), a.to_string(), bb.to_string(), c.to_string()]),
        P::Index(f, i) => un("index", &[f, i], out),
        P::Arr(f) => un("arr", &[f], out),
        P::Math(op, l, r) => un(match op { '+' => "add", '-' => "sub", _ => "mul" }, &[l, r], out),
        P::Reduce(xs, i, u) => un("reduce", &[xs, i, u], out),
        P::Foreach(xs, i, u, None) => un("foreach", &[xs, i, u], out),
        P::Foreach(xs, i, u, Some(pr)) => un("foreachp", &[xs, i, u, pr], out),
        P::FVar(i) => out.extend(["fvar".into(), i.to_string()]),
        P::CallA(catch, i, skip, args) => {
            out.extend(["calla".into(), if *catch { "catch" } else { "inline" }.into(), i.to_string(), skip.to_string(), args.len().to_string()]);
            for (k, a) in args {
                out.push(if *k { "F" } else { "V" }.into());
                toks(a, out);
            }
        }
        P::TCallA(i, skip, args) => {
            out.extend(["tcalla".into(), i.to_string(), skip.to_string(), args.len().to_string()]);
            for (k, a) in args {
                out.push(if *k { "F" } else { "V" }.into());
                toks(a, out);
            }
        }
        _ => unreachable!("derived form after lowering"),
    }
}

pub const FUEL: usize = 3000;

pub fn request(p: &P, inputs: &[Val], k: usize) -> String {
    let mut lw = Lower::new();
    let core = lw.lower(p, &mut Vec::new());
    let defs = lw.defs;
    let mut out: Vec<String> = vec!["c03.take".into(), FUEL.to_string(), k.to_string(), inputs.len().to_string()];
    for v in inputs {
        vx::enc_into(v, &mut out);
    }
    vx::enc_into(&Val::Null, &mut out);
    out.push(defs.len().to_string());
    for d in &defs {
        toks(d, &mut out);
    }
    toks(&core, &mut out);
    out.join(" ")
}

/// errors raised by the interpreter itself are compared by class, not by message text
fn canon_err(v: Val) -> Val {
    if let Val::TStr(s) = &v {
        if s.starts_with(b"cannot index") {
            return tstr(b"cannot index");
        }
        if s.starts_with(b"cannot calculate") {
            return tstr(b"cannot calculate");
        }
    }
    v
}

/// Compile with the definitions of `jaq-core/src/defs.jq` only (all natives): the programs use
/// nothing else, and parsing the whole standard library for every case dominates the run time.
fn compile_core(code: &str) -> Result<jaq_all::data::Filter, String> {
    jaq_all::compile_with(code, jaq_core::defs(), jaq_all::data::funs(), &[])
        .map_err(|e| format!("compile error ({} reports)", e.len()))
}

enum Msg {
    Item(String),
    Done(usize),
}

struct Job {
    prog: String,
    ins: Vec<String>,
    k: usize,
}

/// one real run on the worker thread; items are sent as they are produced
fn run_job(job: &Job, tx: &mpsc::Sender<Msg>) {
    let r = catch(|| {
        let filter = match compile_core(&job.prog) {
            Ok(f) => f,
            Err(e) => {
                let _ = tx.send(Msg::Item(format!("COMPILE-ERROR {e}")));
                return 0;
            }
        };
        let ins: Vec<Val> = job.ins.iter().map(|s| vx::dec(s).unwrap()).collect();
        let count = std::rc::Rc::new(std::cell::Cell::new(0usize));
        let c = count.clone();
        // the counting input iterator
        let inputs: Box<dyn Iterator<Item = Result<Val, String>>> = Box::new(ins.into_iter().map(move |v| {
            c.set(c.get() + 1);
            Ok(v)
        }));
        let runner = Runner::default();
        let rc = RcIter::new(inputs);
        let data = Data { runner: &runner, lut: &filter.lut, inputs: &rc };
        let ctx = Ctx::new(&data, Vars::new([]));
        let mut iter = filter.id.run((ctx, Val::Null));
        for _ in 0..job.k {
            match iter.next() {
                None => break,
                Some(Ok(v)) => {
                    let _ = tx.send(Msg::Item(format!("V {}", vx::enc_canon(&v))));
                }
                Some(Err(exn)) => {
                    let s = match exn.get_err() {
                        Ok(e) => format!("E {}", vx::enc_canon(&canon_err(e.into_val()))),
                        Err(exn) => match exn.get_halt() {
                            Ok(code) => format!("H {code}"),
                            Err(exn) => format!("X {}", format!("{exn:?}").replace([' ', '\n', '\t'], "_")),
                        },
                    };
                    let _ = tx.send(Msg::Item(s));
                }
            }
        }
        count.get()
    });
    match r {
        Ok(c) => {
            let _ = tx.send(Msg::Done(c));
        }
        Err(p) => {
            let _ = tx.send(Msg::Item(format!("PANIC {}", p.replace([' ', '\n', '\t'], "_"))));
            let _ = tx.send(Msg::Done(0));
        }
    }
}

/// A worker thread that executes real runs; when a run exceeds its time budget the worker is
/// abandoned (it may spin forever; the process exits explicitly) and a new one is started.
pub struct Worker {
    jobs: mpsc::Sender<Job>,
    msgs: mpsc::Receiver<Msg>,
}

impl Worker {
    pub fn new() -> Worker {
        let (jtx, jrx) = mpsc::channel::<Job>();
        let (mtx, mrx) = mpsc::channel::<Msg>();
        let _ = std::thread::Builder::new().stack_size(16 << 20).spawn(move || {
            while let Ok(job) = jrx.recv() {
                run_job(&job, &mtx);
            }
        });
        Worker { jobs: jtx, msgs: mrx }
    }

    /// Run `prog` on `null` with `inputs` as the shared input stream and take exactly `k` items
    /// of the library iterator.  Answer: `<items> c=<inputs consumed>`.
    pub fn real_run(&mut self, prog: &str, inputs: &[Val], k: usize, budget_ms: u64) -> String {
        let job = Job { prog: prog.to_string(), ins: inputs.iter().map(vx::enc).collect(), k };
        let _ = self.jobs.send(job);
        let mut items: Vec<String> = Vec::new();
        let deadline = std::time::Instant::now() + Duration::from_millis(budget_ms);
        let mut consumed = None;
        loop {
            let now = std::time::Instant::now();
            if now >= deadline {
                break;
            }
            match self.msgs.recv_timeout(deadline - now) {
                Ok(Msg::Item(s)) => items.push(s),
                Ok(Msg::Done(c)) => {
                    consumed = Some(c);
                    break;
                }
                Err(_) => break,
            }
        }
        let c = match consumed {
            Some(c) => c.to_string(),
            None => {
                items.push("DIVERGE".into());
                *self = Worker::new();
                "?".to_string()
            }
        };
        format!("{} c={}", if items.is_empty() { "-".to_string() } else { items.join(" ; ") }, c)
    }
}

// ------------------------------------------------------------------------------------------
// enumeration: consumer × generator × bomb × k

#[derive(Clone, Copy, Debug, PartialEq)]
enum Bomb {
    Error,
    Halt,
    Input,
    Inputs,
    Diverge,
    RepeatEmpty,
}

impl Bomb {
    fn all() -> Vec<Bomb> {
        vec![Bomb::Error, Bomb::Halt, Bomb::Input, Bomb::Inputs, Bomb::Diverge, Bomb::RepeatEmpty]
    }
    fn p(self) -> P {
        match self {
            Bomb::Error => P::ErrorOf(b(lit(666))),
            Bomb::Halt => P::Halt(7),
            Bomb::Input => P::Input,
            Bomb::Inputs => P::Inputs,
            Bomb::Diverge => P::Diverge,
            Bomb::RepeatEmpty => P::Repeat(b(P::Empty)),
        }
    }
    fn diverges(self) -> bool {
        matches!(self, Bomb::Diverge | Bomb::RepeatEmpty)
    }
}

/// generators: streams that deliver `pos` ordinary items before the bomb is reached
fn generators(pos: usize, bomb: &P) -> Vec<(&'static str, P)> {
    let items: Vec<P> = (1..=pos as i64).map(lit).collect();
    let mut v: Vec<(&'static str, P)> = Vec::new();
    let with = |tail: Vec<P>| {
        let mut xs = items.clone();
        xs.extend(tail);
        xs
    };
    // 1, 2, …, BOMB, 99   (right- and left-nested)
    v.push(("comma-r", commas(with(vec![bomb.clone(), lit(99)]))));
    v.push(("comma-l", commas_left(with(vec![bomb.clone(), lit(99)]))));
    // (1, …, false, 98) | if . then . else BOMB end
    let ite = P::Ite(b(P::Id), b(P::Id), b(bomb.clone()));
    v.push(("pipe-ite", pipe(commas(with(vec![P::Lit(L::False), lit(98)])), ite.clone())));
    // (1, …, null) as $x | if $x then $x else BOMB end
    v.push((
        "as-ite",
        P::As(b(commas(with(vec![P::Lit(L::Null), lit(97)]))), b(P::Ite(b(P::Var(0)), b(P::Var(0)), b(bomb.clone())))),
    ));
    // range(0; pos; 1), BOMB
    v.push(("range", comma(P::Range(0, pos as i64, 1), comma(bomb.clone(), lit(96)))));
    // limit(pos; repeat(7)), BOMB
    v.push(("limit-repeat", comma(P::Limit(pos, b(P::Repeat(b(lit(7))))), bomb.clone())));
    // (1, …) , (BOMB | 5)
    v.push(("bomb-piped", commas(with(vec![pipe(bomb.clone(), lit(5))]))));
    // try (1, …, error, BOMB) catch (., BOMB)
    v.push((
        "try",
        P::Try(b(commas(with(vec![P::ErrorOf(b(lit(50))), bomb.clone()]))), b(comma(P::Id, bomb.clone()))),
    ));
    // label $l | (1, …, BOMB)  and a break before the bomb
    v.push(("label", P::Label(b(commas(with(vec![bomb.clone(), P::Var(0)]))))));
    v.push(("label-break", comma(P::Label(b(commas(with(vec![P::Var(0), bomb.clone()])))), lit(95))));
    // (1, …, BOMB) // 9 ; (false, null, 1, …, BOMB) // 9
    v.push(("alt", P::Alt(b(commas(with(vec![bomb.clone()]))), b(lit(9)))));
    let mut fs = vec![P::Lit(L::False), P::Lit(L::Null)];
    fs.extend(with(vec![bomb.clone()]));
    v.push(("alt-skip", P::Alt(b(commas(fs)), b(lit(9)))));
    // (1, …, BOMB) or X ;  (false, …) and BOMB
    v.push(("or", P::Or(b(commas(with(vec![bomb.clone()]))), b(bomb.clone()))));
    {
        // first((1, BOMB)), 2, …, BOMB, 99
        let mut xs = vec![P::First(b(comma(lit(1), bomb.clone())))];
        xs.extend(items.iter().skip(1).cloned());
        xs.extend([bomb.clone(), lit(99)]);
        v.push(("first-nested", commas(xs)));
    }
    // skip(1; (1, …, 94, BOMB))
    v.push(("skip", P::Skip(1, b(commas(with(vec![lit(94), bomb.clone()]))))));
    // ---- round 2: reduce / foreach, closures, arrays, arithmetic
    let x0 = || P::Var(0);
    // foreach (1, …, BOMB, 99) as $x (0; $x): the list of `xs` is forced one node at a time
    v.push(("foreach-xs", P::Foreach(b(commas(with(vec![bomb.clone(), lit(99)]))), b(lit(0)), b(x0()), None)));
    // foreach (1, …, false) as $x (0; if $x then $x else BOMB end)
    let upd = P::Ite(b(x0()), b(x0()), b(bomb.clone()));
    v.push(("foreach-upd", P::Foreach(b(commas(with(vec![P::Lit(L::False), lit(93)]))), b(lit(0)), b(upd), None)));
    // foreach (1, …, null) as $x (0; $x; if . then ., BOMB-free else BOMB end)
    let pr = P::Ite(b(P::Id), b(P::Id), b(bomb.clone()));
    v.push(("foreach-proj", P::Foreach(b(commas(with(vec![P::Lit(L::Null), lit(92)]))), b(lit(0)), b(x0()), Some(b(pr)))));
    // foreach (1, …, 91) as $x ((0, BOMB); $x): the second output of `init` is never asked for
    v.push(("foreach-init", P::Limit(pos, b(P::Foreach(b(commas(with(vec![lit(91)]))), b(comma(lit(0), bomb.clone())), b(x0()), None)))));
    // (limit(pos; foreach inputs as $x (0; . + $x)) | 1), BOMB
    let sums = P::Foreach(b(P::Inputs), b(lit(0)), b(P::Math('+', b(P::Id), b(x0()))), None);
    v.push(("foreach-inputs", comma(pipe(P::Limit(pos, b(sums)), lit(1)), bomb.clone())));
    // (1, …) | reduce (1, 2) as $x (.; . + $x)   then BOMB
    let red = P::Reduce(b(comma(lit(1), lit(2))), b(P::Id), b(P::Math('+', b(P::Id), b(x0()))));
    v.push(("reduce-piped", comma(pipe(commas(items.clone()), red), bomb.clone())));
    // foreach (1, …) as $x (0; ($x, BOMB)): the second output of `update` is behind the first of the next element …
    // … so only the first `pos` outputs of the depth-first order are bomb-free when `update` is `($x, …)`
    v.push(("foreach-dfs", P::Foreach(b(commas(with(vec![lit(90)]))), b(lit(0)), b(comma(x0(), bomb.clone())), None)));
    // repeat / while / d-definitions with closures that see the bomb
    v.push(("closure-d1", P::App(Dn::D1, vec![commas(with(vec![bomb.clone()]))])));
    v.push(("closure-d2", P::App(Dn::D2, vec![commas(with(vec![P::Lit(L::False), lit(89)])), ite.clone()])));
    v.push(("closure-d4", comma(P::Limit(pos, b(P::App(Dn::Repeat, vec![lit(7)]))), P::App(Dn::D4, vec![bomb.clone(), lit(1)]))));
    v.push(("closure-d6", comma(P::Limit(pos, b(P::App(Dn::D6, vec![lit(3)]))), bomb.clone())));
    // true | while(.; BOMB): the first output comes before `update` is run
    v.push(("while", comma(commas(items.iter().skip(1).cloned().chain([lit(1)]).collect()), pipe(P::Lit(L::True), pipe(P::App(Dn::While, vec![P::Id, bomb.clone()]), lit(88))))));
    // (1, …, BOMB) + 0   and   0 + (1, …, BOMB)   (the left operand is the outer loop)
    v.push(("math-l", P::Math('+', b(commas(with(vec![bomb.clone()]))), b(lit(0)))));
    v.push(("math-r", P::Math('+', b(lit(0)), b(commas(with(vec![bomb.clone()]))))));
    // (1, …) | [., 0] | .[0]   then BOMB
    v.push(("arr", comma(pipe(commas(items.clone()), P::Index(b(P::Arr(b(comma(P::Id, lit(0))))), b(lit(0)))), bomb.clone())));
    v
}

/// prefix consumers; `k` is the number of items the library consumer takes
fn consumers(g: &P, pos: usize) -> Vec<(&'static str, P, usize)> {
    let mut v: Vec<(&'static str, P, usize)> = Vec::new();
    if pos >= 1 {
        v.push(("library", g.clone(), pos));
        v.push(("limit", P::Limit(pos, b(g.clone())), pos + 1));
        v.push(("nth", P::Nth(pos - 1, b(g.clone())), 2));
        v.push(("first", P::First(b(g.clone())), 2));
        v.push(("isempty", P::IsEmpty(b(g.clone())), 2));
        v.push(("any", P::Any(b(g.clone()), b(P::Id)), 2));
        v.push(("all", P::All(b(g.clone()), b(P::Ite(b(P::Id), b(P::Lit(L::False)), b(P::Lit(L::True))))), 2));
        // label $l | g | (., break $l)  — stops after the first output
        v.push(("label-break", P::Label(b(pipe(g.clone(), comma(P::Id, P::Var(0))))), 3));
        v.push(("alt", P::First(b(P::Alt(b(g.clone()), b(lit(0))))), 2));
        // g | halt  (the first output halts; at library level the halt is an item)
        v.push(("halt", P::First(b(pipe(g.clone(), P::Halt(3)))), 2));
        // (g | input): `input` as a consumer of one input per output
        v.push(("input", P::Limit(pos, b(pipe(g.clone(), P::Input))), pos + 1));
        // limit inside a pipe: limit(pos; g) | (., 0)
        v.push(("limit-pipe", pipe(P::Limit(pos, b(g.clone())), comma(P::Id, lit(0))), 2 * pos + 1));
        v.push(("try-limit", P::Try(b(P::Limit(pos, b(g.clone()))), b(lit(1))), pos + 1));
        // round 2: in-language observation `[limit(pos; g)]`; a prefix consumer defined with a closure; foreach as consumer
        v.push(("arr-limit", P::Arr(b(P::Limit(pos, b(g.clone())))), 2));
        v.push(("closure-first", P::App(Dn::D3, vec![g.clone()]), 3));
        v.push(("foreach-limit", P::Limit(pos, b(P::Foreach(b(P::Range(0, 9, 1)), b(lit(0)), b(P::Var(0)), Some(b(shift(g, 0, 1)))))), pos + 1));
    }
    v
}

fn std_inputs() -> Vec<Val> {
    (0..6).map(|i| int(100 + i)).collect()
}

struct Emit {
    worker: Worker,
    n: usize,
    budget_ms: u64,
    timeouts: usize,
    shard: usize,
    nshards: usize,
}

impl Emit {
    fn case(&mut self, tag: &str, p: &P, inputs: &[Val], k: usize) {
        self.n += 1;
        if (self.n - 1) % self.nshards != self.shard {
            return;
        }
        let prog = program_text(p);
        let req = request(p, inputs, k);
        // cases whose real run times out keep a thread spinning: bound their number
        let real = if self.timeouts >= 6 {
            "SKIPPED-too-many-timeouts".to_string()
        } else {
            self.worker.real_run(&prog, inputs, k, self.budget_ms)
        };
        if real.contains("DIVERGE") {
            self.timeouts += 1;
        }
        let ins: Vec<String> = inputs.iter().map(vx::enc).collect();
        println!("{tag}#{}\t{prog}\t{}\t{k}\t{req}\t{real}", self.n - 1, ins.join(","));
    }
}

fn enumerate(em: &mut Emit, max_pos: usize) {
    let ins = std_inputs();
    for bomb in Bomb::all() {
        for pos in 1..=max_pos {
            for (gname, g) in generators(pos, &bomb.p()) {
                for (cname, c, k) in consumers(&g, pos) {
                    em.case(&format!("enum:{cname}:{gname}:{bomb:?}:{pos}"), &c, &ins, k);
                }
            }
        }
        let _ = bomb.diverges();
    }
}

/// programs around the index filters of paths (finding F-03) and the other construction-time
/// evaluations
fn special(em: &mut Emit) {
    let ins = std_inputs();
    let arr_ins = vec![arr(vec![int(5), int(6)]), int(1), int(0), int(102)];
    let a = || P::Lit(L::Arr(vec![10, 20, 30]));
    let cases: Vec<(&str, P, Vec<Val>, usize)> = vec![
        // F-03
        ("f03:first-empty-index-input", comma(P::First(b(P::Index(b(P::Empty), b(P::Input)))), P::Input), ins.clone(), 2),
        ("f03:input-index-input", P::Index(b(P::Input), b(P::Input)), arr_ins.clone(), 1),
        ("f03:limit0-index", comma(P::Limit(1, b(P::Index(b(P::Empty), b(P::Input)))), P::Inputs), ins.clone(), 3),
        ("f03:index-comma-input", P::Index(b(a()), b(comma(P::Input, lit(1)))), vec![int(0), int(2), int(1)], 3),
        // pure index filters
        ("idx:lit", P::Index(b(a()), b(lit(1))), ins.clone(), 2),
        ("idx:multi", P::Index(b(a()), b(comma(lit(0), lit(2)))), ins.clone(), 3),
        ("idx:heads", P::Index(b(comma(a(), P::Lit(L::Arr(vec![7, 8])))), b(comma(lit(0), lit(1)))), ins.clone(), 5),
        ("idx:neg", P::Index(b(a()), b(comma(lit(-1), lit(-4)))), ins.clone(), 3),
        ("idx:var", P::As(b(lit(2)), b(P::Index(b(a()), b(P::Var(0))))), ins.clone(), 2),
        ("idx:id", pipe(lit(1), P::Index(b(a()), b(P::Id))), ins.clone(), 2),
        ("idx:head-inputs", P::Index(b(pipe(P::Inputs, a())), b(lit(0))), ins.clone(), 2),
        ("idx:null", P::Index(b(P::Lit(L::Null)), b(lit(0))), ins.clone(), 2),
        ("idx:error", P::Index(b(lit(1)), b(lit(0))), ins.clone(), 2),
        ("idx:diverging-index-unused", comma(P::First(b(P::Index(b(P::Empty), b(P::Diverge)))), lit(1)), ins.clone(), 1),
        ("idx:error-index-unused", comma(P::First(b(P::Index(b(P::Empty), b(P::Error)))), lit(1)), ins.clone(), 1),
        // construction-time evaluation that must stay invisible
        ("ctor:limit0", comma(P::Limit(0, b(P::Input)), P::Inputs), ins.clone(), 2),
        ("ctor:alt-right-unpulled", comma(P::First(b(P::Alt(b(P::Empty), b(P::Inputs)))), P::Inputs), ins.clone(), 3),
        ("ctor:pipe-input", pipe(comma(lit(1), lit(2)), P::Input), ins.clone(), 1),
        ("ctor:comma-right-input", comma(lit(1), P::Input), ins.clone(), 1),
        ("ctor:inputs-one-per-pull", P::Inputs, ins.clone(), 2),
        ("ctor:first-inputs", comma(P::First(b(P::Inputs)), P::Input), ins.clone(), 2),
        ("ctor:recurse-input", P::Recurse(b(P::Input)), ins.clone(), 3),
        ("ctor:repeat-input-exhausted", P::Repeat(b(P::Input)), vec![int(1), int(2)], 2),
        ("ctor:repeat-input-diverges", P::Repeat(b(P::Input)), vec![int(1), int(2)], 3),
        ("ctor:range-zero-step", P::Range(0, 1, 0), ins.clone(), 4),
        ("ctor:range-neg", P::Range(3, 0, -1), ins.clone(), 5),
        ("ctor:label-nested", P::Label(b(comma(P::Label(b(comma(lit(1), P::Var(1)))), lit(2)))), ins.clone(), 3),
        ("ctor:try-halt", P::Try(b(comma(P::Halt(1), lit(2))), b(lit(3))), ins.clone(), 3),
        ("ctor:try-in-try", P::Try(b(P::Try(b(P::Error), b(P::Error))), b(comma(P::Id, P::Input))), ins.clone(), 3),
        ("ctor:skip-input", P::Skip(2, b(P::Inputs)), ins.clone(), 1),
        ("ctor:and-or", P::And(b(comma(P::Lit(L::True), P::Lit(L::False))), b(comma(P::Input, P::Lit(L::Null)))), ins.clone(), 2),
        // ---- round 2
        // the manual's examples
        ("fold:reduce-sum", P::Reduce(b(commas(vec![lit(1), lit(2), lit(3)])), b(lit(0)), b(P::Math('+', b(P::Id), b(P::Var(0))))), ins.clone(), 2),
        ("fold:foreach-sum", P::Foreach(b(commas(vec![lit(1), lit(2), lit(3)])), b(lit(0)), b(P::Math('+', b(P::Id), b(P::Var(0)))), None), ins.clone(), 4),
        ("fold:foreach-proj", P::Foreach(b(commas(vec![lit(1), lit(2), lit(3)])), b(lit(0)), b(P::Math('+', b(P::Id), b(P::Var(0)))), Some(b(P::Arr(b(comma(P::Var(0), P::Id)))))), ins.clone(), 4),
        ("fold:foreach-multi", P::Foreach(b(comma(lit(5), lit(10))), b(lit(1)), b(comma(P::Math('+', b(P::Id), b(P::Var(0))), P::Math('-', b(lit(0)), b(P::Id)))), None), ins.clone(), 7),
        ("fold:reduce-multi", P::Reduce(b(comma(lit(5), lit(10))), b(lit(1)), b(comma(P::Math('+', b(P::Id), b(P::Var(0))), P::Math('-', b(lit(0)), b(P::Id))))), ins.clone(), 5),
        ("fold:reduce-empty", comma(P::Reduce(b(P::Empty), b(lit(0)), b(P::Var(0))), P::Foreach(b(P::Empty), b(lit(0)), b(P::Var(0)), None)), ins.clone(), 2),
        // the list is shared: the inputs are read once, for the first output of `init`, and re-read from the list for the second
        ("fold:shared-list", P::Foreach(b(P::Limit(2, b(P::Inputs))), b(comma(lit(0), lit(1000))), b(P::Math('+', b(P::Id), b(P::Var(0)))), None), ins.clone(), 5),
        ("fold:shared-list-partial", P::Foreach(b(P::Inputs), b(comma(lit(0), lit(1000))), b(P::Ite(b(P::Id), b(P::Empty), b(P::Var(0)))), None), ins.clone(), 3),
        ("fold:foreach-inputs", P::Foreach(b(P::Inputs), b(lit(0)), b(P::Math('+', b(P::Id), b(P::Var(0)))), None), ins.clone(), 3),
        ("fold:reduce-inputs-then-input", comma(P::Reduce(b(P::Limit(2, b(P::Inputs))), b(lit(0)), b(P::Math('+', b(P::Id), b(P::Var(0))))), P::Input), ins.clone(), 2),
        ("fold:error-in-xs", P::Foreach(b(comma(lit(1), comma(P::Error, lit(2)))), b(lit(0)), b(P::Var(0)), None), ins.clone(), 4),
        ("fold:error-in-update", P::Try(b(P::Foreach(b(comma(lit(1), lit(2))), b(lit(0)), b(comma(P::Var(0), P::Error)), None)), b(lit(77))), ins.clone(), 4),
        ("fold:init-input", P::Foreach(b(comma(lit(1), lit(2))), b(comma(P::Input, P::Input)), b(comma(P::Id, P::Var(0))), None), ins.clone(), 7),
        ("fold:update-input", P::Foreach(b(P::Range(0, 3, 1)), b(lit(0)), b(P::Input), None), ins.clone(), 2),
        ("fold:break-from-update", P::Label(b(P::Foreach(b(P::Range(0, 5, 1)), b(lit(0)), b(P::Ite(b(P::Var(0)), b(P::Var(1)), b(P::Var(0)))), None))), ins.clone(), 3),
        ("fold:nested", P::Foreach(b(comma(lit(1), lit(2))), b(lit(0)), b(P::Reduce(b(comma(lit(10), lit(20))), b(P::Id), b(P::Math('+', b(P::Id), b(P::Math('+', b(P::Var(0)), b(P::Var(1)))))))), None), ins.clone(), 3),
        ("fold:limit0-xs", comma(P::Foreach(b(P::Limit(0, b(P::Inputs))), b(lit(0)), b(P::Var(0)), None), P::Input), ins.clone(), 2),
        // sources whose construction has effects: outside `take_prefix` (the manual does not fix whether `xs` or
        // `init` is started first); the iterator model must still describe the code
        ("hdr:reduce-input-input", P::Reduce(b(P::Input), b(P::Input), b(P::Var(0))), ins.clone(), 1),
        ("hdr:foreach-first-inputs-empty-init", comma(P::First(b(P::Foreach(b(P::First(b(P::Inputs))), b(P::Empty), b(P::Id), None))), P::Input), ins.clone(), 1),
        ("hdr:foreach-input-init-input", P::Foreach(b(comma(P::Input, lit(5))), b(P::Input), b(comma(P::Id, P::Var(0))), None), ins.clone(), 3),
        // closures
        ("clo:repeat", P::Limit(3, b(P::App(Dn::Repeat, vec![comma(lit(1), lit(2))]))), ins.clone(), 4),
        ("clo:repeat-input", P::App(Dn::Repeat, vec![P::Input]), vec![int(1), int(2)], 2),
        ("clo:recurse-add", pipe(lit(0), P::Limit(4, b(P::App(Dn::Recurse, vec![P::Math('+', b(P::Id), b(lit(1)))])))), ins.clone(), 5),
        ("clo:while", pipe(P::Lit(L::Arr(vec![1, 2, 3])), P::App(Dn::While, vec![P::Index(b(P::Id), b(lit(0))), P::Index(b(P::Id), b(lit(5)))])), ins.clone(), 3),
        ("clo:until", pipe(P::Lit(L::False), P::App(Dn::Until, vec![P::Id, P::Input])), vec![L::Null.val(), int(3), int(4)], 2),
        ("clo:break-from-arg", P::Label(b(P::App(Dn::D1, vec![comma(lit(1), P::Var(0))]))), ins.clone(), 3),
        ("clo:var-capture", P::As(b(comma(lit(1), lit(2))), b(P::App(Dn::D2, vec![P::Var(0), P::Math('+', b(P::Id), b(P::Var(0)))]))), ins.clone(), 3),
        ("clo:dollar-arg", P::App(Dn::D4, vec![comma(lit(1), P::Input), P::Inputs]), vec![int(5), int(6)], 9),
        ("clo:dollar-arg-var", P::As(b(lit(4)), b(P::App(Dn::D4, vec![P::Var(0), P::Var(0)]))), ins.clone(), 4),
        ("clo:pass-on", P::Limit(3, b(P::App(Dn::D5, vec![P::Inputs]))), ins.clone(), 4),
        ("clo:tail-call-new-closure", P::Limit(4, b(P::App(Dn::D6, vec![P::Input]))), ins.clone(), 5),
        ("clo:inline-upper", pipe(P::App(Dn::D2, vec![lit(1), lit(2)]), P::Input), ins.clone(), 1),
        ("clo:nested-repeat", P::Limit(3, b(P::App(Dn::Repeat, vec![P::Limit(2, b(P::App(Dn::Repeat, vec![P::Input])))]))), ins.clone(), 4),
        // arrays and arithmetic
        ("arr:collects-all", comma(P::First(b(P::Arr(b(P::Limit(2, b(P::Inputs)))))), P::Input), ins.clone(), 2),
        ("arr:error-inside", P::Try(b(P::Arr(b(comma(lit(1), comma(P::Error, P::Input))))), b(P::Input)), ins.clone(), 2),
        ("arr:lazy-outside", pipe(comma(lit(1), P::Input), P::Arr(b(comma(P::Id, P::Id)))), ins.clone(), 1),
        ("math:cartesian-order", P::Math('+', b(comma(lit(10), lit(20))), b(comma(lit(1), lit(2)))), ins.clone(), 5),
        ("math:inputs-order", P::Math('-', b(P::Input), b(P::Input)), ins.clone(), 2),
        ("math:right-per-left", P::Math('+', b(comma(lit(0), lit(0))), b(P::Input)), ins.clone(), 3),
        ("math:error-left", P::Math('+', b(comma(P::Error, lit(1))), b(P::Input)), ins.clone(), 3),
        ("math:type-error", P::Try(b(P::Math('*', b(P::Lit(L::True)), b(lit(2)))), b(P::Id)), ins.clone(), 2),
        ("math:arr-concat", P::Math('+', b(P::Arr(b(comma(lit(1), lit(2))))), b(P::Arr(b(P::Input)))), ins.clone(), 2),
    ];
    for (tag, p, inputs, k) in cases {
        for kk in 1..=k {
            em.case(&format!("special:{tag}"), &p, &inputs, kk);
        }
    }
}

// ------------------------------------------------------------------------------------------
// seeded random programs of the fragment

fn rand_prog(rng: &mut Rng, depth: usize, env: &mut Vec<bool>, effects: bool) -> P {
    let leaf = depth == 0 || rng.chance(1, 4);
    if leaf {
        let vars: Vec<usize> = (0..env.len()).collect();
        return match rng.below(if effects { 12 } else { 9 }) {
            0 => P::Id,
            1 => lit(rng.below(4) as i64),
            2 => P::Lit(if rng.chance(1, 2) { L::False } else { L::Null }),
            3 => P::Lit(L::True),
            4 => P::Empty,
            5 => P::Error,
            6 if !vars.is_empty() => P::Var(*rng.pick(&vars)),
            6 => lit(5),
            7 => P::Range(0, rng.below(3) as i64, 1),
            8 => P::Halt(rng.below(3) as i64),
            9 => P::Input,
            10 => P::Inputs,
            _ => P::Input,
        };
    }
    let sub = |rng: &mut Rng, env: &mut Vec<bool>| b(rand_prog(rng, depth - 1, env, effects));
    match rng.below(26) {
        19 => P::Arr(sub(rng, env)),
        20 => P::Math(*rng.pick(&['+', '+', '-', '*']), sub(rng, env), sub(rng, env)),
        21 | 22 => {
            // reduce / foreach; the source is one whose construction touches nothing
            let xs = match rng.below(6) {
                0 => P::Inputs,
                1 => P::Range(0, rng.below(4) as i64, 1),
                2 => comma(lit(rng.below(3) as i64), *sub(rng, env)),
                3 => P::Limit(rng.below(3), b(P::Inputs)),
                4 => pipe(P::Inputs, *sub(rng, env)),
                _ => P::Try(b(comma(lit(1), *sub(rng, env))), sub(rng, env)),
            };
            let init = sub(rng, env);
            env.push(false);
            let upd = match rng.below(4) {
                0 => b(P::Math('+', b(P::Id), b(P::Var(0)))),
                1 => b(P::Var(0)),
                _ => sub(rng, env),
            };
            let pr = if rng.chance(1, 3) { Some(sub(rng, env)) } else { None };
            env.pop();
            match rng.below(3) {
                0 => P::Reduce(b(xs), init, upd),
                _ => P::Foreach(b(xs), init, upd, pr),
            }
        }
        23 | 24 => {
            // definitions with closures; the generators are cut by a limit
            let d = *rng.pick(&Dn::all());
            let mut args: Vec<P> = d.params().iter().map(|_| *sub(rng, env)).collect();
            // keep the generators productive: a `repeat`/`d6` of a filter without outputs, or an
            // `until` whose condition never holds, runs forever without output
            match d {
                Dn::Repeat | Dn::D6 => args[0] = comma(args[0].clone(), lit(8)),
                Dn::Until => args[0] = comma(P::Lit(L::True), args[0].clone()),
                _ => {}
            }
            let call = P::App(d, args);
            match d {
                Dn::Repeat | Dn::Recurse | Dn::While | Dn::Until | Dn::D6 => P::Limit(1 + rng.below(3), b(call)),
                _ => call,
            }
        }
        25 => P::Limit(1 + rng.below(3), b(P::App(Dn::Repeat, vec![comma(*sub(rng, env), lit(8))]))),
        0 | 1 => P::Comma(sub(rng, env), sub(rng, env)),
        2 | 3 => P::Pipe(sub(rng, env), sub(rng, env)),
        4 => {
            let l = sub(rng, env);
            env.push(false);
            let r = sub(rng, env);
            env.pop();
            P::As(l, r)
        }
        5 => P::Ite(sub(rng, env), sub(rng, env), sub(rng, env)),
        6 => P::Alt(sub(rng, env), sub(rng, env)),
        7 => P::Or(sub(rng, env), sub(rng, env)),
        8 => P::And(sub(rng, env), sub(rng, env)),
        9 => P::First(sub(rng, env)),
        10 => P::Limit(rng.below(4), sub(rng, env)),
        11 => P::Skip(rng.below(3), sub(rng, env)),
        12 => P::Try(sub(rng, env), sub(rng, env)),
        13 => {
            env.push(true);
            let f = sub(rng, env);
            env.pop();
            P::Label(f)
        }
        14 => P::IsEmpty(sub(rng, env)),
        15 => P::Nth(rng.below(3), sub(rng, env)),
        16 => {
            // closed argument; wrapped in a limit so that the program terminates
            // (`repeat` of a filter without outputs never ends: give it an output)
            let f = rand_prog(rng, depth - 1, env, effects);
            let g = if rng.chance(1, 2) { P::Repeat(b(comma(f, lit(8)))) } else { P::Recurse(b(f)) };
            P::Limit(1 + rng.below(3), b(g))
        }
        17 => {
            // index with a pure, simple index filter
            let head = sub(rng, env);
            let arrs = P::Lit(L::Arr(vec![10, 20, 30]));
            let idx = match rng.below(3) {
                0 => lit(rng.below(4) as i64 - 1),
                1 => comma(lit(0), lit(1)),
                _ => P::Empty,
            };
            P::Index(b(pipe(*head, arrs)), b(idx))
        }
        _ => P::Any(sub(rng, env), sub(rng, env)),
    }
}

fn random(em: &mut Emit, n: usize) {
    let mut rng = Rng::new(prng::seed_from_env() ^ 0xC03);
    for _ in 0..n {
        let depth = 2 + rng.below(4);
        let p = rand_prog(&mut rng, depth, &mut Vec::new(), true);
        let nin = rng.below(5);
        let inputs: Vec<Val> = (0..nin)
            .map(|i| match rng.below(5) {
                0 => Val::Null,
                1 => Val::Bool(false),
                _ => int(100 + i as isize),
            })
            .collect();
        let k = 1 + rng.below(4);
        em.case("random", &p, &inputs, k);
    }
}

pub fn main(args: &[String]) {
    match args.first().map(|s| s.as_str()) {
        Some("gen") => {
            let thorough = args.get(1).map(|s| s == "thorough").unwrap_or(false);
            let shard: usize = args.get(2).and_then(|s| s.parse().ok()).unwrap_or(0);
            let nshards: usize = args.get(3).and_then(|s| s.parse().ok()).unwrap_or(1);
            let mut em = Emit { worker: Worker::new(), n: 0, budget_ms: 10000, timeouts: 0, shard, nshards };
            special(&mut em);
            enumerate(&mut em, if thorough { 4 } else { 3 });
            random(&mut em, if thorough { 20000 } else { 3000 });
            // leaked spinning threads must not keep the process alive
            use std::io::Write;
            let _ = std::io::stdout().flush();
            std::process::exit(0);
        }
        Some("run1") => {
            // run1 <k> <budget-ms> <program text> <vx inputs, comma separated>
            let k: usize = args[1].parse().unwrap();
            let budget: u64 = args[2].parse().unwrap();
            let ins: Vec<Val> = if args.len() > 4 && !args[4].is_empty() {
                args[4].split(',').map(|s| vx::dec(s).unwrap()).collect()
            } else {
                Vec::new()
            };
            println!("{}", Worker::new().real_run(&args[3], &ins, k, budget));
            std::process::exit(0);
        }
        _ => {
            eprintln!("usage: jaqverif c03 gen [quick|thorough] | run1 <k> <budget-ms> <prog> <inputs>");
            std::process::exit(2);
        }
    }
}
