//! C04 — tail-recursive definitions run in constant stack and memory.
//!   calls    : stdin lines `<id>\t<prelude defs>\t<main>` (hand-written family) + seeded random
//!              nests; per case `<id>\t<exact>\t<request>\t<real table>\t<jq text>` where the
//!              request is `c04.compile …` for the Lean model of `compile.rs` and the real table
//!              is the Debug text of every `Term` the real compiler produced, canonicalised.
//!   defs     : translator — the definitions of the real `defs.jq` files (parsed by the real
//!              parser) as Lean constructor terms (`lean/JaqVerif/Gen/C04Defs.lean`).
//!   builtins : call classification of every `CallDef` in the compiled standard library.
//!   stack    : traces of the real `Stack::next` (jaq-core/src/stack.rs is compiled into this
//!              harness from the repo's working tree) on seeded random iterator scripts.
//!   nstack   : the same for a `Stack` whose iterators are `Stack`s (ties `Stack::size_hint`).
//!   adapters : real `once`/`Chain`/`once_with(..).flatten()` terms vs the model `Ad` (next, size_hint).
//! The runtime probes (fixed small thread stack, counting allocator) are in `src/bin/c04_alloc.rs`.
use super::prng::{self, Rng};
use jaq_core::compile::Compiler;
use jaq_core::load::parse::{BinaryOp, Def, Pattern, Term};
use jaq_core::load::{self, Arena, File, Loader};
use jaq_core::path::Part;
use std::collections::BTreeMap;
use std::fmt::Write as _;

/// the real `Stack` (private in jaq-core): its source file is compiled into the harness
mod real_stack {
    extern crate alloc;
    include!("../../../../repo/jaq-core/src/stack.rs");
}

// ---------------------------------------------------------------------------------------------
// generator AST (mirrors `Jaq.C04.Tm`)
#[derive(Clone, Debug, PartialEq)]
pub enum Tm {
    Leaf,
    Var(usize),
    Brk(usize),
    Label(usize, Box<Tm>),
    Call(usize, Vec<Tm>),
    Nary(Vec<Tm>),
    Un(Box<Tm>),
    Tryc(Box<Tm>, Box<Tm>),
    Bin(Box<Tm>, Box<Tm>),
    Pipe(Box<Tm>, Option<Vec<usize>>, Box<Tm>),
    Comma(Box<Tm>, Box<Tm>),
    Alt(Box<Tm>, Box<Tm>),
    Ite(Box<Tm>, Box<Tm>, Box<Tm>),
    Reduce(Box<Tm>, Vec<usize>, Box<Tm>, Box<Tm>),
    Foreach2(Box<Tm>, Vec<usize>, Box<Tm>, Box<Tm>),
    Foreach3(Box<Tm>, Vec<usize>, Box<Tm>, Box<Tm>, Box<Tm>),
    DefIn(usize, Vec<(bool, usize)>, Box<Tm>, Box<Tm>),
}

fn csv(xs: &[usize]) -> String {
    xs.iter().map(|x| x.to_string()).collect::<Vec<_>>().join(",")
}

fn params_tok(ps: &[(bool, usize)]) -> String {
    let v: Vec<String> = ps.iter().map(|(v, n)| format!("{}{}", if *v { 'v' } else { 'f' }, n)).collect();
    v.join(",")
}

impl Tm {
    /// token syntax of the line protocol (prefix notation)
    pub fn toks(&self, out: &mut String) {
        match self {
            Tm::Leaf => out.push_str(" L"),
            Tm::Var(x) => write!(out, " V{x}").unwrap(),
            Tm::Brk(x) => write!(out, " K{x}").unwrap(),
            Tm::Label(x, t) => {
                write!(out, " Lb{x}").unwrap();
                t.toks(out)
            }
            Tm::Call(n, args) => {
                write!(out, " C{n}:{}", args.len()).unwrap();
                args.iter().for_each(|a| a.toks(out))
            }
            Tm::Nary(args) => {
                write!(out, " X{}", args.len()).unwrap();
                args.iter().for_each(|a| a.toks(out))
            }
            Tm::Un(t) => {
                out.push_str(" U");
                t.toks(out)
            }
            Tm::Tryc(a, b) => {
                out.push_str(" T");
                a.toks(out);
                b.toks(out)
            }
            Tm::Bin(a, b) => {
                out.push_str(" B");
                a.toks(out);
                b.toks(out)
            }
            Tm::Pipe(a, None, b) => {
                out.push_str(" P");
                a.toks(out);
                b.toks(out)
            }
            Tm::Pipe(a, Some(p), b) => {
                write!(out, " Q:{}", csv(p)).unwrap();
                a.toks(out);
                b.toks(out)
            }
            Tm::Comma(a, b) => {
                out.push_str(" M");
                a.toks(out);
                b.toks(out)
            }
            Tm::Alt(a, b) => {
                out.push_str(" A");
                a.toks(out);
                b.toks(out)
            }
            Tm::Ite(a, b, c) => {
                out.push_str(" I");
                a.toks(out);
                b.toks(out);
                c.toks(out)
            }
            Tm::Reduce(xs, p, i, u) => {
                write!(out, " R:{}", csv(p)).unwrap();
                xs.toks(out);
                i.toks(out);
                u.toks(out)
            }
            Tm::Foreach2(xs, p, i, u) => {
                write!(out, " F:{}", csv(p)).unwrap();
                xs.toks(out);
                i.toks(out);
                u.toks(out)
            }
            Tm::Foreach3(xs, p, i, u, pr) => {
                write!(out, " G:{}", csv(p)).unwrap();
                xs.toks(out);
                i.toks(out);
                u.toks(out);
                pr.toks(out)
            }
            Tm::DefIn(n, ps, b, r) => {
                write!(out, " D{n}:{}", params_tok(ps)).unwrap();
                b.toks(out);
                r.toks(out)
            }
        }
    }

    /// Lean constructor term
    pub fn lean(&self, out: &mut String) {
        let pat = |p: &Vec<usize>| format!("[{}]", csv(p));
        match self {
            Tm::Leaf => out.push_str(".leaf"),
            Tm::Var(x) => write!(out, "(.var {x})").unwrap(),
            Tm::Brk(x) => write!(out, "(.brk {x})").unwrap(),
            Tm::Label(x, t) => {
                write!(out, "(.label {x} ").unwrap();
                t.lean(out);
                out.push(')')
            }
            Tm::Call(_, args) | Tm::Nary(args) => {
                if let Tm::Call(n, _) = self {
                    write!(out, "(.call {n} ").unwrap();
                } else {
                    out.push_str("(.nary ");
                }
                for a in args {
                    out.push_str("(.cons ");
                    a.lean(out);
                    out.push(' ');
                }
                out.push_str(".nil");
                for _ in args {
                    out.push(')');
                }
                out.push(')')
            }
            Tm::Un(t) => {
                out.push_str("(.un ");
                t.lean(out);
                out.push(')')
            }
            Tm::Tryc(a, b) | Tm::Bin(a, b) | Tm::Comma(a, b) | Tm::Alt(a, b) => {
                out.push_str(match self {
                    Tm::Tryc(..) => "(.tryc ",
                    Tm::Bin(..) => "(.bin ",
                    Tm::Comma(..) => "(.comma ",
                    _ => "(.alt ",
                });
                a.lean(out);
                out.push(' ');
                b.lean(out);
                out.push(')')
            }
            Tm::Pipe(a, p, b) => {
                out.push_str("(.pipe ");
                a.lean(out);
                match p {
                    None => out.push_str(" none "),
                    Some(p) => write!(out, " (some {}) ", pat(p)).unwrap(),
                }
                b.lean(out);
                out.push(')')
            }
            Tm::Ite(a, b, c) => {
                out.push_str("(.ite ");
                a.lean(out);
                out.push(' ');
                b.lean(out);
                out.push(' ');
                c.lean(out);
                out.push(')')
            }
            Tm::Reduce(xs, p, i, u) | Tm::Foreach2(xs, p, i, u) => {
                out.push_str(if let Tm::Reduce(..) = self { "(.reduce " } else { "(.foreach2 " });
                xs.lean(out);
                write!(out, " {} ", pat(p)).unwrap();
                i.lean(out);
                out.push(' ');
                u.lean(out);
                out.push(')')
            }
            Tm::Foreach3(xs, p, i, u, pr) => {
                out.push_str("(.foreach3 ");
                xs.lean(out);
                write!(out, " {} ", pat(p)).unwrap();
                i.lean(out);
                out.push(' ');
                u.lean(out);
                out.push(' ');
                pr.lean(out);
                out.push(')')
            }
            Tm::DefIn(n, ps, b, r) => {
                let ps: Vec<String> = ps.iter().map(|(v, n)| format!("⟨{v}, {n}⟩")).collect();
                write!(out, "(.defIn {n} [{}] ", ps.join(", ")).unwrap();
                b.lean(out);
                out.push(' ');
                r.lean(out);
                out.push(')')
            }
        }
    }

    /// jq source text (every sub-term parenthesised; names `f<k>`, `$v<k>`, `$l<k>`)
    pub fn jq(&self, nat: &[(&str, usize)]) -> String {
        let j = |t: &Tm| t.jq(nat);
        let pat = |p: &Vec<usize>| format!("$v{}", p[0]);
        match self {
            Tm::Leaf => ".".into(),
            Tm::Var(x) => format!("$v{x}"),
            Tm::Brk(x) => format!("break $l{x}"),
            Tm::Label(x, t) => format!("(label $l{x} | ({}))", j(t)),
            Tm::Call(n, args) => {
                let name = if *n >= NAT0 { nat[*n - NAT0].0.to_string() } else { format!("f{n}") };
                if args.is_empty() {
                    name
                } else {
                    format!("{name}({})", args.iter().map(j).collect::<Vec<_>>().join("; "))
                }
            }
            Tm::Nary(_) => unreachable!(),
            Tm::Un(t) => format!("[{}]", j(t)),
            Tm::Tryc(a, b) => format!("(try ({}) catch ({}))", j(a), j(b)),
            Tm::Bin(a, b) => format!("(({}) + ({}))", j(a), j(b)),
            Tm::Pipe(a, None, b) => format!("(({}) | ({}))", j(a), j(b)),
            Tm::Pipe(a, Some(p), b) => format!("(({}) as {} | ({}))", j(a), pat(p), j(b)),
            Tm::Comma(a, b) => format!("(({}), ({}))", j(a), j(b)),
            Tm::Alt(a, b) => format!("(({}) // ({}))", j(a), j(b)),
            Tm::Ite(a, b, c) => format!("(if ({}) then ({}) else ({}) end)", j(a), j(b), j(c)),
            Tm::Reduce(xs, p, i, u) => format!("(reduce ({}) as {} (({}); ({})))", j(xs), pat(p), j(i), j(u)),
            Tm::Foreach2(xs, p, i, u) => format!("(foreach ({}) as {} (({}); ({})))", j(xs), pat(p), j(i), j(u)),
            Tm::Foreach3(xs, p, i, u, pr) => {
                format!("(foreach ({}) as {} (({}); ({}); ({})))", j(xs), pat(p), j(i), j(u), j(pr))
            }
            Tm::DefIn(n, ps, b, r) => format!("({} ({}))", def_jq(*n, ps, b, nat), j(r)),
        }
    }
}

fn def_jq(n: usize, ps: &[(bool, usize)], body: &Tm, nat: &[(&str, usize)]) -> String {
    let ps: Vec<String> = ps.iter().map(|(v, n)| if *v { format!("$v{n}") } else { format!("f{n}") }).collect();
    let ps = if ps.is_empty() { String::new() } else { format!("({})", ps.join("; ")) };
    format!("def f{n}{ps}: ({});", body.jq(nat))
}

// ---------------------------------------------------------------------------------------------
// translator: parse::Term -> Tm (names interned)
pub const NAT0: usize = 900;
pub const EMPTY: usize = 999;

#[derive(Default)]
pub struct Names {
    map: BTreeMap<String, usize>,
    /// generator mode: `f<k>`/`$v<k>`/`$l<k>` are interned as `k`
    numeric: bool,
    next: usize,
}

impl Names {
    fn get(&mut self, s: &str) -> usize {
        if s == "!empty" {
            return EMPTY;
        }
        if self.numeric {
            let t = s.trim_start_matches(['$', 'f', 'v', 'l']);
            if let (true, Ok(k)) = (s.len() > t.len(), t.parse::<usize>()) {
                if k < NAT0 {
                    return k;
                }
            }
        }
        if let Some(i) = self.map.get(s) {
            return *i;
        }
        let i = if self.numeric { NAT0 + self.next } else { self.next };
        self.next += 1;
        if i == EMPTY {
            self.next += 1;
            return self.get(s);
        }
        self.map.insert(s.to_string(), i);
        i
    }
}

fn pat_vars<'a>(p: &Pattern<&'a str>, out: &mut Vec<&'a str>, keys: &mut Vec<Term<&'a str>>, exact: &mut bool) {
    match p {
        Pattern::Var(x) => out.push(x),
        Pattern::Arr(a) => {
            *exact = false;
            a.iter().for_each(|p| pat_vars(p, out, keys, exact))
        }
        Pattern::Obj(o) => {
            *exact = false;
            for (k, p) in o {
                keys.push(k.clone());
                pat_vars(p, out, keys, exact)
            }
        }
    }
}

/// children that are all compiled with `iterm`: `[]` = leaf, else the n-ary non-tail node
fn nary(cs: Vec<Tm>) -> Tm {
    if cs.is_empty() {
        Tm::Leaf
    } else {
        Tm::Nary(cs)
    }
}

pub fn translate(t: &Term<&str>, nm: &mut Names, exact: &mut bool) -> Tm {
    let tr = |t: &Term<&str>, nm: &mut Names, exact: &mut bool| Box::new(translate(t, nm, exact));
    match t {
        Term::Id | Term::Recurse | Term::Num(_) => Tm::Leaf,
        Term::Str(fmt, parts) => {
            let mut cs = Vec::new();
            if let Some(f) = fmt {
                cs.push(Tm::Call(nm.get(f), vec![]));
            }
            for p in parts {
                if let load::lex::StrPart::Term(t) = p {
                    cs.push(translate(t, nm, exact));
                }
            }
            if !cs.is_empty() {
                *exact = false;
            }
            nary(cs)
        }
        Term::Arr(None) => Tm::Un(Box::new(Tm::Call(EMPTY, vec![]))),
        Term::Arr(Some(t)) | Term::Neg(t) => Tm::Un(tr(t, nm, exact)),
        Term::Obj(kvs) => {
            let mut cs = Vec::new();
            for (k, v) in kvs {
                cs.push(translate(k, nm, exact));
                if let Some(v) = v {
                    cs.push(translate(v, nm, exact));
                }
            }
            if !cs.is_empty() {
                *exact = false;
            }
            nary(cs)
        }
        Term::BinOp(l, op, r) => {
            let l = tr(l, nm, exact);
            match op {
                BinaryOp::Pipe(None) => Tm::Pipe(l, None, tr(r, nm, exact)),
                BinaryOp::Pipe(Some(p)) => {
                    let (mut vs, mut keys) = (Vec::new(), Vec::new());
                    pat_vars(p, &mut vs, &mut keys, exact);
                    let vs = vs.iter().map(|v| nm.get(v)).collect();
                    let r = tr(r, nm, exact);
                    let pipe = Tm::Pipe(l, Some(vs), r);
                    if keys.is_empty() {
                        pipe
                    } else {
                        // key terms of an object pattern are compiled (with `iterm`) after `r`;
                        // they cannot contain tail calls.  Kept as non-tail children in front.
                        let mut cs: Vec<Tm> = keys.iter().map(|k| translate(k, nm, exact)).collect();
                        cs.push(pipe);
                        // NOTE: wrapping would make `r` a non-tail position; keys never contain
                        // calls to definitions in practice, so they are dropped when call-free.
                        if cs[..cs.len() - 1].iter().all(call_free) {
                            cs.pop().unwrap()
                        } else {
                            Tm::Nary(cs)
                        }
                    }
                }
                BinaryOp::Comma => Tm::Comma(l, tr(r, nm, exact)),
                BinaryOp::Alt => Tm::Alt(l, tr(r, nm, exact)),
                _ => Tm::Bin(l, tr(r, nm, exact)),
            }
        }
        Term::Label(x, t) => Tm::Label(nm.get(x), tr(t, nm, exact)),
        Term::Break(x) => Tm::Brk(nm.get(x)),
        Term::Fold(name, xs, pat, args) => {
            let (mut vs, mut keys) = (Vec::new(), Vec::new());
            pat_vars(pat, &mut vs, &mut keys, exact);
            let vs: Vec<usize> = vs.iter().map(|v| nm.get(v)).collect();
            let mut xs = tr(xs, nm, exact);
            if !keys.iter().all(|k| call_free(&translate(k, &mut Names::default(), &mut false))) {
                let mut cs = vec![*xs];
                cs.extend(keys.iter().map(|k| translate(k, nm, exact)));
                xs = Box::new(Tm::Nary(cs));
            }
            let a: Vec<Box<Tm>> = args.iter().map(|a| tr(a, nm, exact)).collect();
            match (*name, a.len()) {
                ("reduce", 2) => Tm::Reduce(xs, vs, a[0].clone(), a[1].clone()),
                ("foreach", 2) => Tm::Foreach2(xs, vs, a[0].clone(), a[1].clone()),
                ("foreach", 3) => Tm::Foreach3(xs, vs, a[0].clone(), a[1].clone(), a[2].clone()),
                _ => {
                    *exact = false;
                    Tm::Leaf
                }
            }
        }
        Term::TryCatch(t, c) => {
            let t = tr(t, nm, exact);
            let c = match c {
                Some(c) => tr(c, nm, exact),
                None => Box::new(Tm::Call(EMPTY, vec![])),
            };
            Tm::Tryc(t, c)
        }
        Term::IfThenElse(its, els) => {
            let mut acc = match els {
                Some(e) => translate(e, nm, exact),
                None => Tm::Leaf,
            };
            // all conditions/branches are interned left to right first (names only)
            let its: Vec<(Box<Tm>, Box<Tm>)> = its.iter().map(|(i, t)| (tr(i, nm, exact), tr(t, nm, exact))).collect();
            for (i, t) in its.into_iter().rev() {
                acc = Tm::Ite(i, t, Box::new(acc));
            }
            acc
        }
        Term::Def(defs, t) => {
            let ds: Vec<(usize, Vec<(bool, usize)>, Box<Tm>)> = defs
                .iter()
                .map(|d| {
                    let ps = d.args.iter().map(|a| (a.starts_with('$'), nm.get(a))).collect();
                    (nm.get(d.name), ps, tr(&d.body, nm, exact))
                })
                .collect();
            let mut acc = translate(t, nm, exact);
            for (n, ps, b) in ds.into_iter().rev() {
                acc = Tm::DefIn(n, ps, b, Box::new(acc));
            }
            acc
        }
        Term::Call(name, args) => {
            let args: Vec<Tm> = args.iter().map(|a| translate(a, nm, exact)).collect();
            if name.contains("::") {
                // call into an imported module: never a tail call
                *exact = false;
                nary(args)
            } else {
                Tm::Call(nm.get(name), args)
            }
        }
        Term::Var(x) => Tm::Var(nm.get(x)),
        Term::Path(t, path) => {
            let mut cs = vec![translate(t, nm, exact)];
            for (p, _opt) in &path.0 {
                match p {
                    Part::Index(i) => cs.push(translate(i, nm, exact)),
                    Part::Range(a, b) => {
                        if let Some(a) = a {
                            cs.push(translate(a, nm, exact));
                        }
                        if let Some(b) = b {
                            cs.push(translate(b, nm, exact));
                        }
                    }
                }
            }
            Tm::Nary(cs)
        }
    }
}

fn call_free(t: &Tm) -> bool {
    match t {
        Tm::Leaf | Tm::Var(_) | Tm::Brk(_) => true,
        Tm::Call(..) | Tm::DefIn(..) => false,
        Tm::Nary(a) => a.iter().all(call_free),
        Tm::Label(_, a) | Tm::Un(a) => call_free(a),
        Tm::Tryc(a, b) | Tm::Bin(a, b) | Tm::Comma(a, b) | Tm::Alt(a, b) | Tm::Pipe(a, _, b) => call_free(a) && call_free(b),
        Tm::Ite(a, b, c) => call_free(a) && call_free(b) && call_free(c),
        Tm::Reduce(a, _, b, c) | Tm::Foreach2(a, _, b, c) => call_free(a) && call_free(b) && call_free(c),
        Tm::Foreach3(a, _, b, c, d) => call_free(a) && call_free(b) && call_free(c) && call_free(d),
    }
}

pub struct TDef {
    pub name: usize,
    pub text: String,
    pub params: Vec<(bool, usize)>,
    pub body: Tm,
    pub exact: bool,
}

pub fn translate_def(d: &Def<&str>, nm: &mut Names) -> TDef {
    let mut exact = true;
    let params = d.args.iter().map(|a| (a.starts_with('$'), nm.get(a))).collect();
    let name = nm.get(d.name);
    let body = translate(&d.body, nm, &mut exact);
    TDef { name, text: format!("{}/{}", d.name, d.args.len()), params, body, exact }
}

// ---------------------------------------------------------------------------------------------
// the real compiler, and the canonical text of its table

/// signatures of the real native filters (the functions themselves are not needed to compile)
fn native_sigs() -> Vec<(&'static str, Box<[jaq_core::Bind]>, ())> {
    jaq_all::data::funs().map(|(n, a, _f)| (n, a, ())).collect()
}

pub struct Compiled {
    pub terms: Vec<String>,
    pub main: usize,
}

/// Compile `main` with `prelude` as the prelude module; returns the Debug text of every term.
pub fn real_compile(prelude: Vec<Def<&str>>, main: &str) -> Result<Compiled, String> {
    let arena = Arena::default();
    let loader = Loader::new(prelude);
    let modules = loader.load(&arena, File { path: (), code: main }).map_err(|e| format!("load error ({})", e.len()))?;
    let filter = Compiler::<&str, ()>::default()
        .with_funs(native_sigs())
        .compile(modules)
        .map_err(|e| format!("compile error ({})", e.len()))?;
    // hook `Filter::verif_terms` / `verif_entry` (cfg jaq_verif, jaq-core/src/compile.rs); the Debug
    // text of the whole filter must tell the same story
    let (terms, main) = (filter.verif_terms(), filter.verif_entry());
    let dbg = format!("{filter:?}");
    if split_filter_debug(&dbg) != Some((terms.clone(), main)) {
        return Err("verif_terms() hook disagrees with the Debug text of Filter".into());
    }
    Ok(Compiled { terms, main })
}

/// split `Filter { lut: Lut { terms: [t0, t1, …], funs: […] }, id: TermId(n) }`
fn split_filter_debug(s: &str) -> Option<(Vec<String>, usize)> {
    let start = s.find("terms: [")? + "terms: [".len();
    let b = s.as_bytes();
    let (mut depth, mut i, mut item, mut out) = (0i32, start, start, Vec::new());
    let mut in_str = false;
    loop {
        let c = *b.get(i)?;
        if in_str {
            if c == b'\\' {
                i += 1;
            } else if c == b'"' {
                in_str = false;
            }
        } else {
            match c {
                b'"' => in_str = true,
                b'(' | b'[' | b'{' => depth += 1,
                b')' | b'}' => depth -= 1,
                b']' if depth > 0 => depth -= 1,
                b']' => {
                    if i > item {
                        out.push(s[item..i].trim().to_string());
                    }
                    break;
                }
                b',' if depth == 0 => {
                    out.push(s[item..i].trim().to_string());
                    item = i + 1;
                }
                _ => {}
            }
        }
        i += 1;
    }
    let id = s.rfind("id: TermId(")? + "id: TermId(".len();
    let main = s[id..].trim_end_matches([')', '}', ' ']).parse().ok()?;
    Some((out, main))
}

/// all numbers `TermId(n)` in a Debug text, in order
fn term_ids(s: &str) -> Vec<usize> {
    let mut v = Vec::new();
    let mut rest = s;
    while let Some(i) = rest.find("TermId(") {
        rest = &rest[i + 7..];
        let j = rest.find(')').unwrap_or(0);
        if let Ok(n) = rest[..j].parse() {
            v.push(n);
        }
    }
    v
}

fn ids_csv(s: &str) -> String {
    csv(&term_ids(s))
}

pub struct CallInfo {
    pub id: usize,
    pub skip: usize,
    pub typ: String,
}

pub fn call_info(t: &str) -> Option<CallInfo> {
    let r = t.strip_prefix("CallDef(TermId(")?;
    let id = r[..r.find(')')?].parse().ok()?;
    let close = t.rfind(']')?;
    let tail: Vec<&str> = t[close + 1..].trim_end_matches(')').split(',').map(str::trim).filter(|s| !s.is_empty()).collect();
    Some(CallInfo { id, skip: tail.first()?.parse().ok()?, typ: tail.get(1)?.to_string() })
}

/// canonical text of one compiled term (same syntax as `Jaq.C04.CT.show`)
pub fn canon_term(t: &str) -> String {
    let head = t.split(['(', ' ']).next().unwrap_or("");
    let ids = ids_csv(t);
    match head {
        "Id" | "Recurse" | "ToString" | "Int" | "Num" | "Str" | "ObjEmpty" => "L".into(),
        "Var" => format!("V{}", t[4..].trim_end_matches(')')),
        "CallDef" => {
            let ci = call_info(t).unwrap();
            let (open, close) = (t.find('[').unwrap(), t.rfind(']').unwrap());
            let args: Vec<String> = t[open + 1..close]
                .split("), ")
                .filter(|a| !a.trim().is_empty())
                .map(|a| format!("{}{}", if a.trim().starts_with("Var") { 'v' } else { 'f' }, ids_csv(a)))
                .collect();
            format!("C{}({}){}{}", ci.id, args.join(","), ci.skip, ci.typ)
        }
        "Native" => format!("N({ids})"),
        "Label" => format!("Lb{ids}"),
        "Arr" | "Neg" => format!("U{ids}"),
        "TryCatch" => format!("T{ids}"),
        "Math" | "Cmp" | "Logic" | "Assign" | "Update" | "UpdateMath" | "UpdateAlt" | "ObjSingle" => format!("B{ids}"),
        "Pipe" => format!("P{}:{ids}", if t.contains(", None, ") { 0 } else { 1 }),
        "Comma" => format!("M{ids}"),
        "Alt" => format!("A{ids}"),
        "Ite" => format!("I{ids}"),
        "Fold" => format!("{}{ids}", if t.ends_with("Reduce)") { 'R' } else if t.ends_with("Foreach(None))") { 'F' } else { 'G' }),
        "Path" => format!("X({ids})"),
        _ => format!("?{head}"),
    }
}

fn canon_table(c: &Compiled) -> String {
    let v: Vec<String> = c.terms.iter().map(|t| canon_term(t)).collect();
    format!("{}|{}", c.main, v.join(";"))
}

/// the `CallDef`s of a table in index order: `<typ><skip>@<rank of the callee among all callees>`
fn call_seq(terms: &[String], from: usize) -> String {
    let infos: Vec<(usize, CallInfo)> = terms.iter().enumerate().filter_map(|(i, t)| call_info(t).map(|c| (i, c))).collect();
    let mut callees: Vec<usize> = infos.iter().map(|(_, c)| c.id).collect();
    callees.sort();
    callees.dedup();
    let v: Vec<String> = infos
        .iter()
        .filter(|(i, _)| *i >= from)
        .map(|(_, c)| format!("{}{}@{}", c.typ, c.skip, callees.binary_search(&c.id).unwrap()))
        .collect();
    v.join(",")
}

// ---------------------------------------------------------------------------------------------
// random nests

struct Gen<'a> {
    rng: &'a mut Rng,
    /// visible filters: (name, params)
    funs: Vec<(usize, Vec<bool>)>,
    vars: Vec<usize>,
    labels: Vec<usize>,
    nat: &'a [(&'static str, usize)],
    fresh: usize,
}

const NATIVES: [(&str, usize); 5] = [("first", 1), ("last", 1), ("path", 1), ("limit", 2), ("error_empty", 0)];

impl Gen<'_> {
    fn name(&mut self) -> usize {
        // small pool: shadowing is frequent
        self.rng.below(4)
    }

    fn call(&mut self, depth: usize) -> Tm {
        let nfun = self.funs.len();
        if nfun == 0 || self.rng.chance(1, 8) {
            let k = self.rng.below(self.nat.len());
            let (name, ar) = self.nat[k];
            let mut args: Vec<Tm> = (0..ar).map(|_| self.term(depth.saturating_sub(1), false)).collect();
            if name == "limit" {
                args[0] = Tm::Leaf;
            }
            return Tm::Call(NAT0 + k, args);
        }
        // prefer recently defined filters (ancestors and siblings)
        let i = if self.rng.chance(2, 3) { nfun - 1 - self.rng.below(nfun.min(3)) } else { self.rng.below(nfun) };
        let (name, ps) = self.funs[i].clone();
        let args = ps
            .iter()
            .map(|isvar| {
                if *isvar && !self.vars.is_empty() && self.rng.chance(1, 2) {
                    Tm::Var(*self.rng.pick(&self.vars.clone()))
                } else {
                    self.term(depth.saturating_sub(2), false)
                }
            })
            .collect();
        Tm::Call(name, args)
    }

    fn with_vars<T>(&mut self, vs: &[usize], f: impl FnOnce(&mut Self) -> T) -> T {
        let n = self.vars.len();
        self.vars.extend_from_slice(vs);
        let y = f(self);
        self.vars.truncate(n);
        y
    }

    fn def(&mut self, depth: usize) -> (usize, Vec<(bool, usize)>, Tm) {
        let name = self.name();
        let np = [0, 0, 0, 1, 1, 2][self.rng.below(6)];
        let ps: Vec<(bool, usize)> = (0..np).map(|_| (self.rng.chance(1, 2), self.name())).collect();
        let (nf, nv) = (self.funs.len(), self.vars.len());
        for (v, n) in &ps {
            if *v {
                self.vars.push(*n)
            } else {
                self.funs.push((*n, vec![]))
            }
        }
        self.funs.push((name, ps.iter().map(|p| p.0).collect()));
        let body = self.term(depth, true);
        self.funs.truncate(nf);
        self.vars.truncate(nv);
        (name, ps, body)
    }

    fn term(&mut self, depth: usize, tailish: bool) -> Tm {
        let b = |t| Box::new(t);
        if depth == 0 {
            return match self.rng.below(4) {
                0 | 1 => self.call(0),
                2 if !self.vars.is_empty() => Tm::Var(*self.rng.pick(&self.vars.clone())),
                _ => Tm::Leaf,
            };
        }
        let d = depth - 1;
        // tail-transparent constructs are more frequent in tail positions
        let k = if tailish { self.rng.below(16) } else { self.rng.below(22) };
        match k {
            0 | 1 => self.call(d),
            2 => Tm::Pipe(b(self.term(d, false)), None, b(self.term(d, tailish))),
            3 => {
                let x = self.fresh_var();
                let l = self.term(d, false);
                let r = self.with_vars(&[x], |g| g.term(d, tailish));
                Tm::Pipe(b(l), Some(vec![x]), b(r))
            }
            4 => Tm::Comma(b(self.term(d, tailish)), b(self.term(d, tailish))),
            5 => Tm::Alt(b(self.term(d, false)), b(self.term(d, tailish))),
            6 | 7 => Tm::Ite(b(self.term(d, false)), b(self.term(d, tailish)), b(self.term(d, tailish))),
            8 => {
                let x = self.fresh_var();
                let (xs, init) = (self.term(d, false), self.term(d, false));
                let (upd, proj) = self.with_vars(&[x], |g| (g.term(d, false), g.term(d, tailish)));
                Tm::Foreach3(b(xs), vec![x], b(init), b(upd), b(proj))
            }
            9..=12 => {
                let (name, ps, body) = self.def(d);
                self.funs.push((name, ps.iter().map(|p| p.0).collect()));
                let rest = self.term(d, tailish);
                self.funs.pop();
                Tm::DefIn(name, ps, b(body), b(rest))
            }
            13 => Tm::Leaf,
            14 => Tm::Un(b(self.term(d, false))),
            15 => Tm::Bin(b(self.term(d, false)), b(self.term(d, false))),
            16 => Tm::Tryc(b(self.term(d, false)), b(self.term(d, false))),
            17 => {
                let x = self.fresh_var();
                let (xs, init) = (self.term(d, false), self.term(d, false));
                let upd = self.with_vars(&[x], |g| g.term(d, false));
                if self.rng.chance(1, 2) {
                    Tm::Reduce(b(xs), vec![x], b(init), b(upd))
                } else {
                    Tm::Foreach2(b(xs), vec![x], b(init), b(upd))
                }
            }
            18 => {
                let x = self.rng.below(3);
                self.labels.push(x);
                let t = self.term(d, false);
                self.labels.pop();
                Tm::Label(x, b(t))
            }
            19 if !self.labels.is_empty() => Tm::Brk(*self.rng.pick(&self.labels.clone())),
            _ => self.call(d),
        }
    }

    fn fresh_var(&mut self) -> usize {
        if self.rng.chance(1, 3) {
            self.rng.below(3)
        } else {
            self.fresh += 1;
            10 + self.fresh
        }
    }
}

// ---------------------------------------------------------------------------------------------
// sub-commands

fn request(prelude: &[TDef], main: &Tm) -> String {
    let mut s = format!("c04.compile {}", prelude.len());
    for d in prelude {
        write!(s, " D{}:{}", d.name, params_tok(&d.params)).unwrap();
        d.body.toks(&mut s);
        s.push_str(" L");
    }
    main.toks(&mut s);
    s
}

/// one case through the real parser + compiler and the translator
fn case(id: &str, prelude_src: &str, main_src: &str, expect: Option<(&[(usize, Vec<(bool, usize)>, Tm)], &Tm)>) {
    let line = |exact: bool, req: &str, real: &str| {
        println!("{id}\t{}\t{req}\t{real}\t{} ## {}", exact as u8, prelude_src.replace(['\t', '\n'], " "), main_src.replace(['\t', '\n'], " "))
    };
    let Some(defs) = load::parse(prelude_src, |p| p.defs()) else {
        return line(false, "-", "PARSE-ERROR prelude");
    };
    let Some(main) = load::parse(main_src, |p| p.term()) else {
        return line(false, "-", "PARSE-ERROR main");
    };
    let mut nm = Names { numeric: true, ..Names::default() };
    NATIVES.iter().for_each(|(n, _)| {
        nm.get(n);
    });
    let mut exact = true;
    let tdefs: Vec<TDef> = defs.iter().map(|d| translate_def(d, &mut nm)).collect();
    exact &= tdefs.iter().all(|d| d.exact);
    let tmain = translate(&main, &mut nm, &mut exact);
    if let Some((edefs, emain)) = expect {
        // self test of printer + parser + translator on generated nests
        let same = edefs.len() == tdefs.len()
            && edefs.iter().zip(&tdefs).all(|(e, t)| e.0 == t.name && e.1 == t.params && e.2 == t.body)
            && *emain == tmain;
        if !same {
            return line(false, "-", "TRANSLATOR-MISMATCH");
        }
    }
    let req = request(&tdefs, &tmain);
    match real_compile(defs, main_src) {
        Ok(c) => line(exact, &req, &if exact { canon_table(&c) } else { format!("~{}", call_seq(&c.terms, 0)) }),
        Err(e) => line(exact, &req, &format!("ERR {e}")),
    }
}

fn calls(args: &[String]) {
    use std::io::BufRead;
    for l in std::io::stdin().lock().lines() {
        let l = l.unwrap();
        let p: Vec<&str> = l.split('\t').collect();
        if p.len() == 3 {
            case(p[0], p[1], p[2], None);
        }
    }
    let n: usize = args.first().and_then(|s| s.parse().ok()).unwrap_or(2000);
    let mut rng = Rng::new(prng::seed_from_env() ^ 0xC04);
    for i in 0..n {
        let depth = 2 + rng.below(4);
        let mut g = Gen { rng: &mut rng, funs: vec![], vars: vec![], labels: vec![], nat: &NATIVES, fresh: 0 };
        let nd = [0, 0, 1, 1, 2, 3][g.rng.below(6)];
        let mut defs = Vec::new();
        for _ in 0..nd {
            let (name, ps, body) = g.def(depth);
            g.funs.push((name, ps.iter().map(|p| p.0).collect()));
            defs.push((name, ps, body));
        }
        let main = g.term(depth, false);
        let psrc: Vec<String> = defs.iter().map(|(n, ps, b)| def_jq(*n, ps, b, &NATIVES)).collect();
        case(&format!("r{i}"), &psrc.join(" "), &main.jq(&NATIVES), Some((&defs, &main)));
    }
}

fn all_defs() -> Vec<Def<&'static str>> {
    jaq_all::defs().collect()
}

/// names of the built-in loops the property names, and definitions built on them
const LOOPS: [&str; 10] = ["repeat/1", "recurse/1", "recurse/0", "recurse/2", "while/2", "until/2", "range/1", "range/2", "paths/0", "paths/1"];

fn defs_lean() {
    let mut nm = Names::default();
    let defs = all_defs();
    let tdefs: Vec<TDef> = defs.iter().map(|d| translate_def(d, &mut nm)).collect();
    let mut s = String::new();
    s.push_str("/- GENERATED by `jaqverif c04 defs` (bin/check C04) from jaq-core/src/defs.jq, jaq-std/src/defs.jq and\n   jaq-json/src/defs.jq, parsed by jaq's own parser.  Do not edit. -/\nimport JaqVerif.C04.Tco\n\nnamespace Jaq.C04.Gen\nopen Jaq.C04\n\n");
    for (i, d) in tdefs.iter().enumerate() {
        let ps: Vec<String> = d.params.iter().map(|(v, n)| format!("⟨{v}, {n}⟩")).collect();
        let mut b = String::new();
        d.body.lean(&mut b);
        writeln!(s, "/-- `{}` -/\ndef d{i} : DefS := ⟨{}, [{}], {b}⟩", d.text, d.name, ps.join(", ")).unwrap();
    }
    let idx: Vec<String> = (0..tdefs.len()).map(|i| format!("d{i}")).collect();
    writeln!(s, "\n/-- the prelude in definition order -/\ndef prelude : List DefS := [{}]", idx.join(", ")).unwrap();
    let texts: Vec<String> = tdefs.iter().map(|d| format!("\"{}\"", d.text)).collect();
    writeln!(s, "\n/-- `name/arity` of each definition (reporting only) -/\ndef texts : List String := [{}]", texts.join(", ")).unwrap();
    let loops: Vec<String> = tdefs.iter().enumerate().filter(|(_, d)| LOOPS.contains(&d.text.as_str())).map(|(i, _)| i.to_string()).collect();
    writeln!(s, "\n/-- positions of {} -/\ndef loops : List Nat := [{}]", LOOPS.join(", "), loops.join(", ")).unwrap();
    s.push_str("\nend Jaq.C04.Gen\n");
    print!("{s}");
}

fn builtins() {
    match real_compile(all_defs(), ".") {
        Ok(c) => {
            println!("SEQ\t{}", call_seq(&c.terms, 0));
            let n = c.terms.iter().filter(|t| t.starts_with("CallDef")).count();
            let ca = c.terms.iter().filter(|t| t.ends_with("CatchAll)")).count();
            println!("STAT\tterms={} calls={} catchall={}", c.terms.len(), n, ca);
        }
        Err(e) => println!("ERR\t{e}"),
    }
}

// ---------------------------------------------------------------------------------------------
// Stack::next on scripted iterators
//
// A script is a list of iterators; iterator `k` is a list of items and a flag `exact` (whether
// its size_hint reports `(0, Some(0))` once exhausted).  Item: `o<v>` = output `v`,
// `t<k>` = tail call continuing with (a fresh copy of) iterator `k`.

use std::cell::RefCell;
use std::rc::Rc;

#[derive(Clone, Debug)]
enum Item {
    Out(usize),
    Tail(usize),
}

struct ScriptIt {
    items: std::vec::IntoIter<Item>,
    exact: bool,
    uid: usize,
    log: Rc<RefCell<Vec<String>>>,
    live: Rc<RefCell<usize>>,
}

impl Iterator for ScriptIt {
    type Item = Item;
    fn next(&mut self) -> Option<Item> {
        let x = self.items.next();
        self.log.borrow_mut().push(format!("n{}", self.uid));
        x
    }
    fn size_hint(&self) -> (usize, Option<usize>) {
        let n = self.items.len();
        if self.exact {
            (n, Some(n))
        } else {
            (0, None)
        }
    }
}

impl Drop for ScriptIt {
    fn drop(&mut self) {
        *self.live.borrow_mut() -= 1;
    }
}

fn stack_cmd(args: &[String]) {
    use core::ops::ControlFlow;
    let n: usize = args.first().and_then(|s| s.parse().ok()).unwrap_or(300);
    let mut rng = Rng::new(prng::seed_from_env() ^ 0x57AC);
    for case in 0..n {
        let k = 1 + rng.below(4);
        // every pull terminates: a tail call to an iterator of lower or equal index is only
        // generated after an output of the same iterator
        let script: Vec<(bool, Vec<Item>)> = (0..k)
            .map(|me| {
                let len = rng.below(5);
                let mut seen_out = false;
                let items = (0..len)
                    .map(|_| {
                        let t = rng.below(k);
                        if rng.chance(1, 2) && (seen_out || t > me) {
                            Item::Tail(t)
                        } else {
                            seen_out = true;
                            Item::Out(rng.below(5))
                        }
                    })
                    .collect();
                (!rng.chance(1, 4), items)
            })
            .collect();
        let pulls = 1 + rng.below(12);
        let mut req = format!("c04.stack {pulls} {k}");
        for (exact, items) in &script {
            write!(req, " {}{}", if *exact { 'e' } else { 'i' }, items.len()).unwrap();
            for it in items {
                match it {
                    Item::Out(v) => write!(req, " o{v}").unwrap(),
                    Item::Tail(t) => write!(req, " t{t}").unwrap(),
                }
            }
        }
        let log = Rc::new(RefCell::new(Vec::new()));
        let live = Rc::new(RefCell::new(0usize));
        let uid = Rc::new(RefCell::new(0usize));
        let mk = {
            let (log, live, uid, script) = (log.clone(), live.clone(), uid.clone(), script.clone());
            move |k: usize| {
                *live.borrow_mut() += 1;
                let u = *uid.borrow();
                *uid.borrow_mut() += 1;
                ScriptIt { items: script[k].1.clone().into_iter(), exact: script[k].0, uid: u, log: log.clone(), live: live.clone() }
            }
        };
        let mk2 = mk.clone();
        let f = move |x: Item| match x {
            Item::Tail(k) => ControlFlow::Continue(mk2(k)),
            x => ControlFlow::Break(x),
        };
        let mut st = real_stack::Stack::new(vec![mk(0)], f);
        // total work is bounded: a script may loop forever without output
        let mut trace = Vec::new();
        for _ in 0..pulls {
            let y = st.next();
            let polled = std::mem::take(&mut *log.borrow_mut());
            match y {
                Some(Item::Out(v)) => trace.push(format!("{}>o{v}#{}", polled.join(""), live.borrow())),
                Some(Item::Tail(_)) => trace.push("BUG-tail-escaped".into()),
                None => {
                    trace.push(format!("{}>end#{}", polled.join(""), live.borrow()));
                    break;
                }
            }
        }
        println!("s{case}\t{req}\t{}", trace.join(" "));
    }
}

// ---------------------------------------------------------------------------------------------
// a Stack of Stacks (round 2): ties `Stack::size_hint` (be431db) to the model `Stack.hintZero`.
// Script heads `E`/`I` mark iterators that are instantiated as a nested stack
// `Stack::new(vec![script k], catch-one k)`: it takes `t<k>` itself and hands every other item on.
// Copies are named by their script index (`n<k>`); the trace records after every pull the live
// script iterators and the live nested stacks (`#<its>/<stacks>`).

struct NestedIt {
    st: real_stack::Stack<ScriptIt, Box<dyn Fn(Item) -> core::ops::ControlFlow<Item, ScriptIt>>>,
    live: Rc<RefCell<usize>>,
}

impl Iterator for NestedIt {
    type Item = Item;
    fn next(&mut self) -> Option<Item> {
        self.st.next()
    }
    fn size_hint(&self) -> (usize, Option<usize>) {
        self.st.size_hint()
    }
}

impl Drop for NestedIt {
    fn drop(&mut self) {
        *self.live.borrow_mut() -= 1;
    }
}

fn nstack_cmd(args: &[String]) {
    use core::ops::ControlFlow;
    let n: usize = args.first().and_then(|s| s.parse().ok()).unwrap_or(300);
    let mut rng = Rng::new(prng::seed_from_env() ^ 0x4E57);
    for case in 0..n {
        let k = 1 + rng.below(4);
        // every pull terminates: see `stack_cmd`
        let script: Vec<(bool, bool, Vec<Item>)> = (0..k)
            .map(|me| {
                let len = rng.below(5);
                let mut seen_out = false;
                let items = (0..len)
                    .map(|_| {
                        let t = rng.below(k);
                        if rng.chance(1, 2) && (seen_out || t > me) {
                            Item::Tail(t)
                        } else {
                            seen_out = true;
                            Item::Out(rng.below(5))
                        }
                    })
                    .collect();
                (!rng.chance(1, 5), rng.chance(1, 2), items)
            })
            .collect();
        let pulls = 1 + rng.below(12);
        let mut req = format!("c04.nstack {pulls} {k}");
        for (exact, nested, items) in &script {
            let head = match (*exact, *nested) {
                (true, false) => 'e',
                (false, false) => 'i',
                (true, true) => 'E',
                (false, true) => 'I',
            };
            write!(req, " {head}{}", items.len()).unwrap();
            for it in items {
                match it {
                    Item::Out(v) => write!(req, " o{v}").unwrap(),
                    Item::Tail(t) => write!(req, " t{t}").unwrap(),
                }
            }
        }
        let log = Rc::new(RefCell::new(Vec::new()));
        let live = Rc::new(RefCell::new(0usize));
        let nlive = Rc::new(RefCell::new(0usize));
        let script = Rc::new(script);
        let mk = {
            let (log, live, script) = (log.clone(), live.clone(), script.clone());
            move |k: usize| {
                *live.borrow_mut() += 1;
                ScriptIt { items: script[k].2.clone().into_iter(), exact: script[k].0, uid: k, log: log.clone(), live: live.clone() }
            }
        };
        let mk_node = {
            let (mk, nlive, script) = (mk.clone(), nlive.clone(), script.clone());
            move |k: usize| -> Box<dyn Iterator<Item = Item>> {
                if script[k].1 {
                    *nlive.borrow_mut() += 1;
                    let mk2 = mk.clone();
                    let fi: Box<dyn Fn(Item) -> ControlFlow<Item, ScriptIt>> = Box::new(move |x: Item| match x {
                        Item::Tail(j) if j == k => ControlFlow::Continue(mk2(j)),
                        x => ControlFlow::Break(x),
                    });
                    Box::new(NestedIt { st: real_stack::Stack::new(vec![mk(k)], fi), live: nlive.clone() })
                } else {
                    Box::new(mk(k))
                }
            }
        };
        let mk_node2 = mk_node.clone();
        let fo = move |x: Item| match x {
            Item::Tail(k) => ControlFlow::Continue(mk_node2(k)),
            x => ControlFlow::Break(x),
        };
        let mut st = real_stack::Stack::new(vec![mk_node(0)], fo);
        let mut trace = Vec::new();
        for _ in 0..pulls {
            let y = st.next();
            let polled = std::mem::take(&mut *log.borrow_mut());
            match y {
                Some(Item::Out(v)) => trace.push(format!("{}>o{v}#{}/{}", polled.join(""), live.borrow(), nlive.borrow())),
                Some(Item::Tail(_)) => trace.push("BUG-tail-escaped".into()),
                None => {
                    trace.push(format!("{}>end#{}/{}", polled.join(""), live.borrow(), nlive.borrow()));
                    break;
                }
            }
        }
        println!("n{case}\t{req}\t{}", trace.join(" "));
    }
}

// ---------------------------------------------------------------------------------------------
// the adapters of `,` (round 2): random terms of `once` / `Chain` / `lazy` built with the REAL
// standard-library adapters (`lazy` is private in filter.rs: `once_with(f).flatten()`, restated);
// before every `next()` the trace records whether `size_hint() == (0, Some(0))`.
// Request: prefix term `C a b` (chain) | `Z s` (lazy) | `Oo<v>` | `Ot<k>` | `O-` (spent once).

#[derive(Clone)]
enum AdT {
    Once(Option<Item>),
    Chain(Box<AdT>, Box<AdT>),
    Lazy(Box<AdT>),
}

fn ad_build(t: &AdT) -> Box<dyn Iterator<Item = Item>> {
    match t {
        AdT::Once(Some(x)) => Box::new(core::iter::once(x.clone())),
        AdT::Once(None) => {
            let mut o = core::iter::once(Item::Out(0));
            o.next();
            Box::new(o)
        }
        AdT::Chain(a, b) => Box::new(ad_build(a).chain(ad_build(b))),
        AdT::Lazy(s) => {
            let s = (**s).clone();
            Box::new(core::iter::once_with(move || ad_build(&s)).flatten())
        }
    }
}

fn ad_gen(rng: &mut Rng, depth: usize) -> AdT {
    if depth == 0 || rng.chance(1, 3) {
        return match rng.below(5) {
            0 => AdT::Once(None),
            1 | 2 => AdT::Once(Some(Item::Tail(rng.below(3)))),
            _ => AdT::Once(Some(Item::Out(rng.below(5)))),
        };
    }
    if rng.chance(2, 3) {
        let a = ad_gen(rng, depth - 1);
        // mostly the shape of `,`: the right side is lazy
        let b = if rng.chance(3, 4) { AdT::Lazy(Box::new(ad_gen(rng, depth - 1))) } else { ad_gen(rng, depth - 1) };
        AdT::Chain(Box::new(a), Box::new(b))
    } else {
        AdT::Lazy(Box::new(ad_gen(rng, depth - 1)))
    }
}

fn ad_toks(t: &AdT, out: &mut String) {
    match t {
        AdT::Once(None) => out.push_str(" O-"),
        AdT::Once(Some(Item::Out(v))) => write!(out, " Oo{v}").unwrap(),
        AdT::Once(Some(Item::Tail(k))) => write!(out, " Ot{k}").unwrap(),
        AdT::Chain(a, b) => {
            out.push_str(" C");
            ad_toks(a, out);
            ad_toks(b, out);
        }
        AdT::Lazy(s) => {
            out.push_str(" Z");
            ad_toks(s, out);
        }
    }
}

fn adapters_cmd(args: &[String]) {
    let n: usize = args.first().and_then(|s| s.parse().ok()).unwrap_or(300);
    let mut rng = Rng::new(prng::seed_from_env() ^ 0xAD47);
    for case in 0..n {
        let depth = 1 + rng.below(4);
        let t = ad_gen(&mut rng, depth);
        let mut req = String::from("c04.adapters 40");
        ad_toks(&t, &mut req);
        let mut it = ad_build(&t);
        let mut trace = Vec::new();
        for _ in 0..40 {
            let h = if it.size_hint() == (0, Some(0)) { "h1" } else { "h0" };
            match it.next() {
                Some(Item::Out(v)) => trace.push(format!("{h}o{v}")),
                Some(Item::Tail(k)) => trace.push(format!("{h}t{k}")),
                None => {
                    trace.push(format!("{h}end"));
                    break;
                }
            }
        }
        println!("a{case}\t{req}\t{}", trace.join(" "));
    }
}

pub fn main(args: &[String]) {
    let rest = if args.is_empty() { args } else { &args[1..] };
    match args.first().map(|s| s.as_str()) {
        Some("calls") => calls(rest),
        Some("defs") => defs_lean(),
        Some("builtins") => builtins(),
        Some("stack") => stack_cmd(rest),
        Some("nstack") => nstack_cmd(rest),
        Some("adapters") => adapters_cmd(rest),
        _ => {
            eprintln!("usage: jaqverif c04 calls [n] | defs | builtins | stack [n] | nstack [n] | adapters [n]");
            std::process::exit(2)
        }
    }
}
