//! C10 — one position model per container (indexing, slicing, element updates).
//!   gen     : `id \t request \t real` lines; the request is a line of the model driver
//!             (`c10.run`, `c10.upd`, `c10.has`, `c10.length`, `c10.keysu`, `c10.keys`, `c10.pat`,
//!             `c10.chars`), the real answer comes from running the real filter named by the
//!             request's *form* token (`.[$i]`, `first`, `nth($i)`, `.[$i:$j] |= f`, `del(..)`, …)
//!   real    : reads request lines on stdin, prints the real answer for each (replay)
//!   manual  : the manual's `iter_upd / index_upd / slice_upd` (docs/advanced.dj, read at run time)
//!             evaluated by the same library against `.[..] |= f`; prints `MAN ok|FAIL …`
use super::common::*;
use super::prng::{self, Rng};
use super::vx;
use jaq_all::data::Filter;
use jaq_json::{Num, Val};
use num_bigint::BigInt;
use std::cell::RefCell;
use std::collections::HashMap;
use std::fmt::Write as _;

const VARS: [&str; 4] = ["i", "j", "c0", "c1"];

thread_local! {
    static CACHE: RefCell<HashMap<String, Result<std::rc::Rc<Filter>, String>>> = RefCell::new(HashMap::new());
}

fn compiled(code: &str) -> Result<std::rc::Rc<Filter>, String> {
    CACHE.with(|c| {
        c.borrow_mut()
            .entry(code.to_string())
            .or_insert_with(|| {
                let vars: Vec<String> = VARS.iter().map(|s| s.to_string()).collect();
                compile_vars(code, &vars).map(std::rc::Rc::new)
            })
            .clone()
    })
}

/// class of an error from the value `catch` would see (message text for built-in errors)
fn show_err(e: &Val) -> String {
    if let Val::TStr(b) = e {
        let s = String::from_utf8_lossy(b);
        if s.starts_with("cannot use ") {
            if let Some(i) = s.rfind(" as ") {
                return format!("E typ:{}", s[i + 4..].replace(' ', "_"));
            }
        }
        if s.starts_with("cannot index ") {
            return "E index".into();
        }
        if s.starts_with("cannot calculate ") {
            return "E math".into();
        }
        if s.starts_with("index ") && s.ends_with(" out of bounds") {
            return "E oob".into();
        }
        if s.ends_with(" has no length") {
            return "E nolen".into();
        }
        if s.starts_with("invalid path expression") {
            return "E pathexpr".into();
        }
    }
    format!("E val {}", vx::enc_canon(e))
}

fn show_items(items: &[Item]) -> String {
    if items.is_empty() {
        return "-".into();
    }
    let v: Vec<String> = items
        .iter()
        .map(|i| match i {
            Item::Val(v) => format!("V {}", vx::enc_canon(v)),
            Item::Err(e) => show_err(e),
            Item::Exn(s) => format!("X {}", s.replace([' ', '\n', '\t'], "_")),
        })
        .collect();
    v.join(" ; ")
}

fn run_prog(code: &str, input: &Val, vars: [Val; 4]) -> String {
    let f = match compiled(code) {
        Ok(f) => f,
        Err(e) => return format!("COMPILE-ERROR {e} in `{code}`"),
    };
    let input = input.clone();
    catch(move || show_items(&run_with(&f, input, vars.to_vec(), vec![], 64)))
        .unwrap_or_else(|p| format!("PANIC {}", p.replace(['\t', '\n'], " ")))
}

// ---------------------------------------------------------------- request model

#[derive(Clone, Debug)]
enum Part {
    Index(Val),
    Range(Option<Val>, Option<Val>),
}

#[derive(Clone, Debug)]
enum Term {
    Id,
    Const(Val),
    Plus(Val),
    Err,
}

fn enc_bound(b: &Option<Val>) -> String {
    match b {
        None => "-".into(),
        Some(v) => vx::enc(v),
    }
}

fn enc_part(p: &Part) -> String {
    match p {
        Part::Index(i) => format!("I {}", vx::enc(i)),
        Part::Range(a, b) => format!("R {} {}", enc_bound(a), enc_bound(b)),
    }
}

fn enc_terms(ts: &[Term]) -> String {
    let mut s = format!("{}", ts.len());
    for t in ts {
        match t {
            Term::Id => s.push_str(" ."),
            Term::Err => s.push_str(" X"),
            Term::Const(c) => write!(s, " C {}", vx::enc(c)).unwrap(),
            Term::Plus(c) => write!(s, " P {}", vx::enc(c)).unwrap(),
        }
    }
    s
}

struct Toks<'a>(std::iter::Peekable<std::str::SplitAsciiWhitespace<'a>>);

impl<'a> Toks<'a> {
    fn new(s: &'a str) -> Self {
        Toks(s.split_ascii_whitespace().peekable())
    }
    fn tok(&mut self) -> Option<&'a str> {
        self.0.next()
    }
    fn val(&mut self) -> Option<Val> {
        vx::dec_tokens(&mut self.0)
    }
    fn bound(&mut self) -> Option<Option<Val>> {
        if self.0.peek() == Some(&"-") {
            self.0.next();
            Some(None)
        } else {
            self.val().map(Some)
        }
    }
    fn part(&mut self) -> Option<Part> {
        match self.tok()? {
            "I" => Some(Part::Index(self.val()?)),
            "R" => Some(Part::Range(self.bound()?, self.bound()?)),
            _ => None,
        }
    }
    fn terms(&mut self) -> Option<Vec<Term>> {
        let n: usize = self.tok()?.parse().ok()?;
        let mut v = vec![];
        for _ in 0..n {
            v.push(match self.tok()? {
                "." => Term::Id,
                "X" => Term::Err,
                "C" => Term::Const(self.val()?),
                "P" => Term::Plus(self.val()?),
                _ => return None,
            });
        }
        Some(v)
    }
    fn done(&mut self) -> bool {
        self.0.peek().is_none()
    }
}

/// text of the path part; the index / bounds are the variables `$i`, `$j`
fn part_text(p: &Part, opt: &str) -> String {
    let q = if opt == "O" { "?" } else { "" };
    match p {
        Part::Index(_) => format!(".[$i]{q}"),
        Part::Range(None, None) => format!(".[]{q}"),
        Part::Range(Some(_), None) => format!(".[$i:]{q}"),
        Part::Range(None, Some(_)) => format!(".[:$j]{q}"),
        Part::Range(Some(_), Some(_)) => format!(".[$i:$j]{q}"),
    }
}

/// `.[{start: $i, end: $j}]` for an index that is an object with only `start` / `end` keys
fn objidx_text(p: &Part, opt: &str) -> Option<(String, Val, Val)> {
    let Part::Index(Val::Obj(o)) = p else { return None };
    let q = if opt == "O" { "?" } else { "" };
    let a = o.get(&tstr(b"start")).cloned();
    let b = o.get(&tstr(b"end")).cloned();
    if o.len() != a.is_some() as usize + b.is_some() as usize {
        return None;
    }
    let t = match (&a, &b) {
        (Some(_), Some(_)) => format!(".[{{start: $i, end: $j}}]{q}"),
        (Some(_), None) => format!(".[{{start: $i}}]{q}"),
        (None, Some(_)) => format!(".[{{end: $j}}]{q}"),
        (None, None) => format!(".[{{}}]{q}"),
    };
    Some((t, a.unwrap_or(Val::Null), b.unwrap_or(Val::Null)))
}

fn objidx(a: &Option<Val>, b: &Option<Val>) -> Part {
    let mut kvs = vec![];
    if let Some(a) = a {
        kvs.push((tstr(b"start"), a.clone()));
    }
    if let Some(b) = b {
        kvs.push((tstr(b"end"), b.clone()));
    }
    Part::Index(obj(kvs))
}

fn part_vars(p: &Part) -> (Val, Val) {
    match p {
        Part::Index(i) => (i.clone(), Val::Null),
        Part::Range(a, b) => (a.clone().unwrap_or(Val::Null), b.clone().unwrap_or(Val::Null)),
    }
}

/// literal jq text of a small integer / null / string index (for the `lit` forms)
fn lit_text(v: &Val) -> Option<String> {
    match v {
        Val::Null => Some("null".into()),
        Val::Num(Num::Int(i)) => Some(format!("{i}")),
        Val::Num(Num::BigInt(i)) => Some(format!("{i}")),
        Val::TStr(b) if b.iter().all(|c| c.is_ascii_alphanumeric()) => Some(format!("\"{}\"", String::from_utf8_lossy(b))),
        _ => None,
    }
}

fn term_text(ts: &[Term]) -> (String, Val, Val) {
    // constants are passed as $c0, $c1 in order of appearance
    let mut cs = vec![];
    let mut parts = vec![];
    for t in ts {
        match t {
            Term::Id => parts.push(".".to_string()),
            Term::Err => parts.push("error".to_string()),
            Term::Const(c) => {
                parts.push(format!("$c{}", cs.len()));
                cs.push(c.clone());
            }
            Term::Plus(c) => {
                parts.push(format!(". + $c{}", cs.len()));
                cs.push(c.clone());
            }
        }
    }
    let text = if parts.is_empty() { "empty".to_string() } else { format!("({})", parts.join(", ")) };
    let mut it = cs.into_iter();
    (text, it.next().unwrap_or(Val::Null), it.next().unwrap_or(Val::Null))
}

/// The real answer for a request line of the model driver.
fn real(req: &str) -> String {
    real_opt(req).unwrap_or_else(|| "BAD-REQUEST".into())
}

fn real_opt(req: &str) -> Option<String> {
    let mut t = Toks::new(req);
    let op = t.tok()?;
    match op {
        "c10.run" => {
            let form = t.tok()?;
            let opt = t.tok()?;
            let part = t.part()?;
            let v = t.val()?;
            if !t.done() {
                return None;
            }
            let (mut i, mut j) = part_vars(&part);
            if form == "objidx" {
                let (_, a, b) = objidx_text(&part, opt)?;
                i = a;
                j = b;
            }
            let q = if opt == "O" { "?" } else { "" };
            let code = match (form, &part) {
                ("path", _) => part_text(&part, opt),
                ("first", Part::Index(_)) => "first".to_string(),
                ("last", Part::Index(_)) => "last".to_string(),
                ("nth", Part::Index(_)) => "nth($i)".to_string(),
                ("getpath", Part::Index(_)) => "getpath([$i])".to_string(),
                ("dot", Part::Index(Val::TStr(b))) => format!(".{}{q}", String::from_utf8_lossy(b)),
                ("lit", Part::Index(x)) => format!(".[{}]{q}", lit_text(x)?),
                ("lit", Part::Range(a, b)) => format!(
                    ".[{}:{}]{q}",
                    a.as_ref().map_or(Some(String::new()), lit_text)?,
                    b.as_ref().map_or(Some(String::new()), lit_text)?
                ),
                ("objidx", Part::Index(Val::Obj(_))) => objidx_text(&part, opt)?.0,
                ("pathval", _) => format!("getpath(path({}))", part_text(&part, opt)),
                _ => return None,
            };
            Some(run_prog(&code, &v, [i, j, Val::Null, Val::Null]))
        }
        "c10.upd" => {
            let form = t.tok()?;
            let opt = t.tok()?;
            let part = t.part()?;
            let ts = t.terms()?;
            let v = t.val()?;
            if !t.done() {
                return None;
            }
            let (i, j) = part_vars(&part);
            let (ftext, c0, c1) = term_text(&ts);
            let (mut i, mut j) = (i, j);
            let p = match (form, &part) {
                ("objidx", _) => {
                    let (t, a, b) = objidx_text(&part, opt)?;
                    i = a;
                    j = b;
                    t
                }
                _ => part_text(&part, opt),
            };
            let code = match (form, ts.as_slice()) {
                ("upd", _) | ("objidx", _) => format!("{p} |= {ftext}"),
                ("assign", [Term::Const(_)]) => format!("{p} = $c0"),
                ("arith", [Term::Plus(_)]) => format!("{p} += $c0"),
                ("del", []) => format!("del({p})"),
                ("setpath", [Term::Const(_)]) => match &part {
                    Part::Index(_) => "setpath([$i]; $c0)".to_string(),
                    _ => return None,
                },
                _ => return None,
            };
            Some(run_prog(&code, &v, [i, j, c0, c1]))
        }
        "c10.has" => {
            let v = t.val()?;
            let k = t.val()?;
            Some(run_prog("has($i)", &v, [k, Val::Null, Val::Null, Val::Null]))
        }
        "c10.length" => Some(run_prog("length", &t.val()?, [Val::Null, Val::Null, Val::Null, Val::Null])),
        "c10.keysu" => Some(run_prog("keys_unsorted", &t.val()?, [Val::Null, Val::Null, Val::Null, Val::Null])),
        "c10.keys" => Some(run_prog("keys", &t.val()?, [Val::Null, Val::Null, Val::Null, Val::Null])),
        "c10.pat" => {
            let n: usize = t.tok()?.parse().ok()?;
            let v = t.val()?;
            let mut ks = vec![];
            for _ in 0..n {
                ks.push(t.val()?);
            }
            // array pattern when the keys are 0..n, else an object pattern with literal keys
            let is_arr = ks.iter().enumerate().all(|(i, k)| matches!(k, Val::Num(Num::Int(x)) if *x == i as isize));
            let names: Vec<String> = (0..n).map(|i| format!("$x{i}")).collect();
            let code = if is_arr && n > 0 {
                format!(". as [{}] | [{}]", names.join(", "), names.join(", "))
            } else {
                let ents: Vec<String> = ks
                    .iter()
                    .zip(&names)
                    .map(|(k, x)| Some(format!("({}): {x}", lit_text(k)?)))
                    .collect::<Option<_>>()?;
                format!(". as {{{}}} | [{}]", ents.join(", "), names.join(", "))
            };
            Some(run_prog(&code, &v, [Val::Null, Val::Null, Val::Null, Val::Null]))
        }
        "c10.chars" => {
            // bstr's `char_indices` chunks, observed through the real `text / ""` (lib.rs `split`)
            let v = t.val()?;
            if !matches!(v, Val::TStr(_)) {
                return None;
            }
            Some(match catch(move || v / tstr(b"")) {
                Ok(Ok(r)) => vx::enc_canon(&r),
                Ok(Err(e)) => format!("E {}", err_cls(&e)),
                Err(p) => format!("PANIC {}", p.replace(['\t', '\n'], " ")),
            })
        }
        _ => None,
    }
}

// ---------------------------------------------------------------- generation

struct Out {
    n: usize,
    buf: String,
}

impl Out {
    fn emit(&mut self, group: &str, req: String) {
        let r = real(&req);
        writeln!(self.buf, "{group}{}\t{req}\t{r}", self.n).unwrap();
        self.n += 1;
        if self.buf.len() > 1 << 20 {
            print!("{}", self.buf);
            self.buf.clear();
        }
    }
    fn run(&mut self, group: &str, form: &str, opt: &str, p: &Part, v: &Val) {
        self.emit(group, format!("c10.run {form} {opt} {} {}", enc_part(p), vx::enc(v)));
    }
    fn upd(&mut self, group: &str, form: &str, opt: &str, p: &Part, ts: &[Term], v: &Val) {
        self.emit(group, format!("c10.upd {form} {opt} {} {} {}", enc_part(p), enc_terms(ts), vx::enc(v)));
    }
}

fn bigv(i: i128) -> Val {
    Val::Num(Num::big_int(BigInt::from(i)))
}

/// all sequences over `alpha` with length ≤ n
fn seqs<T: Clone>(alpha: &[T], n: usize) -> Vec<Vec<T>> {
    let mut all = vec![vec![]];
    let mut last = vec![vec![]];
    for _ in 0..n {
        let mut next = vec![];
        for s in &last {
            for a in alpha {
                let mut s2: Vec<T> = s.clone();
                s2.push(a.clone());
                next.push(s2);
            }
        }
        all.extend(next.iter().cloned());
        last = next;
    }
    all
}

fn small_bounds() -> Vec<Option<Val>> {
    let mut v: Vec<Option<Val>> = vec![None, Some(Val::Null)];
    for i in -6..=6 {
        v.push(Some(int(i)));
    }
    v
}

fn small_bounds_big() -> Vec<Option<Val>> {
    let mut v: Vec<Option<Val>> = vec![None, Some(Val::Null)];
    for i in -6..=6 {
        v.push(Some(bigv(i)));
    }
    v
}

/// positions beyond the small range: representation boundaries, wrong types
fn odd_positions() -> Vec<Val> {
    vec![
        int(isize::MAX), int(isize::MIN), int(7), int(-7), int(100),
        bigv(1 << 63), bigv(-(1 << 63)), bigv((1 << 64) - 1), bigv(-((1 << 64) - 1)), bigv(1 << 64), bigv(-(1 << 64)),
        bigv(1 << 100), bigv(-(1 << 100)),
        float(0.0), float(-0.0), float(1.0), float(1.5), float(-1.0), float(f64::NAN), float(f64::INFINITY), dec("1.0"), dec("1e1000"),
        Val::Bool(true), Val::Bool(false), tstr(b"a"), tstr(b"0"), tstr(b"start"), bstr(b"a"),
        arr(vec![]), arr(vec![int(0)]), arr(vec![int(1)]), arr(vec![int(0), int(1)]), arr(vec![float(1.0)]), arr(vec![int(11), int(12)]),
        obj(vec![]), obj(vec![(tstr(b"start"), int(1))]), obj(vec![(tstr(b"end"), int(-1))]),
        obj(vec![(tstr(b"start"), int(1)), (tstr(b"end"), int(3))]), obj(vec![(tstr(b"end"), int(3)), (tstr(b"start"), int(-3)), (tstr(b"x"), int(0))]),
        obj(vec![(tstr(b"start"), Val::Null), (tstr(b"end"), bigv(2))]), obj(vec![(tstr(b"start"), tstr(b"a"))]),
        obj(vec![(tstr(b"start"), float(1.0))]), obj(vec![(tstr(b"end"), bigv(1 << 64))]), obj(vec![(bstr(b"start"), int(1))]),
        obj(vec![(tstr(b"a"), int(1))]),
    ]
}

fn arrays() -> Vec<Val> {
    let mut out: Vec<Val> = vec![];
    // distinct elements
    for n in 0..=4 {
        out.push(arr((0..n).map(|i| int(10 + i as isize)).collect()));
    }
    // all arrays over {0, 1} up to length 4
    for s in seqs(&[int(0), int(1)], 4) {
        if !s.is_empty() {
            out.push(arr(s));
        }
    }
    // mixed element kinds, nested
    out.push(arr(vec![Val::Null, tstr(b"a"), arr(vec![int(1)]), obj(vec![(tstr(b"a"), int(1))])]));
    out.push(arr(vec![float(1.0), int(1), bigv(1)]));
    out
}

const SYMS: [&[u8]; 7] = [b"a", "\u{e9}".as_bytes(), "\u{20ac}".as_bytes(), "\u{1f600}".as_bytes(), b"\xff", b"\xe2\x82", b"\x80"];

fn strings(maxlen: usize, nsyms: usize) -> Vec<Vec<u8>> {
    seqs(&SYMS[..nsyms], maxlen).into_iter().map(|s| s.concat()).collect()
}

fn objects() -> Vec<Val> {
    let keys: Vec<Val> = vec![tstr(b"a"), tstr(b"b"), int(1), Val::Null, arr(vec![int(1)]), obj(vec![(tstr(b"a"), int(1))])];
    let mut out = vec![obj(vec![])];
    // all ordered selections of ≤ 3 distinct keys
    let n = keys.len();
    for a in 0..n {
        out.push(obj(vec![(keys[a].clone(), int(20))]));
        for b in 0..n {
            if b == a {
                continue;
            }
            out.push(obj(vec![(keys[a].clone(), int(20)), (keys[b].clone(), int(21))]));
            for c in 0..n {
                if c == a || c == b {
                    continue;
                }
                out.push(obj(vec![(keys[a].clone(), int(20)), (keys[b].clone(), int(21)), (keys[c].clone(), int(22))]));
            }
        }
    }
    out.push(obj(vec![(tstr(b"a"), int(1)), (tstr(b"b"), int(2)), (tstr(b"c"), int(3)), (tstr(b"d"), int(4))]));
    out.push(obj(vec![(float(f64::NAN), int(1)), (tstr(b"a"), int(2))]));
    out.push(obj(vec![(bigv(1), int(1)), (float(2.0), int(2)), (bstr(b"a"), int(3))]));
    out
}

fn obj_keys() -> Vec<Val> {
    vec![tstr(b"a"), tstr(b"b"), tstr(b"zz"), int(1), bigv(1), float(1.0), int(2), float(2.0), Val::Null, arr(vec![int(1)]), arr(vec![float(1.0)]), arr(vec![]),
         obj(vec![(tstr(b"a"), int(1))]), obj(vec![]), obj(vec![(tstr(b"start"), int(0))]), bstr(b"a"), Val::Bool(true), float(f64::NAN), int(0), int(-1)]
}

fn scalars() -> Vec<Val> {
    vec![Val::Null, Val::Bool(true), Val::Bool(false), int(0), int(-5), bigv(1 << 70), float(-1.5), dec("1.0")]
}

fn elem_terms() -> Vec<Vec<Term>> {
    vec![
        vec![],
        vec![Term::Id],
        vec![Term::Plus(int(1))],
        vec![Term::Const(Val::Null)],
        vec![Term::Plus(int(1)), Term::Plus(int(2))],
        vec![Term::Err],
        vec![Term::Id, Term::Err],
        vec![Term::Plus(tstr(b"x"))],
    ]
}

fn slice_terms(unit: &Val, other: &Val) -> Vec<Vec<Term>> {
    vec![
        vec![],
        vec![Term::Id],
        vec![Term::Plus(unit.clone())],
        vec![Term::Const(unit.clone())],
        vec![Term::Plus(unit.clone()), Term::Const(unit.clone())],
        vec![Term::Err],
        vec![Term::Const(other.clone())],
        vec![Term::Const(Val::Null)],
    ]
}

pub fn gen(tier: &str) {
    let thorough = tier == "thorough";
    let mut o = Out { n: 0, buf: String::new() };
    let arrays = arrays();
    let objects = objects();
    let bounds = small_bounds();
    let bounds_big = small_bounds_big();
    let odd = odd_positions();
    let tstrs_full: Vec<Val> = {
        let mut v = strings(3, 7);
        v.extend(strings(4, 5));
        v.sort();
        v.dedup();
        v.iter().map(|s| tstr(s)).collect()
    };
    let tstrs_small: Vec<Val> = strings(3, 5).iter().map(|s| tstr(s)).collect();
    let bstrs: Vec<Val> = seqs(&[0x61u8, 0xff, 0x00], 4).iter().map(|s| bstr(s)).collect();
    let opts = ["E", "O"];

    // -- bstr's view of text strings vs the shared Utf8 model
    for s in &tstrs_full {
        o.emit("chars", format!("c10.chars {}", vx::enc(s)));
    }
    for s in seqs(&[0xf0u8, 0x9f, 0x98, 0x80, 0xe0, 0xa0, 0xed, 0xc2, 0x41, 0xf4, 0x90], if thorough { 5 } else { 4 }) {
        o.emit("chars", format!("c10.chars {}", vx::enc(&tstr(&s))));
    }

    // -- length / keys / has / iteration on everything
    let mut everything: Vec<Val> = vec![];
    everything.extend(arrays.iter().cloned());
    everything.extend(objects.iter().cloned());
    everything.extend(tstrs_small.iter().cloned());
    everything.extend(bstrs.iter().take(40).cloned());
    everything.extend(scalars());
    for v in &everything {
        o.emit("len", format!("c10.length {}", vx::enc(v)));
        o.emit("keys", format!("c10.keysu {}", vx::enc(v)));
        o.emit("keys", format!("c10.keys {}", vx::enc(v)));
        for opt in opts {
            o.run("iter", "path", opt, &Part::Range(None, None), v);
        }
    }
    for s in &tstrs_full {
        o.emit("len", format!("c10.length {}", vx::enc(s)));
    }

    // -- indexing: arrays, byte strings, text strings, null, scalars × all positions
    let mut idx_small: Vec<Val> = bounds.iter().chain(bounds_big.iter()).flatten().cloned().collect();
    idx_small.dedup();
    let mut indexables: Vec<Val> = arrays.clone();
    indexables.extend(bstrs.iter().filter(|b| matches!(b, Val::BStr(x) if x.len() != 3)).cloned());
    indexables.extend(tstrs_small.iter().take(31).cloned());
    indexables.extend(scalars());
    for v in &indexables {
        for i in idx_small.iter().chain(odd.iter()) {
            let p = Part::Index(i.clone());
            for opt in opts {
                o.run("idx", "path", opt, &p, v);
            }
            o.emit("has", format!("c10.has {} {}", vx::enc(v), vx::enc(i)));
            o.run("idx", "nth", "E", &p, v);
            o.run("idx", "getpath", "E", &p, v);
            if matches!(i, Val::Num(Num::Int(_)) | Val::Null) {
                o.run("idx", "lit", "E", &p, v);
            }
        }
        o.run("idx", "first", "E", &Part::Index(int(0)), v);
        o.run("idx", "last", "E", &Part::Index(int(-1)), v);
        // destructuring
        for n in 1..=5usize {
            let ks: Vec<String> = (0..n).map(|i| vx::enc(&int(i as isize))).collect();
            o.emit("pat", format!("c10.pat {n} {} {}", vx::enc(v), ks.join(" ")));
        }
        o.emit("pat", format!("c10.pat 2 {} {} {}", vx::enc(v), vx::enc(&int(-1)), vx::enc(&int(1))));
        o.emit("pat", format!("c10.pat 2 {} {} {}", vx::enc(v), vx::enc(&tstr(b"a")), vx::enc(&Val::Null)));
    }

    // -- objects × keys
    for v in &objects {
        for k in obj_keys() {
            let p = Part::Index(k.clone());
            for opt in opts {
                o.run("obj", "path", opt, &p, v);
            }
            o.emit("has", format!("c10.has {} {}", vx::enc(v), vx::enc(&k)));
            o.run("obj", "getpath", "E", &p, v);
            if let Val::TStr(_) = &k {
                o.run("obj", "dot", "E", &p, v);
                o.run("obj", "dot", "O", &p, v);
            }
            if lit_text(&k).is_some() {
                o.emit("pat", format!("c10.pat 2 {} {} {}", vx::enc(v), vx::enc(&k), vx::enc(&tstr(b"b"))));
            }
        }
    }

    // -- slicing: every container × all bound pairs
    let mut sliceables: Vec<(Val, bool)> = vec![]; // (value, full bound product?)
    sliceables.extend(arrays.iter().map(|a| (a.clone(), true)));
    sliceables.extend(bstrs.iter().map(|b| (b.clone(), matches!(b, Val::BStr(x) if x.len() != 3))));
    sliceables.extend(tstrs_full.iter().map(|s| (s.clone(), true)));
    for (v, _) in &sliceables {
        for a in &bounds {
            for b in &bounds {
                let p = Part::Range(a.clone(), b.clone());
                if a.is_none() && b.is_none() {
                    o.run("slice", "objidx", "E", &objidx(a, b), v);
                    continue;
                }
                o.run("slice", "path", "E", &p, v);
            }
        }
    }
    // representations and forms of the bounds on a smaller set of containers
    let mut reps: Vec<Val> = arrays.iter().take(5).cloned().collect();
    reps.extend(tstrs_small.iter().filter(|s| matches!(s, Val::TStr(b) if b.len() >= 5)).take(if thorough { 60 } else { 12 }).cloned());
    reps.extend(bstrs.iter().skip(30).take(4).cloned());
    reps.extend(scalars());
    reps.push(obj(vec![(tstr(b"a"), int(1))]));
    for v in &reps {
        for a in &bounds_big {
            for b in &bounds {
                let p = Part::Range(a.clone(), b.clone());
                let q = Part::Range(b.clone(), a.clone());
                if a.is_none() && b.is_none() {
                    continue;
                }
                o.run("slice", "path", "O", &p, v);
                o.run("slice", "path", "E", &q, v);
                o.run("slice", "objidx", "E", &objidx(a, b), v);
                o.run("slice", "pathval", "E", &p, v);
                if lit_text(&a.clone().unwrap_or(Val::Null)).is_some() {
                    o.run("slice", "lit", "E", &Part::Range(b.clone(), a.clone()), v);
                }
            }
        }
        for x in &odd {
            for y in [None, Some(int(1)), Some(int(-1))] {
                for opt in opts {
                    o.run("slice", "path", opt, &Part::Range(Some(x.clone()), y.clone()), v);
                    o.run("slice", "path", opt, &Part::Range(y.clone(), Some(x.clone())), v);
                }
                o.run("slice", "objidx", "E", &objidx(&Some(x.clone()), &y), v);
            }
        }
    }

    // -- element updates
    for v in indexables.iter().filter(|v| !matches!(v, Val::BStr(b) if b.len() > 2)) {
        for i in idx_small.iter().chain(odd.iter()) {
            let p = Part::Index(i.clone());
            for ts in elem_terms() {
                for opt in opts {
                    o.upd("updidx", "upd", opt, &p, &ts, v);
                }
                match ts.as_slice() {
                    [] => o.upd("updidx", "del", "E", &p, &ts, v),
                    [Term::Const(_)] => {
                        o.upd("updidx", "assign", "E", &p, &ts, v);
                        o.upd("updidx", "setpath", "E", &p, &ts, v);
                    }
                    [Term::Plus(_)] => o.upd("updidx", "arith", "E", &p, &ts, v),
                    _ => {}
                }
            }
        }
    }
    for v in &objects {
        for k in obj_keys() {
            let p = Part::Index(k.clone());
            for ts in elem_terms() {
                for opt in opts {
                    o.upd("updobj", "upd", opt, &p, &ts, v);
                }
                match ts.as_slice() {
                    [] => o.upd("updobj", "del", "E", &p, &ts, v),
                    [Term::Const(_)] => o.upd("updobj", "assign", "E", &p, &ts, v),
                    _ => {}
                }
            }
        }
    }
    // -- `.[] |= f`
    for v in &everything {
        for ts in elem_terms() {
            for opt in opts {
                o.upd("upditer", "upd", opt, &Part::Range(None, None), &ts, v);
            }
        }
    }
    // -- slice updates
    let mut targets: Vec<(Val, Val, Val)> = vec![]; // (container, unit of the same kind, value of another kind)
    for a in &arrays {
        targets.push((a.clone(), arr(vec![int(9)]), tstr(b"Z")));
    }
    let upd_strs: Vec<Val> = if thorough { tstrs_full.clone() } else { tstrs_small.clone() };
    for s in &upd_strs {
        targets.push((s.clone(), tstr("Z\u{e9}".as_bytes()), bstr(b"Z")));
    }
    for b in bstrs.iter().filter(|b| matches!(b, Val::BStr(x) if x.len() != 3 || thorough)) {
        targets.push((b.clone(), bstr(b"Z\xff"), tstr(b"Z")));
    }
    for (v, unit, other) in &targets {
        let terms = slice_terms(unit, other);
        for a in &bounds {
            for b in &bounds {
                if a.is_none() && b.is_none() {
                    continue;
                }
                let p = Part::Range(a.clone(), b.clone());
                for (k, ts) in terms.iter().enumerate() {
                    // the full menu on arrays; strings: the informative half in the quick tier
                    if !thorough && !matches!(v, Val::Arr(_)) && k >= 4 && !(a == &Some(int(1)) || b == &Some(int(-1))) {
                        continue;
                    }
                    o.upd("updslice", "upd", "E", &p, ts, v);
                }
            }
        }
    }
    for v in &reps {
        let (unit, other) = match v {
            Val::TStr(_) => (tstr(b"Z"), bstr(b"Z")),
            Val::BStr(_) => (bstr(b"Z"), tstr(b"Z")),
            _ => (arr(vec![int(9)]), tstr(b"Z")),
        };
        let terms = slice_terms(&unit, &other);
        for a in &bounds_big {
            for b in [None, Some(int(2)), Some(int(-1)), Some(Val::Null)] {
                if a.is_none() && b.is_none() {
                    continue;
                }
                for ts in &terms {
                    o.upd("updslice", "upd", "O", &Part::Range(a.clone(), b.clone()), ts, v);
                    o.upd("updslice", "objidx", "E", &objidx(&b, a), ts, v);
                    match ts.as_slice() {
                        [] => o.upd("updslice", "del", "E", &Part::Range(a.clone(), b.clone()), ts, v),
                        [Term::Const(_)] => o.upd("updslice", "assign", "E", &Part::Range(a.clone(), b.clone()), ts, v),
                        [Term::Plus(_)] => o.upd("updslice", "arith", "E", &Part::Range(a.clone(), b.clone()), ts, v),
                        _ => {}
                    }
                }
            }
        }
        for x in &odd {
            for ts in terms.iter().take(3) {
                for opt in opts {
                    o.upd("updslice", "upd", opt, &Part::Range(Some(x.clone()), Some(int(2))), ts, v);
                    o.upd("updslice", "upd", opt, &Part::Range(None, Some(x.clone())), ts, v);
                }
            }
        }
    }

    // -- seeded random larger cases
    let mut rng = Rng::new(prng::seed_from_env());
    let nrand = if thorough { 60000 } else { 6000 };
    for _ in 0..nrand {
        let n = rng.below(40);
        let kind = rng.below(3);
        let v = match kind {
            0 => arr((0..n).map(|i| int(100 + i as isize)).collect()),
            1 => tstr(&(0..n).map(|_| SYMS[rng.below(7)].to_vec()).collect::<Vec<_>>().concat()),
            _ => bstr(&(0..n).map(|_| [0x61u8, 0xff, 0x00, 0xe2, 0x82][rng.below(5)]).collect::<Vec<_>>()),
        };
        let pos = |rng: &mut Rng| -> Option<Val> {
            let r = rng.below(12);
            let span = n as isize + 4;
            let x = rng.below((2 * span + 1) as usize) as isize - span;
            match r {
                0 => None,
                1 => Some(Val::Null),
                2 => Some(bigv(x as i128)),
                3 => Some(rng.pick(&odd).clone()),
                _ => Some(int(x)),
            }
        };
        let a = pos(&mut rng);
        let b = pos(&mut rng);
        let opt = opts[rng.below(2)];
        let (unit, other) = match kind {
            0 => (arr(vec![int(7), int(8)]), tstr(b"Z")),
            1 => (tstr("Z\u{20ac}".as_bytes()), bstr(b"Z")),
            _ => (bstr(b"Z\xff"), tstr(b"Z")),
        };
        match rng.below(4) {
            0 => {
                if let Some(i) = &a {
                    let p = Part::Index(i.clone());
                    o.run("rand", "path", opt, &p, &v);
                    o.emit("rand", format!("c10.has {} {}", vx::enc(&v), vx::enc(i)));
                    let ts = rng.pick(&elem_terms()).clone();
                    o.upd("rand", "upd", opt, &p, &ts, &v);
                }
            }
            1 => {
                if a.is_some() || b.is_some() {
                    o.run("rand", "path", opt, &Part::Range(a.clone(), b.clone()), &v);
                }
            }
            _ => {
                if a.is_some() || b.is_some() {
                    let ts = rng.pick(&slice_terms(&unit, &other)).clone();
                    o.upd("rand", "upd", opt, &Part::Range(a.clone(), b.clone()), &ts, &v);
                }
            }
        }
    }
    print!("{}", o.buf);
}

// ---------------------------------------------------------------- manual oracle

/// the three definitions, cut out of docs/advanced.dj (between `def X(` and the following `def eq(`)
fn manual_defs() -> Result<String, String> {
    let repo = std::env::var("JAQ_REPO").unwrap_or_else(|_| "/repo".into());
    let path = format!("{repo}/docs/advanced.dj");
    let text = std::fs::read_to_string(&path).map_err(|e| format!("{path}: {e}"))?;
    let mut out = String::new();
    for name in ["iter_upd", "index_upd", "slice_upd"] {
        let start = text.find(&format!("def {name}(")).ok_or(format!("no def {name} in {path}"))?;
        let end = text[start..].find("def eq(").ok_or(format!("no def eq after {name}"))? + start;
        out.push_str(&text[start..end]);
        out.push('\n');
    }
    Ok(out)
}

fn val_items(code: &str, input: &Val, vars: [Val; 4]) -> Result<Vec<Item>, String> {
    let f = compiled(code)?;
    let input = input.clone();
    catch(move || run_with(&f, input, vars.to_vec(), vec![], 64))
}

fn same_items(a: &[Item], b: &[Item]) -> bool {
    a.len() == b.len()
        && a.iter().zip(b).all(|(x, y)| match (x, y) {
            (Item::Val(x), Item::Val(y)) => x == y || vx::enc_canon(x) == vx::enc_canon(y), // jaq's `==`, as the manual's `eq` (NaN keys: identical)
            (Item::Err(_), Item::Err(_)) => true,
            _ => false,
        })
}

fn man_check(defs: &str, kind: &str, real_code: &str, man_code: &str, v: &Val, vars: [Val; 4], ftext: &str) {
    let a = val_items(real_code, v, vars.clone());
    let b = val_items(&format!("{defs}\n{man_code}"), v, vars.clone());
    let ok = match (&a, &b) {
        (Ok(a), Ok(b)) => same_items(a, b),
        _ => false,
    };
    let sh = |r: &Result<Vec<Item>, String>| match r {
        Ok(i) => show_items(i),
        Err(e) => format!("FAIL {e}"),
    };
    // position facts for the classification of a disagreement, computed independently of jaq's clipping code
    let len: i128 = match val_items("length", v, vars.clone()) {
        Ok(items) => match items.first() {
            Some(Item::Val(Val::Num(Num::Int(n)))) if matches!(v, Val::Arr(_) | Val::TStr(_) | Val::BStr(_)) => *n as i128,
            _ => -1,
        },
        _ => -1,
    };
    let norm = |x: &Val, dflt: i128| -> i128 {
        match x {
            Val::Num(Num::Int(i)) => { let i = *i as i128; if i < 0 { (len + i).max(0) } else { i.min(len) } }
            _ => dflt,
        }
    };
    let (na, nb) = if real_code.contains("[$i:]") { (norm(&vars[0], 0), len) } else if real_code.contains("[:$j]") { (0, norm(&vars[1], len)) } else { (norm(&vars[0], 0), norm(&vars[1], len)) };
    println!("MAN {}\t{kind}\t{real_code}\t{man_code}\t{}\t{}\t{}\t{ftext}\t{}\t{}\t{len}\t{na}\t{nb}", if ok { "ok" } else { "FAIL" },
             vx::enc(v), vx::enc(&vars[0]), vx::enc(&vars[1]), sh(&a), sh(&b));
}

pub fn manual(tier: &str) {
    let thorough = tier == "thorough";
    let defs = match manual_defs() {
        Ok(d) => d,
        Err(e) => {
            println!("MAN SKIP\t{e}");
            return;
        }
    };
    let arrays = arrays();
    let objects = objects();
    let bounds = small_bounds();
    let tstrs: Vec<Val> = strings(if thorough { 3 } else { 2 }, 5).iter().map(|s| tstr(s)).collect();
    let bstrs: Vec<Val> = seqs(&[0x61u8, 0xff], 3).iter().map(|s| bstr(s)).collect();
    let mut n = 0usize;
    let mut check = |kind: &str, real_code: &str, man_code: &str, v: &Val, vars: [Val; 4], ftext: &str| {
        man_check(&defs, kind, real_code, man_code, v, vars, ftext);
        n += 1;
    };
    let nul = Val::Null;
    // iter_upd
    let fs_elem = ["empty", ".", ". + 1", "(. + 1, .)", "null", "error", "(., error)"];
    let mut every: Vec<Val> = arrays.clone();
    every.extend(objects.iter().cloned());
    every.extend(scalars());
    every.push(tstr(b"ab"));
    for v in &every {
        for f in fs_elem {
            check("iter", &format!(".[] |= {f}"), &format!("iter_upd({f}; error)"), v, [nul.clone(), nul.clone(), nul.clone(), nul.clone()], f);
            check("iter", &format!(".[]? |= {f}"), &format!("iter_upd({f}; .)"), v, [nul.clone(), nul.clone(), nul.clone(), nul.clone()], f);
        }
    }
    // index_upd on arrays and objects
    for v in arrays.iter().chain(scalars().iter()) {
        for i in bounds.iter().flatten() {
            for f in fs_elem {
                check("index", &format!(".[$i] |= {f}"), &format!("index_upd($i; {f}; error)"), v, [i.clone(), nul.clone(), nul.clone(), nul.clone()], f);
                check("index", &format!(".[$i]? |= {f}"), &format!("index_upd($i; {f}; .)"), v, [i.clone(), nul.clone(), nul.clone(), nul.clone()], f);
            }
        }
    }
    for v in &objects {
        for k in obj_keys() {
            if matches!(k, Val::Obj(_)) && false {
                continue;
            }
            for f in fs_elem {
                check("index", &format!(".[$i] |= {f}"), &format!("index_upd($i; {f}; error)"), v, [k.clone(), nul.clone(), nul.clone(), nul.clone()], f);
            }
        }
    }
    // slice_upd
    let mut sl: Vec<(Val, Vec<&str>)> = vec![];
    for a in &arrays {
        sl.push((a.clone(), vec!["empty", ".", ". + [9]", "[9]", "([8], [9])", "error", "\"Z\"", "null"]));
    }
    for s in tstrs.iter() {
        sl.push((s.clone(), vec!["empty", ".", ". + \"Z\"", "\"Z\"", "error", "[9]"]));
    }
    for s in bstrs.iter() {
        sl.push((s.clone(), vec!["empty", ".", ". + (\"Z\" | tobytes)", "error", "\"Z\""]));
    }
    for s in scalars() {
        sl.push((s, vec![".", "empty"]));
    }
    for (v, fs) in &sl {
        for a in &bounds {
            for b in &bounds {
                let (Some(a), Some(b)) = (a, b) else { continue };
                for f in fs {
                    check("slice", &format!(".[$i:$j] |= {f}"), &format!("slice_upd($i; $j; {f}; error)"), v, [a.clone(), b.clone(), nul.clone(), nul.clone()], f);
                }
                check("slice", ".[$i:$j]? |= .", "slice_upd($i; $j; .; .)", v, [a.clone(), b.clone(), nul.clone(), nul.clone()], ".");
                check("objslice", ".[{start: $i, end: $j}] |= .", "index_upd({start: $i, end: $j}; .; error)", v, [a.clone(), b.clone(), nul.clone(), nul.clone()], ".");
            }
            // open forms of the table: `.[$i:]` = slice_upd($i; length; ..), `.[:$j]` = slice_upd(0; $j; ..)
            if let Some(a) = a {
                for f in fs.iter().take(4) {
                    check("slice", &format!(".[$i:] |= {f}"), &format!("slice_upd($i; length; {f}; error)"), v, [a.clone(), nul.clone(), nul.clone(), nul.clone()], f);
                    check("slice", &format!(".[:$j] |= {f}"), &format!("slice_upd(0; $j; {f}; error)"), v, [nul.clone(), a.clone(), nul.clone(), nul.clone()], f);
                }
            }
        }
    }
    eprintln!("manual: {n} checks");
}

pub fn main(args: &[String]) {
    let tier = std::env::var("VERIF_TIER").unwrap_or_else(|_| "quick".into());
    match args.first().map(|s| s.as_str()) {
        Some("gen") => gen(&tier),
        Some("manual") => manual(&tier),
        Some("real") => {
            use std::io::BufRead;
            for line in std::io::stdin().lock().lines() {
                let line = line.unwrap_or_default();
                println!("{}", real(line.trim()));
            }
        }
        Some("manual1") => {
            // replay of one manual-oracle case: `kind \t real_code \t manual_code \t input \t i \t j \t f`
            use std::io::BufRead;
            let defs = manual_defs().unwrap_or_default();
            for line in std::io::stdin().lock().lines() {
                let line = line.unwrap_or_default();
                let f: Vec<&str> = line.trim_end().split('\t').collect();
                if f.len() < 7 {
                    println!("MAN SKIP\tbad replay line");
                    continue;
                }
                let (Some(v), Some(i), Some(j)) = (vx::dec(f[3]), vx::dec(f[4]), vx::dec(f[5])) else {
                    println!("MAN SKIP\tbad replay values");
                    continue;
                };
                man_check(&defs, f[0], f[1], f[2], &v, [i, j, Val::Null, Val::Null], f[6]);
            }
        }
        _ => eprintln!("c10 gen|manual|manual1|real"),
    }
}
