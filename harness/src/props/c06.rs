//! C06 — filters and data cannot make jaq touch files, network or other processes.
//!   inventory : every native filter of the current tree (`N <src> <hexname> <kinds>`; kinds is a
//!               string of `v` (variable argument) / `f` (closure argument), `-` for arity 0)
//!               and every definition of the defs.jq files with the names it calls
//!               (`D <src> <hexname> <arity> <callee-hex>/<arity> …`)
//!   child     : `child <specfile>` — per line `<hex filter> <input> <limit> [<input>…]`: load phase (compile
//!               the filter, parse inputs), marker system call, exec phase (run the filter, bounded
//!               pulls), marker; meant to be run under `strace`.  `<input>` is `J<hex json text>`,
//!               `T<hex text>` or `B<hex bytes>`.  After the end marker of a case it prints `CASE k`-
//!               prefixed `RES …`, `CURSOR …` and `AST <term tokens>`.
//!   ast       : reads hex filters (or `M<hex>` = a module: definitions only) from stdin, prints the
//!               parsed term of each in the token syntax of the Lean model (or `PARSE-ERROR`)
//!   observe   : in-process semantic observation per native: does its output depend on the
//!               environment / the clock, does it advance the input cursor (`OBS …` lines)
use super::common::*;
use jaq_all::data::DataKind;
use jaq_core::load::lex::StrPart;
use jaq_core::load::parse::{BinaryOp, Def, Pattern, Term};
use jaq_core::path::Part;
use jaq_core::Bind;
use jaq_json::Val;
use std::collections::BTreeSet;

pub const MARK_BEGIN: &str = "/__C06_EXEC_BEGIN__";
pub const MARK_END: &str = "/__C06_EXEC_END__";

fn hex(s: &[u8]) -> String {
    let mut o = String::with_capacity(2 * s.len().max(1));
    for b in s {
        o.push_str(&format!("{b:02x}"));
    }
    if o.is_empty() {
        o.push('-');
    }
    o
}

fn unhex(s: &str) -> Option<Vec<u8>> {
    if s == "-" {
        return Some(vec![]);
    }
    if s.len() % 2 != 0 {
        return None;
    }
    (0..s.len() / 2).map(|i| u8::from_str_radix(&s[2 * i..2 * i + 2], 16).ok()).collect()
}

fn kinds(b: &[Bind]) -> String {
    if b.is_empty() {
        return "-".into();
    }
    b.iter().map(|b| match b { Bind::Var(()) => 'v', Bind::Fun(()) => 'f' }).collect()
}

/// (source, name, kinds) of every native, source by source, then whatever `jaq_all::data::funs()`
/// contains beyond those (so that a new source of natives cannot stay unseen).
fn natives() -> Vec<(&'static str, String, String)> {
    let mut v: Vec<(&'static str, String, String)> = vec![];
    for (n, a, _) in jaq_core::funs::<DataKind>() {
        v.push(("core", n.to_string(), kinds(&a)));
    }
    for (n, a, _) in jaq_std::funs::<DataKind>() {
        v.push(("std", n.to_string(), kinds(&a)));
    }
    for (n, a, _) in jaq_json::funs::<DataKind>() {
        v.push(("json", n.to_string(), kinds(&a)));
    }
    for (n, a, _) in jaq_std::input::funs::<DataKind>().into_vec() {
        v.push(("input", n.to_string(), kinds(&a)));
    }
    for (n, a, _) in jaq_fmts::funs::<DataKind>() {
        v.push(("fmts", n.to_string(), kinds(&a)));
    }
    let seen: BTreeSet<(String, String)> = v.iter().map(|(_, n, k)| (n.clone(), k.clone())).collect();
    for (n, a, _) in jaq_all::data::funs() {
        let k = kinds(&a);
        if !seen.contains(&(n.to_string(), k.clone())) {
            v.push(("all", n.to_string(), k));
        }
    }
    v
}

// ---------------------------------------------------------------- calls of a definition

type Scope = Vec<(String, usize)>;

fn calls_pattern(p: &Pattern<&str>, sc: &Scope, out: &mut Vec<(String, usize)>) {
    match p {
        Pattern::Var(_) => {}
        Pattern::Arr(ps) => ps.iter().for_each(|p| calls_pattern(p, sc, out)),
        Pattern::Obj(kps) => kps.iter().for_each(|(k, p)| {
            calls_term(k, sc, out);
            calls_pattern(p, sc, out)
        }),
    }
}

fn calls_def(d: &Def<&str>, sc: &Scope, out: &mut Vec<(String, usize)>) {
    let mut sc = sc.clone();
    sc.push((d.name.to_string(), d.args.len()));
    for a in &d.args {
        if !a.starts_with('$') {
            sc.push((a.to_string(), 0));
        }
    }
    calls_term(&d.body, &sc, out)
}

/// Names (with arity) called by a term that are not bound by an enclosing definition
/// (its own name, its closure parameters, local definitions).
fn calls_term(t: &Term<&str>, sc: &Scope, out: &mut Vec<(String, usize)>) {
    use Term::*;
    match t {
        Id | Recurse | Num(_) | Break(_) | Var(_) => {}
        Str(fmt, parts) => {
            if let Some(f) = fmt {
                if !sc.contains(&(f.to_string(), 0)) {
                    out.push((f.to_string(), 0));
                }
            }
            for p in parts {
                if let StrPart::Term(t) = p {
                    calls_term(t, sc, out)
                }
            }
        }
        Arr(t) => t.iter().for_each(|t| calls_term(t, sc, out)),
        Obj(kvs) => kvs.iter().for_each(|(k, v)| {
            calls_term(k, sc, out);
            v.iter().for_each(|v| calls_term(v, sc, out))
        }),
        Neg(t) | Label(_, t) => calls_term(t, sc, out),
        BinOp(l, op, r) => {
            calls_term(l, sc, out);
            if let BinaryOp::Pipe(Some(p)) = op {
                calls_pattern(p, sc, out)
            }
            calls_term(r, sc, out)
        }
        Fold(_, xs, pat, args) => {
            calls_term(xs, sc, out);
            calls_pattern(pat, sc, out);
            args.iter().for_each(|t| calls_term(t, sc, out))
        }
        TryCatch(t, c) => {
            calls_term(t, sc, out);
            c.iter().for_each(|t| calls_term(t, sc, out))
        }
        IfThenElse(its, e) => {
            its.iter().for_each(|(i, t)| {
                calls_term(i, sc, out);
                calls_term(t, sc, out)
            });
            e.iter().for_each(|t| calls_term(t, sc, out))
        }
        Def(defs, rest) => {
            let mut sc = sc.clone();
            for d in defs {
                // a local definition is visible to itself and to what follows
                calls_def(d, &sc, out);
                sc.push((d.name.to_string(), d.args.len()));
            }
            calls_term(rest, &sc, out)
        }
        Call(name, args) => {
            if !sc.contains(&(name.to_string(), args.len())) {
                out.push((name.to_string(), args.len()));
            }
            args.iter().for_each(|t| calls_term(t, sc, out))
        }
        Path(t, path) => {
            calls_term(t, sc, out);
            for (p, _) in &path.0 {
                match p {
                    Part::Index(i) => calls_term(i, sc, out),
                    Part::Range(a, b) => {
                        a.iter().for_each(|t| calls_term(t, sc, out));
                        b.iter().for_each(|t| calls_term(t, sc, out))
                    }
                }
            }
        }
    }
}

fn inventory() {
    for (src, n, k) in natives() {
        println!("N {src} {} {k}", hex(n.as_bytes()));
    }
    let sources: Vec<(&str, Vec<Def<&'static str>>)> = vec![
        ("core", jaq_core::defs().collect()),
        ("std", jaq_std::defs().collect()),
        ("json", jaq_json::defs().collect()),
    ];
    for (src, defs) in &sources {
        for d in defs {
            let mut out = vec![];
            calls_def(d, &vec![], &mut out);
            let mut seen = BTreeSet::new();
            let cs: Vec<String> = out
                .into_iter()
                .filter(|c| seen.insert(c.clone()))
                .map(|(n, a)| format!("{}/{a}", hex(n.as_bytes())))
                .collect();
            println!("D {src} {} {} {}", hex(d.name.as_bytes()), d.args.len(), cs.join(" "));
        }
    }
    // is the prelude of `jaq_all::defs()` exactly these three sources?
    let n_all = jaq_all::defs().count();
    let n_src: usize = sources.iter().map(|(_, d)| d.len()).sum();
    println!("DEFS-TOTAL {n_all} {n_src}");
}

// ---------------------------------------------------------------- AST tokens for the Lean model
//  C <kind> <n> <sub>*n      core construct
//  K <hexname> <n> <sub>*n   call (also `@format` strings: K <hex @fmt> 0)
//  D <n> <body>*n <rest>     local definitions

fn tok_core(kind: &str, subs: Vec<String>) -> String {
    let mut s = format!("C {kind} {}", subs.len());
    for x in subs {
        s.push(' ');
        s.push_str(&x);
    }
    s
}

fn tok_pattern(p: &Pattern<&str>) -> String {
    match p {
        Pattern::Var(_) => tok_core("pat", vec![]),
        Pattern::Arr(ps) => tok_core("pat", ps.iter().map(tok_pattern).collect()),
        Pattern::Obj(kps) => tok_core("pat", kps.iter().flat_map(|(k, p)| [tok_term(k), tok_pattern(p)]).collect()),
    }
}

pub fn tok_term(t: &Term<&str>) -> String {
    use Term::*;
    match t {
        Id => tok_core("id", vec![]),
        Recurse => tok_core("recurse", vec![]),
        Num(_) => tok_core("num", vec![]),
        Break(_) => tok_core("break", vec![]),
        Var(_) => tok_core("var", vec![]),
        Str(fmt, parts) => {
            let mut subs = vec![];
            if let Some(f) = fmt {
                subs.push(format!("K {} 0", hex(f.as_bytes())));
            }
            for p in parts {
                if let StrPart::Term(t) = p {
                    subs.push(tok_term(t))
                }
            }
            tok_core("str", subs)
        }
        Arr(t) => tok_core("arr", t.iter().map(|t| tok_term(t)).collect()),
        Obj(kvs) => tok_core("obj", kvs.iter().flat_map(|(k, v)| {
            let mut x = vec![tok_term(k)];
            x.extend(v.iter().map(tok_term));
            x
        }).collect()),
        Neg(t) => tok_core("neg", vec![tok_term(t)]),
        Label(_, t) => tok_core("label", vec![tok_term(t)]),
        BinOp(l, op, r) => {
            let mut subs = vec![tok_term(l)];
            if let BinaryOp::Pipe(Some(p)) = op {
                subs.push(tok_pattern(p))
            }
            subs.push(tok_term(r));
            tok_core("binop", subs)
        }
        Fold(_, xs, pat, args) => {
            let mut subs = vec![tok_term(xs), tok_pattern(pat)];
            subs.extend(args.iter().map(tok_term));
            tok_core("fold", subs)
        }
        TryCatch(t, c) => {
            let mut subs = vec![tok_term(t)];
            subs.extend(c.iter().map(|t| tok_term(t)));
            tok_core("try", subs)
        }
        IfThenElse(its, e) => {
            let mut subs: Vec<String> = its.iter().flat_map(|(i, t)| [tok_term(i), tok_term(t)]).collect();
            subs.extend(e.iter().map(|t| tok_term(t)));
            tok_core("ite", subs)
        }
        Def(defs, rest) => {
            let mut s = format!("D {}", defs.len());
            for d in defs {
                s.push(' ');
                s.push_str(&tok_term(&d.body));
            }
            s.push(' ');
            s.push_str(&tok_term(rest));
            s
        }
        Call(name, args) => {
            let mut s = format!("K {} {}", hex(name.as_bytes()), args.len());
            for a in args {
                s.push(' ');
                s.push_str(&tok_term(a));
            }
            s
        }
        Path(t, path) => {
            let mut subs = vec![tok_term(t)];
            for (p, _) in &path.0 {
                match p {
                    Part::Index(i) => subs.push(tok_term(i)),
                    Part::Range(a, b) => {
                        subs.extend(a.iter().map(tok_term));
                        subs.extend(b.iter().map(tok_term));
                    }
                }
            }
            tok_core("path", subs)
        }
    }
}

/// Tokens of a main program (a term) or of a module (`M` prefix: definitions only, shown as `D n … id`).
fn ast_of(code: &str, module: bool) -> Option<String> {
    if module {
        let defs: Vec<Def<&str>> = jaq_core::load::parse(code, |p| p.defs())?;
        let mut s = format!("D {}", defs.len());
        for d in &defs {
            s.push(' ');
            s.push_str(&tok_term(&d.body));
        }
        s.push_str(" C id 0");
        Some(s)
    } else {
        let t: Term<&str> = jaq_core::load::parse(code, |p| p.term())?;
        Some(tok_term(&t))
    }
}

fn ast_stdin() {
    use std::io::BufRead;
    for l in std::io::stdin().lock().lines() {
        let l = l.unwrap();
        let l = l.trim();
        let (module, h) = match l.strip_prefix('M') {
            Some(h) => (true, h),
            None => (false, l),
        };
        let code = unhex(h).and_then(|b| String::from_utf8(b).ok());
        match code.and_then(|c| catch(|| ast_of(&c, module)).ok().flatten()) {
            Some(s) => println!("{s}"),
            None => println!("PARSE-ERROR"),
        }
    }
}

// ---------------------------------------------------------------- child (traced)

fn parse_input(spec: &str) -> Option<Val> {
    let (k, h) = spec.split_at(1);
    let b = unhex(h)?;
    match k {
        "J" => jaq_json::read::parse_single(&b).ok(),
        "B" => Some(Val::byte_str(b)),
        "T" => Some(Val::utf8_str(b)),
        _ => None,
    }
}

fn marker(path: &str) {
    // a system call that is visible in a `%file` trace and touches nothing
    let _ = std::fs::metadata(path);
}

fn summary(items: &[Item]) -> String {
    let vals = items.iter().filter(|i| matches!(i, Item::Val(_))).count();
    let last = match items.last() {
        Some(Item::Err(e)) => {
            let s = format!("{e}");
            let cls = if s.contains("cannot use") || s.contains("cannot index") || s.contains("cannot be") {
                "typ"
            } else if s.contains("cannot parse") {
                "parse"
            } else {
                "other"
            };
            format!("err:{cls}")
        }
        Some(Item::Exn(s)) => format!("exn:{}", s.split('(').next().unwrap_or("")),
        _ => "-".into(),
    };
    format!("{vals} {last}")
}

/// One case: load phase (compile, parse inputs), begin marker, exec phase, end marker, report.
fn child_case(k: usize, args: &[&str]) {
    println!("CASE {k}");
    if args.len() < 3 {
        println!("INPUT-ERROR");
        return;
    }
    // ---- load phase
    let Some(code) = unhex(args[0]).and_then(|b| String::from_utf8(b).ok()) else {
        println!("INPUT-ERROR");
        return;
    };
    let limit: usize = args[2].parse().unwrap_or(32);
    let filter = match catch(|| compile(&code)) {
        Ok(Ok(f)) => f,
        Ok(Err(e)) => {
            println!("COMPILE-ERROR {e}");
            return;
        }
        Err(_) => {
            println!("COMPILE-ERROR panic");
            return;
        }
    };
    let Some(input) = parse_input(args[1]) else {
        println!("INPUT-ERROR");
        return;
    };
    let mut inputs = vec![];
    for a in &args[3..] {
        match parse_input(a) {
            Some(v) => inputs.push(Ok(v)),
            None => {
                println!("INPUT-ERROR");
                return;
            }
        }
    }
    let ast = catch(|| ast_of(&code, false)).ok().flatten();
    let n_inputs = inputs.len();
    let consumed = std::rc::Rc::new(std::cell::Cell::new(0usize));
    let c2 = consumed.clone();
    let inputs: Vec<Result<Val, String>> = inputs;
    let counted = inputs.into_iter().inspect(move |_| c2.set(c2.get() + 1));
    // ---- exec phase
    marker(&format!("{MARK_BEGIN}/{k}"));
    let res = catch(|| {
        use jaq_all::data::{Ctx, Data, Runner};
        use jaq_std::input::RcIter;
        let runner = Runner::default();
        let it: Box<dyn Iterator<Item = Result<Val, String>>> = Box::new(counted);
        let rc = RcIter::new(it);
        let data = Data { runner: &runner, lut: &filter.lut, inputs: &rc };
        let ctx = Ctx::new(&data, jaq_core::Vars::new(Vec::new()));
        let mut out = Vec::new();
        for y in filter.id.run((ctx, input)).take(limit) {
            match y {
                Ok(v) => out.push(Item::Val(v)),
                Err(exn) => {
                    match exn.get_err() {
                        Ok(e) => out.push(Item::Err(e.into_val())),
                        Err(exn) => out.push(match exn.get_halt() {
                            Ok(code) => Item::Exn(format!("halt({code})")),
                            Err(exn) => Item::Exn(format!("{exn:?}")),
                        }),
                    }
                    break;
                }
            }
        }
        out
    });
    marker(&format!("{MARK_END}/{k}"));
    // ---- report (after the end marker)
    match res {
        Ok(items) => println!("RES {}", summary(&items)),
        Err(p) => println!("RES 0 panic:{}", p.replace(['\n', '\t', ' '], "_").chars().take(60).collect::<String>()),
    }
    println!("CURSOR {} {n_inputs}", consumed.get());
    match ast {
        Some(a) => println!("AST {a}"),
        None => println!("AST PARSE-ERROR"),
    }
}

/// `child <specfile>`: one case per line `<hexfilter> <input> <limit> [<input>…]`, run one after the other.
fn child(args: &[String]) {
    use std::io::Write;
    let Some(spec) = args.first().and_then(|p| std::fs::read_to_string(p).ok()) else {
        eprintln!("usage: c06 child <specfile>");
        std::process::exit(2);
    };
    // warm up what the standard library probes on first use (statx availability), in the load phase
    marker("/__C06_LOAD__");
    for (k, line) in spec.lines().enumerate() {
        let toks: Vec<&str> = line.split_whitespace().collect();
        if toks.is_empty() {
            continue;
        }
        child_case(k, &toks);
        let _ = std::io::stdout().flush();
    }
}

// ---------------------------------------------------------------- semantic observation

fn call_text(name: &str, kinds: &str, arg: &str) -> String {
    if name.starts_with('@') || kinds == "-" {
        return name.to_string();
    }
    let args: Vec<&str> = kinds.chars().map(|_| arg).collect();
    format!("{name}({})", args.join("; "))
}

fn run_all(filters: &[(String, Option<jaq_all::data::Filter>)], inputs: &[Val]) -> Vec<(String, usize)> {
    // per filter: encoded outputs over all inputs, total of consumed cursor items
    let mut res = vec![];
    for (_, f) in filters {
        let Some(f) = f else {
            res.push(("-".to_string(), 0));
            continue;
        };
        let mut enc = String::new();
        let mut consumed = 0;
        for i in inputs {
            let c = std::rc::Rc::new(std::cell::Cell::new(0usize));
            let c2 = c.clone();
            let feed: Vec<Result<Val, String>> = vec![Ok(int(1)), Ok(int(2)), Ok(int(3))];
            let feed = feed.into_iter().inspect(move |_| c2.set(c2.get() + 1));
            let r = catch(|| {
                use jaq_all::data::{Ctx, Data, Runner};
                use jaq_std::input::RcIter;
                let runner = Runner::default();
                let it: Box<dyn Iterator<Item = Result<Val, String>>> = Box::new(feed);
                let rc = RcIter::new(it);
                let data = Data { runner: &runner, lut: &f.lut, inputs: &rc };
                let ctx = Ctx::new(&data, jaq_core::Vars::new(Vec::new()));
                let mut out = String::new();
                for y in f.id.run((ctx, i.clone())).take(8) {
                    match y {
                        Ok(v) => out.push_str(&format!("{v};")),
                        Err(_) => {
                            out.push_str("E;");
                            break;
                        }
                    }
                }
                out
            });
            enc.push_str(&r.unwrap_or_else(|_| "PANIC".into()));
            enc.push('|');
            consumed += c.get();
        }
        res.push((enc, consumed));
    }
    res
}

fn observe() {
    let nat = natives();
    let arg_pool = ["\"C06_PROBE\"", "\"%Y %Z %c\"", "0", "."];
    let mut filters = vec![];
    let mut owner = vec![];
    for (_, n, k) in &nat {
        for a in arg_pool {
            let mut texts = vec![call_text(n, k, a)];
            // results that only show through a key look-up / formatting
            texts.push(format!("{} | tostring", texts[0]));
            for t in texts {
                filters.push((t.clone(), compile(&t).ok()));
                owner.push(format!("{}/{}", n, if k == "-" { 0 } else { k.len() }));
            }
            if k == "-" {
                break;
            }
        }
    }
    let inputs = vec![
        Val::Null, int(0), float(1.5e9), tstr(b"C06_PROBE"), tstr(b"2024-01-02T03:04:05Z"),
        arr(vec![int(2024), int(1), int(2), int(3), int(4), int(5), int(0), int(0)]),
        obj(vec![(tstr(b"C06_PROBE"), int(1))]),
    ];
    std::env::set_var("C06_PROBE", "A");
    let a1 = run_all(&filters, &inputs);
    std::thread::sleep(std::time::Duration::from_millis(30));
    let a2 = run_all(&filters, &inputs);
    std::env::set_var("C06_PROBE", "B");
    let b1 = run_all(&filters, &inputs);
    std::env::remove_var("C06_PROBE");
    let mut agg: std::collections::BTreeMap<String, (bool, bool, bool, usize)> = Default::default();
    for (i, o) in owner.iter().enumerate() {
        let e = agg.entry(o.clone()).or_insert((false, false, false, 0));
        let clock = a1[i].0 != a2[i].0;
        // a clock dependent filter differs between any two runs: only count `env` when stable
        let env = !clock && a2[i].0 != b1[i].0;
        e.0 |= env;
        e.1 |= clock;
        e.2 |= a1[i].1 > 0;
        if filters[i].1.is_some() {
            e.3 += 1;
        }
    }
    for (o, (env, clock, cursor, compiled)) in agg {
        println!("OBS {} env={} clock={} cursor={} compiled={}", hex(o.as_bytes()), env as u8, clock as u8, cursor as u8, compiled);
    }
}

pub fn main(args: &[String]) {
    match args.first().map(|s| s.as_str()) {
        Some("inventory") => inventory(),
        Some("child") => child(&args[1..]),
        Some("ast") => ast_stdin(),
        Some("observe") => observe(),
        Some("markers") => println!("{MARK_BEGIN} {MARK_END}"),
        _ => {
            eprintln!("usage: jaqverif c06 inventory|child|ast|observe|markers");
            std::process::exit(2);
        }
    }
}
