//! C14 — every data format round-trips values on its documented domain.
//!   yaml-strings : per string `s` of the YAML scope: `W <hex s> <Q|P> <back>` (real writer decision and
//!                  what the real reader makes of the written text) and `R <hex s> <back>` (real reader on
//!                  the raw text `s`)
//!   tab          : `id \t request \t real` lines for the CSV/TSV reader and writer correspondence
//!   cbor         : `id \t request \t real` lines for the CBOR writer (bytes -> header tokens) and reader
//!                  (header tokens -> bytes -> real parser) correspondence
//!   toml         : `id \t request \t real` lines for the TOML writer decisions (domain, key quoting)
//!   rt           : `RT fmt path dom status vx written detail` round trips of generated values through the
//!                  real filters (`toF | fromF`) and through `write::write` / `read::parse` (what `--to/--from` call)
//!   xml          : `XML status hex(doc) detail` fixpoint `fromxml|toxml|fromxml = fromxml`
use super::common::*;
use super::prng::{self, Rng};
use super::vx;
use jaq_fmts::{read, write, Format};
use jaq_json::{Num, Val};
use num_bigint::BigInt;

fn clean(s: &str) -> String {
    s.replace(['\t', '\n', '\r'], " ").chars().take(160).collect()
}

/// approximate equality of the property: integers by value, Dec/Float numerically, all NaNs equal,
/// objects as sets of entries; text and byte strings are different kinds.
pub fn approx(a: &Val, b: &Val) -> bool {
    match (a, b) {
        (Val::Num(x), Val::Num(y)) => {
            let nan = |n: &Num| matches!(n, Num::Float(f) if f.is_nan());
            (nan(x) && nan(y)) || x == y
        }
        (Val::TStr(x), Val::TStr(y)) | (Val::BStr(x), Val::BStr(y)) => x == y,
        (Val::Arr(x), Val::Arr(y)) => x.len() == y.len() && x.iter().zip(y.iter()).all(|(a, b)| approx(a, b)),
        (Val::Obj(x), Val::Obj(y)) => {
            x.len() == y.len() && x.iter().all(|(k, v)| y.iter().any(|(k2, v2)| approx(k, k2) && approx(v, v2)))
        }
        (Val::Null, Val::Null) => true,
        (Val::Bool(x), Val::Bool(y)) => x == y,
        _ => false,
    }
}

// ------------------------------------------------------------------------------------------- atoms

/// string atoms: reserved words, indicators, number-like spellings, blanks, of every format
pub fn str_atoms() -> Vec<Vec<u8>> {
    let a: &[&str] = &[
        "", "a", " a", "a ", "a b", "a\tb", "a\t", "\ta", "a\nb", "\n", "\t", " ", "a\r\nb", "a\rb", "\r", "a\r", "\r\n", "é", "€😀",
        "\u{0}", "a\u{0}b", "\u{7f}", "\u{85}", "a\u{85}", "\u{2028}", "\u{feff}", "\u{feff}a", "\u{a0}",
        "+1", ".5", "-.5", "-.inf", "+.inf", ".inf", ".Inf", ".INF", ".nan", ".NaN", ".NAN", "+.nan", "+0x1F", "0x1F", "0o7", "0b1", "+0b1", "+0o7",
        "+12e03", "1_0", "1e3", "1:30", "null ", "null", "Null", "NULL", "nUll", "~", "~ ", "---", "...", "--- a", "... a", "---a", "--- ", "... ",
        "---\ta", "on", "on ", "y", "Y", "yes", "no", "n", "N", "True", "true", "TRUE", "false", "False", "FALSE", "off", "Off", "true ", " true",
        "-", "?", ":", "#", "&", "*", "!", "|", ">", "'", "\"", "%", "@", "`", ",", "[", "]", "{", "}", "- a", "? a", ": a", "a: b", "a #b", "a#b", "a:b", "a :b",
        "[a]", "{a}", "a,b", "a, b", "&a", "*a", "!a", "!!str a", "|a", ">a", "'a'", "\"a\"", "%a", "@a", "`a", "-a", "?a", ":a", "a:", "a#", "a -", "a ?",
        "1", "-1", "0", "007", "1.", "1.0", "-0", "+", "+a", ".", ".e1", "+.e", "=", "<<", "2001-01-01", "0x", "+.5", "-.5e3", "1e", "+0", "+0x-1", "-0x-1", "0x+1",
        "Infinity", "NaN", "-Infinity", "+Infinity", "nan", "inf", "-inf", "+inf", "1.e5", "05", "-05", "+05", "1e5", "1E+5", "1e-", "--1", "+-1", "1+", "1-",
        "\"\"", "a\"b", "a\"\"b", "\\", "\\n", "a\\", "\\0", "\\t", "a\\tb", "\\\\", "a.b", "a-b", "_", "a_b", "é=", "#a", "[a.b]", "a = 1", "1979-05-27", "a\u{1}b",
        "<a>", "&amp;", "<", "]]>", "-->", "?>",
    ];
    let mut v: Vec<Vec<u8>> = a.iter().map(|s| s.as_bytes().to_vec()).collect();
    v.push(b"x\xffy".to_vec());
    v.push(b"\xc3".to_vec());
    v
}

pub fn scalar_pool() -> Vec<Val> {
    let mut v = vec![Val::Null, Val::Bool(true), Val::Bool(false)];
    for i in [0isize, 1, -1, 23, 24, 255, 256, 65535, 65536, -24, -25, -256, -257, 4294967295, 4294967296, isize::MAX, isize::MIN, isize::MIN + 1] {
        v.push(int(i));
    }
    for b in ["0", "5", "-5", "9223372036854775807", "9223372036854775808", "-9223372036854775808", "-9223372036854775809",
              "18446744073709551615", "18446744073709551616", "-18446744073709551616", "-18446744073709551617", "1180591620717411303424",
              "-1180591620717411303424", "340282366920938463463374607431768211456"] {
        v.push(big(b));
    }
    for f in [0.0f64, -0.0, 1.0, -1.0, 1.5, -2.5, 0.1, 1e21, 1e-7, 1e300, 5e-324, 123456789012345680000.0, 65504.0, 3.4028234663852886e38,
              f64::INFINITY, f64::NEG_INFINITY, f64::NAN, f64::MAX, 1e15, 1e16, 100.0] {
        v.push(float(f));
    }
    for d in ["1.10", "0.0", "-0.0", "1E2", "1e2", "100000000000000000000.5", "3.14159", "2.5e-3", "1e1000", "-1e1000", "1e-400", "+7.1", "1.0e+2"] {
        v.push(dec(d));
    }
    for b in [&b""[..], b"a", b"ab", b"abc", b"\xff\x00", b"\x00\x01\x02\x03\xfe"] {
        v.push(bstr(b));
    }
    v
}

fn s(x: &str) -> Val {
    tstr(x.as_bytes())
}

fn structural_pool() -> Vec<Val> {
    vec![
        arr(vec![]), obj(vec![]), arr(vec![arr(vec![])]), arr(vec![obj(vec![])]), obj(vec![(s("a"), arr(vec![]))]), obj(vec![(s("a"), obj(vec![]))]),
        arr(vec![arr(vec![]), arr(vec![int(1)])]),
        obj(vec![(s("a"), arr(vec![obj(vec![(s("b"), int(1))]), obj(vec![(s("c"), int(2))])]))]),
        obj(vec![(s("a"), arr(vec![obj(vec![(s("b"), int(1))]), int(2)]))]),
        obj(vec![(s("a"), arr(vec![arr(vec![obj(vec![(s("b"), int(1))])])]))]),
        obj(vec![(s("a"), obj(vec![(s("b"), obj(vec![(s("c"), int(1))]))])), (s("d"), int(2))]),
        obj(vec![(s("a"), obj(vec![(s("b"), int(1))])), (s("c"), int(2)), (s("d"), obj(vec![(s("e"), arr(vec![obj(vec![]), obj(vec![])]))]))]),
        obj(vec![(s("a"), arr(vec![obj(vec![]), obj(vec![(s("x"), obj(vec![(s("y"), arr(vec![obj(vec![(s("z"), int(1))])]))]))])]))]),
        obj(vec![(s("a b"), obj(vec![(s("c.d"), obj(vec![(s(""), int(1))]))]))]),
        obj(vec![(s("x"), arr(vec![int(1), s("a"), float(1.5), arr(vec![Val::Bool(true)]), obj(vec![(s("k"), s("v"))])]))]),
        arr(vec![int(1), arr(vec![int(2), arr(vec![int(3), obj(vec![(s("a"), arr(vec![int(4)]))])])])]),
        obj(vec![(arr(vec![int(1)]), obj(vec![(obj(vec![]), Val::Null)])), (Val::Null, int(0)), (Val::Bool(true), int(1)), (int(2), int(3)), (float(1.5), s("x"))]),
        obj(vec![(s("a"), int(1)), (s("b"), obj(vec![(s("a"), int(1))])), (s("c"), arr(vec![obj(vec![(s("a"), int(1))])]))]),
    ]
}

/// values built around one leaf `x`, with a partner leaf `y`
fn shapes(x: &Val, y: &Val) -> Vec<Val> {
    vec![
        x.clone(),
        arr(vec![x.clone()]),
        arr(vec![x.clone(), y.clone()]),
        arr(vec![y.clone(), x.clone()]),
        obj(vec![(s("k"), x.clone())]),
        obj(vec![(x.clone(), int(1))]),
        obj(vec![(x.clone(), x.clone()), (s("z"), y.clone())]),
        obj(vec![(s("t"), obj(vec![(s("u"), x.clone())])), (s("v"), arr(vec![x.clone(), arr(vec![x.clone()])]))]),
        arr(vec![arr(vec![x.clone()]), obj(vec![(s("a"), arr(vec![x.clone(), y.clone()]))])]),
        obj(vec![(s("a"), arr(vec![obj(vec![(x.clone(), x.clone())])]))]),
    ]
}

fn rand_val(rng: &mut Rng, leaves: &[Val], depth: usize) -> Val {
    if depth == 0 || rng.chance(2, 5) {
        return rng.pick(leaves).clone();
    }
    let n = rng.below(4);
    if rng.chance(1, 2) {
        arr((0..n).map(|_| rand_val(rng, leaves, depth - 1)).collect())
    } else {
        obj((0..n)
            .map(|_| {
                let k = if rng.chance(4, 5) {
                    loop {
                        let k = rng.pick(leaves).clone();
                        if matches!(k, Val::TStr(_)) {
                            break k;
                        }
                    }
                } else {
                    rand_val(rng, leaves, depth - 1)
                };
                (k, rand_val(rng, leaves, depth - 1))
            })
            .collect())
    }
}

pub fn gen_values(tier: &str) -> Vec<Val> {
    let mut rng = Rng::new(prng::seed_from_env() ^ 0xC14);
    let atoms: Vec<Val> = str_atoms().iter().map(|b| tstr(b)).collect();
    let scalars = scalar_pool();
    let mut leaves = atoms.clone();
    leaves.extend(scalars.iter().cloned());
    let mut out = structural_pool();
    for (i, x) in leaves.iter().enumerate() {
        let y = &leaves[(i * 7 + 3) % leaves.len()];
        out.extend(shapes(x, y));
    }
    // rows around the empty string / null (quoted empty field vs empty field), every position
    let e = [s(""), Val::Null, s("a"), int(1)];
    for a in &e {
        out.push(arr(vec![a.clone()]));
        for b in &e {
            out.push(arr(vec![a.clone(), b.clone()]));
            for c in &e {
                out.push(arr(vec![a.clone(), b.clone(), c.clone()]));
            }
        }
    }
    let n = if tier == "thorough" { 6000 } else { 600 };
    for _ in 0..n {
        out.push(rand_val(&mut rng, &leaves, 3));
    }
    // random rows (CSV/TSV) and random string-keyed objects (TOML)
    for _ in 0..n {
        let k = 1 + rng.below(4);
        out.push(arr((0..k).map(|_| rng.pick(&leaves).clone()).collect()));
        let k = rng.below(4);
        out.push(obj((0..k).map(|_| (rng.pick(&atoms).clone(), rand_val(&mut rng, &leaves, 2))).collect()));
    }
    out
}

// ------------------------------------------------------------------------------------------- domains

fn any_leaf(v: &Val, f: &dyn Fn(&Val) -> bool) -> bool {
    match v {
        Val::Arr(a) => a.iter().any(|x| any_leaf(x, f)),
        Val::Obj(o) => o.iter().any(|(k, x)| any_leaf(k, f) || any_leaf(x, f)),
        x => f(x),
    }
}

fn invalid_utf8(v: &Val) -> bool {
    any_leaf(v, &|x| matches!(x, Val::TStr(b) if std::str::from_utf8(b).is_err()))
}

fn is_scalar_field(v: &Val) -> bool {
    matches!(v, Val::Null | Val::Bool(_) | Val::Num(_) | Val::TStr(_))
}

fn toml_value_ok(v: &Val) -> bool {
    use num_traits::ToPrimitive;
    match v {
        Val::Null | Val::BStr(_) => false,
        Val::Num(Num::BigInt(b)) => b.to_i64().is_some(),
        Val::TStr(b) => std::str::from_utf8(b).is_ok(),
        Val::Arr(a) => a.iter().all(toml_value_ok),
        Val::Obj(o) => o.iter().all(|(k, v)| matches!(k, Val::TStr(b) if std::str::from_utf8(b).is_ok()) && toml_value_ok(v)),
        _ => true,
    }
}

/// the documented domain of each format (properties.jsonl C14)
fn in_domain(fmt: &str, v: &Val) -> bool {
    match fmt {
        // "jaq yields an error when trying to parse YAML containing invalid UTF-8"
        "yaml" => !invalid_utf8(v),
        // "invalid UTF-8 in text strings ... excepted"
        "cbor" => !invalid_utf8(v),
        "toml" => matches!(v, Val::Obj(_)) && toml_value_ok(v),
        "csv" => match v {
            Val::Arr(a) => a.iter().all(is_scalar_field) && !a.is_empty() && !(a.len() == 1 && a[0] == Val::Null),
            _ => false,
        },
        "tsv" => match v {
            Val::Arr(a) => {
                !a.is_empty()
                    && a.iter().all(|x| match x {
                        Val::TStr(b) => {
                            !b.is_empty() && &***b != b"true" && &***b != b"false" && jaq_json::read::parse_single_num(b).is_none()
                        }
                        _ => false,
                    })
            }
            _ => false,
        },
        _ => false,
    }
}

/// must the writer reject the value?  (structural outside-domain cases; TSV/CSV scalars that are
/// merely re-typed on reading are documented and not errors)
fn must_reject(fmt: &str, v: &Val) -> bool {
    match fmt {
        "toml" => !(matches!(v, Val::Obj(_)) && {
            // everything except the documented lossy UTF-8 conversion
            fn ok(v: &Val) -> bool {
                use num_traits::ToPrimitive;
                match v {
                    Val::Null | Val::BStr(_) => false,
                    Val::Num(Num::BigInt(b)) => b.to_i64().is_some(),
                    Val::Arr(a) => a.iter().all(ok),
                    Val::Obj(o) => o.iter().all(|(k, v)| matches!(k, Val::TStr(_)) && ok(v)),
                    _ => true,
                }
            }
            ok(v)
        }),
        "csv" | "tsv" => !matches!(v, Val::Arr(a) if a.iter().all(is_scalar_field)),
        _ => false,
    }
}

// ------------------------------------------------------------------------------------------- round trips

struct Filters {
    to: jaq_all::data::Filter,
    from: jaq_all::data::Filter,
}

fn fmt_of(name: &str) -> Format {
    Format::parse(name).unwrap()
}

fn pp(indent: bool, fmt: &str) -> jaq_json::write::Pp {
    // jaq/src/main.rs: `Cli::pp`
    jaq_json::write::Pp {
        indent: indent.then(|| "  ".to_string()),
        sep_space: indent || fmt == "yaml",
        ..Default::default()
    }
}

/// outcome of one write->read round trip
enum Rt {
    Werr(String),
    Rerr(Vec<u8>, String),
    Back(Vec<u8>, Vec<Val>),
    Panic(String),
}

fn rt_filters(f: &Filters, v: &Val) -> Rt {
    let r = catch(|| {
        let w = run(&f.to, v.clone(), 3);
        let text = match w.as_slice() {
            [Item::Val(t)] => t.clone(),
            [Item::Err(e)] => return Rt::Werr(format!("{e}")),
            other => return Rt::Werr(format!("writer yielded {} items", other.len())),
        };
        let bytes = match &text {
            Val::TStr(b) | Val::BStr(b) => b.to_vec(),
            _ => return Rt::Werr("writer output is not a string".into()),
        };
        let items = run(&f.from, text, 64);
        let mut vals = vec![];
        for i in items {
            match i {
                Item::Val(v) => vals.push(v),
                Item::Err(e) => return Rt::Rerr(bytes, format!("{e}")),
                Item::Exn(e) => return Rt::Rerr(bytes, e),
            }
        }
        Rt::Back(bytes, vals)
    });
    r.unwrap_or_else(Rt::Panic)
}

fn rt_cli(fmt: &str, indent: bool, v: &Val) -> Rt {
    let r = catch(|| {
        let writer = write::Writer { format: fmt_of(fmt), pp: pp(indent, fmt), join: false };
        let mut buf = Vec::new();
        if let Err(e) = write::write(&mut buf, &writer, v) {
            return Rt::Werr(e.to_string());
        }
        let bytes = bytes::Bytes::from(buf.clone());
        let st = match read::bytes_str(fmt_of(fmt), &bytes) {
            Ok(s) => s.to_string(),
            Err(e) => return Rt::Rerr(buf, e.to_string()),
        };
        let mut vals = vec![];
        for r in read::parse(fmt_of(fmt), &bytes, &st, false).take(64) {
            match r {
                Ok(v) => vals.push(v),
                Err(e) => return Rt::Rerr(buf, e.to_string()),
            }
        }
        Rt::Back(buf, vals)
    });
    r.unwrap_or_else(Rt::Panic)
}

fn report(fmt: &str, path: &str, v: &Val, rt: Rt) {
    let dom = if in_domain(fmt, v) { "in" } else if must_reject(fmt, v) { "reject" } else { "out" };
    let (status, written, detail) = match rt {
        Rt::Werr(e) => ("WERR", "-".to_string(), clean(&e)),
        Rt::Rerr(w, e) => ("RERR", vx::hex(&w), clean(&e)),
        Rt::Panic(e) => ("PANIC", "-".to_string(), clean(&e)),
        Rt::Back(w, vals) => {
            if vals.len() == 1 && approx(&vals[0], v) {
                ("ok", vx::hex(&w), String::new())
            } else if vals.len() == 1 {
                ("DIFF", vx::hex(&w), vx::enc_canon(&vals[0]))
            } else {
                ("COUNT", vx::hex(&w), format!("{} {}", vals.len(), vals.iter().take(3).map(vx::enc_canon).collect::<Vec<_>>().join(" | ")))
            }
        }
    };
    println!("RT\t{fmt}\t{path}\t{dom}\t{status}\t{}\t{written}\t{detail}", vx::enc_canon(v));
}

pub fn rt(tier: &str) {
    let vals = gen_values(tier);
    for fmt in ["yaml", "cbor", "toml", "csv", "tsv"] {
        let f = Filters { to: compile(&format!("to{fmt}")).unwrap(), from: compile(&format!("from{fmt}")).unwrap() };
        for v in &vals {
            // keep the volume of uninteresting rejections low: tabular formats only see arrays and a few others
            if (fmt == "csv" || fmt == "tsv") && !matches!(v, Val::Arr(_)) && !matches!(v, Val::Null | Val::Obj(_) | Val::Num(Num::Int(0))) {
                continue;
            }
            if fmt == "toml" && !matches!(v, Val::Obj(_) | Val::Null | Val::Arr(_)) {
                continue;
            }
            report(fmt, "filter", v, rt_filters(&f, v));
            report(fmt, "to-from-indent", v, rt_cli(fmt, true, v));
            if fmt == "yaml" {
                report(fmt, "to-from-compact", v, rt_cli(fmt, false, v));
            }
        }
    }
}

// ------------------------------------------------------------------------------------------- YAML strings

const YAML_ALPHABET: &[&str] = &[
    "a", "1", "0", "-", "+", ".", " ", "\t", ":", "#", "?", ",", "[", "]", "{", "}", "\"", "'", "~", "e", "x", "n", "&", "*", "!", "|", ">", "%", "@", "`",
    "\n", "é", "_", "=", "\\",
];

fn yaml_read(text: &[u8]) -> String {
    let Ok(st) = std::str::from_utf8(text) else { return "U".into() };
    let r = catch(|| {
        let mut vals = vec![];
        for r in read::yaml::parse_many(st).take(8) {
            match r {
                Ok(v) => vals.push(v),
                Err(_) => return "E".to_string(),
            }
        }
        if vals.len() == 1 {
            format!("V {}", vx::enc_canon(&vals[0]))
        } else {
            format!("M{}", vals.len())
        }
    });
    r.unwrap_or_else(|_| "PANIC".into())
}

fn yaml_write(v: &Val, indent: bool) -> Vec<u8> {
    let mut buf = Vec::new();
    write::yaml::write(&mut buf, &pp(indent, "yaml"), 0, v).unwrap();
    buf
}

pub fn yaml_strings(tier: &str) {
    let mut strings: Vec<Vec<u8>> = str_atoms();
    let maxlen = if tier == "thorough" { 4 } else { 3 };
    let alpha: Vec<&[u8]> = YAML_ALPHABET.iter().map(|s| s.as_bytes()).collect();
    let mut level: Vec<Vec<u8>> = vec![vec![]];
    for len in 1..=maxlen {
        // the longest level uses the reduced alphabet in the thorough tier
        let a: &[&[u8]] = if len == 4 { &alpha[..22] } else { &alpha };
        let mut next = vec![];
        for p in &level {
            for c in a {
                let mut q = p.clone();
                q.extend_from_slice(c);
                next.push(q);
            }
        }
        strings.extend(next.iter().cloned());
        level = next;
    }
    // keyword neighbourhood: every keyword of the writer with one byte appended / prepended / case changed
    let kws = ["null", "Null", "NULL", "on", "On", "ON", "off", "Off", "OFF", "yes", "Yes", "YES", "no", "No", "NO", "True", "TRUE", "true",
               "False", "FALSE", "false", ".inf", ".Inf", ".INF", ".nan", ".NaN", ".NAN", "~", "---", "..."];
    for k in kws {
        strings.push(k.as_bytes().to_vec());
        for c in [" ", "\t", "a", "-", "+", ".", ":", "#"] {
            strings.push(format!("{k}{c}").into_bytes());
            strings.push(format!("{c}{k}").into_bytes());
        }
        strings.push(k.to_uppercase().into_bytes());
        strings.push(k.to_lowercase().into_bytes());
    }
    // every indicator character in first, middle and LAST position, alone and next to blanks / letters
    // (longer than the exhaustive scope: `a : b`, `ab -`, `a\t#`, ...)
    let indicators = [":", "#", "-", "?", ",", "[", "]", "{", "}", "&", "*", "!", "|", ">", "'", "\"", "%", "@", "`", "~", "=", "<", "\\", "--", "::", ": :", "- -"];
    let pres = ["", "a", "a ", "a\t", " ", "\t", "ab", "a b ", "1", "é", "-", ":"];
    let posts = ["", "a", " a", "\ta", " ", "\t", "ab", " a b", "1", "é", "-", ":", "\n"];
    for i in indicators {
        for p in pres {
            for q in posts {
                strings.push(format!("{p}{i}{q}").into_bytes());
            }
        }
    }
    // number-like spellings
    let mut rng = Rng::new(prng::seed_from_env() ^ 0x14A);
    let parts: &[&str] = &["+", "-", ".", "0", "1", "9", "e", "E", "x", "o", "b", "_", "F", "a", "inf", "nan", " ", ":"];
    let n = if tier == "thorough" { 60000 } else { 6000 };
    for _ in 0..n {
        let k = 1 + rng.below(6);
        let mut st = String::new();
        for _ in 0..k {
            st.push_str(*rng.pick(parts));
        }
        strings.push(st.into_bytes());
    }
    let mut seen = std::collections::HashSet::new();
    for st in strings {
        if !seen.insert(st.clone()) {
            continue;
        }
        let v = tstr(&st);
        let w = yaml_write(&v, false);
        let quoted = w.first() == Some(&b'"');
        // a plain scalar must be the string itself
        let plain_ok = quoted || w == st;
        let back = yaml_read(&w);
        // the same string inside flow / block collections, as element, key and value
        let mut ctx = "ok".to_string();
        let u8ok = std::str::from_utf8(&st).is_ok();
        if u8ok {
            let shapes = [("seq", arr(vec![v.clone(), v.clone()])), ("map", obj(vec![(v.clone(), v.clone())])), ("seqmap", arr(vec![obj(vec![(v.clone(), arr(vec![v.clone()]))])]))];
            'outer: for (name, val) in shapes.iter() {
                for indent in [false, true] {
                    let w = yaml_write(val, indent);
                    let b = yaml_read(&w);
                    if b != format!("V {}", vx::enc_canon(val)) {
                        ctx = format!("{name}-{} {}", if indent { "block" } else { "flow" }, b);
                        break 'outer;
                    }
                }
            }
        }
        println!("W\t{}\t{}\t{}\t{}", vx::hex(&st), if quoted { "Q" } else if plain_ok { "P" } else { "X" }, back, ctx);
        println!("R\t{}\t{}", vx::hex(&st), yaml_read(&st));
    }
}

// ------------------------------------------------------------------------------------------- CSV / TSV

const TAB_ALPHABET: &[u8] = b"a1,\"\t\n\r\\n0te.+-";

fn tab_read(fmt: &str, text: &[u8]) -> String {
    let it = text.iter().copied().map(Ok::<u8, std::io::Error>);
    let r = catch(|| {
        let rows: Result<Vec<Val>, _> = if fmt == "csv" { read::tabular::read_csv(it).take(64).collect() } else { read::tabular::read_tsv(it).take(64).collect() };
        match rows {
            Ok(rows) => format!("V {}", vx::enc_canon(&arr(rows))),
            Err(_) => "E".into(),
        }
    });
    r.unwrap_or_else(|_| "PANIC".into())
}

fn tab_write(fmt: &str, v: &Val) -> String {
    let r = catch(|| match write::tabular::Row::try_from(v) {
        Err(write::tabular::Error::Row(_)) => "E row".to_string(),
        Err(write::tabular::Error::Field(_)) => "E field".to_string(),
        Ok(row) => {
            let mut buf = Vec::new();
            if fmt == "csv" { row.write_csv(&mut buf).unwrap() } else { row.write_tsv(&mut buf).unwrap() };
            format!("W {}", if buf.is_empty() { "-".to_string() } else { vx::hex(&buf) })
        }
    });
    r.unwrap_or_else(|_| "PANIC".into())
}

pub fn tab(tier: &str) {
    let mut texts: Vec<Vec<u8>> = str_atoms();
    let maxlen = if tier == "thorough" { 5 } else { 4 };
    let mut level: Vec<Vec<u8>> = vec![vec![]];
    for _ in 1..=maxlen {
        let mut next = vec![];
        for p in &level {
            for c in TAB_ALPHABET {
                let mut q = p.clone();
                q.push(*c);
                next.push(q);
            }
        }
        texts.extend(next.iter().cloned());
        level = next;
    }
    // rows built from field spellings — in particular quoted empty fields `""` as only / first / last field of
    // the last row, with and without a final line break (what `[""] | tocsv` writes has none)
    let fields: &[&str] = &["", "\"\"", "a", "\"a\"", "1", "\"1\"", "\"\"\"\"", "\" \"", "\"a,b\"", "\"\n\"", "true"];
    let ends: &[&str] = &["", "\n", "\r\n", "\r", "\n\n"];
    for sep in [",", "\t"] {
        for a in fields {
            for e in ends {
                texts.push(format!("{a}{e}").into_bytes());
                for b in fields {
                    texts.push(format!("{a}{sep}{b}{e}").into_bytes());
                    texts.push(format!("{a}\n{b}{e}").into_bytes());
                    texts.push(format!("x{sep}y\n{a}{sep}{b}{e}").into_bytes());
                    for c in ["", "\"\"", "a"] {
                        texts.push(format!("{a}{sep}{b}{sep}{c}{e}").into_bytes());
                    }
                }
            }
        }
    }
    let mut rng = Rng::new(prng::seed_from_env() ^ 0x7AB);
    let parts: &[&str] = &["+", "-", ".", "0", "1", "9", "e", "E", "Infinity", "NaN", "true", "false", ",", "\t", "\"", "\\", "\n", "\r\n", "\r", "a", "n", "\"\"", " "];
    let n = if tier == "thorough" { 40000 } else { 5000 };
    for _ in 0..n {
        let k = 1 + rng.below(7);
        let mut st = String::new();
        for _ in 0..k {
            st.push_str(*rng.pick(parts));
        }
        texts.push(st.into_bytes());
    }
    let mut id = 0usize;
    let mut seen = std::collections::HashSet::new();
    for t in &texts {
        if !seen.insert(t.clone()) {
            continue;
        }
        for fmt in ["csv", "tsv"] {
            println!("tr{id}\tc14.{fmt}read {}\t{}", if t.is_empty() { "-".to_string() } else { vx::hex(t) }, tab_read(fmt, t));
            id += 1;
        }
    }
    // writer: rows from the value generator (arrays), plus non-rows
    let vals = gen_values(tier);
    for v in vals.iter().filter(|v| matches!(v, Val::Arr(_) | Val::Null | Val::Obj(_))) {
        // floats are written by ryu (third party): the model takes their text as a parameter, so only
        // rows without finite non-integral floats are compared byte for byte
        let has_float = any_leaf(v, &|x| matches!(x, Val::Num(Num::Float(f)) if f.is_finite()));
        if has_float {
            continue;
        }
        for fmt in ["csv", "tsv"] {
            println!("tw{id}\tc14.{fmt}write {}\t{}", vx::enc(v), tab_write(fmt, v).replace("W \n", "W -\n"));
            id += 1;
        }
    }
}


// ------------------------------------------------------------------------------------------- CBOR

/// item tokens (model syntax): P<n> N<n> T<n> F<bits|nan> X<len|i> Y<len|i> A<len|i> M<len|i> S<n> K R<hex|->
fn cbor_tokens(b: &[u8]) -> Option<Vec<String>> {
    let mut out = vec![];
    let mut i = 0usize;
    // number of raw payload bytes expected next (after a definite text/bytes header)
    while i < b.len() {
        let ib = b[i];
        let (major, info) = (ib >> 5, ib & 31);
        i += 1;
        let arg: Option<u64> = match info {
            0..=23 => Some(info as u64),
            24 => { let v = *b.get(i)? as u64; i += 1; Some(v) }
            25 => { let v = u16::from_be_bytes(b.get(i..i + 2)?.try_into().ok()?) as u64; i += 2; Some(v) }
            26 => { let v = u32::from_be_bytes(b.get(i..i + 4)?.try_into().ok()?) as u64; i += 4; Some(v) }
            27 => { let v = u64::from_be_bytes(b.get(i..i + 8)?.try_into().ok()?); i += 8; Some(v) }
            31 => None,
            _ => return None,
        };
        let len = |a: Option<u64>| a.map_or("i".to_string(), |n| n.to_string());
        match major {
            0 => out.push(format!("P{}", arg?)),
            1 => out.push(format!("N{}", arg?)),
            2 | 3 => {
                out.push(format!("{}{}", if major == 3 { "X" } else { "Y" }, len(arg)));
                if let Some(n) = arg {
                    let n = n as usize;
                    let raw = b.get(i..i + n)?;
                    i += n;
                    out.push(format!("R{}", if raw.is_empty() { "-".to_string() } else { vx::hex(raw) }));
                }
            }
            4 => out.push(format!("A{}", len(arg))),
            5 => out.push(format!("M{}", len(arg))),
            6 => out.push(format!("T{}", arg?)),
            _ => match info {
                25 => out.push(float_tok(half_to_f64(arg? as u16))),
                26 => out.push(float_tok(f32::from_bits(arg? as u32) as f64)),
                27 => out.push(float_tok(f64::from_bits(arg?))),
                31 => out.push("K".into()),
                _ => out.push(format!("S{}", arg?)),
            },
        }
    }
    Some(out)
}

fn float_tok(f: f64) -> String {
    if f.is_nan() { "Fnan".into() } else { format!("F{:016x}", f.to_bits()) }
}

fn half_to_f64(h: u16) -> f64 {
    let sign = if h >> 15 == 1 { -1.0 } else { 1.0 };
    let exp = ((h >> 10) & 31) as i32;
    let frac = (h & 1023) as f64;
    sign * match exp {
        0 => frac * 2f64.powi(-24),
        31 => if frac == 0.0 { f64::INFINITY } else { f64::NAN },
        e => (1.0 + frac / 1024.0) * 2f64.powi(e - 15),
    }
}

fn cbor_head(major: u8, n: u64, out: &mut Vec<u8>) {
    let m = major << 5;
    if n < 24 { out.push(m | n as u8) }
    else if n < 256 { out.push(m | 24); out.push(n as u8) }
    else if n < 65536 { out.push(m | 25); out.extend((n as u16).to_be_bytes()) }
    else if n < (1u64 << 32) { out.push(m | 26); out.extend((n as u32).to_be_bytes()) }
    else { out.push(m | 27); out.extend(n.to_be_bytes()) }
}

/// serialise item tokens (own encoder, independent of ciborium)
fn cbor_bytes(toks: &[String]) -> Option<Vec<u8>> {
    let mut out = vec![];
    for t in toks {
        let (h, r) = t.split_at(1);
        let len = |r: &str| if r == "i" { None } else { r.parse::<u64>().ok() };
        match h {
            "P" => cbor_head(0, r.parse().ok()?, &mut out),
            "N" => cbor_head(1, r.parse().ok()?, &mut out),
            "T" => cbor_head(6, r.parse().ok()?, &mut out),
            "S" => { let n: u64 = r.parse().ok()?; if n < 24 { out.push(0xe0 | n as u8) } else { out.push(0xf8); out.push(n as u8) } }
            "K" => out.push(0xff),
            "F" => { out.push(0xfb); out.extend(if r == "nan" { f64::NAN.to_bits() } else { u64::from_str_radix(r, 16).ok()? }.to_be_bytes()) }
            "X" | "Y" | "A" | "M" => {
                let major = match h { "Y" => 2, "X" => 3, "A" => 4, _ => 5 };
                match len(r) { Some(n) => cbor_head(major, n, &mut out), None => out.push((major << 5) | 31) }
            }
            "R" => out.extend(if r == "-" { vec![] } else { vx::unhex(r)? }),
            _ => return None,
        }
    }
    Some(out)
}

fn cbor_read(b: &[u8]) -> String {
    let r = catch(|| {
        let mut vals = vec![];
        for r in read::cbor::parse_many(b).take(64) {
            match r {
                Ok(v) => vals.push(v),
                Err(e) => {
                    let m = e.to_string();
                    let cls = if m.starts_with("unsupported simple") { "simple" } else if m.starts_with("unsupported tag") { "tag" }
                              else if m.starts_with("unexpected break") { "brk" } else { "lex" };
                    return format!("E {cls}");
                }
            }
        }
        format!("V {}", vx::enc_canon(&arr(vals)))
    });
    r.unwrap_or_else(|_| "PANIC".into())
}

pub fn cbor(tier: &str) {
    let vals: Vec<Val> = gen_values(tier).into_iter().filter(|v| !invalid_utf8(v)).collect();
    let mut rng = Rng::new(prng::seed_from_env() ^ 0xCB0);
    let mut id = 0usize;
    let mut streams: Vec<Vec<String>> = vec![];
    for v in &vals {
        let mut buf = Vec::new();
        write::cbor::write(&mut buf, v).unwrap();
        let real = match cbor_tokens(&buf) { Some(t) => t.join(" "), None => "UNDECODABLE".into() };
        println!("ce{id}\tc14.cborenc {}\t{}", vx::enc(v), real);
        id += 1;
        if let Some(t) = cbor_tokens(&buf) { streams.push(t) }
    }
    // reader: the real encodings, concatenations and item-level mutations of them
    let extra: &[&str] = &["K", "S0", "S19", "S23", "S24", "S32", "S255", "T0", "T1", "T4", "T5", "T24", "T55799", "P0", "P23", "P24", "P18446744073709551615",
                           "N0", "N9223372036854775807", "N9223372036854775808", "N18446744073709551615", "Fnan", "F7ff0000000000000", "F3ff8000000000000",
                           "Xi", "Yi", "Ai", "Mi", "A0", "M0", "A1", "M1", "A2", "X0", "Y0", "R-", "R61", "T2", "T3", "X1", "Y1", "Y2", "R0100", "Rffff"];
    let n = if tier == "thorough" { 40000 } else { 6000 };
    let mut cases: Vec<Vec<String>> = streams.iter().take(1500).cloned().collect();
    for _ in 0..n {
        let mut s = rng.pick(&streams).clone();
        if s.len() > 40 { continue }
        match rng.below(9) {
            0 => { let t = rng.pick(&streams).clone(); if t.len() < 40 { s.extend(t) } }
            1 => { if !s.is_empty() { let i = rng.below(s.len()); s.remove(i); } }
            2 => { let i = rng.below(s.len() + 1); s.insert(i, rng.pick(extra).to_string()); }
            3 => { if !s.is_empty() { let i = rng.below(s.len()); s[i] = rng.pick(extra).to_string(); } }
            4 => {
                // definite -> indefinite container (append a break at the end: right for the outermost container)
                if let Some(i) = s.iter().position(|t| (t.starts_with('A') || t.starts_with('M')) && !t.ends_with('i')) {
                    s[i] = format!("{}i", &s[i][..1]);
                    if i == 0 { s.push("K".into()) } else { let j = i + 1 + rng.below(s.len() - i); s.insert(j, "K".into()) }
                }
            }
            5 => {
                // chunked string
                if let Some(i) = s.iter().position(|t| (t.starts_with('X') || t.starts_with('Y')) && !t.ends_with('i')) {
                    let h = s[i][..1].to_string();
                    let (len, raw) = (s[i].clone(), s[i + 1].clone());
                    if rng.chance(1, 3) {
                        // ciborium allows an indefinite string of the same kind as a segment (nesting counter)
                        s.splice(i..i + 2, [format!("{h}i"), len.clone(), raw.clone(), format!("{h}i"), len.clone(), raw.clone(), format!("{h}i"), "K".into(), "K".into(), len, raw, "K".into()]);
                    } else {
                        s.splice(i..i + 2, [format!("{h}i"), len.clone(), raw.clone(), len, raw, "K".into()]);
                    }
                }
            }
            6 => { s.truncate(rng.below(s.len() + 1)) }
            7 => { let k = 1 + rng.below(3); s = (0..k).map(|_| rng.pick(extra).to_string()).collect() }
            _ => { if s.len() > 1 { let i = rng.below(s.len() - 1); s.swap(i, i + 1) } }
        }
        cases.push(s);
    }
    let mut seen = std::collections::HashSet::new();
    for s in cases {
        if s.is_empty() || !seen.insert(s.clone()) { continue }
        // only streams whose raw payloads are where a definite header announces them (the byte level would
        // re-interpret a stray payload as headers): re-tokenise our own bytes and use that as the request
        let Some(bytes) = cbor_bytes(&s) else { continue };
        let Some(toks) = cbor_tokens(&bytes) else {
            // truncated at the byte level: real reader must report an error, the model is not asked
            let r = cbor_read(&bytes);
            println!("CBORTRUNC\t{}\t{}", vx::hex(&bytes), r);
            continue;
        };
        // invalid UTF-8 in text payloads is a ciborium error, not modelled
        let bad_text = toks.windows(2).any(|w| w[0].starts_with('X') && w[1].starts_with('R') && w[1] != "R-" && std::str::from_utf8(&vx::unhex(&w[1][1..]).unwrap_or_default()).is_err());
        if bad_text { continue }
        println!("cp{id}\tc14.cborparse {}\t{}", toks.join(" "), cbor_read(&bytes));
        id += 1;
    }
}

// ------------------------------------------------------------------------------------------- TOML

pub fn toml(tier: &str) {
    let vals = gen_values(tier);
    let mut id = 0usize;
    let mut keys = std::collections::BTreeSet::new();
    for v in &vals {
        let r = catch(|| match write::toml::Root::try_from(v) {
            Ok(_) => "ok".to_string(),
            Err(write::toml::Error::Key(_)) => "E key".to_string(),
            Err(write::toml::Error::Root(_)) => "E root".to_string(),
            Err(write::toml::Error::Val(_)) => "E val".to_string(),
        });
        println!("tc{id}\tc14.tomlcheck {}\t{}", vx::enc(v), r.unwrap_or_else(|_| "PANIC".into()));
        id += 1;
        fn collect(v: &Val, keys: &mut std::collections::BTreeSet<Vec<u8>>) {
            match v {
                Val::Arr(a) => a.iter().for_each(|x| collect(x, keys)),
                Val::Obj(o) => o.iter().for_each(|(k, x)| {
                    if let Val::TStr(b) = k { keys.insert(b.to_vec()); }
                    collect(x, keys)
                }),
                _ => {}
            }
        }
        collect(v, &mut keys);
    }
    for a in str_atoms() { keys.insert(a); }
    // all keys of length <= 2 over a small alphabet
    let alpha = b"aZ09_-. \"'=#\n\xc3\xa9";
    for &a in alpha.iter() {
        keys.insert(vec![a]);
        for &b in alpha.iter() { keys.insert(vec![a, b]); }
    }
    for k in keys {
        if std::str::from_utf8(&k).is_err() { continue }
        let v = obj(vec![(tstr(&k), int(1))]);
        let text = match write::toml::Root::try_from(&v) { Ok(r) => r.to_string(), Err(_) => continue };
        // `<key> = 1\n`
        let written = text.strip_suffix(" = 1\n").unwrap_or("?");
        let kind = if written.as_bytes() == &k[..] { "B" } else if written.starts_with('"') { "Q" } else { "X" };
        println!("tk{id}\tc14.tomlkey {}\t{}", if k.is_empty() { "-".to_string() } else { vx::hex(&k) }, kind);
        id += 1;
    }
}

// ------------------------------------------------------------------------------------------- XML

fn xml_parse(text: &str) -> Result<Vec<Val>, String> {
    let r = catch(|| read::xml::parse_many(text).take(256).collect::<Result<Vec<Val>, _>>().map_err(|e| e.to_string()));
    r.unwrap_or_else(|p| Err(format!("PANIC {p}")))
}

fn xml_write(vals: &[Val]) -> Result<Vec<u8>, String> {
    let r = catch(|| {
        let mut buf = Vec::new();
        for v in vals {
            match write::xml::Xml::try_from(v) {
                Ok(x) => x.write(&mut buf).unwrap(),
                Err(e) => return Err(e.to_string()),
            }
        }
        Ok(buf)
    });
    r.unwrap_or_else(|p| Err(format!("PANIC {p}")))
}

thread_local! {
    /// may the document under construction contain `"` inside (single-quoted) attribute values?  (open finding
    /// `xml:attr-double-quote`; kept to a third of the documents so that it cannot mask other defects)
    static XML_ALLOW_DQ: std::cell::Cell<bool> = const { std::cell::Cell::new(false) };
}

fn xml_gen(rng: &mut Rng, depth: usize, out: &mut String) {
    let names = ["a", "b", "x:y", "html", "_n", "a-b", "a.b", "é"];
    let texts = ["t", " ", "\n  ", "a &amp; b", "&#65;", "x y", "]]", "'q'", "\"q\"", "é€", "a>b", "1", "true", ""];
    let name = *rng.pick(&names);
    out.push('<');
    out.push_str(name);
    for _ in 0..rng.below(3) {
        let an = *rng.pick(&["id", "x:href", "xmlns", "xmlns:x", "k"]);
        let mut av = *rng.pick(&["", "v", "a b", "&lt;", "'", "x>y", "é", " ", "\"", "say \"hi\"", "\">"]);
        if av.contains('"') && !XML_ALLOW_DQ.with(|c| c.get()) {
            av = "w";
        }
        let sp = *rng.pick(&[" ", "  ", "\n "]);
        let q = if av.contains('"') { '\'' } else if av.contains('\'') || rng.chance(1, 2) { '"' } else { '\'' };
        if out.contains(&format!(" {an}=")) && out.rfind('<').map_or(false, |i| out[i..].contains(&format!(" {an}="))) {
            continue;
        }
        out.push_str(&format!("{sp}{an}{}={}{q}{av}{q}", *rng.pick(&["", " "]), *rng.pick(&["", " "])));
    }
    if depth == 0 || rng.chance(1, 4) {
        out.push_str(*rng.pick(&["/>", " />"]));
        return;
    }
    out.push_str(*rng.pick(&[">", " >"]));
    for _ in 0..rng.below(4) {
        match rng.below(7) {
            0 | 1 => xml_gen(rng, depth - 1, out),
            2 => out.push_str(&format!("<!--{}-->", *rng.pick(&["", " c ", "a-b", "<x>", "&"]))),
            3 => out.push_str(&format!("<![CDATA[{}]]>", rng.pick(&["", "a & b", "<x>", "]] >", " "]))),
            4 => out.push_str(&format!("<?{}?>", *rng.pick(&["pi", "pi a=\"b\"", "xml-stylesheet href='c.css'", "p  x"]))),
            _ => out.push_str(*rng.pick(&texts)),
        }
    }
    out.push_str(&format!("</{name}{}>", *rng.pick(&["", " "])));
}

pub fn xml(tier: &str) {
    let mut rng = Rng::new(prng::seed_from_env() ^ 0x3C);
    let mut docs: Vec<String> = vec![];
    let repo = std::env::var("JAQ_REPO").unwrap_or_else(|_| "/repo".into());
    let mut seeds = vec![];
    for f in ["examples/test.xhtml", "examples/cbor-examples.xhtml", "docs/template.xhtml"] {
        if let Ok(t) = std::fs::read_to_string(format!("{repo}/{f}")) {
            seeds.push(t);
        }
    }
    let prologs = ["", "<?xml version='1.0'?>", "<?xml version=\"1.0\" encoding=\"UTF-8\"?>\n", "<?xml version=\"1.0\" standalone=\"yes\"?>",
                   "<?xml version='1.1' encoding='utf-8' standalone='no'?>", "<!DOCTYPE html>", "<!DOCTYPE a SYSTEM \"a.dtd\">",
                   "<!DOCTYPE a PUBLIC \"-//W3C//DTD XHTML 1.0 Strict//EN\" \"http://www.w3.org/TR/xhtml1/DTD/xhtml1-strict.dtd\">",
                   "<!DOCTYPE a [<!ENTITY e \"v\">]>", "<!DOCTYPE a SYSTEM 'a.dtd' [ <!ELEMENT a (#PCDATA)> ]>", "<!-- c -->\n", "<?pi?>"];
    for p in prologs {
        docs.push(format!("{p}<a/>"));
        docs.push(format!("{p}\n<a>t</a>\n"));
    }
    let n = if tier == "thorough" { 4000 } else { 500 };
    for _ in 0..n {
        let mut d = String::new();
        XML_ALLOW_DQ.with(|c| c.set(rng.chance(1, 3)));
        d.push_str(*rng.pick(&prologs));
        if rng.chance(1, 3) { d.push_str(*rng.pick(&["\n", " ", "<!--x-->"])) }
        xml_gen(&mut rng, 3, &mut d);
        if rng.chance(1, 3) { d.push_str(*rng.pick(&["\n", "<!-- end -->", "<?pi?>"])) }
        docs.push(d);
    }
    // mutations of the repository's XHTML files: delete / duplicate / replace a small slice at a random position
    let snippets = ["<br/>", "<!--m-->", "<![CDATA[<>&]]>", " ", "&amp;", "<i a='1'>x</i>", "\n", "<?p q?>", "é", "<a", ">", "</p>", "\"", "'"];
    for t in &seeds {
        docs.push(t.clone());
        let cs: Vec<char> = t.chars().collect();
        let m = if tier == "thorough" { 1500 } else { 250 };
        for _ in 0..m {
            let i = rng.below(cs.len());
            let j = (i + rng.below(12)).min(cs.len());
            let mut d: String = cs[..i].iter().collect();
            match rng.below(3) {
                0 => {}
                1 => { d.extend(cs[i..j].iter()); d.extend(cs[i..j].iter()); }
                _ => d.push_str(*rng.pick(&snippets)),
            }
            d.extend(cs[j..].iter());
            docs.push(d);
        }
    }
    for d in docs {
        let h = vx::hex(d.as_bytes());
        let v1 = match xml_parse(&d) {
            Ok(v) => v,
            Err(e) if e.starts_with("PANIC") => { println!("XML\tPANIC\t{h}\t-\t{}", clean(&e)); continue }
            Err(_) => { println!("XML\tmalformed\t{h}\t-\t"); continue }
        };
        let w = match xml_write(&v1) {
            Ok(w) => w,
            Err(e) => { println!("XML\tWERR\t{h}\t-\t{}", clean(&e)); continue }
        };
        let wh = vx::hex(&w);
        let ws = String::from_utf8_lossy(&w).to_string();
        match xml_parse(&ws) {
            Ok(v2) if v2.len() == v1.len() && v1.iter().zip(v2.iter()).all(|(a, b)| a == b) => println!("XML\tok\t{h}\t{wh}\t"),
            Ok(v2) => println!("XML\tDIFF\t{h}\t{wh}\t{} vs {}", vx::enc_canon(&arr(v1.clone())).chars().take(300).collect::<String>(), vx::enc_canon(&arr(v2)).chars().take(300).collect::<String>()),
            Err(e) => println!("XML\tRERR\t{h}\t{wh}\t{}", clean(&e)),
        }
    }
}


// ------------------------------------------------------------------------------------------- XML model correspondence

/// abstract tokens (what xmlparser is assumed to deliver), printed in the model's wire syntax
struct XDoc {
    toks: Vec<String>,
    text: String,
}

fn hx(s: &str) -> String {
    if s.is_empty() { "-".into() } else { vx::hex(s.as_bytes()) }
}

fn hxo(s: &Option<String>) -> String {
    s.as_ref().map_or("~".into(), |s| hx(s))
}

const XNAMES: &[&str] = &["a", "b", "x:y", "html", "_n", "a-b", "a.b", "é", "x:a", "t", "c", "xml:lang", "A1"];
const XSP: &[&str] = &[" ", "  ", "\n ", "\t"];

fn xml_qname(n: &str) -> (String, String) {
    match n.split_once(':') {
        Some((p, l)) => (p.to_string(), l.to_string()),
        None => (String::new(), n.to_string()),
    }
}

fn xml_misc(rng: &mut Rng, d: &mut XDoc, in_dtd: bool) {
    match rng.below(4) {
        0 => {
            let c = *rng.pick(&["", " c ", "a-b", "<x>", "&", "é", "a - b", "\n"]);
            d.text.push_str(&format!("<!--{c}-->"));
            d.toks.push(format!("M:{}", hx(c)));
        }
        1 => {
            let t = *rng.pick(&["pi", "p", "xml-stylesheet", "x.y", "_"]);
            let c = *rng.pick(&["", "a=\"b\"", "href='c.css'", "x ", "? >", "é", "a  b"]);
            let sp = if c.is_empty() { *rng.pick(&["", " ", "\n"]) } else { *rng.pick(XSP) };
            d.text.push_str(&format!("<?{t}{sp}{c}?>"));
            d.toks.push(format!("P:{}:{}", hx(t), if c.is_empty() { "~".to_string() } else { hx(c) }));
        }
        _ => {
            let _ = in_dtd;
            d.text.push_str(*rng.pick(&[" ", "\n", "\n  ", "\t", "\r\n"]));
        }
    }
}

fn xml_ext(rng: &mut Rng) -> (String, String) {
    // (text, token)
    let lits = ["a.dtd", "", "a b", "it's", "say \"hi\"", "http://x/y?z=1", "-//W3C//DTD XHTML 1.0 Strict//EN", "é"];
    let lit = |rng: &mut Rng| -> (String, String) {
        let l = *rng.pick(&lits);
        let q = if l.contains('"') { '\'' } else if l.contains('\'') { '"' } else { *rng.pick(&['"', '\'']) };
        (format!("{q}{l}{q}"), l.to_string())
    };
    match rng.below(3) {
        0 => (String::new(), "~".into()),
        1 => {
            let (t, l) = lit(rng);
            (format!("SYSTEM{}{t}", *rng.pick(XSP)), format!("s{}", hx(&l)))
        }
        _ => {
            let (t1, l1) = lit(rng);
            let (t2, l2) = lit(rng);
            (format!("PUBLIC{}{t1}{}{t2}", *rng.pick(XSP), *rng.pick(XSP)), format!("p{},{}", hx(&l1), hx(&l2)))
        }
    }
}

fn xml_elem(rng: &mut Rng, depth: usize, d: &mut XDoc, fault: &mut Option<&'static str>) -> bool {
    // returns false when the document was cut (fault injected): the caller stops generating
    let name = *rng.pick(XNAMES);
    let (p, l) = xml_qname(name);
    d.text.push('<');
    d.text.push_str(name);
    d.toks.push(format!("S:{}:{}", hx(&p), hx(&l)));
    let anames = ["id", "x:href", "xmlns", "xmlns:x", "k", "k", "xml:lang", "é"];
    for _ in 0..rng.below(4) {
        let an = *rng.pick(&anames);
        let mut av = *rng.pick(&["", "v", "a b", "&lt;", "'", "x>y", "é", " ", "\"", "say \"hi\"", "\">", "a'b", "/>", "\n", "1"]);
        if av.contains('"') && !XML_ALLOW_DQ.with(|c| c.get()) {
            av = "x>y";
        }
        let q = if av.contains('"') { '\'' } else if av.contains('\'') { '"' } else { *rng.pick(&['"', '\'']) };
        let (ap, al) = xml_qname(an);
        d.text.push_str(&format!("{}{an}{}={}{q}{av}{q}", *rng.pick(XSP), *rng.pick(&["", " "]), *rng.pick(&["", " ", "\n"])));
        d.toks.push(format!("A:{}:{}:{}", hx(&ap), hx(&al), hx(av)));
    }
    if depth == 0 || rng.chance(1, 4) {
        d.text.push_str(*rng.pick(&["/>", " />", "\n/>"]));
        d.toks.push("E".into());
        return true;
    }
    d.text.push_str(*rng.pick(&[">", " >"]));
    d.toks.push("O".into());
    let mut last_text = false;
    for _ in 0..rng.below(5) {
        match rng.below(9) {
            0 | 1 | 2 => {
                if !xml_elem(rng, depth - 1, d, fault) {
                    return false;
                }
                last_text = false;
            }
            3 => {
                let c = *rng.pick(&["", " c ", "a-b", "<x>", "&"]);
                d.text.push_str(&format!("<!--{c}-->"));
                d.toks.push(format!("M:{}", hx(c)));
                last_text = false;
            }
            4 => {
                let c = *rng.pick(&["", "a & b", "<x>", "]] >", " ", "]]", "é"]);
                d.text.push_str(&format!("<![CDATA[{c}]]>"));
                d.toks.push(format!("C:{}", hx(c)));
                last_text = false;
            }
            5 => {
                let t = *rng.pick(&["pi", "p"]);
                let c = *rng.pick(&["", "a=\"b\"", "x "]);
                d.text.push_str(&format!("<?{t}{}{c}?>", if c.is_empty() { "" } else { " " }));
                d.toks.push(format!("P:{}:{}", hx(t), if c.is_empty() { "~".to_string() } else { hx(c) }));
                last_text = false;
            }
            6 if fault.is_none() && rng.chance(1, 12) => {
                // a token xmlparser rejects: everything after it is never read
                d.text.push_str(*rng.pick(&["<!bad>", "<1>", "< a>", "<?xml v?>"]));
                d.toks.push("L".into());
                *fault = Some("lex");
                return false;
            }
            _ => {
                if !last_text {
                    let t = *rng.pick(&["t", " ", "\n  ", "a &amp; b", "&#65;", "x y", "]]", "'q'", "\"q\"", "é€", "a>b", "1", "true", "null"]);
                    d.text.push_str(t);
                    d.toks.push(format!("T:{}", hx(t)));
                    last_text = true;
                }
            }
        }
    }
    if fault.is_none() && rng.chance(1, 25) {
        // closing tag of another element
        let other = if name == "a" { "b" } else { "a" };
        d.text.push_str(&format!("</{other}>"));
        d.toks.push(format!("Z:{}:{}", "-", hx(other)));
        *fault = Some("unmatched");
        return false;
    }
    if fault.is_none() && rng.chance(1, 25) {
        // end of input inside the element
        *fault = Some("unclosed");
        return false;
    }
    d.text.push_str(&format!("</{name}{}>", *rng.pick(&["", " ", "\n"])));
    d.toks.push(format!("Z:{}:{}", hx(&p), hx(&l)));
    true
}

fn xml_doc(rng: &mut Rng) -> XDoc {
    let mut d = XDoc { toks: vec![], text: String::new() };
    if rng.chance(1, 2) {
        let ver = *rng.pick(&["1.0", "1.1"]);
        let enc = if rng.chance(1, 2) { Some(rng.pick(&["UTF-8", "utf-8", "ISO-8859-1"]).to_string()) } else { None };
        let sa = *rng.pick(&[None, Some(true), Some(false)]);
        let q = *rng.pick(&['"', '\'']);
        d.text.push_str(&format!("<?xml version={q}{ver}{q}"));
        if let Some(e) = &enc { d.text.push_str(&format!(" encoding={q}{e}{q}")) }
        if let Some(b) = sa { d.text.push_str(&format!(" standalone={q}{}{q}", if b { "yes" } else { "no" })) }
        d.text.push_str(*rng.pick(&["?>", " ?>"]));
        d.toks.push(format!("D:{}:{}:{}", hx(ver), hxo(&enc), match sa { None => "~", Some(true) => "y", Some(false) => "n" }));
    }
    for _ in 0..rng.below(3) { xml_misc(rng, &mut d, false) }
    if rng.chance(1, 2) {
        let name = *rng.pick(&["a", "html", "x:y"]);
        let (et, ek) = xml_ext(rng);
        d.text.push_str(&format!("<!DOCTYPE{}{name}", *rng.pick(XSP)));
        if !et.is_empty() { d.text.push_str(&format!("{}{et}", *rng.pick(XSP))) }
        d.text.push_str(*rng.pick(&["", " "]));
        if rng.chance(1, 2) {
            d.text.push('[');
            let start = d.text.len();
            let mark = d.toks.len();
            d.toks.push(String::new());
            for _ in 0..rng.below(4) {
                match rng.below(4) {
                    0 => { d.text.push_str(*rng.pick(&["<!ENTITY e \"v\">", "<!ENTITY % p 'q'>", "<!ENTITY e SYSTEM 'f'>"])); d.toks.push("N".into()) }
                    1 => d.text.push_str(*rng.pick(&["<!ELEMENT a (#PCDATA)>", "<!ATTLIST a b CDATA #IMPLIED>", "<!NOTATION n SYSTEM 's'>"])),
                    _ => xml_misc(rng, &mut d, true),
                }
            }
            let internal = d.text[start..].to_string();
            d.toks[mark] = format!("X:{}:{}:{}", hx(name), ek, hx(&internal));
            d.text.push_str(*rng.pick(&["]>", "] >", "]\n>"]));
            d.toks.push("x".into());
        } else {
            d.text.push('>');
            d.toks.push(format!("Y:{}:{}", hx(name), ek));
        }
    }
    for _ in 0..rng.below(3) { xml_misc(rng, &mut d, false) }
    let mut fault = None;
    if xml_elem(rng, 3, &mut d, &mut fault) {
        for _ in 0..rng.below(3) { xml_misc(rng, &mut d, false) }
    }
    d
}

fn xml_parse_cls(text: &str) -> String {
    let r = catch(|| match read::xml::parse_many(text).take(4096).collect::<Result<Vec<Val>, _>>() {
        Ok(v) => format!("V {}", vx::enc_canon(&arr(v))),
        Err(read::xml::Error::Lex(_)) => "E lex".to_string(),
        Err(read::xml::Error::Unmatched(..)) => "E unmatched".to_string(),
        Err(read::xml::Error::Unclosed(..)) => "E unclosed".to_string(),
    });
    r.unwrap_or_else(|_| "E panic".into())
}

fn xml_write_cls(v: &Val) -> (String, Option<Vec<u8>>) {
    let r = catch(|| match write::xml::Xml::try_from(v) {
        Ok(x) => {
            let mut buf = Vec::new();
            x.write(&mut buf).unwrap();
            (format!("W {}", if buf.is_empty() { "-".to_string() } else { vx::hex(&buf) }), Some(buf))
        }
        Err(write::xml::Error::InvalidEntry(..)) => ("E entry".to_string(), None),
        Err(write::xml::Error::SingletonObj(..)) => ("E singleton".to_string(), None),
    });
    r.unwrap_or_else(|_| ("PANIC".into(), None))
}

/// values the writer must reject / user-made values next to reader-made ones
fn xml_mutate(rng: &mut Rng, v: &Val) -> Val {
    let junk = [Val::Null, int(1), Val::Bool(true), s("x"), bstr(b"t"), arr(vec![]), obj(vec![]), obj(vec![(s("t"), s("b"))]),
                obj(vec![(s("a"), int(1)), (s("b"), int(2))]), obj(vec![(s("cdata"), int(1))]), obj(vec![(s("comment"), s("c"))]),
                obj(vec![(s("pi"), obj(vec![(s("content"), s("c"))]))]), obj(vec![(s("pi"), obj(vec![(s("target"), s("p")), (s("x"), s("c"))]))]),
                obj(vec![(s("doctype"), obj(vec![(s("internal"), s("c"))]))]), obj(vec![(s("doctype"), obj(vec![(s("name"), s("n")), (s("external"), int(1))]))]),
                obj(vec![(s("xmldecl"), obj(vec![(s("version"), s("1.0")), (s("standalone"), Val::Bool(true))]))]),
                obj(vec![(s("xmldecl"), s("x"))]), obj(vec![(bstr(b"t"), s("a"))]), obj(vec![(int(1), s("a"))]),
                obj(vec![(s("cdata"), bstr(b"x"))]), obj(vec![(s("comment"), bstr(b"x"))]), obj(vec![(s("t"), bstr(b"a"))]),
                obj(vec![(bstr(b"cdata"), s("x"))]), obj(vec![(s("pi"), obj(vec![(s("target"), bstr(b"p"))]))]),
                obj(vec![(s("t"), s("a")), (s("a"), obj(vec![(s("k"), bstr(b"v"))]))]), obj(vec![(s("t"), s("a")), (s("a"), obj(vec![(bstr(b"k"), s("v"))]))]),
                obj(vec![(s("doctype"), obj(vec![(s("name"), bstr(b"n"))]))]), obj(vec![(s("xmldecl"), obj(vec![(s("version"), bstr(b"1.0"))]))]),
                obj(vec![(s("t"), s("a")), (s("c"), s("text"))]), obj(vec![(s("t"), s("a")), (s("a"), obj(vec![(s("k"), int(1))]))]),
                obj(vec![(s("t"), s("a")), (s("a"), s("k"))]), obj(vec![(s("t"), int(1))]), obj(vec![(s("t"), s("a")), (s("x"), int(1))]),
                obj(vec![(s("c"), arr(vec![])), (s("t"), s("a")), (s("t2"), s("a"))]), obj(vec![(s("c"), arr(vec![s("x")])), (s("a"), obj(vec![])), (s("t"), s("a"))])];
    match v {
        Val::Arr(a) if !a.is_empty() && rng.chance(3, 4) => {
            let i = rng.below(a.len());
            let mut b: Vec<Val> = a.iter().cloned().collect();
            if rng.chance(1, 3) { b.insert(i, rng.pick(&junk).clone()) } else { b[i] = xml_mutate(rng, &b[i]) }
            arr(b)
        }
        Val::Obj(o) if !o.is_empty() && rng.chance(3, 4) => {
            let i = rng.below(o.len());
            let mut kvs: Vec<(Val, Val)> = o.iter().map(|(k, v)| (k.clone(), v.clone())).collect();
            match rng.below(4) {
                0 => kvs[i].1 = rng.pick(&junk).clone(),
                1 => kvs.push((s(*rng.pick(&["x", "t", "a", "c", "name", "target"])), rng.pick(&junk).clone())),
                _ => kvs[i].1 = xml_mutate(rng, &kvs[i].1.clone()),
            }
            obj(kvs)
        }
        // a text string becomes a byte string with the same bytes (every place that demands `TStr`)
        Val::TStr(b) if rng.chance(1, 2) => bstr(b),
        _ => rng.pick(&junk).clone(),
    }
}

pub fn xml_model(tier: &str) {
    let mut rng = Rng::new(prng::seed_from_env() ^ 0x3C14);
    let n = if tier == "thorough" { 12000 } else { 1500 };
    let mut id = 0usize;
    for _ in 0..n {
        XML_ALLOW_DQ.with(|c| c.set(rng.chance(1, 3)));
        let d = xml_doc(&mut rng);
        let real = xml_parse_cls(&d.text);
        // reader: model on the token stream the generator intended vs the real reader on the text
        println!("xp{id}\tc14.xmlparse {}\t{}\t{}", d.toks.join(" "), real, vx::hex(d.text.as_bytes()));
        id += 1;
        let Some(vals) = real.strip_prefix("V ").and_then(|t| vx::dec(t)) else { continue };
        // writer: the bytes `toxml` emits for what `fromxml` yielded (as one sequence)
        let (w, bytes) = xml_write_cls(&vals);
        println!("xw{id}\tc14.xmlwrite {}\t{}\t{}", vx::enc(&vals), w, vx::hex(d.text.as_bytes()));
        id += 1;
        // fixpoint: real reader on the real writer's bytes vs the model's reader on `render`
        if let Some(b) = bytes {
            let back = xml_parse_cls(&String::from_utf8_lossy(&b));
            println!("xr{id}\tc14.xmlrt {}\t{}\t{}", vx::enc(&vals), back, vx::hex(d.text.as_bytes()));
            id += 1;
        }
        // writer on values it must reject (or user-made ones it accepts)
        for _ in 0..2 {
            let m = xml_mutate(&mut rng, &vals);
            let (w, _) = xml_write_cls(&m);
            println!("xm{id}\tc14.xmlwrite {}\t{}\t-", vx::enc(&m), w);
            id += 1;
        }
    }
}

pub fn main(args: &[String]) {
    let tier = std::env::var("VERIF_TIER").unwrap_or_else(|_| "quick".into());
    match args.first().map(|s| s.as_str()) {
        Some("yaml-strings") => yaml_strings(&tier),
        Some("tab") => tab(&tier),
        Some("rt") => rt(&tier),
        Some("cbor") => cbor(&tier),
        Some("toml") => toml(&tier),
        Some("xml") => xml(&tier),
        Some("xml-model") => xml_model(&tier),
        _ => {
            eprintln!("usage: jaqverif c14 <yaml-strings|tab|rt|cbor|toml|xml>");
            std::process::exit(2);
        }
    }
    let _ = BigInt::from(0);
}
