//! C17 — oracle side of the process-level correspondence (the `jaq` binary itself is run by
//! `checks/c17.py`).  Nothing here calls `jaq_all::data::run`, `jaq::filter::run` or
//! `jaq_fmts::write::write`: those are the *modelled* functions.  What is taken from the library
//! are the model's parameters:
//!   * the readers (`read::load_file / bytes_str / parse / read_string / read`) → item lists,
//!   * the compiled filter run on ONE input with the rest of the stream as its `inputs`
//!     (events: output / pull of the shared cursor / final stop),
//!   * the value formatters (`jaq_json::write::write`, `yaml::write`, …) → body bytes,
//!   * the variable values (`--arg`, `--rawfile`, `--slurpfile`, `--argjson`) bound in the order
//!     the *model* planned.
//!
//!   oracle : jobs on stdin (see `checks/c17.py`), results on stdout
//!   table  : frame of sample values through the real `write` for every (format, join)
use super::common::catch;
use super::vx::{hex, unhex};
use jaq_all::data::{Ctx, Data, Filter, Runner};
use jaq_core::Vars;
use jaq_fmts::{read, write as fw, Format};
use jaq_json::write::{Pp, Styles};
use jaq_json::Val;
use jaq_std::input::RcIter;
use std::cell::RefCell;
use std::io::BufRead;
use std::rc::Rc;

const MAX_ITEMS: usize = 24;
const MAX_EVENTS: usize = 160;

fn hx(b: &[u8]) -> String {
    format!("x{}", hex(b))
}
fn unhx(s: &str) -> Vec<u8> {
    unhex(s.strip_prefix('x').unwrap_or("")).unwrap_or_default()
}
fn os(b: &[u8]) -> std::ffi::OsString {
    use std::os::unix::ffi::OsStringExt;
    std::ffi::OsString::from_vec(b.to_vec())
}

fn fmt_of(s: &str) -> Format {
    Format::parse(s).unwrap_or_default()
}

/// Body of a value in a format: the dispatch of `write` without markers and terminators.
fn body(fmt: Format, pp: &Pp, val: &Val) -> Result<Vec<u8>, ()> {
    let mut w: Vec<u8> = Vec::new();
    let r: std::io::Result<()> = (|| {
        let inv = |e: String| std::io::Error::new(std::io::ErrorKind::InvalidData, e);
        match fmt {
            Format::Cbor => fw::cbor::write(&mut w, val)?,
            Format::Json | Format::Raw | Format::Raw0 => jaq_json::write::write(&mut w, pp, 0, val)?,
            Format::Yaml => fw::yaml::write(&mut w, pp, 0, val)?,
            Format::Toml => {
                use std::io::Write;
                write!(w, "{}", fw::toml::Root::try_from(val).map_err(|e| inv(e.to_string()))?)?
            }
            Format::Xml => fw::xml::Xml::try_from(val).map_err(|e| inv(e.to_string()))?.write(&mut w)?,
            Format::Csv => fw::tabular::Row::try_from(val).map_err(|e| inv(e.to_string()))?.write_csv(&mut w)?,
            Format::Tsv => fw::tabular::Row::try_from(val).map_err(|e| inv(e.to_string()))?.write_tsv(&mut w)?,
            _ => return Err(inv("format".into())),
        };
        Ok(())
    })();
    r.map(|_| w).map_err(|_| ())
}

/// `<truthy>:<str hex|->:<body hex|!>` — all the model needs to know about a value
fn enc_val(fmt: Format, pp: &Pp, v: &Val) -> String {
    let truthy = !matches!(v, Val::Null | Val::Bool(false));
    let s = match v {
        Val::TStr(b) | Val::BStr(b) => hx(b),
        _ => "-".into(),
    };
    let b = match catch(|| body(fmt, pp, v)) {
        Ok(Ok(b)) => hx(&b),
        _ => "!".into(),
    };
    format!("{}:{}:{}", truthy as u8, s, b)
}

#[derive(Default)]
struct Job {
    id: String,
    cwd: Vec<u8>,
    filter: Option<(bool, Vec<u8>)>, // (from file?, code or path)
    binds: Vec<(char, Vec<u8>, Vec<u8>)>,
    pos: Vec<Vec<u8>>,
    pp: Pp,
    to: Format,
    slurp: bool,
    null: bool,
    srcs: Vec<(Option<Vec<u8>>, Format)>, // None = stdin
    stdin: Vec<u8>,
}

struct Logged {
    inner: std::vec::IntoIter<Result<Val, String>>,
    log: Rc<RefCell<Vec<String>>>,
}
impl Iterator for Logged {
    type Item = Result<Val, String>;
    fn next(&mut self) -> Option<Self::Item> {
        self.log.borrow_mut().push("P".into());
        self.inner.next()
    }
}

/// run the filter on one input with `rest` as the shared input stream; events + stop
fn trace(filter: &Filter, vars: Vec<Val>, x: Val, rest: Vec<Result<Val, String>>, job: &Job) -> String {
    let log = Rc::new(RefCell::new(Vec::<String>::new()));
    let runner = Runner { null_input: job.null, ..Default::default() };
    let inputs: Box<dyn Iterator<Item = Result<Val, String>>> =
        Box::new(Logged { inner: rest.into_iter(), log: log.clone() });
    let rc = RcIter::new(inputs);
    let data = Data { runner: &runner, lut: &filter.lut, inputs: &rc };
    let ctx = Ctx::new(&data, Vars::new(vars));
    let mut stop = "D".to_string();
    let r = catch(|| {
        for y in filter.id.run((ctx, x)) {
            if log.borrow().len() >= MAX_EVENTS {
                stop = "L".into();
                break;
            }
            match y {
                Ok(v) => {
                    let e = format!("O:{}", enc_val(job.to, &job.pp, &v));
                    log.borrow_mut().push(e)
                }
                Err(exn) => {
                    stop = match exn.get_err() {
                        Ok(_) => "E".into(),
                        Err(exn) => match exn.get_halt() {
                            Ok(code) => format!("H{code}"),
                            Err(_) => "X".into(),
                        },
                    };
                    break;
                }
            }
        }
    });
    if r.is_err() {
        stop = "X".into();
    }
    let evs = log.borrow();
    if evs.len() > MAX_EVENTS {
        stop = "L".into();
    }
    format!("{} {} {}", evs.len(), evs.join(" "), stop).replace("  ", " ")
}

fn named_args(positional: &[Val], named: &[(String, Val)]) -> Val {
    // the value `$ARGS` as the manual describes it: {positional: [...], named: {...}}
    let key = |k: &str| Val::from(k.to_string());
    let obj = [
        (key("positional"), positional.iter().cloned().collect::<Val>()),
        (key("named"), Val::obj(named.iter().map(|(k, v)| (key(k), v.clone())).collect())),
    ];
    Val::obj(obj.into_iter().collect())
}

fn run_job(job: &Job) {
    println!("JOB {}", job.id);
    let _ = std::env::set_current_dir(os(&job.cwd));
    // variables, in the order of the plan
    let mut named: Vec<(String, Val)> = Vec::new();
    let mut ok = true;
    for (i, (kind, name, val)) in job.binds.iter().enumerate() {
        let name = String::from_utf8_lossy(name).into_owned();
        let r: Result<Val, &str> = match kind {
            'A' => Ok(Val::utf8_str(val.clone())),
            'R' => read::load_file(os(val)).map(Val::utf8_str).map_err(|_| "io"),
            'S' => read::json_array(os(val)).map_err(|_| "io"),
            _ => read::json::parse_single(val).map_err(|_| "parse"),
        };
        match r {
            Ok(v) => {
                println!("BIND {i} ok");
                named.push((name, v))
            }
            Err(e) => {
                println!("BIND {i} {e}");
                ok = false
            }
        }
    }
    if !ok {
        println!("END");
        return;
    }
    let positional: Vec<Val> = job.pos.iter().map(|p| Val::from(String::from_utf8_lossy(p).into_owned())).collect();
    let mut names: Vec<String> = named.iter().map(|(k, _)| k.clone()).collect();
    let mut vals: Vec<Val> = named.iter().map(|(_, v)| v.clone()).collect();
    names.push("ARGS".into());
    vals.push(named_args(&positional, &named));
    names.push("ENV".into());
    vals.push(Val::obj(std::env::vars().map(|(k, v)| (Val::from(k), Val::from(v))).collect()));
    let fname_idx = vals.len();
    names.push("!input_filename".into());
    vals.push(Val::Null);

    let code: Option<String> = match &job.filter {
        None => None,
        Some((false, c)) => Some(String::from_utf8_lossy(c).into_owned()),
        Some((true, p)) => match std::fs::read_to_string(os(p)) {
            Ok(s) => Some(s),
            Err(_) => {
                println!("COMPILE io\nEND");
                return;
            }
        },
    };
    let filter: Filter = match &code {
        None => Filter::default(),
        Some(code) => {
            let extra = core::iter::once(jaq_core::load::parse::Def {
                name: "input_filename",
                args: Vec::new(),
                body: jaq_core::load::parse::Term::Var("$!input_filename"),
            });
            let r = catch(|| {
                jaq_all::compile_with(code, jaq_all::defs().chain(extra), jaq_all::data::funs(), &names)
            });
            match r {
                Ok(Ok(f)) => f,
                _ => {
                    println!("COMPILE fail\nEND");
                    return;
                }
            }
        }
    };
    println!("COMPILE ok");

    for (idx, (path, fmt)) in job.srcs.iter().enumerate() {
        let fmt = *fmt;
        // the reader: item list (bounded)
        let items: Result<Vec<Result<Val, String>>, &str> = match path {
            None => match read::read_string(fmt, &job.stdin[..]) {
                Err(_) => Err("read"),
                Ok(s) => Ok(read::read(fmt, &job.stdin[..], &s, job.slurp)
                    .take(MAX_ITEMS + 1)
                    .map(|r| r.map_err(|e| e.to_string()))
                    .collect()),
            },
            Some(p) => match read::load_file(os(p)) {
                Err(_) => Err("load"),
                Ok(bytes) => match read::bytes_str(fmt, &bytes) {
                    Err(_) => Err("read"),
                    Ok(s) => Ok(read::parse(fmt, &bytes, s, job.slurp)
                        .take(MAX_ITEMS + 1)
                        .map(|r| r.map_err(|e| e.to_string()))
                        .collect()),
                },
            },
        };
        let mut items = match items {
            Err(e) => {
                println!("SRC {idx} {e}");
                continue;
            }
            Ok(items) => items,
        };
        let trunc = items.len() > MAX_ITEMS;
        items.truncate(MAX_ITEMS);
        let enc: Vec<String> = items
            .iter()
            .map(|i| match i {
                Ok(v) => format!("V:{}", enc_val(job.to, &job.pp, v)),
                Err(_) => "E".into(),
            })
            .collect();
        println!("SRC {idx} ok {} {} {}", if trunc { "T" } else { "-" }, enc.len(), enc.join(" "));
        let mut vars = vals.clone();
        vars[fname_idx] = match path {
            None => Val::utf8_str("<stdin>"),
            Some(p) => Val::utf8_str(os(p).to_string_lossy().into_owned()),
        };
        if job.null {
            println!("TR {idx} N {}", trace(&filter, vars.clone(), Val::Null, items.clone(), job));
        } else {
            for (i, it) in items.iter().enumerate() {
                if let Ok(x) = it {
                    let rest = items[i + 1..].to_vec();
                    println!("TR {idx} {i} {}", trace(&filter, vars.clone(), x.clone(), rest, job));
                }
            }
        }
    }
    println!("END");
}

fn oracle() {
    let mut job = Job::default();
    for line in std::io::stdin().lock().lines() {
        let line = line.unwrap();
        let t: Vec<&str> = line.split(' ').collect();
        match t[0] {
            "JOB" => {
                job = Job::default();
                job.id = t[1].to_string()
            }
            "CWD" => job.cwd = unhx(t[1]),
            "FILTER" => {
                job.filter = match t[1] {
                    "I" => Some((false, unhx(t[2]))),
                    "F" => Some((true, unhx(t[2]))),
                    _ => None,
                }
            }
            "BIND" => job.binds.push((t[1].chars().next().unwrap(), unhx(t[2]), unhx(t[3]))),
            "POS" => job.pos.push(unhx(t[1])),
            "PP" => {
                job.pp = Pp {
                    indent: (t[1] != "-").then(|| String::from_utf8_lossy(&unhx(t[1])).into_owned()),
                    sort_keys: t[2] == "1",
                    styles: if t[3] == "1" { Styles::ansi() } else { Styles::default() },
                    sep_space: t[4] == "1",
                }
            }
            "TO" => job.to = fmt_of(t[1]),
            "OPTS" => {
                job.slurp = t[1] == "1";
                job.null = t[2] == "1"
            }
            "IN" => match t[1] {
                "S" => job.srcs.push((None, fmt_of(t[2]))),
                _ => job.srcs.push((Some(unhx(t[2])), fmt_of(t[3]))),
            },
            "STDIN" => job.stdin = unhx(t[1]),
            "END" => {
                let r = catch(|| run_job(&job));
                if r.is_err() {
                    println!("PANIC\nEND");
                }
            }
            _ => {}
        }
    }
}

/// Frames of sample values through the real `write`, for the generated terminator table.
fn table() {
    use jaq_fmts::write::{write, Writer};
    let fmts = ["raw", "raw0", "json", "cbor", "toml", "xml", "yaml", "csv", "tsv"];
    let samples: Vec<(&str, Val)> = vec![
        ("obj", Val::obj([(Val::from("a".to_string()), Val::from("b".to_string()))].into_iter().collect())),
        ("arr", [Val::from("a".to_string())].into_iter().collect()),
        ("str", Val::from("s".to_string())),
        ("xml", Val::obj([(Val::from("t".to_string()), Val::from("a".to_string()))].into_iter().collect())),
    ];
    for f in fmts {
        for join in [false, true] {
            for (name, v) in &samples {
                let fmt = fmt_of(f);
                let writer = Writer { format: fmt, pp: Pp::default(), join };
                let mut out = Vec::new();
                let r = write(&mut out, &writer, v);
                let b = body(fmt, &Pp::default(), v);
                println!(
                    "ROW {f} {} {name} {} {} {}",
                    join as u8,
                    if r.is_ok() { "ok" } else { "err" },
                    hx(&out),
                    match b {
                        Ok(b) => hx(&b),
                        Err(_) => "!".into(),
                    }
                );
            }
        }
    }
}

pub fn main(args: &[String]) {
    match args.first().map(|s| s.as_str()) {
        Some("oracle") => oracle(),
        Some("table") => table(),
        _ => {
            eprintln!("usage: jaqverif c17 oracle|table");
            std::process::exit(2)
        }
    }
}
