//! C07 — print-then-parse is the identity; JSON texts mean what RFC 8259 says.
//!   tables      : translator; per-byte output of the real writer / single-character escapes of the real reader
//!   gen         : `id \t request \t real` lines for the correspondence of writer and reader
//!   oracle      : real code only: `v | tojson | fromjson` and writer->reader round trips; `ORACLE ok|FAIL …`
//!   read-stdin  : hex-encoded texts on stdin -> `id \t c07.read many <hex> \t real` lines
//!   cli-values  : VX of the values used by the CLI round trips (one per line)
use super::common::*;
use super::prng::{self, Rng};
use super::vx;
use jaq_json::write::Pp;
use jaq_json::{Num, Val};

// ------------------------------------------------------------------ real code entry points

fn pp_of(spec: &str) -> Pp {
    // spec: c | s | i<n> | t   followed by optional S (sort keys)
    let (sort_keys, body) = match spec.strip_suffix('S') {
        Some(b) => (true, b),
        None => (false, spec),
    };
    let (indent, sep_space) = match body {
        "c" => (None, false),
        "s" => (None, true),
        "t" => (Some("\t".to_string()), true),
        _ => {
            let n: usize = body[1..].parse().unwrap();
            (Some(" ".repeat(n)), true)
        }
    };
    Pp { indent, sort_keys, sep_space, ..Pp::default() }
}

const PP_SPECS: [&str; 14] = ["c", "s", "i0", "i1", "i2", "i7", "t", "cS", "sS", "i0S", "i1S", "i2S", "i7S", "tS"];

fn real_write(pp: &Pp, v: &Val) -> Vec<u8> {
    let mut out = Vec::new();
    jaq_json::write::write(&mut out, pp, 0, v).unwrap();
    out
}

fn show_vals(items: impl Iterator<Item = Result<Val, String>>) -> String {
    let mut out: Vec<String> = Vec::new();
    let mut n = 0;
    for r in items {
        n += 1;
        if n > 10000 {
            out.push("TOO-MANY".into());
            break;
        }
        match r {
            Ok(v) => out.push(format!("V {}", vx::enc_canon(&v))),
            Err(_) => {
                out.push("E".into());
                break;
            }
        }
    }
    if out.is_empty() {
        "-".into()
    } else {
        out.join(" ; ")
    }
}

fn real_read(mode: &str, text: &[u8]) -> String {
    let r = catch(|| match mode {
        "many" => show_vals(jaq_json::read::parse_many(text).map(|r| r.map_err(|e| e.to_string()))),
        "iter" => show_vals(
            jaq_json::read::read_many(std::io::BufReader::new(text)).map(|r| r.map_err(|e| e.to_string())),
        ),
        "single" => show_vals(std::iter::once(jaq_json::read::parse_single(text).map_err(|e| e.to_string()))),
        _ => unreachable!(),
    });
    r.unwrap_or_else(|p| format!("PANIC {}", p.replace(['\t', '\n'], " ")))
}

fn filter1(code: &str, v: Val) -> String {
    match run_code(code, v, 1000) {
        Ok(items) => enc_items(&items),
        Err(e) => format!("COMPILE {e}"),
    }
}

// ------------------------------------------------------------------ translator

fn tables() {
    let pp = Pp::default();
    for b in 0..=255u8 {
        let t = real_write(&pp, &tstr(&[b]));
        assert!(t.len() >= 2 && t[0] == b'"' && t[t.len() - 1] == b'"', "text string writer shape");
        println!("T {b} {}", vx::hex(&t[1..t.len() - 1]));
        let s = real_write(&pp, &bstr(&[b]));
        assert!(s.len() >= 3 && &s[..2] == b"b\"" && s[s.len() - 1] == b'"', "byte string writer shape");
        println!("B {b} {}", vx::hex(&s[2..s.len() - 1]));
        // reader: what `\<b>` alone denotes in a text string / in a byte string
        let rd = |prefix: &[u8]| {
            let mut text = prefix.to_vec();
            text.extend([b'\\', b, b'"']);
            match jaq_json::read::parse_single(&text) {
                Ok(Val::TStr(s)) | Ok(Val::BStr(s)) => vx::hex(&s),
                _ => "-".to_string(),
            }
        };
        println!("UT {b} {}", rd(b"\""));
        println!("UB {b} {}", rd(b"b\""));
    }
    // frame of the writers (quotes, prefix) and keyword spellings, through the real writer
    println!("FRAME T {}", vx::hex(&real_write(&pp, &tstr(b""))));
    println!("FRAME B {}", vx::hex(&real_write(&pp, &bstr(b""))));
    println!("KW null {}", vx::hex(&real_write(&pp, &Val::Null)));
    println!("KW true {}", vx::hex(&real_write(&pp, &Val::Bool(true))));
    println!("KW false {}", vx::hex(&real_write(&pp, &Val::Bool(false))));
    println!("KW nan {}", vx::hex(&real_write(&pp, &float(f64::NAN))));
    println!("KW inf {}", vx::hex(&real_write(&pp, &float(f64::INFINITY))));
    println!("KW ninf {}", vx::hex(&real_write(&pp, &float(f64::NEG_INFINITY))));
}

// ------------------------------------------------------------------ generators

/// structurally significant bytes for string contents
const ALPHA_FULL: [u8; 30] = [
    b'"', b'\\', b'/', 0x00, 0x01, 0x08, 0x09, 0x0a, 0x0c, 0x0d, 0x1f, 0x20, b'a', b'u', b'x', b'b', 0x7e, 0x7f,
    0x80, 0xbf, 0xc3, 0xa9, 0xe2, 0x82, 0xac, 0xf0, 0x9f, 0x98, 0xed, 0xa0,
];
const ALPHA_SMALL: [u8; 14] = [b'"', b'\\', 0x00, 0x0a, 0x1f, b'a', b'u', 0x7f, 0x80, 0xc3, 0xa9, 0xed, 0xa0, 0xff];

fn strings_upto(alpha: &[u8], len: usize) -> Vec<Vec<u8>> {
    let mut all: Vec<Vec<u8>> = vec![vec![]];
    let mut last: Vec<Vec<u8>> = vec![vec![]];
    for _ in 0..len {
        let mut next = Vec::new();
        for s in &last {
            for c in alpha {
                let mut t = s.clone();
                t.push(*c);
                next.push(t);
            }
        }
        all.extend(next.iter().cloned());
        last = next;
    }
    all
}

fn content_strings(tier: &str) -> Vec<Vec<u8>> {
    let mut v = strings_upto(&ALPHA_FULL, 2);
    let a3: &[u8] = if tier == "thorough" { &ALPHA_FULL } else { &ALPHA_SMALL };
    v.extend(strings_upto(a3, 3).into_iter().filter(|s| s.len() == 3));
    // every single byte, and every byte between two ordinary characters
    for b in 0..=255u8 {
        v.push(vec![b]);
        v.push(vec![b'a', b, b'"']);
    }
    // multi-byte characters, an encoded surrogate, truncated sequences
    for s in ["é", "€", "😀", "a😀b", "\u{7f}\u{80}\u{ffff}\u{10000}\u{10ffff}"] {
        v.push(s.as_bytes().to_vec());
    }
    v.push(vec![0xed, 0xa0, 0x80]);
    v.push(vec![0xf0, 0x9f, 0x98]);
    v.push(vec![0xc3]);
    v.sort();
    v.dedup();
    v
}

pub fn edge_floats(tier: &str, rng: &mut Rng) -> Vec<f64> {
    let mut bits: Vec<u64> = vec![];
    fn push3(bits: &mut Vec<u64>, b: u64) {
        bits.push(b);
        bits.push(b.wrapping_add(1));
        bits.push(b.wrapping_sub(1));
    }
    for f in [0.0f64, 1.0, 0.1, 0.5, 1.5, 2.5, 0.3, 1e21, 1e22, 1e23, 1e15, 1e16, 1e17, 1e-5, 1e-6, 1e-7, 123456789012345680.0,
              9007199254740992.0, 9007199254740993.0, 4503599627370496.5, 0.001, 0.0001, 0.00001, 1234.5678, 5e-324,
              2.2250738585072014e-308, 2.225073858507201e-308, f64::MAX, f64::MIN_POSITIVE, f64::EPSILON, 1e300, 1e-300,
              9.5367431640625e-7, 2.9802322387695312e-8, 5.764607523034235e39, 1.152921504606847e40, 2.305843009213694e40,
              9223372036854775808.0, 18446744073709551616.0, 100.0, 1e2, 299792458.0, 6.02214076e23, 1.7976931348623157e308,
              4.9406564584124654e-324, 3.141592653589793, 2.718281828459045, 1e0, 12345678901234567.0, 0.000001234] {
        push3(&mut bits, f.to_bits());
    }
    let step2 = if tier == "thorough" { 1 } else { 7 };
    let mut k = -1074i32;
    while k <= 1023 {
        push3(&mut bits, (2.0f64).powi(k).to_bits());
        k += step2;
    }
    let step10 = if tier == "thorough" { 1 } else { 3 };
    let mut k = -323i32;
    while k <= 308 {
        if let Ok(f) = format!("1e{k}").parse::<f64>() {
            push3(&mut bits, f.to_bits());
        }
        if let Ok(f) = format!("9.999999999999999e{k}").parse::<f64>() {
            bits.push(f.to_bits());
        }
        k += step10;
    }
    let nrand = if tier == "thorough" { 60000 } else { 3000 };
    for _ in 0..nrand {
        let r = rng.next();
        bits.push(match rng.below(4) {
            0 => r,
            1 => (r as u32 as f64 / 1000.0).to_bits(),                 // short decimals
            2 => ((r % 1_000_000) as f64 * 10f64.powi((rng.below(40) as i32) - 20)).to_bits(),
            _ => (r >> 12) | ((1023 - 60 + rng.below(120) as u64) << 52), // moderate exponents
        });
    }
    let mut out = vec![];
    for b in bits {
        out.push(f64::from_bits(b));
        out.push(f64::from_bits(b ^ (1 << 63)));
    }
    out.push(f64::NAN);
    out.push(f64::INFINITY);
    out.push(f64::NEG_INFINITY);
    out
}

fn atoms() -> Vec<Val> {
    vec![
        Val::Null, Val::Bool(false), Val::Bool(true), int(0), int(-1), int(isize::MAX), int(isize::MIN),
        big("9223372036854775808"), big("-9223372036854775809"), big("340282366920938463463374607431768211456"),
        float(1.5), float(-0.0), float(1e21), float(f64::NAN), float(f64::INFINITY), float(f64::NEG_INFINITY),
        dec("1.10"), dec("1e1000"), dec("-0.0"), dec("+1.5E+3"), dec("00.10"),
        tstr(b""), tstr(b"a"), tstr(b"b"), tstr(b"\"\\\n\x7f\xff"), bstr(b""), bstr(b"a"), bstr(b"\xff\x00\""),
        arr(vec![]), obj(vec![]),
    ]
}

/// all small trees: arrays with <= 2 elements, objects with <= 2 entries, nested once more
fn small_trees(tier: &str) -> Vec<Val> {
    let at = atoms();
    let few: Vec<Val> = vec![Val::Null, int(1), float(1.5), dec("1.10"), tstr(b"a"), tstr(b"b"), bstr(b"a"), arr(vec![]), obj(vec![])];
    let mut l1: Vec<Val> = vec![];
    for a in &at {
        l1.push(arr(vec![a.clone()]));
        l1.push(obj(vec![(a.clone(), a.clone())]));
    }
    for a in &few {
        for b in &few {
            l1.push(arr(vec![a.clone(), b.clone()]));
            if a != b {
                l1.push(obj(vec![(a.clone(), b.clone()), (b.clone(), a.clone())]));
            }
        }
    }
    // keys in different orders (sort_keys must order them; plain output must keep them)
    l1.push(obj(vec![(tstr(b"b"), int(1)), (tstr(b"a"), int(2)), (tstr(b"c"), int(3))]));
    l1.push(obj(vec![(int(2), int(1)), (tstr(b"a"), int(2)), (Val::Null, int(3)), (arr(vec![]), int(4)), (int(1), int(5))]));
    l1.push(obj(vec![(tstr(b"a"), int(1)), (bstr(b"a\xff"), int(2))]));
    let mut out = at.clone();
    out.extend(l1.iter().cloned());
    let inner: Vec<Val> = if tier == "thorough" { l1.clone() } else { l1.iter().step_by(5).cloned().collect() };
    for x in &inner {
        out.push(arr(vec![x.clone()]));
        out.push(arr(vec![int(1), x.clone()]));
        out.push(obj(vec![(tstr(b"k"), x.clone())]));
        out.push(obj(vec![(x.clone(), int(1)), (tstr(b"z"), x.clone())]));
        out.push(arr(vec![arr(vec![x.clone()]), obj(vec![(tstr(b"a"), arr(vec![x.clone(), x.clone()]))])]));
    }
    out
}

fn rand_bytes(rng: &mut Rng) -> Vec<u8> {
    let n = rng.below(7);
    (0..n)
        .map(|_| if rng.chance(1, 3) { (rng.next() & 0xff) as u8 } else { *rng.pick(&ALPHA_FULL) })
        .collect()
}

fn rand_val(rng: &mut Rng, depth: usize) -> Val {
    let k = if depth == 0 { rng.below(8) } else { rng.below(11) };
    match k {
        0 => Val::Null,
        1 => Val::Bool(rng.chance(1, 2)),
        2 => {
            let sh = rng.below(64);
            int((rng.next() >> sh) as isize)
        }
        3 => {
            let mut b = num_bigint::BigInt::from(rng.next());
            for _ in 0..rng.below(4) {
                b = (b << 64) + num_bigint::BigInt::from(rng.next());
            }
            if rng.chance(1, 2) {
                b = -b;
            }
            use num_traits::ToPrimitive;
            match b.to_isize() {
                Some(i) => int(i),
                None => Val::Num(Num::big_int(b)),
            }
        }
        4 => float(f64::from_bits(rng.next())),
        5 => dec(["1.10", "0.1e-7", "-3.0", "1E400", "+0.0", "007.5", "1e+2"][rng.below(7)]),
        6 => tstr(&rand_bytes(rng)),
        7 => bstr(&rand_bytes(rng)),
        8 => arr((0..rng.below(4)).map(|_| rand_val(rng, depth - 1)).collect()),
        _ => {
            let n = rng.below(4);
            obj((0..n).map(|_| (rand_val(rng, depth - 1), rand_val(rng, depth - 1))).collect())
        }
    }
}

/// JSON/XJON string literal bodies built from escape-level tokens
fn string_texts(tier: &str) -> Vec<Vec<u8>> {
    let toks: Vec<&[u8]> = vec![
        b"a", b"\\n", b"\\\"", b"\\\\", b"\\/", b"\\b", b"\\u0041", b"\\u00e9", b"\\u00E9", b"\\ud83d", b"\\ude00", b"\\uD83D",
        b"\\uDE00", b"\\udbff", b"\\udfff", b"\\ud800", b"\\udc00", b"\\u12", b"\\u12G4", b"\\x41", b"\\xff", b"\\xF", b"\\q", b"\\",
        b"\x01", b"\x7f", b"\xff", b"\xc3\xa9", b"\"", b"u", b"\\u0000", b"\\uffff", b"\\u", b"\\U0041", b"\n", b"/",
    ];
    let small: Vec<&[u8]> = toks.iter().step_by(2).cloned().collect();
    let mut bodies: Vec<Vec<u8>> = vec![vec![]];
    for a in &toks {
        bodies.push(a.to_vec());
        for b in &toks {
            bodies.push([*a, *b].concat());
        }
    }
    let t3: &Vec<&[u8]> = if tier == "thorough" { &toks } else { &small };
    for a in t3 {
        for b in t3 {
            for c in t3 {
                bodies.push([*a, *b, *c].concat());
            }
        }
    }
    let mut out = vec![];
    for b in bodies {
        for prefix in [&b"\""[..], &b"b\""[..]] {
            let mut t = prefix.to_vec();
            t.extend(&b);
            t.push(b'"');
            out.push(t);
        }
    }
    out
}

fn number_texts(tier: &str) -> Vec<Vec<u8>> {
    let alpha = b"01-+.eE9";
    let n = if tier == "thorough" { 6 } else { 5 };
    let mut v = strings_upto(alpha, n);
    for s in ["Infinity", "-Infinity", "+Infinity", "NaN", "-NaN", "+NaN", "Infinit", "-Infinit", "+Infinityx", "nan", "infinity", "-Inf",
              "9223372036854775807", "9223372036854775808", "-9223372036854775808", "-9223372036854775809", "+9223372036854775808",
              "000000000000000000000000009223372036854775808", "-000", "+000", "-0", "-01", "+01", "-0.0", "-0e0", "-00", "0x10",
              "1e", "1e+", "1.e1", "1.5e+007", "1E-0", "123456789012345678901234567890", "1 2", "1,2", "1]", "1.0.0", "1e1e1",
              "1.5", "1.50", "100e-2", "0.1e1", "1_000", "١"] {
        v.push(s.as_bytes().to_vec());
    }
    v
}

fn structure_texts(tier: &str) -> Vec<Vec<u8>> {
    let alpha: &[u8] = b"[]{},:1\" #\nn";
    let n = if tier == "thorough" { 5 } else { 4 };
    let mut v = strings_upto(alpha, n);
    for s in [
        "null", "true", "false", "nul", "nulll", "truefalse", "null null", "nullnull", "[null,true ,false]", " \t\r\n1\t\r\n ", "\x0b1", "\x0c1",
        "# c\n1 # d", "#", "# no newline", "1#2\n3", "[1,#x\n2]", "[1 #x\r\n,2]", "{\"a\":1,\"a\":2}", "{\"a\":1,\"b\":2,\"a\":3}",
        "{1:2,1.0:3}", "{1:2,1.0:3,\"1\":4}", "{null:0,true:1,2:3,\"str\":4,[\"arr\"]:5,{}:6}", "{b\"a\":1,\"a\":2}", "{\"a\":1,b\"a\":2}",
        "{\"a\" 1}", "{\"a\":}", "{:1}", "{\"a\":1,}", "[1,]", "[,1]", "[1 2]", "[", "]", "{", "}", "[[[[[[[[]]]]]]]]", "[[[[[[[[]]]]]]]",
        "{\"a\":{\"b\":{\"c\":[]}}}", "b\"a\"", "b \"a\"", "b", "ba", "B\"a\"", "[NaN,Infinity,-Infinity,+Infinity]", "N", "I", "[1,2", "\"abc", "\"a\"\"b\"",
        "\"a\"1", "1\"a\"", "[]{}", "[] {}", "1 2 3", "1,2", "{\"a\":1}{\"b\":2}", "\u{feff}1", "{{}:{}}", "{[]:[]}", "[{}]", "{\"\":\"\"}",
        "[1,2]x", "tru", "t", "f", "n", "-", "+", "-I", "+I", "-Infinity1", "[-Infinity]", "[+Infinity ]", "{-Infinity:NaN}", "{NaN:NaN,NaN:1}",
        "{0:1,-0:2,0.0:3,-0.0:4}", "{1:\"a\",1.0:\"b\"}", "{1.0:\"a\",1:\"b\"}", "{\"a\":1,\"b\":2,\"a\":{\"a\":1,\"a\":2}}",
    ] {
        v.push(s.as_bytes().to_vec());
    }
    v
}

fn gen(tier: &str) {
    let mut rng = Rng::new(prng::seed_from_env());
    let mut id = 0usize;
    let mut emit = |kind: &str, req: String, real: String| {
        println!("{kind}{id}\t{req}\t{real}");
        id += 1;
    };
    // ---- writer: strings
    let strs = content_strings(tier);
    let ppc = pp_of("c");
    for s in &strs {
        for v in [tstr(s), bstr(s)] {
            let w = real_write(&ppc, &v);
            emit("ws", format!("c07.write c {}", vx::enc(&v)), vx::hex(&w));
            // the filter `tojson` goes through `write_buf` (another instance of the same macros)
            let tj = filter1("tojson", v.clone());
            let expect = format!("V S{}", vx::hex(&w));
            if tj != expect {
                emit("tojson", format!("c07.write c {}", vx::enc(&v)), format!("TOJSON-DIFFERS {tj}"));
            }
        }
    }
    // ---- writer: floats (shortest round-trip digits, ryu's layout), other numbers
    for f in edge_floats(tier, &mut rng) {
        let v = float(f);
        emit("wf", format!("c07.write c {}", vx::enc(&v)), vx::hex(&real_write(&ppc, &v)));
    }
    for v in num_pool() {
        emit("wn", format!("c07.write c {}", vx::enc(&v)), vx::hex(&real_write(&ppc, &v)));
    }
    // ---- writer: trees under every Pp
    let mut trees = small_trees(tier);
    let nrand = if tier == "thorough" { 4000 } else { 400 };
    for _ in 0..nrand {
        trees.push(rand_val(&mut rng, 3));
    }
    for v in &trees {
        for spec in PP_SPECS {
            let w = real_write(&pp_of(spec), v);
            emit("wt", format!("c07.write {spec} {}", vx::enc(v)), vx::hex(&w));
        }
    }
    // ---- reader: what the writer produced (all three entry points)
    for v in trees.iter().step_by(if tier == "thorough" { 1 } else { 3 }) {
        for spec in ["c", "i2", "tS"] {
            let w = real_write(&pp_of(spec), v);
            for mode in ["many", "iter", "single"] {
                emit("rw", format!("c07.read {mode} {}", vx::hex(&w)), real_read(mode, &w));
            }
        }
    }
    for s in strs.iter().step_by(if tier == "thorough" { 1 } else { 2 }) {
        for v in [tstr(s), bstr(s)] {
            let w = real_write(&ppc, &v);
            emit("rs", format!("c07.read many {}", vx::hex(&w)), real_read("many", &w));
        }
    }
    // ---- reader: texts from the text generators (mostly valid + malformed)
    let mut texts = string_texts(tier);
    texts.extend(number_texts(tier));
    texts.extend(structure_texts(tier));
    for (i, t) in texts.iter().enumerate() {
        emit("rt", format!("c07.read many {}", vx::hex(t)), real_read("many", t));
        if i % 5 == 0 {
            emit("rt", format!("c07.read iter {}", vx::hex(t)), real_read("iter", t));
            emit("rt", format!("c07.read single {}", vx::hex(t)), real_read("single", t));
        }
    }
    // ---- filter `fromjson` = parse_many on the string's bytes
    for t in texts.iter().step_by(if tier == "thorough" { 3 } else { 29 }) {
        let many = real_read("many", t);
        let items = match run_code("fromjson", tstr(t), 10001) {
            Ok(items) => items,
            Err(_) => vec![],
        };
        let got: Vec<String> = items
            .iter()
            .map(|i| match i {
                Item::Val(v) => format!("V {}", vx::enc_canon(v)),
                _ => "E".to_string(),
            })
            .collect();
        let got = if got.is_empty() { "-".to_string() } else { got.join(" ; ") };
        if got != many {
            emit("fromjson", format!("c07.read many {}", vx::hex(t)), format!("FROMJSON-DIFFERS {got}"));
        }
    }
}

// ------------------------------------------------------------------ property oracle on the real code alone

/// `a` is what came back after printing and parsing `b`: identical except that a float may have
/// become the decimal literal that the writer printed for it.
fn same_after_roundtrip(orig: &Val, back: &Val) -> bool {
    match (orig, back) {
        (Val::Num(Num::Float(f)), Val::Num(Num::Float(g))) => (f.is_nan() && g.is_nan()) || f.to_bits() == g.to_bits(),
        (Val::Num(Num::Float(f)), Val::Num(Num::Dec(d))) => d.parse::<f64>().map_or(false, |g| g.to_bits() == f.to_bits()),
        (Val::Num(Num::Int(a)), Val::Num(Num::Int(b))) => a == b,
        (Val::Num(Num::BigInt(a)), Val::Num(Num::BigInt(b))) => a == b,
        (Val::Num(Num::BigInt(a)), Val::Num(Num::Int(b))) => **a == num_bigint::BigInt::from(*b),
        (Val::Num(Num::Dec(a)), Val::Num(Num::Dec(b))) => a == b,
        (Val::Num(_), Val::Num(_)) => false,
        (Val::TStr(a), Val::TStr(b)) | (Val::BStr(a), Val::BStr(b)) => a == b,
        (Val::Arr(a), Val::Arr(b)) => a.len() == b.len() && a.iter().zip(b.iter()).all(|(x, y)| same_after_roundtrip(x, y)),
        (Val::Obj(a), Val::Obj(b)) => {
            a.len() == b.len()
                && a.iter().zip(b.iter()).all(|((k1, v1), (k2, v2))| same_after_roundtrip(k1, k2) && same_after_roundtrip(v1, v2))
        }
        (Val::Null, Val::Null) => true,
        (Val::Bool(a), Val::Bool(b)) => a == b,
        _ => false,
    }
}

fn sort_keys_deep(v: &Val) -> Val {
    match v {
        Val::Arr(a) => a.iter().map(sort_keys_deep).collect(),
        Val::Obj(o) => {
            let mut kv: Vec<(Val, Val)> = o.iter().map(|(k, v)| (sort_keys_deep(k), sort_keys_deep(v))).collect();
            kv.sort_by(|a, b| a.0.cmp(&b.0));
            Val::obj(kv.into_iter().collect())
        }
        v => v.clone(),
    }
}

fn oracle(tier: &str) {
    let mut rng = Rng::new(prng::seed_from_env() ^ 0x0c07);
    let mut vals: Vec<Val> = vec![];
    for s in content_strings(tier) {
        vals.push(tstr(&s));
        vals.push(bstr(&s));
    }
    for f in edge_floats(tier, &mut rng) {
        vals.push(float(f));
    }
    vals.extend(num_pool());
    vals.extend(small_trees(tier));
    for _ in 0..(if tier == "thorough" { 20000 } else { 2000 }) {
        vals.push(rand_val(&mut rng, 3));
    }
    let tojson_fromjson = compile("tojson | fromjson").unwrap();
    let ppc = pp_of("c");
    let (mut n, mut bad) = (0usize, 0usize);
    for v in &vals {
        // through the filters
        n += 1;
        let items = run(&tojson_fromjson, v.clone(), 3);
        let ok = match &items[..] {
            [Item::Val(back)] => same_after_roundtrip(v, back) && real_write(&ppc, back) == real_write(&ppc, v),
            _ => false,
        };
        if !ok {
            bad += 1;
            println!("ORACLE FAIL\tfilters\t{}\t{}", vx::enc(v), enc_items(&items));
        }
        // through writer and reader with every option
        let is_tree = matches!(v, Val::Arr(_) | Val::Obj(_));
        let specs: &[&str] = if is_tree { &PP_SPECS } else { &["c", "i2"] };
        for spec in specs {
            n += 1;
            let pp = pp_of(spec);
            let w = real_write(&pp, v);
            let want = if pp.sort_keys { sort_keys_deep(v) } else { v.clone() };
            let back = jaq_json::read::parse_single(&w);
            let ok = match &back {
                Ok(back) => same_after_roundtrip(&want, back) && real_write(&pp, back) == w,
                Err(_) => false,
            };
            if !ok {
                bad += 1;
                let got = back.map(|b| vx::enc_canon(&b)).unwrap_or_else(|e| format!("ERR {e}"));
                println!("ORACLE FAIL\twrite-{spec}\t{}\t{}\t{}", vx::enc(v), vx::hex(&w), got.replace(['\t', '\n'], " "));
            }
        }
        // contract of the float printer (parameter of the model): parses back to the same bits, and is a non-integer literal
        if let Val::Num(Num::Float(f)) = v {
            if f.is_finite() {
                n += 1;
                let s = String::from_utf8(real_write(&ppc, v)).unwrap();
                let ok = s.parse::<f64>().map_or(false, |g| g.to_bits() == f.to_bits())
                    && matches!(jaq_json::read::parse_single(s.as_bytes()), Ok(Val::Num(Num::Dec(d))) if *d == s);
                if !ok {
                    bad += 1;
                    println!("ORACLE FAIL\tryu-contract\t{}\t{}", vx::enc(v), s);
                }
            }
        }
    }
    println!("ORACLE SUMMARY\t{n}\t{bad}");
}

/// every decimal literal replaced by the double that arithmetic converts it to (`Num::from_dec_str`)
fn calc(v: &Val) -> Val {
    match v {
        Val::Num(Num::Dec(d)) => Val::Num(Num::from_dec_str(d)),
        Val::Arr(a) => a.iter().map(calc).collect(),
        Val::Obj(o) => Val::obj(o.iter().map(|(k, v)| (calc(k), calc(v))).collect()),
        v => v.clone(),
    }
}

fn read_stdin() {
    use std::io::BufRead;
    for (i, l) in std::io::stdin().lock().lines().enumerate() {
        let l = l.unwrap();
        let Some(t) = vx::unhex(l.trim()) else { continue };
        let many = real_read("many", &t);
        let calcd = show_vals(jaq_json::read::parse_many(&t).map(|r| r.map(|v| calc(&v)).map_err(|e| e.to_string())));
        println!("py{i}\tc07.read many {}\t{many}\t{calcd}", vx::hex(&t));
    }
}

fn cli_values(tier: &str) {
    let mut rng = Rng::new(prng::seed_from_env() ^ 0xc11);
    let mut vals = small_trees(tier);
    for s in content_strings("quick").iter().step_by(7) {
        vals.push(tstr(s));
        vals.push(bstr(s));
    }
    for f in edge_floats("quick", &mut rng).iter().step_by(11) {
        vals.push(float(*f));
    }
    vals.extend(num_pool());
    for _ in 0..300 {
        vals.push(rand_val(&mut rng, 3));
    }
    for v in vals {
        println!("{}\t{}", vx::enc(&v), vx::hex(&real_write(&pp_of("c"), &v)));
    }
}

pub fn main(args: &[String]) {
    let tier = std::env::var("VERIF_TIER").unwrap_or_else(|_| "quick".into());
    match args.first().map(|s| s.as_str()) {
        Some("tables") => tables(),
        Some("gen") => gen(&tier),
        Some("oracle") => oracle(&tier),
        Some("read-stdin") => read_stdin(),
        Some("cli-values") => cli_values(&tier),
        _ => {
            eprintln!("usage: jaqverif c07 tables|gen|oracle|read-stdin|cli-values");
            std::process::exit(2);
        }
    }
}
