//! C01 — compiled filters compute the manual's semantics.
//!   prelude : prints the s-expression of the prelude definitions (`<n> def*`)
//!   gen     : prints `id \t kind \t code-hex \t s-expression \t input-vx` for generated programs
//!             (exhaustive small scope over the binder alphabet, seeded random, manual examples);
//!             the s-expression is printed from the REAL parser's `parse::Term` of the code
//!   run     : stdin `id \t code-hex \t input-vx \t limit` → `id \t real outcome`
//!             (real `Loader::load → Compiler::compile → filter.id.run`, item by item)
//!   table   : stdin `id \t code-hex` → `id \t Debug of every compiled term` (structural part)
use super::common::*;
use super::prng::{self, Rng};
use super::vx;
use jaq_core::load::lex::StrPart;
use jaq_core::load::parse::{BinaryOp, Def, Pattern, Term};
use jaq_core::path::{Opt, Part};
use jaq_core::ops;
use jaq_json::Val;
use std::collections::HashMap;
use std::io::BufRead;
use std::rc::Rc;

/// Definitions the programs of C01 are compiled with (module 0).  Taken verbatim from
/// `jaq-core/src/defs.jq` / `jaq-std/src/defs.jq`; every body lies in the modelled core
/// language and needs no native except `error_empty`.
pub const PRELUDE: &str = r#"
def empty: {}[] as $x | .;
def error: error_empty as $x | .;
def error(msgs): (msgs | error_empty) as $x | .;
def null: [][0];
def true: 0 == 0;
def false: 0 != 0;
def not: if . then false else true end;
def select(f): if f then . else empty end;
def tostring: "\(.)";
def repeat(f): def rec: f, rec; rec;
def recurse(f): def rec: ., (f | rec); rec;
def recurse: recurse(.[]?);
def while(cond; update): def rec: if cond then ., (update | rec) else empty end; rec;
def until(cond; update): def rec: if cond then . else update | rec end; rec;
def map(f): [.[] | f];
def first: .[0];
def last: .[-1];
def nth(n): .[n];
"#;

fn prelude_defs() -> Vec<Def<&'static str>> {
    jaq_core::load::parse(PRELUDE, |p| p.defs()).expect("prelude parses")
}

fn hx(s: &str) -> String {
    format!("x{}", vx::hex(s.as_bytes()))
}

// ---------------------------------------------------------------- s-expression printer
fn sx_opt(t: &Option<Box<Term<&str>>>, out: &mut Vec<String>) {
    match t {
        None => out.push("0".into()),
        Some(t) => {
            out.push("1".into());
            sx(t, out)
        }
    }
}
fn sx_opt2(t: &Option<Term<&str>>, out: &mut Vec<String>) {
    match t {
        None => out.push("0".into()),
        Some(t) => {
            out.push("1".into());
            sx(t, out)
        }
    }
}

fn sx_pat(p: &Pattern<&str>, out: &mut Vec<String>) {
    match p {
        Pattern::Var(x) => {
            out.push("pv".into());
            out.push(hx(x))
        }
        Pattern::Arr(ps) => {
            out.push("pa".into());
            out.push(ps.len().to_string());
            ps.iter().for_each(|p| sx_pat(p, out))
        }
        Pattern::Obj(kps) => {
            out.push("po".into());
            out.push(kps.len().to_string());
            for (k, p) in kps {
                sx(k, out);
                sx_pat(p, out)
            }
        }
    }
}

fn sx_def(d: &Def<&str>, out: &mut Vec<String>) {
    out.push("def".into());
    out.push(hx(d.name));
    out.push(d.args.len().to_string());
    d.args.iter().for_each(|a| out.push(hx(a)));
    sx(&d.body, out)
}

fn math_name(op: &ops::Math) -> &'static str {
    match op {
        ops::Math::Add => "add",
        ops::Math::Sub => "sub",
        ops::Math::Mul => "mul",
        ops::Math::Div => "div",
        ops::Math::Rem => "rem",
    }
}

pub fn sx(t: &Term<&str>, out: &mut Vec<String>) {
    match t {
        Term::Id => out.push("id".into()),
        Term::Recurse => out.push("rec".into()),
        Term::Num(n) => {
            out.push("num".into());
            out.push(hx(n))
        }
        Term::Str(fmt, parts) => {
            out.push("str".into());
            out.push(fmt.map_or("-".into(), hx));
            out.push(parts.len().to_string());
            for p in parts {
                match p {
                    StrPart::Str(s) => {
                        out.push("L".into());
                        out.push(hx(s))
                    }
                    StrPart::Char(c) => {
                        out.push("L".into());
                        out.push(hx(&c.to_string()))
                    }
                    StrPart::Term(t) => {
                        out.push("T".into());
                        sx(t, out)
                    }
                }
            }
        }
        Term::Arr(None) => out.push("arr0".into()),
        Term::Arr(Some(t)) => {
            out.push("arr1".into());
            sx(t, out)
        }
        Term::Obj(kvs) => {
            out.push("obj".into());
            out.push(kvs.len().to_string());
            for (k, v) in kvs {
                sx(k, out);
                sx_opt2(v, out)
            }
        }
        Term::Neg(t) => {
            out.push("neg".into());
            sx(t, out)
        }
        Term::BinOp(l, BinaryOp::Pipe(pat), r) => {
            out.push("pipe".into());
            sx(l, out);
            match pat {
                None => out.push("0".into()),
                Some(p) => {
                    out.push("1".into());
                    sx_pat(p, out)
                }
            }
            sx(r, out)
        }
        Term::BinOp(l, op, r) => {
            out.push("bin".into());
            let name: String = match op {
                BinaryOp::Comma => "comma".into(),
                BinaryOp::Alt => "alt".into(),
                BinaryOp::Or => "or".into(),
                BinaryOp::And => "and".into(),
                BinaryOp::Math(m) => math_name(m).into(),
                BinaryOp::Cmp(c) => match c {
                    ops::Cmp::Lt => "lt",
                    ops::Cmp::Le => "le",
                    ops::Cmp::Gt => "gt",
                    ops::Cmp::Ge => "ge",
                    ops::Cmp::Eq => "eq",
                    ops::Cmp::Ne => "ne",
                }
                .into(),
                BinaryOp::Assign => "assign".into(),
                BinaryOp::Update => "update".into(),
                BinaryOp::UpdateMath(m) => format!("u{}", math_name(m)),
                BinaryOp::UpdateAlt => "ualt".into(),
                BinaryOp::Pipe(_) => unreachable!(),
            };
            out.push(name);
            sx(l, out);
            sx(r, out)
        }
        Term::Label(x, t) => {
            out.push("label".into());
            out.push(hx(x));
            sx(t, out)
        }
        Term::Break(x) => {
            out.push("brk".into());
            out.push(hx(x))
        }
        Term::Fold(name, xs, pat, args) => {
            out.push("fold".into());
            out.push(hx(name));
            sx(xs, out);
            sx_pat(pat, out);
            out.push(args.len().to_string());
            args.iter().for_each(|a| sx(a, out))
        }
        Term::TryCatch(t, c) => {
            out.push("try".into());
            sx(t, out);
            sx_opt(c, out)
        }
        Term::IfThenElse(its, e) => {
            out.push("ite".into());
            out.push(its.len().to_string());
            for (c, t) in its {
                sx(c, out);
                sx(t, out)
            }
            sx_opt(e, out)
        }
        Term::Def(ds, t) => {
            out.push("defs".into());
            out.push(ds.len().to_string());
            ds.iter().for_each(|d| sx_def(d, out));
            sx(t, out)
        }
        Term::Call(name, args) => {
            out.push("call".into());
            out.push(hx(name));
            out.push(args.len().to_string());
            args.iter().for_each(|a| sx(a, out))
        }
        Term::Var(x) => {
            out.push("var".into());
            out.push(hx(x))
        }
        Term::Path(t, path) => {
            out.push("path".into());
            sx(t, out);
            out.push(path.0.len().to_string());
            for (part, opt) in &path.0 {
                match part {
                    Part::Index(i) => {
                        out.push("idx".into());
                        sx(i, out)
                    }
                    Part::Range(a, b) => {
                        out.push("rng".into());
                        sx_opt2(a, out);
                        sx_opt2(b, out)
                    }
                }
                out.push(match opt {
                    Opt::Optional => "?".into(),
                    Opt::Essential => "!".into(),
                })
            }
        }
    }
}

fn sexpr_of_code(code: &str) -> Option<String> {
    let t: Option<Term<&str>> = jaq_core::load::parse(code, |p| p.term());
    let t = t?;
    let mut out = Vec::new();
    sx(&t, &mut out);
    Some(out.join(" "))
}

fn prelude_sexpr() -> String {
    let ds = prelude_defs();
    // `Loader::new` puts `def !empty: {}[];` (`Term::empty()`) in front of the prelude
    let mut out = vec![(ds.len() + 1).to_string()];
    out.push(format!("def {} 0 path obj 0 1 rng 0 0 !", hx("!empty")));
    ds.iter().for_each(|d| sx_def(d, &mut out));
    out.join(" ")
}

// ---------------------------------------------------------------- real compile / run
type Filter = jaq_all::data::Filter;

fn compile_real(code: &str) -> Result<Filter, String> {
    let funs = jaq_core::funs::<jaq_all::data::DataKind>().filter(|(name, _, _)| *name == "error_empty");
    jaq_all::compile_with(code, prelude_defs().into_iter(), funs, &[]).map_err(|e| format!("{} reports", e.len()))
}

fn enc_real(items: &[Item]) -> String {
    let v: Vec<String> = items
        .iter()
        .map(|i| match i {
            Item::Val(v) => format!("V {}", vx::enc_canon(v)),
            Item::Err(e) => format!("E {}", vx::enc_canon(e)),
            Item::Exn(s) => {
                if s.contains("Break") {
                    "X brk".into()
                } else if s.contains("TailCall") {
                    "X tailcall".into()
                } else {
                    format!("X {}", s.replace([' ', '\n', '\t'], "_"))
                }
            }
        })
        .collect();
    if v.is_empty() {
        "-".into()
    } else {
        v.join(" ; ")
    }
}

fn run_real(cache: &mut Option<(String, Result<Filter, String>)>, code: &str, input: Val, limit: usize) -> String {
    // consecutive cases share the program: compile once
    if cache.as_ref().map(|(c, _)| c.as_str()) != Some(code) {
        let f = catch(|| compile_real(code)).unwrap_or_else(|p| Err(format!("PANIC {}", p.replace(['\t', '\n'], " "))));
        *cache = Some((code.to_string(), f));
    }
    match &cache.as_ref().unwrap().1 {
        Err(e) if e.starts_with("PANIC") => e.clone(),
        Err(_) => "C".to_string(),
        Ok(f) => match catch(|| enc_real(&run(f, input, limit))) {
            Ok(s) => s,
            Err(p) => format!("PANIC {}", p.replace(['\t', '\n'], " ")),
        },
    }
}

/// Debug text of the compiled table through the hook `Filter::verif_terms` (`--cfg jaq_verif`):
/// `<entry> ;; <term 0> ;; <term 1> …`
fn table_real(code: &str) -> String {
    match compile_real(code) {
        Err(_) => "C".into(),
        Ok(f) => {
            let mut v = vec![f.verif_entry().to_string()];
            v.extend(f.verif_terms());
            v.join(" ;; ")
        }
    }
}

// ---------------------------------------------------------------- program generators (jq text)
#[derive(Clone, PartialEq, Eq, Hash, PartialOrd, Ord, Debug)]
struct Scope {
    vars: Vec<&'static str>,
    labels: Vec<&'static str>,
    /// callable name, kinds of parameters (true = `$`-parameter)
    funs: Vec<(&'static str, Vec<bool>)>,
}

fn add_uniq<T: PartialEq + Ord>(v: &mut Vec<T>, x: T) {
    if !v.contains(&x) {
        v.push(x);
        v.sort();
    }
}

impl Scope {
    fn empty() -> Self {
        Scope { vars: vec![], labels: vec![], funs: vec![] }
    }
    fn with_var(&self, x: &'static str) -> Self {
        let mut s = self.clone();
        add_uniq(&mut s.vars, x);
        s
    }
    fn with_label(&self, x: &'static str) -> Self {
        let mut s = self.clone();
        add_uniq(&mut s.labels, x);
        s
    }
    /// a new callable shadows every visible one with the same name *and arity*
    fn with_fun(&self, f: &'static str, kinds: Vec<bool>) -> Self {
        let mut s = self.clone();
        s.funs.retain(|(g, k)| !(*g == f && k.len() == kinds.len()));
        s.funs.push((f, kinds));
        s.funs.sort();
        s
    }
}

struct Enum {
    memo: HashMap<(usize, Scope), Rc<Vec<String>>>,
}

const XV: [&str; 2] = ["$x", "$y"];
const FN: [&str; 2] = ["f", "g"];

impl Enum {
    /// all programs with exactly `n` nodes over the binder alphabet of DESIGN §13, well-scoped in `sc`
    fn all(&mut self, n: usize, sc: &Scope) -> Rc<Vec<String>> {
        if let Some(r) = self.memo.get(&(n, sc.clone())) {
            return r.clone();
        }
        let mut out: Vec<String> = Vec::new();
        if n == 1 {
            out.push(".".into());
            out.push("1".into());
            out.push("empty".into());
            out.push("error".into());
            for x in &sc.vars {
                out.push(x.to_string());
            }
            for x in &sc.labels {
                out.push(format!("break {x}"));
            }
            for (f, k) in &sc.funs {
                if k.is_empty() {
                    out.push(f.to_string());
                }
            }
        } else {
            // unary
            for a in self.all(n - 1, sc).iter() {
                out.push(format!("[{a}]"));
                out.push(format!("-({a})"));
                out.push(format!("try ({a})"));
                for (f, k) in &sc.funs {
                    if k.len() == 1 {
                        out.push(format!("{f}({a})"));
                    }
                }
            }
            for x in XV {
                for a in self.all(n - 1, &sc.with_label(x)).iter() {
                    out.push(format!("(label {x} | {a})"));
                }
            }
            // binary
            for i in 1..n - 1 {
                let j = n - 1 - i;
                let ls = self.all(i, sc);
                let rs = self.all(j, sc);
                for l in ls.iter() {
                    for r in rs.iter() {
                        for op in ["|", ",", "+", "-", "//", "and"] {
                            out.push(format!("({l} {op} {r})"));
                        }
                        out.push(format!("try ({l}) catch ({r})"));
                    }
                }
                for x in XV {
                    let rs = self.all(j, &sc.with_var(x));
                    for l in ls.iter() {
                        for r in rs.iter() {
                            out.push(format!("({l} as {x} | {r})"));
                        }
                    }
                }
                // definitions: body has i nodes, continuation j
                for f in FN {
                    for (param, kinds) in [(None, vec![]), (Some("g"), vec![false]), (Some("$x"), vec![true])] {
                        let self_sc = sc.with_fun(f, kinds.clone());
                        let body_sc = match param {
                            None => self_sc.clone(),
                            Some(p) if p.starts_with('$') => self_sc.with_var("$x"),
                            Some(p) => self_sc.with_fun(if p == "g" { "g" } else { "f" }, vec![]),
                        };
                        let bs = self.all(i, &body_sc);
                        let rs = self.all(j, &self_sc);
                        let head = match param {
                            None => format!("def {f}:"),
                            Some(p) => format!("def {f}({p}):"),
                        };
                        for b in bs.iter() {
                            for r in rs.iter() {
                                out.push(format!("({head} {b}; {r})"));
                            }
                        }
                    }
                }
            }
            // ternary: if / reduce / foreach
            if n >= 4 {
                for i in 1..n - 2 {
                    for j in 1..n - 1 - i {
                        let k = n - 1 - i - j;
                        if k < 1 {
                            continue;
                        }
                        let (a, b, c) = (self.all(i, sc), self.all(j, sc), self.all(k, sc));
                        for x in a.iter() {
                            for y in b.iter() {
                                for z in c.iter() {
                                    out.push(format!("if {x} then {y} else {z} end"));
                                }
                            }
                        }
                        for v in XV {
                            let c2 = self.all(k, &sc.with_var(v));
                            for x in a.iter() {
                                for y in b.iter() {
                                    for z in c2.iter() {
                                        out.push(format!("reduce ({x}) as {v} ({y}; {z})"));
                                        out.push(format!("foreach ({x}) as {v} ({y}; {z})"));
                                    }
                                }
                            }
                        }
                    }
                }
            }
        }
        let r = Rc::new(out);
        self.memo.insert((n, sc.clone()), r.clone());
        r
    }
}

const RV: [&str; 3] = ["$x", "$y", "$z"];
const RF: [&str; 3] = ["f", "g", "h"];

/// seeded random program with about `n` nodes from the scope- and arity-aware grammar
fn rgen(rng: &mut Rng, n: usize, sc: &Scope, depth: usize) -> String {
    if n <= 1 || depth > 12 {
        let mut leaves: Vec<String> = vec![".".into(), "0".into(), "1".into(), "2".into(), "\"a\"".into(), "\"b\"".into(),
                                           "empty".into(), "error".into(), "null".into(), "[]".into(), ".[]?".into(), ".[0]".into(), ".a".into()];
        if rng.chance(1, 12) {
            leaves.push("..".into());
        }
        // bound names are preferred so that binder bookkeeping is exercised
        for _ in 0..3 {
            for x in &sc.vars {
                leaves.push(x.to_string());
            }
            for x in &sc.labels {
                leaves.push(format!("break {x}"));
            }
            for (f, k) in &sc.funs {
                if k.is_empty() {
                    leaves.push(f.to_string());
                }
            }
        }
        return rng.pick(&leaves).clone();
    }
    let m = n - 1;
    let split2 = |rng: &mut Rng| {
        let i = 1 + rng.below(m.max(2) - 1);
        (i, m.saturating_sub(i).max(1))
    };
    let d = depth + 1;
    match rng.below(30) {
        0 | 1 => {
            let (i, j) = split2(rng);
            format!("({} | {})", rgen(rng, i, sc, d), rgen(rng, j, sc, d))
        }
        2 | 3 => {
            let (i, j) = split2(rng);
            format!("({}, {})", rgen(rng, i, sc, d), rgen(rng, j, sc, d))
        }
        4 | 5 => {
            let (i, j) = split2(rng);
            let op = *rng.pick(&["+", "-", "+", "-", "*", "%", "<", "==", "!=", ">="]);
            format!("({} {op} {})", rgen(rng, i, sc, d), rgen(rng, j, sc, d))
        }
        6 | 7 | 8 => {
            let (i, j) = split2(rng);
            let x = *rng.pick(&RV);
            format!("({} as {x} | {})", rgen(rng, i, sc, d), rgen(rng, j, &sc.with_var(x), d))
        }
        9 => {
            // destructuring
            let (i, j) = split2(rng);
            let (x, y) = (*rng.pick(&RV), *rng.pick(&RV));
            let outer: String = if !sc.vars.is_empty() && rng.chance(2, 3) {
                rng.pick(&sc.vars).to_string()
            } else if let Some((f, _)) = sc.funs.iter().find(|(_, k)| k.is_empty()) {
                f.to_string()
            } else {
                "\"a\", \"b\"".to_string()
            };
            let pat = match rng.below(9) {
                5 => format!("{{a: {x}, b: {{({outer}): {y}}}}}"),
                6 => format!("[{x}, {{({outer}): {y}}}]"),
                7 => format!("{{b: [{x}, {{a: {y}, ({outer}): {x}}}]}}"),
                8 => format!("{{{x}, (.a, {outer}): [{y}]}}"),
                0 => format!("[{x}, {y}]"),
                1 => format!("{{a: {x}, b: {y}}}"),
                2 => format!("[{x}, [{y}]]"),
                3 => format!("{{(\"a\", \"b\"): {x}}}"),
                _ => format!("{{{x}, a: [{y}]}}"),
            };
            let sc2 = sc.with_var(x).with_var(y);
            let sc2 = if pat.contains('(') && !pat.contains(y) { sc.with_var(x) } else { sc2 };
            format!("({} as {pat} | {})", rgen(rng, i, sc, d), rgen(rng, j, &sc2, d))
        }
        10 => format!("[{}]", rgen(rng, m, sc, d)),
        11 => format!("-({})", rgen(rng, m, sc, d)),
        12 => {
            let (i, j) = split2(rng);
            let op = *rng.pick(&["//", "and", "or"]);
            format!("({} {op} {})", rgen(rng, i, sc, d), rgen(rng, j, sc, d))
        }
        13 => {
            if rng.chance(1, 2) {
                format!("try ({})", rgen(rng, m, sc, d))
            } else {
                let (i, j) = split2(rng);
                format!("try ({}) catch ({})", rgen(rng, i, sc, d), rgen(rng, j, sc, d))
            }
        }
        14 | 15 => {
            let x = *rng.pick(&RV);
            format!("(label {x} | {})", rgen(rng, m, &sc.with_label(x), d))
        }
        16 => {
            let i = 1 + rng.below(m.max(3) / 3 + 1);
            let j = 1 + rng.below(m.max(3) / 3 + 1);
            let k = m.saturating_sub(i + j).max(1);
            match rng.below(4) {
                0 => format!("if {} then {} end", rgen(rng, i, sc, d), rgen(rng, j + k, sc, d)),
                1 => format!("if {} then {} elif {} then 1 else {} end", rgen(rng, i, sc, d), rgen(rng, j, sc, d), rgen(rng, 1, sc, d), rgen(rng, k, sc, d)),
                _ => format!("if {} then {} else {} end", rgen(rng, i, sc, d), rgen(rng, j, sc, d), rgen(rng, k, sc, d)),
            }
        }
        17 | 18 => {
            let i = 1 + rng.below(m.max(3) / 3 + 1);
            let j = 1 + rng.below(m.max(3) / 3 + 1);
            let k = m.saturating_sub(i + j).max(1);
            let x = *rng.pick(&RV);
            let sc2 = sc.with_var(x);
            match rng.below(3) {
                0 => format!("reduce ({}) as {x} ({}; {})", rgen(rng, i, sc, d), rgen(rng, j, sc, d), rgen(rng, k, &sc2, d)),
                1 => format!("foreach ({}) as {x} ({}; {})", rgen(rng, i, sc, d), rgen(rng, j, sc, d), rgen(rng, k, &sc2, d)),
                _ => format!("foreach ({}) as {x} ({}; {}; {})", rgen(rng, i, sc, d), rgen(rng, j, sc, d), rgen(rng, k / 2 + 1, &sc2, d), rgen(rng, k / 2 + 1, &sc2, d)),
            }
        }
        19 | 20 | 21 | 22 => {
            // definition with 0..3 parameters of mixed kinds, then the continuation
            let (i, j) = split2(rng);
            let f = *rng.pick(&RF);
            let np = *rng.pick(&[0usize, 0, 1, 1, 1, 2, 2, 3]);
            let mut params: Vec<&'static str> = Vec::new();
            for _ in 0..np {
                let p = if rng.chance(1, 2) { *rng.pick(&RV) } else { *rng.pick(&RF) };
                params.push(p);
            }
            let kinds: Vec<bool> = params.iter().map(|p| p.starts_with('$')).collect();
            let self_sc = sc.with_fun(f, kinds);
            let mut body_sc = self_sc.clone();
            for p in &params {
                body_sc = if p.starts_with('$') { body_sc.with_var(p) } else { body_sc.with_fun(p, vec![]) };
            }
            let head = if params.is_empty() { format!("def {f}:") } else { format!("def {f}({}):", params.join("; ")) };
            format!("({head} {}; {})", rgen(rng, i, &body_sc, d), rgen(rng, j, &self_sc, d))
        }
        23 | 24 | 25 | 26 => {
            // call of something visible (with arguments generated in the caller's scope)
            let cands: Vec<(&'static str, Vec<bool>)> = sc.funs.iter().filter(|(_, k)| !k.is_empty()).cloned().collect();
            if cands.is_empty() {
                let pre = *rng.pick(&["select", "map", "recurse", "not", "first", "tostring", "error"]);
                match pre {
                    "select" | "map" | "error" => format!("{pre}({})", rgen(rng, m, sc, d)),
                    // bounded: counts up to 2 from numbers and null, stops at once on anything else
                    "recurse" => format!("([recurse(select(. < 2) | . + 1)] | {})", rgen(rng, m, sc, d)),
                    _ => format!("({} | {pre})", rgen(rng, m, sc, d)),
                }
            } else {
                let (f, k) = rng.pick(&cands).clone();
                let per = (m / k.len()).max(1);
                let args: Vec<String> = k.iter().map(|_| rgen(rng, per, sc, d)).collect();
                format!("{f}({})", args.join("; "))
            }
        }
        27 => {
            let (i, j) = split2(rng);
            match rng.below(4) {
                0 => format!("{{a: {}, b: {}}}", rgen(rng, i, sc, d), rgen(rng, j, sc, d)),
                1 => format!("{{({}): {}}}", rgen(rng, i, sc, d), rgen(rng, j, sc, d)),
                2 => format!("\"a\\({})b\\({})\"", rgen(rng, i, sc, d), rgen(rng, j, sc, d)),
                _ => match sc.vars.first() {
                    Some(x) => format!("{{{x}, a: {}}}", rgen(rng, m, sc, d)),
                    None => format!("{{a}}"),
                },
            }
        }
        _ => {
            let (i, j) = split2(rng);
            match rng.below(7) {
                5 => format!("({})[{}:{}]", rgen(rng, i, sc, d), rgen(rng, j / 2 + 1, sc, d), rgen(rng, j / 2 + 1, sc, d)),
                6 => format!("({})[{}:{}]?[{}]", rgen(rng, i, sc, d), rgen(rng, j / 3 + 1, sc, d), rgen(rng, j / 3 + 1, sc, d), rgen(rng, j / 3 + 1, sc, d)),
                0 => format!("({})[{}]", rgen(rng, i, sc, d), rgen(rng, j, sc, d)),
                1 => format!("({})[{}:]", rgen(rng, i, sc, d), rgen(rng, j, sc, d)),
                2 => format!("({})[{}]?[]", rgen(rng, i, sc, d), rgen(rng, j, sc, d)),
                3 => format!("({})[{}][{}]", rgen(rng, i, sc, d), rgen(rng, j / 2 + 1, sc, d), rgen(rng, j / 2 + 1, sc, d)),
                _ => format!("({})[:{}]", rgen(rng, i, sc, d), rgen(rng, j, sc, d)),
            }
        }
    }
}


/// destructuring patterns of depth >= 2 with computed keys `(f)` that mention names bound OUTSIDE the
/// pattern (`$k`, the filter argument `f`, `.`-relative keys), placed after earlier variable entries of
/// the same pattern (some of which rebind `$k`), in `as`, `reduce`, `foreach` (2 and 3 arguments).
/// Rule under test: every key filter, nested or not, runs in the context outside the whole pattern.
fn pattern_programs(rng: &mut Rng, nrand: usize) -> Vec<String> {
    const OBJ: &str = r#"{"k":"b","a":"c","b":"a","n":{"a":1,"b":2,"c":[3,{"a":4,"b":5}]}}"#;
    const ARR: &str = r#"[["x"],{"a":1,"b":2,"c":{"a":6,"b":7}},"b"]"#;
    let ents: Vec<(&str, Vec<&str>)> = vec![
        ("k: $x", vec!["$x"]),
        ("$a", vec!["$a"]),
        ("b: $k", vec!["$k"]),
        ("k: $k", vec!["$k"]),
        ("n: {($k): $y}", vec!["$y"]),
        ("n: {(f): $y}", vec!["$y"]),
        ("n: {($k, f): $y}", vec!["$y"]),
        ("n: {a: $y, ($k): $w}", vec!["$y", "$w"]),
        ("n: {b: $k, ($k): $w}", vec!["$k", "$w"]),
        ("($k): $z", vec!["$z"]),
        ("(f): $z", vec!["$z"]),
        ("(.b): $z", vec!["$z"]),
        ("(.k, $k): $z", vec!["$z"]),
        ("n: {c: [$p, {($k): $q}]}", vec!["$p", "$q"]),
        ("n: {c: [$k, {($k): $q}]}", vec!["$k", "$q"]),
        ("n: {c: [$p, {(f): $q, ($k): $r}]}", vec!["$p", "$q", "$r"]),
        ("n: {(.c[1].b | if . == 5 then \"b\" else \"a\" end): $y}", vec!["$y"]),
        ("n: {c: [$p, {a: $q, (\"a\", $k, f): $r}]}", vec!["$p", "$q", "$r"]),
    ];
    let arrs: Vec<(&str, Vec<&str>)> = vec![
        ("[$p, {($k): $q}]", vec!["$p", "$q"]),
        ("[$k, {($k): $q}, $r]", vec!["$k", "$q", "$r"]),
        ("[$p, {(f): $q, ($k): $r}]", vec!["$p", "$q", "$r"]),
        ("[[$p], {a: $q, c: {($k): $r}}]", vec!["$p", "$q", "$r"]),
        ("[[$k], {c: {b: $q, ($k): $r}}, $s]", vec!["$k", "$q", "$r", "$s"]),
        ("[$p, {c: {($k, f): $q}}]", vec!["$p", "$q"]),
    ];
    let mut pats: Vec<(String, Vec<&str>, &str)> = Vec::new();
    for (i, (a, va)) in ents.iter().enumerate() {
        for (j, (b, vb)) in ents.iter().enumerate() {
            if i != j {
                let mut vs = va.clone();
                vs.extend(vb.iter());
                pats.push((format!("{{{a}, {b}}}"), vs, OBJ));
            }
        }
    }
    for _ in 0..nrand {
        let mut vs = Vec::new();
        let mut es = Vec::new();
        for _ in 0..3 {
            let (a, va) = rng.pick(&ents);
            es.push(*a);
            vs.extend(va.iter().cloned());
        }
        pats.push((format!("{{{}}}", es.join(", ")), vs, OBJ));
    }
    for (a, va) in &arrs {
        pats.push((a.to_string(), va.clone(), ARR));
    }
    let mut out = Vec::new();
    for (n, (pat, vs, val)) in pats.iter().enumerate() {
        let mut vars: Vec<&str> = vs.clone();
        vars.sort();
        vars.dedup();
        if !vars.contains(&"$k") {
            vars.push("$k");
        }
        let body = format!("[{}]", vars.join(", "));
        let binds = [
            format!("{val} as {pat} | {body}"),
            format!("reduce ({val}) as {pat} (0; {body})"),
            format!("foreach ({val}, {val}) as {pat} (0; . + 1; [., {body}])"),
            format!("foreach ({val}) as {pat} (0; {body})"),
        ];
        // all four binder forms for a part of the stream, one (rotating) for the rest
        for (b, bind) in binds.iter().enumerate() {
            if n % 5 == 0 || b == n % 4 {
                out.push(format!("\"a\" as $k | def g(f): {bind}; g(\"b\")"));
            }
        }
    }
    out
}


/// paths with multi-valued / failing / empty index filters in every part kind (`f[x]`, `f[x:y]`, `f[x:]`,
/// `f[:y]`, two parts, with `?`), also mentioning an outer variable and a filter argument: the order of the
/// loops of `Path::explode` / `Part::into_iter` and the place where an index filter's error surfaces.
fn index_programs() -> Vec<String> {
    const ARR: &str = "[[0,1,2,3],[4,5,6,7],[8,9]]";
    let atoms = ["0", "1", "(0, 1)", "(1, 0)", "(2, 3)", "empty", "error", "(1, error)", "$i", "f", "($i, f)", "(-1, 1)"];
    let mut out = Vec::new();
    let wrap = |body: String| format!("1 as $i | def g(f): {body}; g(2, 0)");
    for a in atoms {
        for b in atoms {
            out.push(wrap(format!("{ARR}[0][{a}:{b}]")));
            out.push(wrap(format!("{ARR}[{a}][{b}]")));
            out.push(wrap(format!("[{ARR}[{a}:{b}][{a}]?]")));
            out.push(wrap(format!("\"abcdef\"[{a}:{b}]")));
        }
        out.push(wrap(format!("{ARR}[{a}]")));
        out.push(wrap(format!("{ARR}[{a}:][0]")));
        out.push(wrap(format!("{ARR}[:{a}][]")));
        out.push(wrap(format!("[{ARR}[{a}]?[1:{a}]]")));
        out.push(wrap(format!("{ARR}[][{a}:(3, 2)]")));
    }
    out
}

/// programs of the manual: every `code --> outputs` span of docs/*.dj
fn manual_examples() -> Vec<String> {
    let mut out = Vec::new();
    let repo = std::env::var("JAQ_REPO").unwrap_or_else(|_| "/repo".into());
    for name in ["corelang.dj", "advanced.dj", "stdlib.dj", "formats.dj", "cli.dj"] {
        let Ok(text) = std::fs::read_to_string(format!("{repo}/docs/{name}")) else { continue };
        // inline spans `… --> …`
        let mut rest = text.as_str();
        while let Some(i) = rest.find('`') {
            let after = &rest[i + 1..];
            let Some(j) = after.find('`') else { break };
            let span = &after[..j];
            if !span.starts_with("``") {
                if let Some(k) = span.find("-->") {
                    let code = span[..k].trim().replace('\n', " ");
                    if !code.is_empty() && code.len() < 300 {
                        out.push(code);
                    }
                }
            }
            rest = &after[j + 1..];
        }
    }
    out.sort();
    out.dedup();
    out
}

/// text-level single-point mutations of a manual example
fn mutate(rng: &mut Rng, code: &str) -> String {
    match rng.below(6) {
        0 => format!("def f: {code}; f"),
        1 => format!("1 as $x | ({code})"),
        2 => format!("def f(g): g; f({code})"),
        3 => format!("label $x | ({code}), break $x, 1"),
        4 => format!("[({code}), 1] | .[]"),
        _ => format!("try ({code}) catch ."),
    }
}

fn inputs(tier: &str) -> Vec<Val> {
    let mut v = vec![Val::Null, int(1), arr(vec![int(0), tstr(b"a")])];
    if tier == "thorough" {
        v.push(obj(vec![(tstr(b"a"), int(2)), (tstr(b"b"), arr(vec![int(1)]))]));
        v.push(tstr(b"ab"));
    }
    v
}

fn emit(id: &mut usize, kind: &str, code: &str, ins: &[Val]) {
    let Some(sx) = sexpr_of_code(code) else {
        eprintln!("c01 gen: real parser rejects `{code}`");
        return;
    };
    for i in ins {
        println!("{kind}{id}\t{kind}\t{}\t{sx}\t{}", vx::hex(code.as_bytes()), vx::enc(i));
        *id += 1;
    }
}

pub fn gen(args: &[String]) {
    let tier = std::env::var("VERIF_TIER").unwrap_or_else(|_| "quick".into());
    let what = args.first().map(|s| s.as_str()).unwrap_or("all");
    let ins = inputs(&tier);
    let mut id = 0usize;
    let mut rng = Rng::new(prng::seed_from_env());
    if what == "all" || what == "exh" {
        // exhaustive: all sizes up to `full`; one further size sampled
        let (full, sampled, nsample) = if tier == "thorough" { (5, 6, 150000) } else { (4, 5, 2500) };
        let nsample: usize = std::env::var("C01_SAMPLE").ok().and_then(|s| s.parse().ok()).unwrap_or(nsample);
        let full: usize = std::env::var("C01_EXH").ok().and_then(|s| s.parse().ok()).unwrap_or(full);
        let mut en = Enum { memo: HashMap::new() };
        let top = Scope::empty();
        for n in 1..=full {
            let ps = en.all(n, &top);
            eprintln!("c01 gen: {} programs with {n} nodes", ps.len());
            for p in ps.iter() {
                emit(&mut id, "exh", p, &ins[..if n >= 4 { 1 } else { ins.len() }]);
            }
        }
        if sampled > full {
            let ps = en.all(sampled, &top);
            eprintln!("c01 gen: {} programs with {sampled} nodes (sampling {nsample})", ps.len());
            for _ in 0..nsample.min(ps.len()) {
                let p = &ps[rng.below(ps.len())];
                emit(&mut id, "exs", p, &ins[..1 + rng.below(2)]);
            }
        }
    }
    if what == "all" || what == "rand" {
        let n = if tier == "thorough" { 120000 } else { 3000 };
        let n: usize = std::env::var("C01_RAND").ok().and_then(|s| s.parse().ok()).unwrap_or(n);
        for _ in 0..n {
            let cap = *rng.pick(&[8usize, 16, 24, 38]);
            let size = 3 + rng.below(cap);
            let code = rgen(&mut rng, size, &Scope::empty(), 0);
            let i = rng.below(ins.len());
            emit(&mut id, "rnd", &code, &ins[i..i + 1]);
        }
    }
    if what == "all" || what == "pat" {
        let nrand = if tier == "thorough" { 1500 } else { 150 };
        let ps = pattern_programs(&mut rng, nrand);
        eprintln!("c01 gen: {} destructuring programs", ps.len());
        for p in &ps {
            emit(&mut id, "pat", p, &ins[..1]);
        }
    }
    if what == "all" || what == "idx" {
        let ps = index_programs();
        eprintln!("c01 gen: {} index-filter programs", ps.len());
        for p in &ps {
            emit(&mut id, "idx", p, &ins[..1]);
        }
    }
    if what == "all" || what == "manual" {
        let ex = manual_examples();
        eprintln!("c01 gen: {} manual examples", ex.len());
        for code in &ex {
            if sexpr_of_code(code).is_none() {
                continue;
            }
            emit(&mut id, "man", code, &ins[..1]);
            let reps = if tier == "thorough" { 4 } else { 1 };
            for _ in 0..reps {
                let m = mutate(&mut rng, code);
                emit(&mut id, "mut", &m, &ins[..1]);
            }
        }
    }
}

pub fn main(args: &[String]) {
    match args.first().map(|s| s.as_str()) {
        Some("prelude") => println!("{}", prelude_sexpr()),
        Some("gen") => gen(&args[1..]),
        Some("sexpr") => {
            // stdin: code-hex per line → s-expression
            for l in std::io::stdin().lock().lines() {
                let l = l.unwrap();
                let code = String::from_utf8(vx::unhex(l.trim()).unwrap_or_default()).unwrap_or_default();
                println!("{}", sexpr_of_code(&code).unwrap_or_else(|| "PARSE-ERROR".into()));
            }
        }
        Some("run") => {
            let mut cache = None;
            for l in std::io::stdin().lock().lines() {
                let l = l.unwrap();
                let f: Vec<&str> = l.split('\t').collect();
                if f.len() < 4 {
                    continue;
                }
                let code = String::from_utf8(vx::unhex(f[1]).unwrap_or_default()).unwrap_or_default();
                let input = vx::dec(f[2]).unwrap_or(Val::Null);
                let limit: usize = f[3].parse().unwrap_or(4);
                println!("{}\t{}", f[0], run_real(&mut cache, &code, input, limit));
            }
        }
        Some("table") => {
            for l in std::io::stdin().lock().lines() {
                let l = l.unwrap();
                let f: Vec<&str> = l.split('\t').collect();
                if f.len() < 2 {
                    continue;
                }
                let code = String::from_utf8(vx::unhex(f[1]).unwrap_or_default()).unwrap_or_default();
                let t = catch(|| table_real(&code)).unwrap_or_else(|p| format!("PANIC {p}"));
                println!("{}\t{}", f[0], t.replace(['\t', '\n'], " "));
            }
        }
        _ => {
            eprintln!("usage: jaqverif c01 prelude|gen [exh|rand|pat|idx|manual]|run|table|sexpr");
            std::process::exit(2)
        }
    }
}
