//! C11 — stream combinators and generators satisfy their defining equations.
//!   nat   : natives `limit skip nth first last isempty` (run and paths flavour) vs the model;
//!           the outcome of the argument filter is sent to the model as data
//!   range : native `range/3` vs the model (numbers, strings, arrays, mixed)
//!   fold  : `reduce` / `foreach` (with and without projection, `add`) vs the explicit-stack model;
//!           `update` / `project` are sent as tables computed by single-step runs
//!   eqs   : each defining equation of the manual evaluated on the real code, both sides
//!           wrapped in `try … catch` markers (real code only)
//! Lines: `<id>\t<request>\t<real>` (correspondence) and
//!        `EQ <ok|FAIL>\t<name>\t<lhs>\t<rhs>\t<input>\t<lhs result>\t<rhs result>`.
use super::common::*;
use super::prng::{self, Rng};
use super::vx;
use jaq_all::data::{Ctx, Data, Filter, Runner};
use jaq_core::Vars;
use jaq_json::Val;
use jaq_std::input::RcIter;
use std::collections::HashMap;

// ------------------------------------------------------------------ watchdog
// A change to jaq can make a bounded case diverge (e.g. `limit` pulling one item too many from
// `1, 2, (def f: f; f)`).  Every case announces itself; a watchdog thread prints
// `HANG\t<case>` and ends the process when one case runs longer than `HANG_SECS`.
static CASE_NO: std::sync::atomic::AtomicU64 = std::sync::atomic::AtomicU64::new(0);
static CASE_DESC: std::sync::Mutex<String> = std::sync::Mutex::new(String::new());
const HANG_SECS: u64 = 240;

fn begin_case(desc: &str) {
    if let Ok(mut d) = CASE_DESC.lock() {
        d.clear();
        d.push_str(desc);
    }
    CASE_NO.fetch_add(1, std::sync::atomic::Ordering::SeqCst);
}

fn start_watchdog() {
    std::thread::spawn(|| {
        let mut last = u64::MAX;
        let mut since = std::time::Instant::now();
        loop {
            std::thread::sleep(std::time::Duration::from_millis(500));
            let cur = CASE_NO.load(std::sync::atomic::Ordering::SeqCst);
            if cur != last {
                last = cur;
                since = std::time::Instant::now();
            } else if cur != 0 && since.elapsed().as_secs() >= HANG_SECS {
                use std::io::Write;
                let d = CASE_DESC.lock().map(|d| d.clone()).unwrap_or_default();
                let out = std::io::stdout();
                let mut l = out.lock();
                let _ = writeln!(l, "\nHANG\t{}", d.replace('\n', " "));
                let _ = l.flush();
                std::process::exit(0);
            }
        }
    });
}

#[derive(Clone, Debug, PartialEq)]
enum StopK {
    Done,
    Fuel,
    Err(Val),
    Halt(i32),
    Exn,
}

#[derive(Clone, Debug, PartialEq)]
struct Outc {
    vals: Vec<Val>,
    stop: StopK,
}

/// Run a filter; at most `max` values are pulled.  If `max` values arrived the run is cut
/// there (`Fuel`) without pulling again.  Stops at the first non-value item.
fn run_out(filter: &Filter, input: Val, vars: Vec<Val>, max: usize) -> Outc {
    {
        // heartbeat: keep the announced program text, add input and variables
        let vs: Vec<String> = vars.iter().map(vx::enc).collect();
        let prog = PROG.with(|p| p.borrow().clone());
        begin_case(&format!("{prog}\tinput={} vars={}", vx::enc(&input), vs.join(",")));
    }
    let r = catch(|| {
        let runner = Runner::default();
        let inputs: Box<dyn Iterator<Item = Result<Val, String>>> = Box::new(std::iter::empty());
        let rc = RcIter::new(inputs);
        let data = Data { runner: &runner, lut: &filter.lut, inputs: &rc };
        let ctx = Ctx::new(&data, Vars::new(vars));
        let mut vals = Vec::new();
        let mut it = filter.id.run((ctx, input));
        loop {
            if vals.len() >= max {
                return Outc { vals, stop: StopK::Fuel };
            }
            match it.next() {
                None => return Outc { vals, stop: StopK::Done },
                Some(Ok(v)) => vals.push(v),
                Some(Err(exn)) => {
                    let stop = match exn.get_err() {
                        Ok(e) => StopK::Err(e.into_val()),
                        Err(exn) => match exn.get_halt() {
                            Ok(code) => StopK::Halt(code),
                            Err(_) => StopK::Exn,
                        },
                    };
                    return Outc { vals, stop };
                }
            }
        }
    });
    r.unwrap_or_else(|p| Outc { vals: vec![], stop: StopK::Err(tstr(format!("PANIC {p}").as_bytes())) })
}

thread_local! {
    static PROG: std::cell::RefCell<String> = std::cell::RefCell::new(String::new());
}

/// compile and remember the program text for the watchdog
fn compile_p(code: &str) -> Result<Filter, String> {
    PROG.with(|p| *p.borrow_mut() = code.to_string());
    compile(code)
}
fn compile_vars_p(code: &str, vars: &[String]) -> Result<Filter, String> {
    PROG.with(|p| *p.borrow_mut() = code.to_string());
    compile_vars(code, vars)
}
fn set_prog(code: &str) {
    PROG.with(|p| *p.borrow_mut() = code.to_string());
}

fn is_math_err(v: &Val) -> bool {
    match v {
        Val::TStr(b) | Val::BStr(b) => b.starts_with(b"cannot calculate "),
        _ => false,
    }
}

/// request encoding of an outcome: `<k> v… <stop>`
fn enc_req(o: &Outc) -> String {
    let mut t = vec![o.vals.len().to_string()];
    for v in &o.vals {
        t.push(vx::enc_canon(v));
    }
    t.push(match &o.stop {
        StopK::Done => "done".into(),
        StopK::Fuel => "fuel".into(),
        StopK::Exn => "X".into(),
        StopK::Halt(c) => format!("H{c}"),
        StopK::Err(e) => format!("E {}", vx::enc_canon(e)),
    });
    t.join(" ")
}

/// answer encoding of an outcome (what the driver's `showOut` prints)
fn enc_ans(o: &Outc) -> String {
    let mut t: Vec<String> = o.vals.iter().map(|v| format!("V {}", vx::enc_canon(v))).collect();
    t.push(match &o.stop {
        StopK::Done => "done".into(),
        StopK::Fuel => "fuel".into(),
        StopK::Exn => "X".into(),
        StopK::Halt(c) => format!("H{c}"),
        StopK::Err(e) if is_math_err(e) => "Emath".into(),
        StopK::Err(e) => format!("E {}", vx::enc_canon(e)),
    });
    t.join(" ; ")
}

fn thorough() -> bool {
    std::env::var("VERIF_TIER").map(|t| t == "thorough").unwrap_or(false)
}

fn parse_json(s: &str) -> Val {
    let f = compile_p(s).expect("literal");
    match run(&f, Val::Null, 2).into_iter().next() {
        Some(Item::Val(v)) => v,
        _ => panic!("literal {s}"),
    }
}

// ------------------------------------------------------------------ generators

/// parts of argument streams (text); values, errors, empties, multiplicities, input-dependent
const PARTS_SMALL: &[&str] = &["1", "2", "error(\"x\")", "empty", "(3,4)"];
const PARTS_MORE: &[&str] = &[
    "1", "2", "2", "\"a\"", "null", "[1]", "{\"a\":1}", "2.5", "true", "false", "error(\"x\")", "error({\"k\":1})", "error(null)",
    "error", "empty", "(3,4)", ".[]?", "(.[]? | ., .)", ".", "(1,1)", "halt(3)", "(.[]? | if . == 2 then error(\"in\") else . end)",
    "(1 | empty)", ".[0]?", "(.. | numbers)", "range(3)", "([1,2][])",
];
const PATH_PARTS: &[&str] = &[".[0]", ".[1]", ".a", ".[]?", "empty", "error(\"p\")", ".b[0]?", ".", ".[2:]", ".a.b", "(.[0],.[0])", "..", ".[]?[]?"];
const INPUTS: &[&str] = &["[1,2,3]", "[]", "{\"a\":1,\"b\":[2]}", "[[1],[2,[3]]]", "null", "5", "[2,2]"];
const PATH_INPUTS: &[&str] = &["[1,2,3]", "{\"a\":{\"b\":1},\"b\":[2]}", "null", "[[1],[2,[3]]]", "{}"];

fn join_parts(ps: &[&str]) -> String {
    if ps.is_empty() {
        "empty".into()
    } else {
        format!("({})", ps.join(", "))
    }
}

/// all sequences over `alpha` up to length `n`
fn seqs(alpha: &[&'static str], n: usize) -> Vec<Vec<&'static str>> {
    let mut all: Vec<Vec<&'static str>> = vec![vec![]];
    let mut last: Vec<Vec<&'static str>> = vec![vec![]];
    for _ in 0..n {
        let mut next = vec![];
        for s in &last {
            for a in alpha {
                let mut t = s.clone();
                t.push(*a);
                next.push(t);
            }
        }
        all.extend(next.iter().cloned());
        last = next;
    }
    all
}

fn rand_stream(rng: &mut Rng, pool: &[&'static str], maxlen: usize) -> String {
    let n = rng.below(maxlen + 1);
    let ps: Vec<&str> = (0..n).map(|_| *rng.pick(pool)).collect();
    join_parts(&ps)
}

fn counts(len: usize, rng: &mut Rng, all: bool) -> Vec<Val> {
    let mut v: Vec<Val> = vec![];
    for i in -2..=(len as isize + 2) {
        v.push(int(i));
    }
    let special = vec![
        int(isize::MAX), int(isize::MIN), big("9223372036854775808"), big("-9223372036854775809"),
        big("1000000000000000000000000000000"), big("-1000000000000000000000000000000"), big("0"), big("1"), big("2"),
        float(0.5), float(1.5), float(2.0), float(-0.5), float(-0.0), float(0.0), float(f64::NAN), float(f64::INFINITY),
        float(f64::NEG_INFINITY), float(1e300), float(1.0), float(0.9999999999999999), float(5e-324), dec("1.5"), dec("2"), dec("1e1000"), dec("-1"),
        dec("0.0"), Val::Null, Val::Bool(true), Val::Bool(false), tstr(b"a"), tstr(b""), bstr(b"b"), arr(vec![]), arr(vec![int(1)]), obj(vec![]),
        obj(vec![(tstr(b"a"), int(1))]),
    ];
    if all {
        v.extend(special);
    } else {
        for _ in 0..6 {
            v.push(rng.pick(&special).clone());
        }
    }
    v
}

// ------------------------------------------------------------------ natives

fn nat_cases(rng: &mut Rng, id: &mut usize) {
    let mut streams: Vec<(String, &str)> = vec![];
    for s in seqs(PARTS_SMALL, 3) {
        streams.push((join_parts(&s), "null"));
    }
    let nrand = if thorough() { 1500 } else { 250 };
    for _ in 0..nrand {
        streams.push((rand_stream(rng, PARTS_MORE, 6), *rng.pick(INPUTS)));
    }
    let vn = vec!["n".to_string()];
    for (k, (f, input)) in streams.iter().enumerate() {
        let input = parse_json(input);
        let Ok(ff) = compile_p(f) else { println!("SKIP compile {f}"); continue };
        set_prog(&f.to_string()); let arg = run_out(&ff, input.clone(), vec![], 500);
        if arg.stop == StopK::Fuel {
            continue;
        }
        let areq = enc_req(&arg);
        for op in ["first", "last", "isempty"] {
            let prog = format!("{op}({f})");
            let Ok(p) = compile_p(&prog) else { println!("SKIP compile {prog}"); continue };
            set_prog(&prog); let real = run_out(&p, input.clone(), vec![], 1000);
            println!("nat{id}\tc11.nat {op} N {areq}\t{}\t{prog}\t{}", enc_ans(&real), vx::enc(&input));
            *id += 1;
        }
        let all = k % 7 == 0;
        let cs = counts(arg.vals.len(), rng, all);
        for op in ["limit", "skip", "nth"] {
            let prog = format!("{op}($n; {f})");
            let Ok(p) = compile_vars_p(&prog, &vn) else { println!("SKIP compile {prog}"); continue };
            for n in &cs {
                set_prog(&prog); let real = run_out(&p, input.clone(), vec![n.clone()], 1000);
                println!("nat{id}\tc11.nat {op} {} {areq}\t{}\t{prog}\t{} n={}", vx::enc(n), enc_ans(&real), vx::enc(&input), vx::enc(n));
                *id += 1;
            }
        }
    }
    // paths flavour of the same macros: `path(limit($n; f))` against the model applied to the outcome of `path(f)`
    let mut pstreams: Vec<(String, &str)> = vec![];
    for s in seqs(&PATH_PARTS[..6], 2) {
        pstreams.push((join_parts(&s), PATH_INPUTS[pstreams.len() % PATH_INPUTS.len()]));
    }
    for _ in 0..(if thorough() { 600 } else { 120 }) {
        pstreams.push((rand_stream(rng, PATH_PARTS, 5), *rng.pick(PATH_INPUTS)));
    }
    for (f, input) in pstreams.iter() {
        let input = parse_json(input);
        let Ok(ff) = compile_p(&format!("path({f})")) else { println!("SKIP compile path({f})"); continue };
        set_prog(&f.to_string()); let arg = run_out(&ff, input.clone(), vec![], 500);
        if arg.stop == StopK::Fuel {
            continue;
        }
        let areq = enc_req(&arg);
        for op in ["first", "last"] {
            let prog = format!("path({op}({f}))");
            let Ok(p) = compile_p(&prog) else { println!("SKIP compile {prog}"); continue };
            set_prog(&prog); let real = run_out(&p, input.clone(), vec![], 1000);
            println!("natp{id}\tc11.nat {op} N {areq}\t{}\t{prog}\t{}", enc_ans(&real), vx::enc(&input));
            *id += 1;
        }
        let cs = counts(arg.vals.len(), rng, false);
        for op in ["limit", "skip"] {
            let prog = format!("path({op}($n; {f}))");
            let Ok(p) = compile_vars_p(&prog, &vn) else { println!("SKIP compile {prog}"); continue };
            for n in &cs {
                set_prog(&prog); let real = run_out(&p, input.clone(), vec![n.clone()], 1000);
                println!("natp{id}\tc11.nat {op} {} {areq}\t{}\t{prog}\t{} n={}", vx::enc(n), enc_ans(&real), vx::enc(&input), vx::enc(n));
                *id += 1;
            }
        }
    }
    // infinite / divergent argument streams under small counts (bounded: model sees a `fuel` prefix)
    let inf = ["repeat(1)", "range(0;1;0)", "(1, 2, repeat(3))", "recurse(. + 1)", "(1, error(\"x\"), repeat(2))", "(def f: f; 1, 2, f)"];
    for f in inf {
        let Ok(ff) = compile_p(f) else { println!("SKIP compile {f}"); continue };
        let cut = if f.contains("def f") { 2 } else { 40 };
        set_prog(&f.to_string()); let arg = run_out(&ff, int(0), vec![], cut);
        let areq = enc_req(&arg);
        for op in ["limit", "nth"] {
            let prog = format!("{op}($n; {f})");
            let Ok(p) = compile_vars_p(&prog, &vn) else { continue };
            for n in [-1isize, 0, 1, 2] {
                if op == "nth" && n >= 2 && f.contains("def f") || op == "nth" && n < 0 && false {
                    continue;
                }
                set_prog(&prog); let real = run_out(&p, int(0), vec![int(n)], 30);
                println!("nati{id}\tc11.nat {op} I{n} {areq}\t{}\t{prog}\tI0 n=I{n}", enc_ans(&real));
                *id += 1;
            }
        }
        for op in ["first", "isempty"] {
            let prog = format!("{op}({f})");
            let Ok(p) = compile_p(&prog) else { continue };
            set_prog(&prog); let real = run_out(&p, int(0), vec![], 30);
            println!("nati{id}\tc11.nat {op} N {areq}\t{}\t{prog}\tI0", enc_ans(&real));
            *id += 1;
        }
    }
}

// ------------------------------------------------------------------ range

fn range_cases(rng: &mut Rng, id: &mut usize) {
    let p = compile_vars_p("range($a; $b; $c)", &["a".to_string(), "b".to_string(), "c".to_string()]).expect("range");
    let mut pool: Vec<Val> = vec![];
    for i in [-3isize, -1, 0, 1, 2, 3, 5, 10] {
        pool.push(int(i));
    }
    pool.extend([float(0.5), float(-1.5), float(2.0), float(f64::NAN), float(f64::INFINITY), float(-0.0), dec("1.5"), big("9223372036854775808"),
                 int(isize::MAX), int(isize::MAX - 2), int(isize::MIN), big("3"), Val::Null, Val::Bool(true), tstr(b""), tstr(b"a"), tstr(b"aaa"), tstr(b"b"),
                 arr(vec![]), arr(vec![int(1)]), arr(vec![int(1), int(1), int(1)]), obj(vec![]), obj(vec![(tstr(b"a"), int(1))]), bstr(b"a")]);
    let fuel = 12usize;
    let emit = |a: &Val, b: &Val, c: &Val, id: &mut usize| {
        set_prog("range($a; $b; $c)"); let real = run_out(&p, Val::Null, vec![a.clone(), b.clone(), c.clone()], fuel);
        println!("rng{id}\tc11.range {fuel} {} {} {}\t{}\trange($a;$b;$c)\t", vx::enc(a), vx::enc(b), vx::enc(c), enc_ans(&real));
        *id += 1;
    };
    let n = pool.len();
    if thorough() {
        for a in &pool { for b in &pool { for c in &pool { emit(a, b, c, id); } } }
    } else {
        // exhaustive over the first 14 (numbers), random over the rest
        for a in &pool[..14] { for b in &pool[..14] { for c in &pool[..14] { emit(a, b, c, id); } } }
        for _ in 0..4000 {
            let (a, b, c) = (&pool[rng.below(n)], &pool[rng.below(n)], &pool[rng.below(n)]);
            emit(a, b, c, id);
        }
    }
}

// ------------------------------------------------------------------ fold

const XS_FIXED: &[&str] = &["empty", "1", "(1, 2)", "(1, 2, 3)", "(1, error(\"x\"), 3)", "error(\"x\")", "(2, 2)", "(1, 2, error(\"x\"))", "(1, 2, halt(1))", ".[]?"];
const XS_PARTS: &[&str] = &["1", "2", "3", "2", "error(\"x\")", "empty", "(3,4)", ".[]?", "\"a\"", "null", "[1]", "halt(2)"];
const INITS: &[&str] = &["0", "(0, 10)", "empty", "error(\"i\")", "null", "(0, error(\"i2\"))", "[]", ".", "(1, 2, 3)"];
const UPDS: &[&str] = &[
    ". + $x", "(., . + $x)", "empty", "if $x == 2 then empty else . + $x end", "if . > 3 then error(\"u\") else . + $x end",
    "select($x != 2)", "(. + $x, error(\"u2\"))", "[., $x]", "limit(1; ., .)", "$x", "(error(\"u3\"), . + $x)", "(. + $x | ., .)", ".",
    "if $x == 3 then (., ., .) else . + 1 end", "(. + $x, empty, . + $x + $x)", "if . == 1 then halt(7) else . + $x end", "first(. + $x, error(\"no\"))",
];
const PROJS: &[&str] = &[".", "[$x, .]", "(., $x)", "empty", "error(\"p\")", "if $x == 2 then error(\"p\") else . end", "if . == 3 then empty else [.] end", "(., ., .)", "halt(9)"];

struct Tab {
    rows: Vec<String>,
}

fn fold_cases(rng: &mut Rng, id: &mut usize) {
    let vx_ = vec!["x".to_string()];
    let upds: Vec<(String, Filter)> = UPDS.iter().map(|u| (u.to_string(), compile_vars_p(u, &vx_).expect("upd"))).collect();
    let projs: Vec<(String, Filter)> = PROJS.iter().map(|u| (u.to_string(), compile_vars_p(u, &vx_).expect("proj"))).collect();
    let mut combos: Vec<(String, &str, usize, Option<usize>, &str, &str)> = vec![];
    // fixed core: every xs × every update × three inits, every kind (projection rotating)
    let mut rot = 0usize;
    for xs in XS_FIXED {
        for (ui, _) in upds.iter().enumerate() {
            for init in &INITS[..3] {
                for kind in ["reduce", "foreach", "foreachp"] {
                    let pj = if kind == "foreachp" { rot += 1; Some(rot % projs.len()) } else { None };
                    combos.push((xs.to_string(), init, ui, pj, kind, "[5,6]"));
                }
            }
        }
    }
    for _ in 0..(if thorough() { 6000 } else { 900 }) {
        let xs = rand_stream(rng, XS_PARTS, 4);
        let kind = *rng.pick(&["reduce", "foreach", "foreachp"]);
        let pj = if kind == "foreachp" { Some(rng.below(projs.len())) } else { None };
        combos.push((xs, *rng.pick(INITS), rng.below(upds.len()), pj, kind, *rng.pick(INPUTS)));
    }
    let mut xs_cache: HashMap<String, Result<Filter, String>> = HashMap::new();
    for (xs, init, ui, pj, kind, input) in combos {
        let input = parse_json(input);
        let xf = xs_cache.entry(xs.clone()).or_insert_with(|| compile_p(&xs));
        let Ok(xf) = xf else { continue };
        set_prog(&xs); let xo = run_out(xf, input.clone(), vec![], 50);
        let Ok(inf) = compile_p(init) else { continue };
        let io = run_out(&inf, input.clone(), vec![], 50);
        if xo.stop == StopK::Fuel || io.stop == StopK::Fuel || xo.vals.len() > 6 {
            continue;
        }
        // tables by breadth-first exploration with single-step runs of `update` / `project`
        let mut level: Vec<Val> = vec![];
        for v in &io.vals {
            if !level.iter().any(|w| vx::enc_canon(w) == vx::enc_canon(v)) { level.push(v.clone()); }
        }
        let mut utab = Tab { rows: vec![] };
        let mut ptab = Tab { rows: vec![] };
        let mut too_big = false;
        for (i, x) in xo.vals.iter().enumerate() {
            let mut next: Vec<Val> = vec![];
            for y in &level {
                set_prog(&format!("update `{}` (single step)", upds[ui].0)); let o = run_out(&upds[ui].1, y.clone(), vec![x.clone()], 50);
                utab.rows.push(format!("{i} {} {}", vx::enc_canon(y), enc_req(&o)));
                for v in o.vals {
                    if !next.iter().any(|w| vx::enc_canon(w) == vx::enc_canon(&v)) { next.push(v); }
                }
            }
            if let Some(pj) = pj {
                for y in &next {
                    set_prog(&format!("project `{}` (single step)", projs[pj].0)); let o = run_out(&projs[pj].1, y.clone(), vec![x.clone()], 50);
                    ptab.rows.push(format!("{i} {} {}", vx::enc_canon(y), enc_req(&o)));
                }
            }
            if next.len() > 64 { too_big = true; break; }
            level = next;
        }
        if too_big { continue; }
        let u = &upds[ui].0;
        let (prog, tail) = match (kind, pj) {
            ("reduce", _) => (format!("reduce {xs} as $x ({init}; {u})"), String::new()),
            ("foreach", _) => (format!("foreach {xs} as $x ({init}; {u})"), String::new()),
            (_, Some(pj)) => (format!("foreach {xs} as $x ({init}; {u}; {})", projs[pj].0), format!(" {} {}", ptab.rows.len(), ptab.rows.join(" "))),
            _ => unreachable!(),
        };
        let Ok(p) = compile_p(&prog) else { println!("SKIP compile {prog}"); continue };
        set_prog(&prog); let real = run_out(&p, input.clone(), vec![], 5000);
        let req = format!("c11.fold {kind} {} {} {} {}{}", enc_req(&xo), enc_req(&io), utab.rows.len(), utab.rows.join(" "), tail);
        // collapse double spaces of empty tables
        let req = req.split(' ').filter(|t| !t.is_empty()).collect::<Vec<_>>().join(" ");
        println!("fold{id}\t{req}\t{}\t{prog}\t{}", enc_ans(&real), vx::enc(&input));
        *id += 1;
    }
    // add(f) = reduce f as $x (null; . + $x), through the real definition
    let mut adds: Vec<String> = vec!["empty".into(), "(1, 2, 3)".into(), "(\"a\", \"b\")".into(), "([1], [2])".into(), "(1, \"a\")".into(), "(1, error(\"x\"), 2)".into(),
                                     "({\"a\":1}, {\"b\":2}, {\"a\":3})".into(), "(null, 1)".into(), "(1, null, 2.5)".into(), "(9223372036854775807, 1)".into(), "(1, halt(1))".into()];
    for _ in 0..(if thorough() { 1500 } else { 300 }) {
        adds.push(rand_stream(rng, PARTS_MORE, 5));
    }
    for f in adds {
        let input = parse_json(*rng.pick(INPUTS));
        let Ok(ff) = compile_p(&f) else { continue };
        set_prog(&f.to_string()); let arg = run_out(&ff, input.clone(), vec![], 200);
        if arg.stop == StopK::Fuel { continue; }
        let prog = format!("add({f})");
        let Ok(p) = compile_p(&prog) else { continue };
        set_prog(&prog); let real = run_out(&p, input.clone(), vec![], 10);
        println!("add{id}\tc11.add {}\t{}\t{prog}\t{}", enc_req(&arg), enc_ans(&real), vx::enc(&input));
        *id += 1;
    }
}

// ------------------------------------------------------------------ equations on the real code

/// `[try (P | ["V", .]) catch ["E", .]]`: the items up to and including the first error
fn marked(p: &str) -> String {
    format!("[try (({p}) | [\"V\", .]) catch [\"E\", .]]")
}

fn run_marked(p: &str, input: &Val, vars: &[String], vals: &[Val], max: usize) -> Result<String, String> {
    // every equation bounds its own streams; halts escape the markers and are shown as the stop
    let _ = max;
    let f = compile_vars_p(&marked(p), vars).map_err(|e| format!("{e}: {p}"))?;
    let o = run_out(&f, input.clone(), vals.to_vec(), 4);
    Ok(enc_ans(&o))
}

struct Eq {
    name: &'static str,
    lhs: String,
    rhs: String,
}

fn eq_cases(rng: &mut Rng) {
    let mut total = 0usize;
    let mut check = |e: Eq, input: &str, vars: &[String], vals: &[Val]| {
        let inp = parse_json(input);
        let l = run_marked(&e.lhs, &inp, vars, vals, 200);
        let r = run_marked(&e.rhs, &inp, vars, vals, 200);
        let vs: Vec<String> = vals.iter().map(vx::enc).collect();
        let status = match (&l, &r) {
            (Ok(a), Ok(b)) if a == b => "ok",
            (Err(_), _) | (_, Err(_)) => "SKIP",
            _ => "FAIL",
        };
        println!("EQ {status}\t{}\t{}\t{}\t{} vars={}\t{}\t{}", e.name, e.lhs, e.rhs, input, vs.join(","),
                 l.unwrap_or_else(|e| e), r.unwrap_or_else(|e| e));
        total += 1;
    };
    let vn = vec!["n".to_string()];
    let none: Vec<String> = vec![];
    let mut streams: Vec<(String, &str)> = vec![];
    for s in seqs(PARTS_SMALL, if thorough() { 3 } else { 2 }) {
        streams.push((join_parts(&s), "[7,8]"));
    }
    for _ in 0..(if thorough() { 600 } else { 100 }) {
        streams.push((rand_stream(rng, PARTS_MORE, 5), *rng.pick(INPUTS)));
    }
    let conds = [". == 2", ". != 1", "true", "false", "(true, false)", "(false, true)", "empty", "error(\"c\")", "if . == 3 then error(\"c3\") else . > 1 end", "null", "1", "(., null)", ". == 2, . == 1"];
    for (k, (f, input)) in streams.iter().enumerate() {
        // numeric counts (the manual's `$n`): integers around 0 and the length, floats, big
        let cs: Vec<Val> = {
            let mut v: Vec<Val> = (-1..=6).map(int).collect();
            v.extend([big("1000000000000000000000000000000"), float(1.5), float(-0.5), int(isize::MIN), Val::Null, Val::Bool(true), float(f64::NAN), float(f64::INFINITY)]);
            if k % 5 != 0 { (0..5).map(|_| rng.pick(&v).clone()).collect() } else { v }
        };
        for n in &cs {
            let vals = [n.clone()];
            check(Eq { name: "limit_append_skip", lhs: format!("limit($n; {f}), skip($n; {f})"), rhs: f.clone() }, input, &vn, &vals);
            check(Eq { name: "limit_def", lhs: format!("limit($n; {f})"),
                       rhs: format!("if $n <= 0 then empty else label $out | foreach {f} as $x ($n; . - 1; if . <= 0 then $x, break $out else $x end) end") }, input, &vn, &vals);
            if !matches!(n, Val::Num(jaq_json::Num::Float(_)))
            { check(Eq { name: "skip_def", lhs: format!("skip($n; {f})"),
                       rhs: format!("if $n <= 0 then {f} else foreach {f} as $x ($n; . - 1; if . >= 0 then empty else $x end) end") }, input, &vn, &vals); }
            check(Eq { name: "nth_def", lhs: format!("nth($n; {f})"), rhs: format!("first(skip($n; {f}))") }, input, &vn, &vals);
            if let Val::Num(jaq_json::Num::Int(i)) = n {
                if *i >= 0 && *i < 100 {
                    check(Eq { name: "nth_spec", lhs: format!("nth($n; {f})"), rhs: format!("[limit($n + 1; {f})] | if length > $n then .[$n] else empty end") }, input, &vn, &vals);
                }
                if *i <= 0 {
                    check(Eq { name: "nonpositive_limit", lhs: format!("limit($n; {f})"), rhs: "empty".into() }, input, &vn, &vals);
                    check(Eq { name: "nonpositive_skip", lhs: format!("skip($n; {f})"), rhs: f.clone() }, input, &vn, &vals);
                }
            }
        }
        check(Eq { name: "huge_limit", lhs: format!("limit(100000000000000000000; {f})"), rhs: f.clone() }, input, &none, &[]);
        check(Eq { name: "huge_skip", lhs: format!("skip(100000000000000000000; {f})"), rhs: format!("{f} | empty") }, input, &none, &[]);
        check(Eq { name: "first_eq_limit1", lhs: format!("first({f})"), rhs: format!("limit(1; {f})") }, input, &none, &[]);
        check(Eq { name: "first_label_def", lhs: format!("first({f})"), rhs: format!("label $l | {f} | ., break $l") }, input, &none, &[]);
        check(Eq { name: "last_spec", lhs: format!("last({f})"), rhs: format!("[{f}] | .[-1:][]") }, input, &none, &[]);
        check(Eq { name: "last_reduce", lhs: format!("last({f})"), rhs: format!("reduce ({f} | [.]) as $x (null; $x) | .[]?") }, input, &none, &[]);
        check(Eq { name: "isempty_def", lhs: format!("isempty({f})"), rhs: format!("first(({f} | false), true)") }, input, &none, &[]);
        check(Eq { name: "isempty_spec", lhs: format!("isempty({f})"), rhs: format!("[limit(1; {f})] | length == 0") }, input, &none, &[]);
        check(Eq { name: "add_eq_reduce", lhs: format!("add({f})"), rhs: format!("reduce {f} as $x (null; . + $x)") }, input, &none, &[]);
        check(Eq { name: "add_array", lhs: format!("[{f}] | add"), rhs: format!("[{f}] | add(.[])") }, input, &none, &[]);
        check(Eq { name: "foreach_default_proj", lhs: format!("foreach {f} as $x (0; . + 1)"), rhs: format!("foreach {f} as $x (0; . + 1; .)") }, input, &none, &[]);
        check(Eq { name: "first_error_once", lhs: format!("[try ({f} | [.]) catch \"caught\"] | (map(select(. == \"caught\")) | length <= 1) and (.[:-1] | all(. != \"caught\"))"),
                   rhs: format!("(try ({f} | empty) catch empty), true") }, input, &none, &[]);
        for _ in 0..3 {
            let c = *rng.pick(&conds);
            check(Eq { name: "any_def", lhs: format!("any({f}; {c})"), rhs: format!("isempty({f} | ({c}) or empty) | not") }, input, &none, &[]);
            check(Eq { name: "any_spec", lhs: format!("any({f}; {c})"), rhs: format!("first(({f} | {c} | if . then true else empty end), false)") }, input, &none, &[]);
            check(Eq { name: "all_def", lhs: format!("all({f}; {c})"), rhs: format!("isempty({f} | ({c}) and empty)") }, input, &none, &[]);
            check(Eq { name: "all_spec", lhs: format!("all({f}; {c})"), rhs: format!("first(({f} | {c} | if . then empty else false end), true)") }, input, &none, &[]);
            check(Eq { name: "select_def", lhs: format!("{f} | select({c})"), rhs: format!("{f} | if {c} then . else empty end") }, input, &none, &[]);
            check(Eq { name: "select_spec", lhs: format!("{f} | select({c})"), rhs: format!("{f} | . as $v | {c} | if . then $v else empty end") }, input, &none, &[]);
        }
        check(Eq { name: "any_short", lhs: format!("[{f}] | any"), rhs: format!("[{f}] | any(.[]; .)") }, input, &none, &[]);
        check(Eq { name: "all_short", lhs: format!("[{f}] | all"), rhs: format!("[{f}] | all(.[]; .)") }, input, &none, &[]);
        check(Eq { name: "repeat_def", lhs: format!("limit(7; repeat(1, {f}))"), rhs: format!("limit(7; (1, {f}), repeat(1, {f}))") }, input, &none, &[]);
        check(Eq { name: "repeat_cycle", lhs: format!("limit(7; repeat(1, {f}))"), rhs: format!("limit(7; range(7) as $i | (1, {f}))") }, input, &none, &[]);
        check(Eq { name: "error_def", lhs: format!("{f} | error"), rhs: format!("{f} | error(.)") }, input, &none, &[]);
        check(Eq { name: "error_msgs", lhs: format!("try error({f}) catch ."), rhs: format!("try first({f}) catch .") }, input, &none, &[]);
        check(Eq { name: "empty_def", lhs: format!("{f} | empty"), rhs: format!("{f} | ({{}}[] as $x | .)") }, input, &none, &[]);
    }
    // reduce / foreach = nested-pipe expansion over the *elements* x1 … xn of xs (a part like
    // `(2,5)` contributes two elements, `empty` none; an error element ends the expansion)
    let xs_alpha: &[(&'static str, &[&'static str])] = &[("1", &["1"]), ("2", &["2"]), ("3", &["3"]), ("error(\"x\")", &["error(\"x\")"]),
                                                        ("(2,5)", &["2", "5"]), ("empty", &[]), ("(1, empty, 3)", &["1", "3"]), ("(.[] | . - 4)", &["1", "2"])];
    let idx: Vec<&'static str> = vec!["0", "1", "2", "3"];
    let mut xss: Vec<Vec<usize>> = seqs(&idx, if thorough() { 4 } else { 3 }).into_iter().map(|s| s.iter().map(|d| d.parse().unwrap()).collect()).collect();
    for _ in 0..(if thorough() { 500 } else { 100 }) {
        let n = rng.below(5);
        xss.push((0..n).map(|_| rng.below(xs_alpha.len())).collect());
    }
    for (k, xs) in xss.iter().enumerate() {
        let parts: Vec<&str> = xs.iter().map(|i| xs_alpha[*i].0).collect();
        let mut elems: Vec<&str> = vec![];
        for i in xs {
            elems.extend(xs_alpha[*i].1.iter());
        }
        if let Some(p) = elems.iter().position(|e| e.starts_with("error")) {
            elems.truncate(p + 1);
        }
        let xs_text = join_parts(&parts);
        let trials = if thorough() { 6 } else { 3 };
        for t in 0..trials {
            let init = INITS[(k + t) % INITS.len()];
            let upd = UPDS[(k * 7 + t * 3 + rng.below(UPDS.len())) % UPDS.len()];
            let proj = PROJS[(k + t * 5 + rng.below(PROJS.len())) % PROJS.len()];
            let mut red = format!("({init})");
            let mut fe = String::from("empty");
            let mut fep = String::from("empty");
            for p in elems.iter().rev() {
                if p.starts_with("error") {
                    fe = format!("({p})");
                    fep = format!("({p})");
                } else {
                    fe = format!("(({p}) as $x | ({upd}) | (., {fe}))");
                    fep = format!("(({p}) as $x | ({upd}) | (({proj}), {fep}))");
                }
            }
            for p in elems.iter() {
                if p.starts_with("error") {
                    red = format!("{red} | ({p})");
                } else {
                    red = format!("{red} | (({p}) as $x | ({upd}))");
                }
            }
            let fe = format!("({init}) | {fe}");
            let fep = format!("({init}) | {fep}");
            let input = "[5,6]";
            check(Eq { name: "reduce_nested_pipe", lhs: format!("reduce {xs_text} as $x ({init}; {upd})"), rhs: red }, input, &none, &[]);
            check(Eq { name: "foreach_nested_pipe", lhs: format!("foreach {xs_text} as $x ({init}; {upd})"), rhs: fe }, input, &none, &[]);
            check(Eq { name: "foreach_proj_nested_pipe", lhs: format!("foreach {xs_text} as $x ({init}; {upd}; {proj})"), rhs: fep }, input, &none, &[]);
        }
    }
    // generators
    let abc = vec!["a".to_string(), "b".to_string(), "c".to_string()];
    let rvals: Vec<Val> = vec![int(0), int(1), int(-1), int(2), int(3), int(5), int(10), int(-3), float(0.5), float(2.5), float(f64::NAN), float(f64::INFINITY), Val::Null, Val::Bool(true),
                               tstr(b""), tstr(b"a"), tstr(b"aaa"), tstr(b"b"), arr(vec![]), arr(vec![int(1)]), arr(vec![int(1), int(1), int(1)]), obj(vec![]), int(isize::MAX), int(isize::MAX - 1), big("9223372036854775809")];
    let rdef = "$a | if $c > 0 then while(. < $b; . + $c) elif $c < 0 then while(. > $b; . + $c) else while(. != $b; . + $c) end";
    let nr = if thorough() { 8000 } else { 1500 };
    for _ in 0..nr {
        let vals = [rng.pick(&rvals).clone(), rng.pick(&rvals).clone(), rng.pick(&rvals).clone()];
        check(Eq { name: "range3_while_def", lhs: "limit(12; range($a; $b; $c))".into(), rhs: format!("limit(12; {rdef})") }, "null", &abc, &vals);
    }
    for _ in 0..(if thorough() { 800 } else { 200 }) {
        let vals = [rng.pick(&rvals).clone(), rng.pick(&rvals).clone(), rng.pick(&rvals).clone()];
        check(Eq { name: "range2_def", lhs: "limit(12; range($a, $c; $b, 3))".into(), rhs: "limit(12; range($a, $c; $b, 3; 1))".into() }, "null", &abc, &vals);
        check(Eq { name: "range1_def", lhs: "limit(12; range($b, $a))".into(), rhs: "limit(12; range(0; $b, $a))".into() }, "null", &abc, &vals);
    }
    let steps = [". + 1", "(. + 1, . + 2)", "if . >= 3 then empty else . + 1 end", "if . == 2 then error(\"s\") else . + 1 end", ".[]?", "empty", "error(\"s0\")", ". + 1 | select(. < 4)", "(. * 2, empty)", "if . > 2 then empty else (. + 1, . + 1) end"];
    let wconds = [". < 3", ". < 0", "true", "(. < 3, . < 2)", "if . == 2 then error(\"c\") else . < 4 end", "empty", ". != 4", "null", ". < 3, false"];
    let ginputs = ["0", "1", "[1,[2]]", "{\"a\":[1,{\"b\":2}]}", "null", "[[[]]]", "3"];
    for f in steps {
        for input in ginputs {
            check(Eq { name: "recurse_def", lhs: format!("limit(25; recurse({f}))"), rhs: format!("limit(25; ., ({f} | recurse({f})))") }, input, &none, &[]);
            for c in wconds {
                check(Eq { name: "recurse2_def", lhs: format!("limit(25; recurse({f}; {c}))"), rhs: format!("limit(25; recurse({f} | select({c})))") }, input, &none, &[]);
                check(Eq { name: "while_def", lhs: format!("limit(25; while({c}; {f}))"), rhs: format!("limit(25; if {c} then ., ({f} | while({c}; {f})) else empty end)") }, input, &none, &[]);
            }
        }
    }
    let usteps = [". + 1", "(. + 1, . + 2)", "if . >= 3 then empty else . + 1 end", "if . == 2 then error(\"s\") else . + 1 end", "empty", "error(\"s0\")"];
    let uconds = [". >= 3", "(. >= 3, . >= 2)", "if . == 2 then error(\"c\") else . >= 4 end", "true", "(. >= 2, empty)", "empty", ". >= 4"];
    for f in usteps {
        for c in uconds {
            for input in ["0", "1", "3", "5"] {
                check(Eq { name: "until_def", lhs: format!("limit(25; until({c}; {f}))"), rhs: format!("limit(25; if {c} then . else {f} | until({c}; {f}) end)") }, input, &none, &[]);
            }
        }
    }
    for input in ginputs {
        check(Eq { name: "recurse0_def", lhs: "recurse".into(), rhs: "recurse(.[]?)".into() }, input, &none, &[]);
        check(Eq { name: "dotdot_def", lhs: "..".into(), rhs: "recurse".into() }, input, &none, &[]);
        check(Eq { name: "recurse_subvalues", lhs: "[..]".into(), rhs: "def sub: ., (if type == \"array\" then .[] | sub elif type == \"object\" then .[] | sub else empty end); [sub]".into() }, input, &none, &[]);
    }
    println!("EQTOTAL {total}");
}


// ------------------------------------------------------------------ translator: defs.jq → Lean

use jaq_core::load::parse::{BinaryOp, Def, Pattern, Term};
use jaq_core::path::{Opt, Part};

fn lstr(s: &str) -> String {
    format!("\"{}\"", s.replace('\\', "\\\\").replace('"', "\\\""))
}

fn tm_args(args: &[Term<&str>]) -> String {
    match args.split_first() {
        None => ".nil".into(),
        Some((a, rest)) => format!("(.cons {} {})", tm(a), tm_args(rest)),
    }
}

/// print a parsed term as a `Jaq.C11.Tm` constructor term
fn tm(t: &Term<&str>) -> String {
    let other = |t: &Term<&str>| format!("(.other {})", lstr(&format!("{t:?}")));
    match t {
        Term::Id => ".id".into(),
        Term::Recurse => ".dotdot".into(),
        Term::Num(n) => format!("(.num {})", lstr(n)),
        Term::Var(x) => format!("(.var {})", lstr(x)),
        Term::Call(name, args) => format!("(.call {} {})", lstr(name), tm_args(args)),
        Term::BinOp(l, op, r) => match op {
            BinaryOp::Pipe(None) => format!("(.pipe {} {})", tm(l), tm(r)),
            BinaryOp::Comma => format!("(.comma {} {})", tm(l), tm(r)),
            BinaryOp::And => format!("(.and_ {} {})", tm(l), tm(r)),
            BinaryOp::Or => format!("(.or_ {} {})", tm(l), tm(r)),
            BinaryOp::Math(m) => format!("(.math {} {} {})", lstr(&format!("{m:?}")), tm(l), tm(r)),
            _ => other(t),
        },
        Term::IfThenElse(branches, Some(els)) if branches.len() == 1 => {
            format!("(.ite {} {} {})", tm(&branches[0].0), tm(&branches[0].1), tm(els))
        }
        Term::Def(defs, rest) if defs.len() == 1 => {
            let d = &defs[0];
            let ps: Vec<String> = d.args.iter().map(|a| lstr(a)).collect();
            format!("(.def_ {} [{}] {} {})", lstr(d.name), ps.join(", "), tm(&d.body), tm(rest))
        }
        Term::Fold(kind, xs, Pattern::Var(x), args) if *kind == "reduce" && args.len() == 2 => {
            format!("(.reduce {} {} {} {})", tm(xs), lstr(x), tm(&args[0]), tm(&args[1]))
        }
        Term::Path(head, path) if path.0.len() == 1 => match &path.0[0] {
            (Part::Range(None, None), opt) => format!("(.iter {} {})", tm(head), matches!(opt, Opt::Optional)),
            (Part::Index(i), Opt::Essential) => format!("(.index {} {})", tm(head), tm(i)),
            _ => other(t),
        },
        _ => other(t),
    }
}

const PINNED: &[(&str, usize)] = &[("select", 1), ("range", 2), ("range", 1), ("repeat", 1), ("recurse", 1), ("recurse", 0), ("recurse", 2),
    ("while", 2), ("until", 2), ("nth", 2), ("isempty", 1), ("all", 2), ("any", 2), ("all", 1), ("any", 1), ("all", 0), ("any", 0), ("add", 1), ("add", 0)];

/// `Gen/C11Defs.lean`: the pinned definitions as the real parser reads the real defs.jq files
fn emit_defs() {
    let all: Vec<Def<&'static str>> = jaq_core::defs().chain(jaq_std::defs()).collect();
    println!("/- GENERATED by `jaqverif c11 defs` from jaq-core/src/defs.jq and jaq-std/src/defs.jq (real parser). -/");
    println!("import JaqVerif.C11.Defs\n\nnamespace Jaq.C11.Gen\nopen Jaq.C11\n");
    println!("def defs : List DefRow := [");
    let mut rows = vec![];
    for (name, arity) in PINNED {
        let found: Vec<&Def<&'static str>> = all.iter().filter(|d| d.name == *name && d.args.len() == *arity).collect();
        match found.as_slice() {
            [d] => {
                let ps: Vec<String> = d.args.iter().map(|a| lstr(a)).collect();
                rows.push(format!("  ({}, [{}], {})", lstr(d.name), ps.join(", "), tm(&d.body)));
            }
            ds => rows.push(format!("  ({}, [], .other \"{} definitions of arity {}\")", lstr(name), ds.len(), arity)),
        }
    }
    println!("{}\n]\n\nend Jaq.C11.Gen", rows.join(",\n"));
}

pub fn main(args: &[String]) {
    start_watchdog();
    let mut rng = Rng::new(prng::seed_from_env());
    let mut id = 0usize;
    match args.first().map(|s| s.as_str()) {
        Some("nat") => nat_cases(&mut rng, &mut id),
        Some("range") => range_cases(&mut rng, &mut id),
        Some("fold") => fold_cases(&mut rng, &mut id),
        Some("eqs") => eq_cases(&mut rng),
        Some("defs") => emit_defs(),
        Some("run") => {
            // replay helper: `c11 run <program> <input json> [name=<vx tokens joined by '+'> …]`
            // e.g.  c11 run 'limit($n; 1, 2, error("x"))' null n=I2     (VX values as in the replay file)
            let mut names = vec![];
            let mut vals = vec![];
            for a in &args[3.min(args.len())..] {
                if let Some((k, v)) = a.split_once('=') {
                    names.push(k.to_string());
                    vals.push(vx::dec(&v.replace('+', " ")).expect("vx value"));
                }
            }
            let f = compile_vars_p(&args[1], &names).expect("compile");
            let o = run_out(&f, parse_json(&args[2]), vals, 1000);
            println!("{}", enc_ans(&o));
        }
        _ => {
            eprintln!("usage: c11 nat|range|fold|eqs|run");
            std::process::exit(2);
        }
    }
}
