//! C12 — collection built-ins obey the manual's invariants and equations.
//!   gen    : correspondence lines `id \t request \t real` (natives and definitions vs the Lean
//!            impl-model) and `SPEC \t key \t spec-request \t real \t program \t input` lines (real
//!            code vs the manual's definition as computed by the Lean model)
//!   oracle : the manual's equations / invariants evaluated on the real library alone:
//!            `ORACLE <ok|FAIL> \t name \t class \t program-lhs \t program-rhs \t input \t lhs \t rhs`
use super::common::*;
use super::prng::{self, Rng};
use super::vx;
use jaq_all::data::Filter;
use jaq_json::Val;
use std::collections::HashMap;

const LIMIT: usize = 20000;

// ------------------------------------------------------------------ helpers

fn s(x: &str) -> Val {
    tstr(x.as_bytes())
}

/// error class of an error value (the driver's `clsOfVal` does the same)
fn cls_of_val(v: &Val) -> String {
    if let Val::TStr(b) = v {
        let t = String::from_utf8_lossy(b);
        if t.starts_with("cannot use ") {
            return match t.rfind(" as ") {
                Some(i) => format!("typ:{}", t[i + 4..].replace(' ', "_")),
                None => "typ".into(),
            };
        } else if t.starts_with("cannot index ") {
            return "index".into();
        } else if t.starts_with("cannot calculate ") {
            return "math".into();
        }
    }
    format!("val {}", vx::enc_canon(v))
}

fn show_item(i: &Item) -> String {
    match i {
        Item::Val(v) => format!("V {}", vx::enc_canon(v)),
        Item::Err(e) => format!("E {}", cls_of_val(e)),
        Item::Exn(x) => format!("X {}", x.replace([' ', '\n', '\t'], "_")),
    }
}

fn show_items(items: &[Item]) -> String {
    if items.is_empty() {
        "-".into()
    } else {
        items.iter().map(show_item).collect::<Vec<_>>().join(" ; ")
    }
}

/// exactly one item expected (natives yielding one value or one error)
fn show_one(items: &[Item]) -> String {
    if items.len() == 1 {
        show_item(&items[0])
    } else {
        format!("MANY {}", show_items(items))
    }
}

/// items with every error replaced by one token (definitional equations: message text may differ)
fn norm_items(items: &[Item]) -> String {
    if items.is_empty() {
        return "-".into();
    }
    items
        .iter()
        .map(|i| match i {
            Item::Val(v) => format!("V {}", vx::enc_canon(v)),
            Item::Err(_) => "E".into(),
            Item::Exn(x) => format!("X {}", x.replace([' ', '\n', '\t'], "_")),
        })
        .collect::<Vec<_>>()
        .join(" ; ")
}

struct Progs {
    cache: HashMap<String, Option<Filter>>,
}

impl Progs {
    fn new() -> Self {
        Progs { cache: HashMap::new() }
    }
    fn get(&mut self, code: &str) -> Option<&Filter> {
        if !self.cache.contains_key(code) {
            let f = compile(code).ok();
            if f.is_none() {
                eprintln!("c12: program does not compile: {code}");
            }
            self.cache.insert(code.to_string(), f);
        }
        self.cache.get(code).unwrap().as_ref()
    }
    fn run(&mut self, code: &str, input: &Val) -> Vec<Item> {
        match self.get(code) {
            Some(f) => {
                let (f, input) = (f, input.clone());
                catch(move || run(f, input, LIMIT)).unwrap_or_else(|p| vec![Item::Exn(format!("PANIC {p}"))])
            }
            None => vec![Item::Exn("COMPILE".into())],
        }
    }
}

fn type_name(v: &Val) -> &'static str {
    match v {
        Val::Null => "null",
        Val::Bool(_) => "boolean",
        Val::Num(_) => "number",
        Val::TStr(_) | Val::BStr(_) => "string",
        Val::Arr(_) => "array",
        Val::Obj(_) => "object",
    }
}

// ------------------------------------------------------------------ generators

/// elements that tie under many keys: equal numbers in different representations, objects
/// agreeing on `.a` but not on `.b`, strings of equal length, nested arrays
fn elem_pool() -> Vec<Val> {
    vec![
        int(1), float(1.0), int(2), int(0), float(-0.0), float(1.5), int(-1),
        Val::Null, Val::Bool(false), Val::Bool(true),
        s(""), s("a"), s("b"), s("ab"), s("ba"), s("a\u{e9}"), bstr(b"a"),
        arr(vec![]), arr(vec![int(1)]), arr(vec![int(1), int(2)]), arr(vec![int(2), int(1)]), arr(vec![float(1.0)]),
        arr(vec![arr(vec![]), Val::Null]),
        obj(vec![]), obj(vec![(s("a"), int(1)), (s("b"), int(2))]), obj(vec![(s("a"), int(1)), (s("b"), int(3))]),
        obj(vec![(s("b"), int(2)), (s("a"), int(1))]), obj(vec![(s("a"), int(2)), (s("b"), int(1))]),
        obj(vec![(s("a"), float(1.0))]), obj(vec![(s("a"), Val::Null), (s("b"), s("x"))]),
        obj(vec![(int(0), int(1)), (s("a"), arr(vec![int(1)]))]),
    ]
}

fn key_pool() -> Vec<Val> {
    vec![s("a"), s("b"), s("c"), s("key"), s("value"), s(""), int(0), int(1), float(1.0), Val::Null, Val::Bool(true),
         arr(vec![int(1)]), obj(vec![(s("a"), int(1))]), bstr(b"a"), int(-1), s("\u{e9}")]
}

fn gen_scalar(rng: &mut Rng) -> Val {
    match rng.below(12) {
        0 => Val::Null,
        1 => Val::Bool(rng.chance(1, 2)),
        2 | 3 | 4 => int(rng.below(5) as isize - 2),
        5 => float([1.0, 1.5, -0.0, 0.0, 2.0, -2.5][rng.below(6)]),
        6 | 7 | 8 => s(["", "a", "b", "ab", "ba", "abab", "a\u{e9}", "\u{20ac}"][rng.below(8)]),
        9 => bstr([&b""[..], b"a", b"ab", b"\xff"][rng.below(4)]),
        _ => rng.pick(&elem_pool()).clone(),
    }
}

fn gen_obj(rng: &mut Rng, depth: usize) -> Val {
    let keys = key_pool();
    let n = rng.below(4);
    let mut kvs = vec![];
    for _ in 0..n {
        // mostly string keys, sometimes any key
        let k = if rng.chance(2, 3) { keys[rng.below(6)].clone() } else { rng.pick(&keys).clone() };
        kvs.push((k, gen_val(rng, depth)));
    }
    obj(kvs)
}

fn gen_val(rng: &mut Rng, depth: usize) -> Val {
    if depth == 0 {
        return gen_scalar(rng);
    }
    match rng.below(10) {
        0..=3 => gen_scalar(rng),
        4..=6 => {
            let n = rng.below(4);
            arr((0..n).map(|_| gen_val(rng, depth - 1)).collect())
        }
        _ => gen_obj(rng, depth - 1),
    }
}

/// arrays with duplicates and ties: few distinct elements, drawn repeatedly
fn gen_array(rng: &mut Rng) -> Vec<Val> {
    let pool = elem_pool();
    let distinct = 1 + rng.below(4);
    let base: Vec<Val> = (0..distinct).map(|_| if rng.chance(4, 5) { rng.pick(&pool).clone() } else { gen_val(rng, 2) }).collect();
    let n = match rng.below(8) {
        0 => 0,
        1 => 1,
        _ => 2 + rng.below(6),
    };
    (0..n).map(|_| rng.pick(&base).clone()).collect()
}

/// nested arrays for flatten
fn gen_nested(rng: &mut Rng, depth: usize) -> Val {
    if depth == 0 || rng.chance(1, 4) {
        return match rng.below(6) {
            0 => obj(vec![(s("a"), arr(vec![int(1), arr(vec![int(2)])]))]),
            1 => Val::Null,
            2 => s("Hi"),
            _ => int(rng.below(4) as isize),
        };
    }
    let n = rng.below(4);
    arr((0..n).map(|_| gen_nested(rng, depth - 1)).collect())
}

// ------------------------------------------------------------------ correspondence

/// key filters: 0..2 outputs per element, some failing on some elements
const KEY_FILTERS: &[&str] = &[
    ".", ".a", ".a?", ".b?", "length", "type", "empty", "(.a, .b)?", "(type, .)", "1", "error",
    "if . == 2 then error else . end", "(.[0], .[1])?", "tojson", "[.]", "(., 1)", "(.a?, error)", "-(.)",
];
/// key filters that never fail (for invariants stated with `[KF]`)
const TOTAL_KEY_FILTERS: &[&str] = &[".", ".a?", "type", "empty", "(.a, .b)?", "(type, .)", "1", "tojson", "[.]", "(.[0], .[1])?", "length?"];

const KEYED_OPS: &[&str] = &["sort_by", "group_by", "unique_by", "min_by", "max_by"];

struct Out {
    id: usize,
}

impl Out {
    /// `human`: the jq program and its input, for replays
    fn corr(&mut self, tag: &str, req: String, real: String, human: String) {
        println!("{tag}{}\t{req}\t{real}\t{}", self.id, human.replace(['\t', '\n'], " "));
        self.id += 1;
    }
    fn spec(&mut self, key: String, req: String, real: String, prog: &str, input: &Val) {
        println!("SPEC\t{key}\t{req}\t{real}\t{prog}\t{}", input.to_string().replace(['\t', '\n'], " "));
    }
}

fn key_table(p: &mut Progs, kf: &str, a: &[Val]) -> String {
    let mut toks = vec![];
    for x in a {
        let items = p.run(kf, x);
        match items.iter().find(|i| !matches!(i, Item::Val(_))) {
            Some(Item::Err(e)) => toks.push(format!("X {}", vx::enc(e))),
            Some(_) => toks.push("X N".into()),
            None => {
                toks.push(format!("K{}", items.len()));
                for i in &items {
                    if let Item::Val(v) = i {
                        toks.push(vx::enc(v));
                    }
                }
            }
        }
    }
    toks.join(" ")
}

fn keyed_cases(p: &mut Progs, out: &mut Out, a: &[Val], kfs: &[&str]) {
    let av = arr(a.to_vec());
    for kf in kfs {
        let tab = key_table(p, kf, a);
        for op in KEYED_OPS {
            let prog = format!("{op}({kf})");
            let real = show_one(&p.run(&prog, &av));
            out.corr("k", format!("c12.keyed {op} {} {tab}", vx::enc(&av)), real, format!("{av} | {prog}"));
        }
    }
}

fn un(p: &mut Progs, out: &mut Out, op: &str, prog: &str, v: &Val) {
    let real = show_one(&p.run(prog, v));
    out.corr("u", format!("c12.{op} {}", vx::enc(v)), real, format!("{v} | {prog}"));
}

fn bin(p: &mut Progs, out: &mut Out, op: &str, prog: &str, x: &Val, y: &Val) {
    // programs see `[x, y]` and bind `$x`
    let code = format!(". as [$in, $x] | $in | {prog}");
    let real = show_one(&p.run(&code, &arr(vec![x.clone(), y.clone()])));
    out.corr("b", format!("c12.{op} {} {}", vx::enc(x), vx::enc(y)), real, format!("{y} as $x | {x} | {prog}"));
}

fn sub_array(rng: &mut Rng, a: &[Val]) -> Vec<Val> {
    if a.is_empty() {
        return vec![];
    }
    let i = rng.below(a.len());
    let n = rng.below(a.len() - i + 1).min(3);
    a[i..i + n].to_vec()
}

fn idx_pairs(rng: &mut Rng, n: usize) -> Vec<(Val, Val)> {
    let mut v = vec![];
    let alpha = [int(1), int(2), float(1.0), s("a"), arr(vec![int(1)]), Val::Null];
    let strs = ["", "a", "aa", "aaa", "abab", "ababab", "a,b, c", "\u{e9}a\u{e9}", "\u{20ac}\u{e9}\u{20ac}\u{e9}", "x\u{1f600}y\u{1f600}"];
    let needles = ["", "a", "aa", "ab", "ba", ", ", "\u{e9}", "\u{20ac}\u{e9}", "\u{1f600}", "b"];
    for a in strs {
        for b in needles {
            v.push((s(a), s(b)));
            v.push((bstr(a.as_bytes()), bstr(b.as_bytes())));
        }
    }
    // kinds that do not match, invalid UTF-8
    v.push((s("abc"), bstr(b"b")));
    v.push((bstr(b"abc"), s("b")));
    v.push((s("abc"), int(1)));
    v.push((int(1), int(1)));
    v.push((Val::Null, s("a")));
    v.push((obj(vec![]), s("a")));
    v.push((tstr(b"a\xffb\xff"), tstr(b"\xff")));
    v.push((tstr(b"\xe3\x82\xbc\xe3"), tstr(b"\xe3")));
    v.push((tstr(b"\xe3\x82\xbc\xe3"), tstr(b"\x82")));
    v.push((bstr(b"\xe3\x82\xbc\xe3"), bstr(b"\x82\xbc")));
    for _ in 0..n {
        let len = rng.below(8);
        let a: Vec<Val> = (0..len).map(|_| { let w = 3 + rng.below(4); alpha[rng.below(w)].clone() }).collect();
        let y = match rng.below(6) {
            0 => arr(vec![]),
            1 | 2 => arr(sub_array(rng, &a)),
            3 => rng.pick(&alpha).clone(),
            4 => arr(vec![rng.pick(&alpha).clone(), rng.pick(&alpha).clone()]),
            _ => arr(vec![rng.pick(&alpha).clone()]),
        };
        v.push((arr(a), y));
    }
    v
}

/// a value "contained" in `v` (sub-structure), for `contains`
fn shrink(rng: &mut Rng, v: &Val) -> Val {
    match v {
        Val::Arr(a) => {
            let mut r: Vec<Val> = vec![];
            for x in a.iter() {
                if rng.chance(1, 2) {
                    r.push(shrink(rng, x));
                    // a contained array may well be LONGER than the container: duplicates, and
                    // several parts witnessed by one and the same element (`["foobar"]` contains `["foo","bar"]`)
                    while rng.chance(1, 3) && r.len() < 12 {
                        r.push(shrink(rng, x));
                    }
                }
            }
            if rng.chance(1, 4) {
                r.reverse();
            }
            arr(r)
        }
        Val::Obj(o) => {
            let mut r = vec![];
            for (k, x) in o.iter() {
                if rng.chance(2, 3) {
                    r.push((k.clone(), shrink(rng, x)));
                }
            }
            obj(r)
        }
        Val::TStr(b) if !b.is_empty() && rng.chance(1, 2) => {
            // a substring on character boundaries
            let t = String::from_utf8_lossy(b).to_string();
            let cs: Vec<char> = t.chars().collect();
            let i = rng.below(cs.len());
            let j = i + rng.below(cs.len() - i + 1);
            s(&cs[i..j].iter().collect::<String>())
        }
        v => v.clone(),
    }
}

fn round_pool() -> Vec<Val> {
    let mut v = num_pool();
    let p63 = 9223372036854775808.0f64;
    for f in [0.4, -0.4, 0.5, -0.5, 2.5, -2.5, 3.5, 0.49999999999999994, 4503599627370495.5, 4503599627370496.5,
              -4503599627370495.5, 9007199254740991.0, p63, -p63, p63 - 1024.0, -p63 - 2048.0, p63 + 2048.0, p63 * 2.0,
              1e19, -1e19, 1e22, 1.5e300, -1.5e300, f64::MAX, f64::MIN_POSITIVE, -f64::MIN_POSITIVE, 5e-324, -5e-324, -0.0,
              0.9999999999999999, -0.9999999999999999, 1e-300] {
        v.push(float(f));
    }
    for d in ["9223372036854775808.0", "9223372036854775807.5", "-9223372036854775808.5", "9223372036854775808.5", "0.5", "-0.5", "1.5",
              "2.5", "1e19", "-1e19", "1e400", "-1e400", "123456789012345678901234567890.5", "9223372036854775295.9"] {
        v.push(dec(d));
    }
    v
}

pub fn gen(tier: &str) {
    let thorough = tier == "thorough";
    let mut rng = Rng::new(prng::seed_from_env() ^ 0xC12);
    let mut p = Progs::new();
    let mut out = Out { id: 0 };

    // ---- keyed natives: exhaustive small scope over a pool with ties
    let small = [int(1), float(1.0), int(2), s("a"), obj(vec![(s("a"), int(1)), (s("b"), int(2))]),
                 obj(vec![(s("a"), int(1)), (s("b"), int(3))])];
    let kf_small: &[&str] = &[".", ".a?", "(.a, .b)?", "1", "empty", "if . == 2 then error else . end", "type", ".a"];
    let maxlen = if thorough { 4 } else { 3 };
    let mut idx = vec![0usize; 0];
    loop {
        let a: Vec<Val> = idx.iter().map(|i| small[*i].clone()).collect();
        keyed_cases(&mut p, &mut out, &a, kf_small);
        // next tuple (length-lexicographic)
        let mut i = idx.len();
        loop {
            if i == 0 {
                idx = vec![0; idx.len() + 1];
                break;
            }
            i -= 1;
            if idx[i] + 1 < small.len() {
                idx[i] += 1;
                for j in i + 1..idx.len() {
                    idx[j] = 0;
                }
                break;
            }
        }
        if idx.len() > maxlen {
            break;
        }
    }
    // ---- keyed natives: random larger arrays, all key filters
    let n = if thorough { 3000 } else { 250 };
    for _ in 0..n {
        let a = gen_array(&mut rng);
        let k1 = *rng.pick(KEY_FILTERS);
        let k2 = *rng.pick(KEY_FILTERS);
        keyed_cases(&mut p, &mut out, &a, &[k1, k2]);
    }
    // non-array inputs of the keyed natives
    for v in nonnum_pool().iter().chain([int(1)].iter()) {
        if matches!(v, Val::Arr(_)) {
            continue;
        }
        for op in KEYED_OPS {
            let real = show_one(&p.run(&format!("{op}(.)"), v));
            out.corr("k", format!("c12.keyed {op} {}", vx::enc(v)), real, format!("{v} | {op}(.)"));
        }
    }

    // ---- unary filters on values of every type
    let mut vals: Vec<Val> = nonnum_pool();
    vals.extend(elem_pool());
    vals.extend([int(0), int(-3), float(-0.0), float(-1.5), float(f64::INFINITY), float(f64::NEG_INFINITY), dec("-1.5"), dec("2.0"),
                 big("-99999999999999999999"), int(isize::MIN), int(isize::MAX)]);
    let n = if thorough { 4000 } else { 400 };
    for _ in 0..n {
        vals.push(gen_val(&mut rng, 3));
    }
    for _ in 0..n / 4 {
        vals.push(arr(gen_array(&mut rng)));
        vals.push(gen_obj(&mut rng, 2));
    }
    for v in &vals {
        un(&mut p, &mut out, "sort", "sort", v);
        un(&mut p, &mut out, "keys", "keys", v);
        un(&mut p, &mut out, "keys_unsorted", "keys_unsorted", v);
        un(&mut p, &mut out, "to_entries", "to_entries", v);
        un(&mut p, &mut out, "with_entries_id", "with_entries(.)", v);
        un(&mut p, &mut out, "type", "type", v);
        un(&mut p, &mut out, "abs", "abs", v);
        un(&mut p, &mut out, "flatten0", "flatten", v);
        for w in ["boolean", "number", "string", "array", "object"] {
            let real = show_one(&p.run(&format!("is{w}"), v));
            out.corr("u", format!("c12.is {w} {}", vx::enc(v)), real, format!("{v} | is{w}"));
        }
    }
    // type of every number representation
    for v in num_pool() {
        un(&mut p, &mut out, "type", "type", &v);
        un(&mut p, &mut out, "abs", "abs", &v);
        for w in ["boolean", "number", "string", "array", "object"] {
            let real = show_one(&p.run(&format!("is{w}"), &v));
            out.corr("u", format!("c12.is {w} {}", vx::enc(&v)), real, format!("{v} | is{w}"));
        }
    }

    // ---- from_entries on entry lists (missing fields, duplicates, non-objects, non-string keys)
    let keys = key_pool();
    let n = if thorough { 3000 } else { 400 };
    for i in 0..n {
        let len = rng.below(5);
        let mut es = vec![];
        for _ in 0..len {
            let w = if rng.chance(1, 2) { 4 } else { keys.len() };
            let k = keys[rng.below(w)].clone();
            let v = gen_val(&mut rng, 1);
            es.push(match rng.below(12) {
                0 => obj(vec![(s("key"), k)]),
                1 => obj(vec![(s("value"), v)]),
                2 => Val::Null,
                3 => obj(vec![(s("value"), v), (s("key"), k), (s("x"), int(1))]),
                4 if i % 7 == 0 => int(1),
                _ => obj(vec![(s("key"), k), (s("value"), v)]),
            });
        }
        let v = if rng.chance(1, 6) { obj(es.into_iter().enumerate().map(|(i, e)| (int(i as isize), e)).collect()) } else { arr(es) };
        un(&mut p, &mut out, "from_entries", "from_entries", &v);
    }
    for v in nonnum_pool() {
        un(&mut p, &mut out, "from_entries", "from_entries", &v);
    }

    // ---- indices / index / rindex
    for (x, y) in idx_pairs(&mut rng, if thorough { 6000 } else { 700 }) {
        bin(&mut p, &mut out, "indices", "indices($x)", &x, &y);
        bin(&mut p, &mut out, "index", "index($x)", &x, &y);
        bin(&mut p, &mut out, "rindex", "rindex($x)", &x, &y);
    }

    // ---- contains / inside
    let n = if thorough { 8000 } else { 900 };
    for i in 0..n {
        let a = if i % 3 == 0 { rng.pick(&vals).clone() } else { gen_val(&mut rng, 3) };
        let b = match rng.below(4) {
            0 => gen_val(&mut rng, 2),
            1 => rng.pick(&vals).clone(),
            _ => shrink(&mut rng, &a),
        };
        bin(&mut p, &mut out, "contains", "contains($x)", &a, &b);
        bin(&mut p, &mut out, "inside", "inside($x)", &b, &a);
    }

    // ---- flatten($d): impl-model and the manual's definition
    let mut nests: Vec<Val> = vec![arr(vec![]), int(0), obj(vec![(s("a"), arr(vec![int(1)]))]), arr(vec![int(1)]), Val::Null, s("Hi"),
                                   arr(vec![arr(vec![])]), arr(vec![arr(vec![]), arr(vec![])]), arr(vec![arr(vec![arr(vec![])])]),
                                   arr(vec![int(1), arr(vec![int(2), arr(vec![int(3)])]), obj(vec![(s("a"), arr(vec![int(1), arr(vec![int(2)])]))])])];
    for _ in 0..(if thorough { 3000 } else { 300 }) {
        nests.push(gen_nested(&mut rng, 4));
    }
    for v in &nests {
        for d in -2i64..=4 {
            let prog = format!("flatten({d})");
            let real = show_one(&p.run(&prog, v));
            out.corr("f", format!("c12.flatten I{d} {}", vx::enc(v)), real.clone(), format!("{v} | {prog}"));
            // class of the deviation (filled in by the check from the two answers)
            let class = format!("{}:{}", type_name(v), if d < 0 { "negative-depth" } else { "depth>=0" });
            out.spec(format!("c12:flatten-depth:{class}"), format!("c12.flatten_spec I{d} {}", vx::enc(v)), real, &prog, v);
        }
    }

    // ---- transpose
    for i in 0..(if thorough { 3000 } else { 400 }) {
        let rows = rng.below(5);
        let v = arr((0..rows)
            .map(|_| {
                if rng.chance(1, 8) {
                    Val::Null
                } else if i % 50 == 49 && rng.chance(1, 3) {
                    gen_scalar(&mut rng)
                } else {
                    let n = rng.below(4);
                    arr((0..n).map(|_| gen_scalar(&mut rng)).collect())
                }
            })
            .collect());
        un(&mut p, &mut out, "transpose", "transpose", &v);
    }

    // ---- bsearch: the real answer must satisfy the contract on sorted arrays
    for _ in 0..(if thorough { 5000 } else { 600 }) {
        let a = gen_array(&mut rng);
        let sorted = match p.run("sort", &arr(a.clone())).first() {
            Some(Item::Val(v)) => v.clone(),
            _ => continue,
        };
        let x = if rng.chance(2, 3) && !a.is_empty() { rng.pick(&a).clone() } else { rng.pick(&elem_pool()).clone() };
        let items = p.run(". as [$in, $x] | $in | bsearch($x)", &arr(vec![sorted.clone(), x.clone()]));
        let real = match items.as_slice() {
            [Item::Val(r)] => format!("c12.bsearch_ok {} {} {}", vx::enc(&sorted), vx::enc(&x), vx::enc(r)),
            other => format!("c12.bsearch_ok {} {} N # {}", vx::enc(&sorted), vx::enc(&x), show_items(other)),
        };
        out.corr("s", real, "ok".into(), format!("{x} as $x | {sorted} | bsearch($x)  (answer must satisfy the binary_search contract)"));
    }

    // ---- floor / round / ceil: impl-model and the exact integer
    let mut rp = round_pool();
    for _ in 0..(if thorough { 20000 } else { 2000 }) {
        // random doubles clustered at integer boundaries and at the isize boundary
        let e = [0i32, 1, 10, 30, 51, 52, 53, 62, 63, 64, 70, 200][rng.below(12)];
        let m = (rng.next() >> 11) as f64 / (1u64 << 53) as f64; // [0,1)
        let mut f = (1.0 + m) * 2f64.powi(e);
        if rng.chance(1, 3) {
            f = f.round() + [0.0, 0.5, -0.5, 0.25][rng.below(4)];
        }
        if rng.chance(1, 2) {
            f = -f;
        }
        rp.push(float(f));
    }
    rp.extend(nonnum_pool().into_iter().take(6));
    for v in &rp {
        for m in ["floor", "round", "ceil"] {
            let real = show_one(&p.run(m, v));
            out.corr("r", format!("c12.round {m} {}", vx::enc(v)), real.clone(), format!("{v} | {m}"));
            // key: the double the filter rounds (all literals denoting it share the key)
            let bits = match v {
                Val::Num(_) => format!("{:016x}", jaq_std::ValT::as_f64(v).unwrap_or(f64::NAN).to_bits()),
                _ => "non-number".into(),
            };
            out.spec(format!("c12:round-exact:{m}:{bits}"), format!("c12.round_spec {m} {}", vx::enc(v)), real, m, v);
        }
    }

    // ---- tonumber / toboolean: the model takes the real `fromjson` stream as a parameter
    let texts = ["", " ", "\n", "1", " 42 ", "1 2", "1 true", "true", "false", "true false", "[42]", "[true]", "x", "1 x", "nan", "null",
                 "\"1\"", "-0", "1e3", "1.5", "0x10", "+1", "1,2", "{}", "truefalse", "1\n2\n3", "NaN", "Infinity", "-Infinity", "1.0 [", "9223372036854775808"];
    let mut tv: Vec<Val> = texts.iter().map(|t| s(t)).collect();
    tv.extend([int(1), float(1.5), Val::Bool(true), Val::Bool(false), Val::Null, arr(vec![int(1)]), obj(vec![]), bstr(b"1"), bstr(b"true"), dec("1.50")]);
    for v in &tv {
        let fj = p.run("fromjson", v);
        let stream: Vec<String> = fj
            .iter()
            .map(|i| match i {
                Item::Val(v) => format!("V {}", vx::enc(v)),
                Item::Err(e) => format!("E {}", vx::enc(e)),
                Item::Exn(_) => "E N".into(),
            })
            .collect();
        for (w, prog) in [("number", "tonumber"), ("boolean", "toboolean")] {
            let real = show_items(&p.run(prog, v));
            out.corr("t", format!("c12.totype {w} {} {}", vx::enc(v), stream.join(" ")), real.clone(), format!("{v} | {prog}"));
            let class = if fj.is_empty() { "no-output" } else if fj.len() > 1 { "several-values" } else { "single" };
            out.spec(format!("c12:totype:{prog}:{class}"), format!("c12.totype_spec {w} {} {}", vx::enc(v), stream.join(" ")), real, prog, v);
        }
    }

    // ---- startswith / endswith / ltrimstr / rtrimstr
    let strs = ["", "a", "ab", "abab", "foofoobar", "foobarbar", "bar", "foo", "\u{30bc}\u{30ce}\u{30ae}\u{30a2}\u{30b9}", "\u{30bc}\u{30ce}", "\u{30ae}\u{30a2}\u{30b9}", "b"];
    let mut sv: Vec<Val> = strs.iter().map(|t| s(t)).collect();
    sv.extend([bstr(b"ab"), bstr(b"a"), bstr(b""), bstr(b"\xe3\x82"), tstr(b"\xe3\x82\xbc"), int(1), Val::Null, arr(vec![s("a")])]);
    for a in &sv {
        for b in &sv {
            bin(&mut p, &mut out, "startswith", "startswith($x)", a, b);
            bin(&mut p, &mut out, "endswith", "endswith($x)", a, b);
            bin(&mut p, &mut out, "ltrimstr", "ltrimstr($x)", a, b);
            bin(&mut p, &mut out, "rtrimstr", "rtrimstr($x)", a, b);
        }
    }
    gen2(thorough, &mut rng, &mut p, &mut out);
    println!("END");
}


// ------------------------------------------------------------------ round 2: filters that are jq definitions

/// outputs of a filter argument as tokens: `S<m> v1 … vm` then `.` or `X <error value>`
fn stream_tokens(items: &[Item]) -> String {
    let vals: Vec<String> = items.iter().filter_map(|i| if let Item::Val(v) = i { Some(vx::enc(v)) } else { None }).collect();
    let n = items.iter().take_while(|i| matches!(i, Item::Val(_))).count();
    let tail = match items.get(n) {
        None => ".".to_string(),
        Some(Item::Err(e)) => format!("X {}", vx::enc(e)),
        Some(_) => "X N".to_string(),
    };
    let mut t = vec![format!("S{n}")];
    t.extend(vals.into_iter().take(n));
    t.push(tail);
    t.join(" ")
}

/// function table `F<n> (input stream)*` of the real filter `f` on a domain
fn fn_table(p: &mut Progs, f: &str, dom: &[Val]) -> String {
    let mut seen = std::collections::HashSet::new();
    let mut rows = vec![];
    for x in dom {
        let k = vx::enc(x);
        if seen.insert(k.clone()) {
            rows.push(format!("{k} {}", stream_tokens(&p.run(f, x))));
        }
    }
    format!("F{} {}", rows.len(), rows.join(" ")).trim_end().to_string()
}

fn values_of(v: &Val) -> Vec<Val> {
    match v {
        Val::Arr(a) => a.iter().cloned().collect(),
        Val::Obj(o) => o.values().cloned().collect(),
        _ => vec![],
    }
}

/// the values `walk(f)` applies `f` to (children first; arrays take all outputs, objects the first)
fn walk_dom(p: &mut Progs, f: &str, v: &Val, dom: &mut Vec<Val>) -> Vec<Item> {
    let v2 = match v {
        Val::Arr(a) => {
            let mut out = vec![];
            for x in a.iter() {
                for it in walk_dom(p, f, x, dom) {
                    match it {
                        Item::Val(y) => out.push(y),
                        other => return vec![other],
                    }
                }
            }
            arr(out)
        }
        Val::Obj(o) => {
            let mut out = vec![];
            for (k, x) in o.iter() {
                match walk_dom(p, f, x, dom).into_iter().next() {
                    None => {}
                    Some(Item::Val(y)) => out.push((k.clone(), y)),
                    Some(other) => return vec![other],
                }
            }
            obj(out)
        }
        v => v.clone(),
    };
    dom.push(v2.clone());
    p.run(f, &v2)
}

const MAP_FILTERS: &[&str] = &[".", "empty", "., .", "[.]", "if isnumber then . + 1 else . end", "select(. != null)", "if . == 2 then error else . end",
    "tojson", "if isarray then length else . end", "numbers += 1", "(., error)", ".[0]?", "type", "values", "if isobject then del(.a) else . end",
    "if . == false then empty else . end", "not"];
const ENTRY_FILTERS: &[&str] = &[".", ".value |= [.]", "select(.value != null)", ".key |= tojson", "empty", "., .", "{key: .value, value: .key}",
    ".key = false", ".value = false", "del(.key)", "del(.value)", "{k: .key, v: .value}", ".value", "select(.value)", "if .value == 2 then error else . end", ".key |= not"];
const PATH_PREDS: &[&str] = &["true", "isnumber", "isobject, isarray", "false", "null", ". == 1", "error", "if isnumber then error else true end", "empty",
    "isarray", "., .", "length > 1"];
const DEL_FREE: &[&str] = &[".a", ".[0]", ".[-1]", ".b?", ".[1]"];

/// objects whose keys and values stress `false`, `null` and non-string keys
fn gen_obj_falsy(rng: &mut Rng) -> Val {
    let keys = [s("a"), s("b"), s("key"), s("value"), s("k"), s("v"), Val::Bool(false), Val::Null, Val::Bool(true), int(0), int(1), float(1.5),
                arr(vec![]), arr(vec![int(1)]), obj(vec![]), s("")];
    let vals = [Val::Bool(false), Val::Null, Val::Bool(true), int(0), s(""), arr(vec![]), obj(vec![]), arr(vec![Val::Bool(false)]),
                obj(vec![(s("key"), Val::Bool(false))]), int(1), s("value")];
    let n = rng.below(6);
    obj((0..n).map(|_| (rng.pick(&keys).clone(), rng.pick(&vals).clone())).collect())
}

fn gen2(thorough: bool, rng: &mut Rng, p: &mut Progs, out: &mut Out) {
    let scale = if thorough { 8 } else { 1 };
    // ---- entries on objects with false / null values and non-string keys (directed + random)
    let mut objs = vec![
        obj(vec![(s("a"), Val::Bool(false)), (s("b"), Val::Null), (s("c"), int(0)), (s("d"), Val::Bool(true))]),
        obj(vec![(Val::Bool(false), int(1)), (Val::Null, int(2)), (int(0), int(3)), (arr(vec![int(1)]), int(4)), (obj(vec![]), int(5))]),
        obj(vec![(Val::Bool(false), Val::Bool(false))]),
        obj(vec![(Val::Null, Val::Null)]),
        obj(vec![(s("key"), Val::Bool(false)), (s("value"), Val::Null)]),
        obj(vec![(float(1.5), Val::Bool(false)), (arr(vec![]), Val::Null), (s(""), Val::Bool(false))]),
    ];
    for _ in 0..300 * scale {
        objs.push(gen_obj_falsy(rng));
    }
    for v in &objs {
        un(p, out, "to_entries", "to_entries", v);
        un(p, out, "with_entries_id", "with_entries(.)", v);
        // `to_entries | from_entries` through the model of `from_entries` on the real entries
        if let Some(Item::Val(es)) = p.run("to_entries", v).first() {
            un(p, out, "from_entries", "from_entries", es);
        }
    }
    // entry lists with falsy keys / values, missing fields, and jq's alternative field names (not read by jaq)
    for _ in 0..300 * scale {
        let len = rng.below(5);
        let keys = [s("a"), s("b"), Val::Bool(false), Val::Null, int(0), arr(vec![]), Val::Bool(true)];
        let vals = [Val::Bool(false), Val::Null, int(1), s("x"), Val::Bool(true)];
        let es: Vec<Val> = (0..len)
            .map(|_| {
                let (k, v) = (rng.pick(&keys).clone(), rng.pick(&vals).clone());
                match rng.below(10) {
                    0 => obj(vec![(s("k"), k), (s("v"), v)]),
                    1 => obj(vec![(s("key"), k), (s("v"), v)]),
                    2 => obj(vec![(s("k"), s("other")), (s("key"), k), (s("value"), v), (s("v"), int(7))]),
                    3 => obj(vec![(s("name"), k), (s("Value"), v)]),
                    4 => obj(vec![(s("value"), v)]),
                    _ => obj(vec![(s("key"), k), (s("value"), v)]),
                }
            })
            .collect();
        un(p, out, "from_entries", "from_entries", &arr(es));
    }

    // ---- inputs for the filters below
    let mut vals: Vec<Val> = nonnum_pool();
    vals.extend(elem_pool());
    vals.extend(objs.iter().take(12).cloned());
    for i in 0..150 * scale {
        vals.push(match i % 4 {
            0 => gen_val(rng, 3),
            1 => arr(gen_array(rng)),
            2 => gen_obj(rng, 2),
            _ => gen_nested(rng, 3),
        });
    }

    // ---- map / map_values / walk / all / any with the real filter as a table
    for v in &vals {
        let f = *rng.pick(MAP_FILTERS);
        let g = *rng.pick(MAP_FILTERS);
        for f in [f, g] {
            let tab = fn_table(p, f, &values_of(v));
            let real = show_one(&p.run(&format!("map({f})"), v));
            out.corr("m", format!("c12.map {} {tab}", vx::enc(v)), real, format!("{v} | map({f})"));
            let real = show_one(&p.run(&format!("map_values({f})"), v));
            out.corr("m", format!("c12.map_values {} {tab}", vx::enc(v)), real, format!("{v} | map_values({f})"));
            let real = show_one(&p.run(&format!("all({f})"), v));
            out.corr("m", format!("c12.all {} {tab}", vx::enc(v)), real, format!("{v} | all({f})"));
            let real = show_one(&p.run(&format!("any({f})"), v));
            out.corr("m", format!("c12.any {} {tab}", vx::enc(v)), real, format!("{v} | any({f})"));
            let mut dom = vec![];
            walk_dom(p, f, v, &mut dom);
            let tab = fn_table(p, f, &dom);
            // a diverging `walk` (stack overflow) kills the process: announce the case first
            println!("PRE\t{} | walk({f})", v.to_string().replace(['\t', '\n'], " "));
            let real = show_items(&p.run(&format!("walk({f})"), v));
            out.corr("w", format!("c12.walk {} {tab}", vx::enc(v)), real, format!("{v} | walk({f})"));
        }
        un(p, out, "add", "add", v);
        un(p, out, "all0", "all", v);
        un(p, out, "any0", "any", v);
        for w in ["values", "nulls", "booleans", "numbers", "strings", "arrays", "objects", "iterables", "scalars"] {
            let real = show_items(&p.run(w, v));
            out.corr("u", format!("c12.sel {w} {}", vx::enc(v)), real, format!("{v} | {w}"));
        }
        let real = show_items(&p.run("combinations", v));
        if real.len() < 4000 {
            out.corr("c", format!("c12.combinations {}", vx::enc(v)), real, format!("{v} | combinations"));
        }
        // with_entries(f): the table is `f` on the real entries
        let f = *rng.pick(ENTRY_FILTERS);
        let es = match p.run("to_entries", v).first() {
            Some(Item::Val(es)) => values_of(es),
            _ => vec![],
        };
        let tab = fn_table(p, f, &es);
        let real = show_one(&p.run(&format!("with_entries({f})"), v));
        out.corr("e", format!("c12.with_entries {} {tab}", vx::enc(v)), real, format!("{v} | with_entries({f})"));
        // paths(p): the table is `p` on every sub-value
        let pr = *rng.pick(PATH_PREDS);
        let subs: Vec<Val> = p.run("..", v).into_iter().filter_map(|i| if let Item::Val(x) = i { Some(x) } else { None }).collect();
        let tab = fn_table(p, pr, &subs);
        let real = show_items(&p.run(&format!("paths({pr})"), v));
        out.corr("p", format!("c12.paths {} {tab}", vx::enc(v)), real, format!("{v} | paths({pr})"));
        // delpaths: a few real paths (some repeated / reversed), sometimes a foreign one
        let mut paths: Vec<Val> = p.run("paths", v).into_iter().filter_map(|i| if let Item::Val(x) = i { Some(x) } else { None }).collect();
        if rng.chance(1, 2) {
            paths.reverse();
        }
        let k = rng.below(4);
        let mut sel: Vec<Val> = (0..k).filter_map(|_| if paths.is_empty() { None } else { Some(rng.pick(&paths).clone()) }).collect();
        if rng.chance(1, 5) {
            sel.push(arr(vec![rng.pick(&key_pool()).clone()]));
        }
        if rng.chance(1, 8) {
            sel.push(arr(vec![int(rng.below(7) as isize - 3), s("a")]));
        }
        if rng.chance(1, 20) {
            sel.insert(0, arr(vec![]));
        }
        let ps = arr(sel);
        let real = show_items(&p.run(". as [$in, $x] | $in | delpaths($x)", &arr(vec![v.clone(), ps.clone()])));
        out.corr("d", format!("c12.delpaths {} {}", vx::enc(v), vx::enc(&ps)), real, format!("{ps} as $x | {v} | delpaths($x)"));
        // del(.[$k])
        let k = if rng.chance(1, 2) { int(rng.below(9) as isize - 4) } else { rng.pick(&key_pool()).clone() };
        let real = show_items(&p.run(". as [$in, $x] | $in | del(.[$x])", &arr(vec![v.clone(), k.clone()])));
        out.corr("d", format!("c12.del_index {} {}", vx::enc(v), vx::enc(&k)), real, format!("{k} as $x | {v} | del(.[$x])"));
        // has / in
        let real = show_one(&p.run(". as [$in, $x] | $in | has($x)", &arr(vec![v.clone(), k.clone()])));
        out.corr("h", format!("c12.has {} {}", vx::enc(v), vx::enc(&k)), real, format!("{k} as $x | {v} | has($x)"));
        let real = show_one(&p.run(". as [$in, $x] | $in | in($x)", &arr(vec![k.clone(), v.clone()])));
        out.corr("h", format!("c12.in {} {}", vx::enc(&k), vx::enc(v)), real, format!("{v} as $x | {k} | in($x)"));
        // pick(f): the model gets the real `path_value(f)` pairs
        let pf = *rng.pick(&[".a", ".[0]", ".a.b", ".[1][0]", ".a, .b", ".[]?", "..", "first", ".a?, .[0]?", ".b.c.d", "empty", ".", ".[-1]"]);
        let pv = p.run(&format!("[path_value({pf})]"), v);
        if let [Item::Val(pairs)] = pv.as_slice() {
            let real = show_one(&p.run(&format!("pick({pf})"), v));
            out.corr("q", format!("c12.pick {}", vx::enc(pairs)), real, format!("{v} | pick({pf})"));
        }
    }
    // ---- join: the model gets the real `tostring` of every element
    for _ in 0..250 * scale {
        let k = rng.below(5);
        let a = if rng.chance(1, 10) { gen_val(rng, 2) } else { arr((0..k).map(|_| gen_scalar(rng)).collect()) };
        let sep = if rng.chance(1, 6) { gen_scalar(rng) } else { s([", ", "", "-", "\u{e9}"][rng.below(4)]) };
        let tab = fn_table(p, "tostring", &values_of(&a));
        let real = show_one(&p.run(". as [$in, $x] | $in | join($x)", &arr(vec![a.clone(), sep.clone()])));
        out.corr("j", format!("c12.join {} {} {tab}", vx::enc(&a), vx::enc(&sep)), real, format!("{sep} as $x | {a} | join($x)"));
    }
    // ---- combinations on small tables, combinations($n)
    for _ in 0..200 * scale {
        let rows = rng.below(4);
        let v = arr((0..rows)
            .map(|_| {
                let k = rng.below(3);
                if rng.chance(1, 10) { gen_obj(rng, 0) } else if rng.chance(1, 20) { gen_scalar(rng) } else { arr((0..k).map(|_| gen_scalar(rng)).collect()) }
            })
            .collect());
        let real = show_items(&p.run("combinations", &v));
        out.corr("c", format!("c12.combinations {}", vx::enc(&v)), real, format!("{v} | combinations"));
        let n = rng.below(4);
        if let Some(row) = values_of(&v).first() {
            let real = show_items(&p.run(&format!("combinations({n})"), row));
            out.corr("c", format!("c12.combinations_n {n} {}", vx::enc(row)), real, format!("{row} | combinations({n})"));
        }
    }
    // ---- splits: the regular-expression engine (`split_`) is a parameter
    let texts = ["", "a", "Here be\tspaces", "a, b,c,  d", "aaa", "baab", "xyz", "\u{e9}a\u{e9}, \u{20ac}", "ab12cd345"];
    let res = [", *", "a+", "\\s", "", "[0-9]+", "(", "b|c", "x*"];
    let flags = [s(""), s("g"), s("x"), s("i"), Val::Null, int(1), s("q")];
    let mut inputs: Vec<Val> = texts.iter().map(|t| s(t)).collect();
    inputs.extend([int(1), Val::Null, arr(vec![s("a")]), bstr(b"a b")]);
    for v in &inputs {
        for re in res {
            for fl in &flags {
                // the native's answer where `$fl + "g"` is defined (else the model fails at the `+` itself)
                let native = match p.run(". as [$in, $re, $fl] | $in | split_($re; try ($fl + \"g\") catch \"g\")", &arr(vec![v.clone(), s(re), fl.clone()])).as_slice() {
                    [Item::Val(r)] => format!("V {}", vx::enc(r)),
                    [Item::Err(e)] => format!("E {}", vx::enc(e)),
                    _ => "E N".to_string(),
                };
                let real = show_items(&p.run(". as [$in, $re, $fl] | $in | splits($re; $fl)", &arr(vec![v.clone(), s(re), fl.clone()])));
                out.corr("x", format!("c12.splits {} {} {} R {}", vx::enc(&s(re)), vx::enc(fl), vx::enc(v), native), real,
                         format!("{v} | splits({}; {fl})", s(re)));
            }
        }
    }
}

// ------------------------------------------------------------------ oracle (real library only)

#[derive(Clone, Copy, PartialEq)]
enum Dom {
    Arr,
    ArrTotal, // arrays × total key filters (KF substituted)
    ArrKeyed, // arrays × all key filters
    Obj,
    Iter,
    Any,
    ArrArr,
    PairIdx,
    PairContain,
    PairStr,
    PairJoin,
    PairSorted,
    PairHas,
    Str,
    Nested,
    ArrSmallArrs,
    StrNum,
}

struct Eqn {
    name: &'static str,
    dom: Dom,
    lhs: &'static str,
    rhs: &'static str,
}

const fn e(name: &'static str, dom: Dom, lhs: &'static str, rhs: &'static str) -> Eqn {
    Eqn { name, dom, lhs, rhs }
}

/// the manual's definitions used on the right-hand sides
const PRELUDE: &str = r#"
def m_flattens    : if isarray             then .[] | m_flattens       end;
def m_flattens($d): if isarray and $d >= 0 then .[] | m_flattens($d-1) end;
def m_verify_indices($x): all(indices($x)[] as $i | .[$i:][:$x | length]; . == $x);
def m_verify_transpose: transpose as $t |
  ($t | length) == (map(length) | max),
  (range($t | length) as $x |
    ($t[$x] | length) == length,
    (range(length) as $y |
      $t[$x][$y] == .[$y][$x]
    )
  );
def m_paths(p): paths as $path | if getpath($path) | p then $path else empty end;
def m_walk(f): def rec: (.[]? |= rec) | f; rec;
def m_contains($x): . as $i |
  if isstring and ($x | isstring) then
    # text against bytes (where `indices` fails) is not covered by the manual's wording: compared with ==
    if (try (indices($x) | true) catch false) then any(range(0; length + 1) as $k | .[$k:] | startswith($x); .) else . == $x end
  elif isarray and ($x | isarray) then all($x[]; . as $v | any($i[]; m_contains($v)))
  elif isobject and ($x | isobject) then all($x | to_entries[]; . as $e | ($i | has($e.key)) and ($i[$e.key] | m_contains($e.value)))
  else . == $x end;
def m_keys(f): [f];
"#;

const EQNS: &[Eqn] = &[
    // --- sorting family
    e("sort_by(f) = sort_by([f])", Dom::ArrKeyed, "sort_by(KF)", "sort_by([KF])"),
    e("group_by(f) = group_by([f])", Dom::ArrKeyed, "group_by(KF)", "group_by([KF])"),
    e("unique_by(f) = unique_by([f])", Dom::ArrKeyed, "unique_by(KF)", "unique_by([KF])"),
    e("min_by(f) = min_by([f])", Dom::ArrKeyed, "min_by(KF)", "min_by([KF])"),
    e("max_by(f) = max_by([f])", Dom::ArrKeyed, "max_by(KF)", "max_by([KF])"),
    e("unique_by(f) = [group_by(f)[] | .[0]]", Dom::ArrKeyed, "unique_by(KF)", "[group_by(KF)[] | .[0]]"),
    e("sort = sort_by(.)", Dom::Any, "sort", "sort_by(.)"),
    e("min = min_by(.)", Dom::Any, "min", "min_by(.)"),
    e("max = max_by(.)", Dom::Any, "max", "max_by(.)"),
    e("unique = unique_by(.)", Dom::Any, "unique", "unique_by(.)"),
    e("sort_by: sorted by key, ties in input order, a permutation", Dom::ArrTotal,
      "to_entries | sort_by(.value | KF) | . as $s | (map(.key) | sort) == [range($s | length)] and all(range(0; ($s | length) - 1); . as $i | ([$s[$i].value | KF]) as $a | ([$s[$i+1].value | KF]) as $b | $a < $b or ($a == $b and $s[$i].key < $s[$i+1].key))",
      "true"),
    e("sort_by on values = sort_by on tagged values", Dom::ArrTotal, "sort_by(KF)", "to_entries | sort_by(.value | KF) | map(.value)"),
    e("group_by: non-empty maximal runs of the sorted input", Dom::ArrTotal,
      ". as $in | group_by(KF) | . as $gs | all($gs[]; length > 0) and ([$gs[][]] == ($in | sort_by(KF))) and all($gs[]; . as $g | all($g[]; [KF] == ($g[0] | [KF]))) and all(range(0; ($gs | length) - 1); . as $i | ($gs[$i][0] | [KF]) < ($gs[$i+1][0] | [KF]))",
      "true"),
    e("unique_by: first of each run, keys strictly increasing", Dom::ArrTotal,
      ". as $in | unique_by(KF) | . as $u | all($u[]; . as $y | ([KF]) as $k | first($in[] | select([KF] == $k)) == $y) and all(range(0; ($u | length) - 1); . as $i | ($u[$i] | [KF]) < ($u[$i+1] | [KF])) and all($in[]; [KF] as $k | any($u[]; [KF] == $k))",
      "true"),
    e("min_by: extremal, first among ties; null on []", Dom::ArrTotal,
      ". as $in | min_by(KF) as $m | if $in == [] then $m == null else ($in | map([KF])) as $ks | ($ks | index([$m | [KF]])) as $j | all($ks[]; ($m | [KF]) <= .) and $in[$j] == $m and all($ks[:$j][]; ($m | [KF]) < .) end",
      "true"),
    e("max_by: extremal, last among ties; null on []", Dom::ArrTotal,
      ". as $in | max_by(KF) as $m | if $in == [] then $m == null else ($in | map([KF])) as $ks | ($ks | rindex([$m | [KF]])) as $j | all($ks[]; . <= ($m | [KF])) and $in[$j] == $m and all($ks[$j+1:][]; . < ($m | [KF])) end",
      "true"),
    e("min_by(f) = sort_by(f) | first", Dom::ArrTotal, "min_by(KF)", "sort_by(KF) | first"),
    e("max_by(f) = sort_by(f) | last", Dom::ArrTotal, "max_by(KF)", "sort_by(KF) | last"),
    // --- keys, entries
    e("keys = keys_unsorted | sort", Dom::Any, "keys", "keys_unsorted | sort"),
    e("keys_unsorted = to_entries | map(.key)", Dom::Any, "keys_unsorted", "to_entries | map(.key)"),
    e("keys_unsorted = [path(.[])[]]", Dom::Any, "keys_unsorted", "[path(.[])[]]"),
    e("to_entries | from_entries = . on objects", Dom::Obj, "to_entries | from_entries", "."),
    e("with_entries(.) = . on objects", Dom::Obj, "with_entries(.)", "."),
    e("to_entries | from_entries: every key keeps its value", Dom::Obj, ". as $in | (to_entries | from_entries) as $out | [keys_unsorted[] as $k | [$out | has($k), .[$k]]]", "[keys_unsorted[] as $k | [true, .[$k]]]"),
    e("with_entries(.) keeps keys and their order", Dom::Obj, "with_entries(.) | keys_unsorted", "keys_unsorted"),
    e("to_entries: .[k] yields v", Dom::Iter, ". as $in | to_entries | all(.[]; . as $e | (keys == [\"key\", \"value\"]) and $in[$e.key] == $e.value) and length == ($in | length)", "true"),
    e("with_entries(f) = to_entries | map(f) | from_entries [1]", Dom::Any, "with_entries(.value |= [.])", "to_entries | map(.value |= [.]) | from_entries"),
    e("with_entries(f) = to_entries | map(f) | from_entries [2]", Dom::Any, "with_entries(select(.value != null), .)", "to_entries | map(select(.value != null), .) | from_entries"),
    e("with_entries(f) = to_entries | map(f) | from_entries [3]", Dom::Any, "with_entries(.key |= tojson)", "to_entries | map(.key |= tojson) | from_entries"),
    // --- membership
    e("indices: sound (manual's verify)", Dom::PairIdx, "if isarray and ($x | isarray | not) then all(indices($x)[] as $i | .[$i]; . == $x) else m_verify_indices($x) end", "indices($x) | true"),
    e("indices: complete", Dom::PairIdx,
      "if ($x | length) > 0 and ((isstring and ($x | isstring)) or (isarray and ($x | isarray))) then indices($x) == [range(0; length) as $i | select(.[$i:][:$x | length] == $x) | $i] elif isarray and ($x | isarray | not) then indices($x) == [range(0; length) as $i | select(.[$i] == $x) | $i] else true end",
      "true"),
    e("index = indices | first", Dom::PairIdx, "index($x)", "indices($x) | first"),
    e("rindex = indices | last", Dom::PairIdx, "rindex($x)", "indices($x) | last"),
    e("inside($x) = . as $i | $x | contains($i)", Dom::PairContain, "inside($x)", ". as $i | $x | contains($i)"),
    e("contains: the manual's four conditions", Dom::PairContain, "contains($x)", "m_contains($x)"),
    e("in($x) = . as $k | $x | has($k)", Dom::PairHas, "in($x)", ". as $k | $x | has($k)"),
    e("has: every key of an object", Dom::Obj, "all(has(keys[]); .)", "true"),
    e("has: every index of an array", Dom::Arr, "all(has(range(-length; length)); .)", "true"),
    e("has: .[$k] points to data (arrays/objects)", Dom::PairHas, ". as $k | $x | if isobject then has($k) == any(keys_unsorted[]; . == $k) elif isarray and ($k | isnumber) and ($k | tojson | test(\"^-?[0-9]+$\")) then has($k) == ($k >= -length and $k < length) else true end", "true"),
    // --- updates
    e("map(f) = [.[] | f] [1]", Dom::Any, "map(., [.])", "[.[] | (., [.])]"),
    e("map(f) = [.[] | f] [2]", Dom::Any, "map(select(. != null) | tojson)", "[.[] | select(. != null) | tojson]"),
    e("map_values(f) = .[] |= f [1]", Dom::Any, "map_values([.])", ".[] |= [.]"),
    e("map_values(f) = .[] |= f [2]", Dom::Any, "map_values(select(. != null))", ".[] |= select(. != null)"),
    e("map_values(f) = map(f) on arrays", Dom::Arr, "map_values([.])", "map([.])"),
    e("map_values(f) = map(f) on arrays, several outputs", Dom::Arr, "map_values(., [.]), map_values(select(. != null))", "map(., [.]), map(select(. != null))"),
    e("walk(f) = .. |= f", Dom::Any, "walk(if isnumber then . + 1 elif isarray then reverse else . end)", ".. |= (if isnumber then . + 1 elif isarray then reverse else . end)"),
    e("walk(f) = jq's walk [1]", Dom::Any, "walk(if isnumber then . + 1 elif isarray then reverse else . end)", "m_walk(if isnumber then . + 1 elif isarray then reverse else . end)"),
    e("walk(f) = jq's walk [2]", Dom::Any, "walk(if isobject then del(.a) else . end)", "m_walk(if isobject then del(.a) else . end)"),
    e("del(f) = f |= empty [1]", Dom::Any, "del(.[0])", ".[0] |= empty"),
    e("del(f) = f |= empty [2]", Dom::Any, "del(.[]?)", ".[]? |= empty"),
    e("del(f) = f |= empty [3]", Dom::Any, "del(.a?, .[1:]?)", "(.a?, .[1:]?) |= empty"),
    // --- paths
    e("paths = skip(1; path(..))", Dom::Any, "[paths]", "[skip(1; path(..))]"),
    e("paths = paths(true)", Dom::Any, "[paths]", "[paths(true)]"),
    e("paths(p): the manual's definition [1]", Dom::Any, "[paths(isnumber)]", "[m_paths(isnumber)]"),
    e("paths(p): the manual's definition [2]", Dom::Any, "[paths(isobject, isarray)]", "[m_paths(isobject, isarray)]"),
    e("getpath(path(f)) = f", Dom::Any, "[getpath(path(..))]", "[..]"),
    e("delpaths: in the order given", Dom::Any, ". as $in | ([paths] | reverse | .[:3]) as $ps | delpaths($ps)", ". as $in | ([paths] | reverse | .[:3]) as $ps | reduce $ps[] as $p ($in; del(getpath($p)))"),
    e("delpaths: relative to the current value", Dom::Arr, "delpaths([[0], [0]])", "del(.[0]) | del(.[0])"),
    e("pick(f, g) = pick(f) * pick(g)", Dom::Obj, "pick(.a, .b?)", "pick(.a) * pick(.b?)"),
    e("pick(.) = .", Dom::Obj, "pick(.[]?) // {}", "if length == 0 then {} else . end"),
    // --- arrays
    e("flatten = [flattens]", Dom::Nested, "flatten", "[m_flattens]"),
    e("flatten($d) = [flattens($d)]", Dom::Nested, "flatten(DEPTH)", "[m_flattens(DEPTH)]"),
    e("transpose: the manual's verify", Dom::ArrArr, "all(m_verify_transpose; .)", "true"),
    e("bsearch: found index / insertion point", Dom::PairSorted,
      "bsearch($x) as $i | (-$i - 1) as $j | if any(.[]; . == $x) then $i >= 0 and .[$i] == $x else $i < 0 and ((.[$j:$j] = [$x]) | . == sort) end",
      "true"),
    e("combinations of two arrays", Dom::ArrSmallArrs, "[.[:2] | combinations]", "if length < 2 then [.[:2] | combinations] else [.[0][] as $x1 | .[1][] as $x2 | [$x1, $x2]] end"),
    e("combinations: count", Dom::ArrSmallArrs, "[combinations] | length", "reduce (.[] | length) as $n (1; . * $n)"),
    e("combinations($n) = [a, …, a] | combinations", Dom::Arr, ".[:3] | [combinations(0, 1, 2)]", ".[:3] | [([], [.], [., .]) | combinations]"),
    e("[] | combinations = []", Dom::Arr, "[] | [combinations]", "[[]]"),
    e("join: the manual's sum", Dom::PairJoin, "join($x)", "if length == 0 then \"\" else reduce .[1:][] as $y (\"\\(.[0])\"; . + $x + \"\\($y)\") end"),
    // --- strings
    e("splits = split[]", Dom::Str, "[splits(\", *\"; null)], [splits(\"a+\"; \"g\")], [splits(\"\\\\s\")]", "split(\", *\"; null), split(\"a+\"; \"g\"), [splits(\"\\\\s\"; \"\")]"),
    e("split($re; f) = split($re; \"g\" + f)", Dom::Str, "split(\"a|b\"; \"\"), split(\", *\"; \"x\")", "split(\"a|b\"; \"g\"), split(\", *\"; \"gx\")"),
    e("startswith: prefix", Dom::PairStr, "startswith($x)", ".[:$x | length] == $x"),
    e("endswith: suffix", Dom::PairStr, "endswith($x)", "($x | length) as $n | if $n == 0 then true else .[-$n:] == $x and length >= $n end"),
    e("ltrimstr: removes one prefix", Dom::PairStr, "ltrimstr($x)", "if startswith($x) then .[$x | length:] else . end"),
    e("rtrimstr: removes one suffix", Dom::PairStr, "rtrimstr($x)", "if endswith($x) and ($x | length) > 0 then .[:-($x | length)] else . end"),
    // --- numbers, types
    e("tonumber: one number or a failure", Dom::StrNum, "[try tonumber catch \"fail\"] | length", "1"),
    e("toboolean: one boolean or a failure", Dom::StrNum, "[try toboolean catch \"fail\"] | length", "1"),
    e("tonumber: numbers unchanged", Dom::StrNum, "if isnumber then (tonumber | tojson) == tojson else true end", "true"),
    e("abs: the manual's definition", Dom::Any, "abs", "if . < 0 then -. else . end"),
    e("istype = type == name", Dom::Any, "[isboolean, isnumber, isstring, isarray, isobject]", "type as $t | [$t == \"boolean\", $t == \"number\", $t == \"string\", $t == \"array\", $t == \"object\"]"),
    e("selection filters = select(istype)", Dom::Any, "[nulls], [booleans], [numbers], [strings], [arrays], [objects]", "[select(. == null)], [select(isboolean)], [select(isnumber)], [select(isstring)], [select(isarray)], [select(isobject)]"),
    e("values / iterables / scalars", Dom::Any, "[values], [iterables], [scalars]", "[select(. != null)], [select(isarray or isobject)], [select((isarray or isobject) | not)]"),
    e("istype = selection yields output", Dom::Any, "[isboolean, isnumber, isstring, isarray, isobject]", "[([booleans], [numbers], [strings], [arrays], [objects]) | length > 0]"),
    e("floor <= . < floor + 1 (moderate range)", Dom::StrNum, "if isnumber and (isinfinite or isnan | not) and (abs < 4503599627370496) then (floor as $f | $f <= . and . < $f + 1 and ($f | . == round)) and (ceil as $c | $c >= . and . > $c - 1) and (round as $r | (. - $r | abs) <= 0.5) else true end", "true"),
];

fn oracle_inputs(rng: &mut Rng, dom: Dom, n: usize) -> Vec<Val> {
    let mut v = vec![];
    let elems = elem_pool();
    match dom {
        Dom::Arr | Dom::ArrTotal | Dom::ArrKeyed => {
            v.push(arr(vec![]));
            v.push(arr(vec![int(1)]));
            v.push(arr(vec![int(1), float(1.0), int(1)]));
            for _ in 0..n {
                v.push(arr(gen_array(rng)));
            }
        }
        Dom::Obj => {
            v.push(obj(vec![]));
            // `false` / `null` values and non-string keys (false, null, numbers, arrays, objects)
            v.push(obj(vec![(s("a"), Val::Bool(false)), (s("b"), Val::Null), (s("c"), int(0)), (s("d"), Val::Bool(true))]));
            v.push(obj(vec![(Val::Bool(false), int(1)), (Val::Null, int(2)), (int(0), int(3)), (arr(vec![int(1)]), int(4)), (obj(vec![]), int(5))]));
            v.push(obj(vec![(Val::Bool(false), Val::Bool(false)), (Val::Null, Val::Null)]));
            for i in 0..n {
                v.push(if i % 3 == 0 { gen_obj_falsy(rng) } else { gen_obj(rng, 2) });
            }
        }
        Dom::Iter => {
            for i in 0..n {
                v.push(if i % 2 == 0 { gen_obj(rng, 2) } else { arr(gen_array(rng)) });
            }
        }
        Dom::Any => {
            v.extend(nonnum_pool());
            v.extend(elems.iter().cloned());
            for i in 0..n {
                v.push(match i % 3 {
                    0 => gen_val(rng, 3),
                    1 => arr(gen_array(rng)),
                    _ => gen_obj(rng, 2),
                });
            }
        }
        Dom::ArrArr => {
            for _ in 0..n {
                let rows = 1 + rng.below(4);
                v.push(arr((0..rows).map(|_| { let k = rng.below(4); arr((0..k).map(|_| gen_scalar(rng)).collect()) }).collect()));
            }
        }
        Dom::ArrSmallArrs => {
            v.push(arr(vec![]));
            for _ in 0..n {
                let rows = rng.below(4);
                v.push(arr((0..rows).map(|_| { let k = rng.below(3); arr((0..k).map(|_| gen_scalar(rng)).collect()) }).collect()));
            }
        }
        Dom::PairIdx => {
            for (x, y) in idx_pairs(rng, n) {
                // the manual's cases: both strings of one kind, both arrays, array and element
                let same = matches!((&x, &y), (Val::TStr(_), Val::TStr(_)) | (Val::BStr(_), Val::BStr(_)) | (Val::Arr(_), _));
                let valid = |v: &Val| match v { Val::TStr(b) => std::str::from_utf8(b).is_ok(), _ => true };
                if same && valid(&x) && valid(&y) {
                    v.push(arr(vec![x, y]));
                }
            }
        }
        Dom::PairContain => {
            for i in 0..n {
                let a = if i % 4 == 0 { rng.pick(&elems).clone() } else { gen_val(rng, 3) };
                let b = if rng.chance(1, 3) { gen_val(rng, 2) } else { shrink(rng, &a) };
                v.push(arr(vec![a, b]));
            }
        }
        Dom::PairHas => {
            let keys = key_pool();
            for _ in 0..n {
                let c = if rng.chance(1, 2) { gen_obj(rng, 1) } else { arr(gen_array(rng)) };
                let k = if rng.chance(1, 2) { rng.pick(&keys).clone() } else { int(rng.below(9) as isize - 4) };
                v.push(arr(vec![k, c]));
            }
        }
        Dom::PairStr => {
            let strs = ["", "a", "ab", "abab", "foofoobar", "foobarbar", "bar", "foo", "\u{30bc}\u{30ce}\u{30ae}\u{30a2}\u{30b9}", "\u{30bc}\u{30ce}", "\u{30ae}\u{30a2}\u{30b9}", "b", "\u{e9}", "a\u{e9}"];
            for a in strs {
                for b in strs {
                    v.push(arr(vec![s(a), s(b)]));
                }
            }
        }
        Dom::PairJoin => {
            for _ in 0..n {
                let k = rng.below(5);
                let a = arr((0..k).map(|_| gen_scalar(rng)).collect());
                let sep = if rng.chance(1, 8) { gen_scalar(rng) } else { s([", ", "", "-", "\u{e9}"][rng.below(4)]) };
                v.push(arr(vec![a, sep]));
            }
        }
        Dom::PairSorted => {
            for _ in 0..n {
                let mut a = gen_array(rng);
                a.sort();
                let x = if rng.chance(2, 3) && !a.is_empty() { rng.pick(&a).clone() } else { rng.pick(&elems).clone() };
                v.push(arr(vec![arr(a), x]));
            }
        }
        Dom::Str => {
            for t in ["", "a", "Here be\tspaces", "  More\n\n", "a, b,c,  d", "aaa", "baab", "xyz", "\u{e9}a\u{e9}, \u{20ac}"] {
                v.push(s(t));
            }
        }
        Dom::StrNum => {
            for t in ["", " ", "1", " 42 ", "1 2", "true", "true false", "[42]", "x", "nan", "null", "\"1\"", "1.5", "-0", "1\n2"] {
                v.push(s(t));
            }
            v.extend(round_pool());
            v.extend([Val::Bool(true), Val::Bool(false)]);
        }
        Dom::Nested => {
            v.extend([arr(vec![]), int(0), obj(vec![(s("a"), arr(vec![int(1)]))]), arr(vec![int(1)]), Val::Null, Val::Bool(true), s("Hi"),
                      arr(vec![arr(vec![])]), arr(vec![int(1), arr(vec![int(2), arr(vec![int(3)])]), obj(vec![(s("a"), arr(vec![int(1), arr(vec![int(2)])]))])])]);
            for _ in 0..n {
                v.push(gen_nested(rng, 4));
            }
        }
    }
    v
}

pub fn oracle(tier: &str) {
    let thorough = tier == "thorough";
    let mut rng = Rng::new(prng::seed_from_env() ^ 0x0C12);
    let mut p = Progs::new();
    let n = if thorough { 2500 } else { 250 };
    for eq in EQNS {
        let pair = matches!(eq.dom, Dom::PairIdx | Dom::PairContain | Dom::PairStr | Dom::PairJoin | Dom::PairSorted | Dom::PairHas);
        let inputs = oracle_inputs(&mut rng, eq.dom, n);
        let variants: Vec<(String, String, String)> = match eq.dom {
            Dom::ArrTotal => TOTAL_KEY_FILTERS.iter().map(|k| (eq.lhs.replace("KF", k), eq.rhs.replace("KF", k), format!("f={k}"))).collect(),
            Dom::ArrKeyed => KEY_FILTERS.iter().map(|k| (eq.lhs.replace("KF", k), eq.rhs.replace("KF", k), format!("f={k}"))).collect(),
            Dom::Nested if eq.lhs.contains("DEPTH") => (-2..=4).map(|d: i32| (eq.lhs.replace("DEPTH", &d.to_string()), eq.rhs.replace("DEPTH", &d.to_string()), format!("d={d}"))).collect(),
            _ => vec![(eq.lhs.to_string(), eq.rhs.to_string(), String::new())],
        };
        let per = if variants.len() > 1 { (inputs.len() / 3).max(40) } else { inputs.len() };
        for (lhs, rhs, var) in &variants {
            let wrap = |body: &str| if pair { format!("{PRELUDE} . as [$in, $x] | $in | ({body})") } else { format!("{PRELUDE} {body}") };
            let (lp, rp) = (wrap(lhs), wrap(rhs));
            let (mut ok, mut fail, mut errs) = (0usize, 0usize, 0usize);
            for (i, input) in inputs.iter().enumerate() {
                if variants.len() > 1 && i >= per && i % variants.len() != 0 {
                    continue;
                }
                let li = p.run(&lp, input);
                let ri = p.run(&rp, input);
                let (l, r) = (norm_items(&li), norm_items(&ri));
                if l.contains("COMPILE") || r.contains("COMPILE") {
                    println!("ORACLE SKIP\t{}\tcompile", eq.name);
                    break;
                }
                if l == r {
                    ok += 1;
                    if l.contains('E') && !l.contains("V ") {
                        errs += 1;
                    }
                } else {
                    fail += 1;
                    if fail <= 40 {
                        // class of the input for stable keys
                        let subject = if pair { match input { Val::Arr(a) => a[0].clone(), v => v.clone() } } else { input.clone() };
                        let class = format!("{}{}", type_name(&subject), if var.is_empty() { String::new() } else { format!(":{var}") });
                        println!("ORACLE FAIL\t{}\t{}\t{}\t{}\t{}\t{}\t{}", eq.name, class, lhs, rhs, input.to_string().replace(['\t', '\n'], " "), show_items(&li), show_items(&ri));
                    }
                }
            }
            println!("ORACLE SUM\t{}\t{}\t{}\t{}\t{}", eq.name, var, ok, fail, errs);
        }
    }
}


// ------------------------------------------------------------------ translator: defs.jq → Lean

use jaq_core::load::lex::StrPart;
use jaq_core::load::parse::{BinaryOp, Def, Pattern, Term};
use jaq_core::path::{Opt, Part};

fn lstr(s: &str) -> String {
    format!("\"{}\"", s.replace('\\', "\\\\").replace('"', "\\\"").replace('\n', "\\n"))
}

fn tm_list(items: Vec<String>) -> String {
    let mut r = String::from(".nil");
    for i in items.into_iter().rev() {
        r = format!("(.cons {i} {r})");
    }
    r
}

fn tm_opt(t: &Option<Term<&str>>) -> String {
    match t {
        Some(t) => tm(t),
        None => ".nil".into(),
    }
}

fn pat(p: &Pattern<&str>) -> String {
    match p {
        Pattern::Var(x) => format!("(.var {})", lstr(x)),
        Pattern::Arr(ps) => format!("(.arr {})", tm_list(ps.iter().map(pat).collect())),
        Pattern::Obj(kps) => format!("(.obj {})", tm_list(kps.iter().map(|(k, p)| format!("(.kv {} {})", tm(k), pat(p))).collect())),
    }
}

/// print a parsed term as a `Jaq.Coll.Tm` constructor term (total: what has no constructor is `.other <Debug>`)
fn tm(t: &Term<&str>) -> String {
    let other = |t: &Term<&str>| format!("(.other {})", lstr(&format!("{t:?}")));
    match t {
        Term::Id => ".id".into(),
        Term::Recurse => ".dotdot".into(),
        Term::Num(n) => format!("(.num {})", lstr(n)),
        Term::Var(x) => format!("(.var {})", lstr(x)),
        Term::Str(None, parts) => {
            let ps: Vec<String> = parts
                .iter()
                .map(|p| match p {
                    StrPart::Str(s) => format!("(.lit {})", lstr(s)),
                    StrPart::Char(c) => format!("(.lit {})", lstr(&c.to_string())),
                    StrPart::Term(t) => tm(t),
                })
                .collect();
            format!("(.str {})", tm_list(ps))
        }
        Term::Arr(None) => "(.arr .nil)".into(),
        Term::Arr(Some(t)) => format!("(.arr {})", tm(t)),
        Term::Obj(kvs) => format!("(.obj {})", tm_list(kvs.iter().map(|(k, v)| format!("(.kv {} {})", tm(k), tm_opt(v))).collect())),
        Term::Neg(t) => format!("(.neg {})", tm(t)),
        Term::Call(name, args) => format!("(.call {} {})", lstr(name), tm_list(args.iter().map(tm).collect())),
        Term::BinOp(l, op, r) => match op {
            BinaryOp::Pipe(None) => format!("(.pipe {} {})", tm(l), tm(r)),
            BinaryOp::Pipe(Some(p)) => format!("(.bind {} {} {})", tm(l), pat(p), tm(r)),
            BinaryOp::Comma => format!("(.comma {} {})", tm(l), tm(r)),
            BinaryOp::Alt => format!("(.bin \"alt\" {} {})", tm(l), tm(r)),
            BinaryOp::And => format!("(.bin \"and\" {} {})", tm(l), tm(r)),
            BinaryOp::Or => format!("(.bin \"or\" {} {})", tm(l), tm(r)),
            BinaryOp::Math(m) => format!("(.bin {} {} {})", lstr(&format!("{m:?}")), tm(l), tm(r)),
            BinaryOp::Cmp(c) => format!("(.bin {} {} {})", lstr(&format!("{c:?}")), tm(l), tm(r)),
            BinaryOp::Assign => format!("(.bin \"assign\" {} {})", tm(l), tm(r)),
            BinaryOp::Update => format!("(.bin \"update\" {} {})", tm(l), tm(r)),
            BinaryOp::UpdateMath(m) => format!("(.bin {} {} {})", lstr(&format!("update{m:?}")), tm(l), tm(r)),
            BinaryOp::UpdateAlt => format!("(.bin \"updatealt\" {} {})", tm(l), tm(r)),
        },
        Term::IfThenElse(branches, els) => {
            // `elif` chains as nested conditionals; a missing `else` is `.nil`
            let mut r = match els {
                Some(e) => tm(e),
                None => ".nil".into(),
            };
            for (c, t) in branches.iter().rev() {
                r = format!("(.ite {} {} {})", tm(c), tm(t), r);
            }
            r
        }
        Term::Def(defs, rest) => {
            let mut r = tm(rest);
            for d in defs.iter().rev() {
                let ps: Vec<String> = d.args.iter().map(|a| lstr(a)).collect();
                r = format!("(.def_ {} [{}] {} {})", lstr(d.name), ps.join(", "), tm(&d.body), r);
            }
            r
        }
        Term::Fold(kind, xs, p, args) if *kind == "reduce" && args.len() == 2 => {
            format!("(.reduce {} {} {} {})", tm(xs), pat(p), tm(&args[0]), tm(&args[1]))
        }
        Term::Path(head, path) => {
            let parts: Vec<String> = path
                .0
                .iter()
                .map(|(part, opt)| {
                    let o = matches!(opt, Opt::Optional);
                    match part {
                        Part::Index(i) => format!("(.pidx {} {o})", tm(i)),
                        Part::Range(a, b) => format!("(.prange {} {} {o})", tm_opt(a), tm_opt(b)),
                    }
                })
                .collect();
            format!("(.path {} {})", tm(head), tm_list(parts))
        }
        _ => other(t),
    }
}

/// the definitions C12 models or whose documented equation it checks: (file, name, arity)
const PINNED: &[(&str, &str, usize)] = &[
    ("core", "paths", 1), ("core", "getpath", 1), ("core", "delpaths", 1), ("core", "map", 1), ("core", "map_values", 1),
    ("core", "walk", 1), ("core", "del", 1), ("core", "join", 1), ("core", "combinations", 0), ("core", "combinations", 1),
    ("core", "to_entries", 0), ("core", "from_entries", 0), ("core", "with_entries", 1),
    ("core", "isempty", 1), ("core", "all", 2), ("core", "any", 2), ("core", "all", 1), ("core", "any", 1), ("core", "all", 0), ("core", "any", 0),
    ("json", "totype", 2), ("json", "tonumber", 0), ("json", "toboolean", 0), ("json", "transpose", 0), ("json", "in", 1),
    ("json", "inside", 1), ("json", "index", 1), ("json", "rindex", 1),
    ("std", "isboolean", 0), ("std", "isnumber", 0), ("std", "isstring", 0), ("std", "isarray", 0), ("std", "isobject", 0),
    ("std", "abs", 0), ("std", "type", 0), ("std", "values", 0), ("std", "nulls", 0), ("std", "booleans", 0), ("std", "numbers", 0),
    ("std", "strings", 0), ("std", "arrays", 0), ("std", "objects", 0), ("std", "iterables", 0), ("std", "scalars", 0),
    ("std", "add", 1), ("std", "add", 0), ("std", "min_by", 1), ("std", "max_by", 1), ("std", "min", 0), ("std", "max", 0),
    ("std", "unique_by", 1), ("std", "unique", 0), ("std", "pick", 1), ("std", "keys", 0), ("std", "flatten", 0), ("std", "flatten", 1),
    ("std", "split", 2), ("std", "splits", 2), ("std", "splits", 1),
];

/// `Gen/C12Defs.lean`: the pinned definitions as the real parser reads the real defs.jq files
fn emit_defs() {
    let files: Vec<(&str, Vec<Def<&'static str>>)> =
        vec![("core", jaq_core::defs().collect()), ("json", jaq_json::defs().collect()), ("std", jaq_std::defs().collect())];
    println!("/- GENERATED by `jaqverif c12 defs` from jaq-core/src/defs.jq, jaq-json/src/defs.jq and jaq-std/src/defs.jq (real parser). -/");
    println!("import JaqVerif.C12.Ast\n\nnamespace Jaq.Coll.Gen\nopen Jaq.Coll\n");
    println!("def defs : List DefRow := [");
    let mut rows = vec![];
    for (file, name, arity) in PINNED {
        let all = &files.iter().find(|(f, _)| f == file).unwrap().1;
        let found: Vec<&Def<&'static str>> = all.iter().filter(|d| d.name == *name && d.args.len() == *arity).collect();
        match found.as_slice() {
            [d] => {
                let ps: Vec<String> = d.args.iter().map(|a| lstr(a)).collect();
                rows.push(format!("  ({}, {}, [{}], {})", lstr(file), lstr(d.name), ps.join(", "), tm(&d.body)));
            }
            ds => rows.push(format!("  ({}, {}, [], .other \"{} definitions of arity {}\")", lstr(file), lstr(name), ds.len(), arity)),
        }
    }
    println!("{}\n]\n\nend Jaq.Coll.Gen", rows.join(",\n"));
}

pub fn main(args: &[String]) {
    let tier = std::env::var("VERIF_TIER").unwrap_or_else(|_| "quick".into());
    match args.first().map(|s| s.as_str()) {
        Some("gen") => gen(&tier),
        Some("oracle") => oracle(&tier),
        Some("defs") => emit_defs(),
        _ => eprintln!("c12 gen|oracle"),
    }
}
