//! C16 — a program split into modules computes what its inlined form computes.
//!   gen    : module graphs (exhaustive shapes over 3 modules + seeded random graphs with cycles,
//!            aliases, missing/broken files, data imports, globals, name clashes) loaded through
//!            `Loader::with_read` (in-memory reader), compiled and run with the real library;
//!            prints `REQ id \t c16.run <graph>` before and `ANS id \t real answer` after each run
//!   single : stdin lines `id \t g1,g2 \t program` (the inlined programs printed by the model):
//!            compiles and runs each as one program; prints `id \t OUT <json>` …
//! The programs are written in a "probe language": every definition returns an array of a unique
//! tag and of probes (calls, qualified calls, variables) so that the single output shows which
//! definition / variable every name was resolved to.
use super::common::*;
use super::prng::{self, Rng};
use jaq_core::load::{self, import, Arena, File, Loader};
use jaq_core::{compile, Compiler};
use jaq_json::Val;
use std::cell::RefCell;
use std::collections::BTreeMap;

#[derive(Clone, Debug)]
pub enum Tm {
    Tag(String),
    Var(String),
    Call(String, Vec<Tm>),
    QCall(String, String, Vec<Tm>),
    Bind(Box<Tm>, String, Box<Tm>),
    Lbl(String, Box<Tm>),
    Defs(Vec<Def>, Box<Tm>),
    Arr(Vec<Tm>),
}

#[derive(Clone, Debug)]
pub struct Def {
    name: String,
    params: Vec<String>,
    body: Tm,
}

#[derive(Clone, Debug)]
pub enum Dir {
    Inc(String),
    Imp(String, String),
    Data(String, String),
}

#[derive(Clone, Debug)]
pub enum Src {
    Bad,
    Mod(Vec<Dir>, Vec<Def>),
    Main(Vec<Dir>, Tm),
}

#[derive(Clone, Debug)]
pub struct Case {
    globals: Vec<String>,
    files: Vec<(String, Src)>,
    main_path: String,
    main: Src,
}

// ---------------------------------------------------------------- token encoding (model request)
fn enc_tm(t: &Tm, out: &mut Vec<String>) {
    match t {
        Tm::Tag(s) => out.push(format!("T|{s}")),
        Tm::Var(x) => out.push(format!("V|{x}")),
        Tm::Call(f, args) => {
            out.push(format!("C|{f}|{}", args.len()));
            args.iter().for_each(|a| enc_tm(a, out));
        }
        Tm::QCall(m, f, args) => {
            out.push(format!("Q|{m}|{f}|{}", args.len()));
            args.iter().for_each(|a| enc_tm(a, out));
        }
        Tm::Bind(v, x, b) => {
            out.push(format!("B|{x}"));
            enc_tm(v, out);
            enc_tm(b, out);
        }
        Tm::Lbl(l, b) => {
            out.push(format!("L|{l}"));
            enc_tm(b, out);
        }
        Tm::Defs(ds, b) => {
            out.push(format!("D|{}", ds.len()));
            ds.iter().for_each(|d| enc_def(d, out));
            enc_tm(b, out);
        }
        Tm::Arr(ts) => {
            out.push(format!("A|{}", ts.len()));
            ts.iter().for_each(|a| enc_tm(a, out));
        }
    }
}

fn enc_def(d: &Def, out: &mut Vec<String>) {
    out.push(format!("F|{}|{}", d.name, d.params.len()));
    out.extend(d.params.iter().cloned());
    enc_tm(&d.body, out);
}

fn enc_dirs(dirs: &[Dir], out: &mut Vec<String>) {
    out.push(format!("H{}", dirs.len()));
    for d in dirs {
        out.push(match d {
            Dir::Inc(r) => format!("i|{r}"),
            Dir::Imp(r, a) => format!("m|{r}|{a}"),
            Dir::Data(r, x) => format!("d|{r}|{x}"),
        });
    }
}

fn enc_src(s: &Src, out: &mut Vec<String>) {
    match s {
        Src::Bad => out.push("BAD".into()),
        Src::Mod(dirs, defs) => {
            enc_dirs(dirs, out);
            out.push(format!("N{}", defs.len()));
            defs.iter().for_each(|d| enc_def(d, out));
        }
        Src::Main(dirs, t) => {
            enc_dirs(dirs, out);
            out.push("T".into());
            enc_tm(t, out);
        }
    }
}

fn enc_case(c: &Case) -> String {
    let mut out = vec![format!("G{}", c.globals.len())];
    out.extend(c.globals.iter().cloned());
    out.push(format!("FILES{}", c.files.len()));
    for (p, s) in &c.files {
        out.push(format!("P|{p}"));
        enc_src(s, &mut out);
    }
    out.push(format!("MAIN|{}", c.main_path));
    enc_src(&c.main, &mut out);
    out.join(" ")
}

// ---------------------------------------------------------------- jq text
fn show_args(args: &[Tm]) -> String {
    if args.is_empty() {
        String::new()
    } else {
        format!("({})", args.iter().map(show_tm).collect::<Vec<_>>().join("; "))
    }
}

fn show_tm(t: &Tm) -> String {
    match t {
        Tm::Tag(s) => format!("\"{s}\""),
        Tm::Var(x) => x.clone(),
        Tm::Call(f, args) => format!("{f}{}", show_args(args)),
        Tm::QCall(m, f, args) => format!("{m}::{f}{}", show_args(args)),
        Tm::Bind(v, x, b) => format!("({} as {x} | {})", show_tm(v), show_tm(b)),
        Tm::Lbl(l, b) => format!("(label {l} | {})", show_tm(b)),
        Tm::Defs(ds, b) if ds.is_empty() => show_tm(b),
        Tm::Defs(ds, b) => format!("({} {})", ds.iter().map(show_def).collect::<Vec<_>>().join(" "), show_tm(b)),
        Tm::Arr(ts) => format!("[{}]", ts.iter().map(show_tm).collect::<Vec<_>>().join(", ")),
    }
}

fn show_def(d: &Def) -> String {
    let ps = if d.params.is_empty() { String::new() } else { format!("({})", d.params.join("; ")) };
    format!("def {}{}: {};", d.name, ps, show_tm(&d.body))
}

fn show_dirs(dirs: &[Dir]) -> String {
    dirs.iter()
        .map(|d| match d {
            Dir::Inc(r) => format!("include \"{r}\"; "),
            Dir::Imp(r, a) => format!("import \"{r}\" as {a}; "),
            Dir::Data(r, x) => format!("import \"{r}\" as {x}; "),
        })
        .collect()
}

fn show_src(s: &Src) -> String {
    match s {
        Src::Bad => "def (".into(),
        Src::Mod(dirs, defs) => {
            format!("{}{}", show_dirs(dirs), defs.iter().map(show_def).collect::<Vec<_>>().join(" "))
        }
        Src::Main(dirs, t) => format!("{}{}", show_dirs(dirs), show_tm(t)),
    }
}

// ---------------------------------------------------------------- real runs
fn tag(s: String) -> Val {
    Val::utf8_str(s.into_bytes())
}

fn err_class(e: &str) -> &'static str {
    match e {
        "circular include/import" => "circular",
        "file not found" => "notfound",
        _ => "other",
    }
}

fn show_out(items: &[Item]) -> String {
    match items {
        [Item::Val(v)] => format!("OUT {v}"),
        _ => format!("OUTS {}", enc_items(items)),
    }
}

fn global_vals(globals: &[String]) -> Vec<Val> {
    globals.iter().enumerate().map(|(i, g)| tag(format!("G:{g}:{i}"))).collect()
}

/// Load, compile and run the modular program with the real library.
fn run_case(c: &Case) -> String {
    let files: BTreeMap<String, String> = c.files.iter().map(|(p, s)| (p.clone(), show_src(s))).collect();
    let main_code = show_src(&c.main);
    let trace: RefCell<Vec<String>> = RefCell::new(Vec::new());
    let arena = Arena::default();
    let loader = Loader::new(jaq_all::defs()).with_read(|imp: load::Import<&str, String>| {
        trace.borrow_mut().push(format!("{}>{}", imp.parent, imp.path));
        let path = imp.path.trim_end_matches('@').to_string();
        match files.get(&path) {
            Some(code) => Ok(File { code: code.clone(), path }),
            None => Err("file not found".to_string()),
        }
    });
    let res = loader.load(&arena, File { path: c.main_path.clone(), code: &main_code });
    let head = format!("TRACE {}", trace.borrow().join(","));
    let modules = match res {
        Ok(m) => m,
        Err(errs) => {
            let es: Vec<String> = errs
                .iter()
                .map(|(f, e)| {
                    let k = match e {
                        load::Error::Io(v) => format!(
                            "io[{}]",
                            v.iter().map(|(s, m)| format!("{s}={}", err_class(m))).collect::<Vec<_>>().join(",")
                        ),
                        _ => "syntax".to_string(),
                    };
                    format!("{}:{k}", f.path)
                })
                .collect();
            return format!("{head} ## LOADERR {}", es.join(";"));
        }
    };
    let mut vals = Vec::new();
    let mut imports = Vec::new();
    let r = import(&modules, |p| {
        imports.push(format!("{}>{}", p.parent, p.path));
        vals.push(tag(format!("D:{}:{}", p.parent, p.path)));
        Ok(())
    });
    if r.is_err() {
        return format!("{head} ## IMPORTERR");
    }
    let head = format!("{head} ## IMPORTS {} ## ", imports.join(","));
    let compiler = Compiler::default()
        .with_funs(jaq_all::data::funs())
        .with_global_vars(c.globals.iter().map(|g| &**g));
    let filter = match compiler.compile(modules) {
        Ok(f) => f,
        Err(errs) => {
            let es: Vec<String> = errs
                .iter()
                .map(|(f, es)| {
                    let mut v: Vec<String> = es
                        .iter()
                        .map(|(n, u)| {
                            let k = match u {
                                compile::Undefined::Mod => "mod".to_string(),
                                compile::Undefined::Var => "var".to_string(),
                                compile::Undefined::Label => "label".to_string(),
                                compile::Undefined::Filter(a) => format!("filter{a}"),
                                _ => "other".to_string(),
                            };
                            format!("{n}/{k}")
                        })
                        .collect();
                    v.sort();
                    format!("{}:[{}]", f.path, v.join(","))
                })
                .collect();
            return format!("{head}COMPERR {}", es.join(";"));
        }
    };
    let mut vars = global_vals(&c.globals);
    vars.extend(vals);
    let items = run_with(&filter, Val::Null, vars, Vec::new(), 3);
    format!("{head}{}", show_out(&items))
}

fn run_single(globals: &[String], code: &str) -> String {
    let gs: Vec<String> = globals.iter().map(|g| g.trim_start_matches('$').to_string()).collect();
    match compile_vars(code, &gs) {
        Err(_) => "COMPERR".into(),
        Ok(f) => show_out(&run_with(&f, Val::Null, global_vals(globals), Vec::new(), 3)),
    }
}

// ---------------------------------------------------------------- generator
const FN_POOL: [&str; 6] = ["f", "g", "h", "type", "length", "k"];
const VAR_POOL: [&str; 5] = ["$x", "$y", "$d", "$e", "$g"];
const FPARAM_POOL: [&str; 4] = ["p", "q", "f", "g"];

type SigT = (String, Vec<String>);

struct ModInfo {
    path: String,
    dirs: Vec<Dir>,
    sigs: Vec<SigT>,
}

struct Gen<'a> {
    rng: &'a mut Rng,
    noise: usize, // percent of deliberately out-of-scope choices
    mods: &'a [ModInfo],
    globals: &'a [String],
    tagc: usize,
    cli: bool, // programs for the jaq binary: `input_filename` (a definition of the prelude) is callable
}

#[derive(Clone)]
struct Scope {
    mi: usize, // index into mods (module whose text we are writing)
    vars: Vec<String>,
    fns: Vec<(String, usize)>,
    forbidden: Vec<String>,
}

fn rel_path(r: &str) -> &str {
    r.trim_end_matches('@')
}

impl<'a> Gen<'a> {
    fn find_mod(&self, rel: &str) -> Option<&ModInfo> {
        self.mods.iter().find(|m| m.path == rel_path(rel))
    }

    fn fresh_tag(&mut self, s: &Scope, what: &str) -> Tm {
        self.tagc += 1;
        Tm::Tag(format!("{}.{}#{}", self.mods[s.mi].path, what, self.tagc))
    }

    /// (name, arity) candidates visible without qualification
    fn visible_fns(&self, s: &Scope, upto: usize) -> Vec<(String, usize)> {
        let m = &self.mods[s.mi];
        let mut v = s.fns.clone();
        v.extend(m.sigs.iter().take(upto).map(|(n, p)| (n.clone(), p.len())));
        for d in &m.dirs {
            if let Dir::Inc(r) = d {
                if let Some(im) = self.find_mod(r) {
                    v.extend(im.sigs.iter().map(|(n, p)| (n.clone(), p.len())));
                }
            }
        }
        v.extend([("type".to_string(), 0), ("length".to_string(), 0), ("not".to_string(), 0)]);
        if self.cli {
            v.push(("input_filename".to_string(), 0));
            v.push(("input_filename".to_string(), 0));
        }
        v
    }

    fn noisy(&mut self) -> bool {
        self.noise > 0 && self.rng.below(100) < self.noise
    }

    fn gen_var(&mut self, s: &Scope) -> Tm {
        let mut cands: Vec<String> = s.vars.clone();
        for d in &self.mods[s.mi].dirs {
            if let Dir::Data(_, x) = d {
                cands.push(x.clone());
            }
        }
        cands.extend(self.globals.iter().cloned());
        if self.noisy() || cands.is_empty() {
            // data variables of other modules, binders of other scopes, undefined names
            let mut other: Vec<String> = VAR_POOL.iter().map(|s| s.to_string()).collect();
            for m in self.mods {
                for d in &m.dirs {
                    if let Dir::Data(_, x) = d {
                        other.push(x.clone());
                    }
                }
            }
            if self.noise == 0 {
                return self.fresh_tag(s, "novar");
            }
            return Tm::Var(self.rng.pick(&other).clone());
        }
        Tm::Var(self.rng.pick(&cands).clone())
    }

    fn gen_args(&mut self, s: &Scope, n: usize, upto: usize, depth: usize) -> Vec<Tm> {
        (0..n).map(|_| self.gen_tm(s, upto, depth + 1)).collect()
    }

    fn gen_call(&mut self, s: &Scope, upto: usize, depth: usize) -> Tm {
        let mut cands = self.visible_fns(s, upto);
        if self.noisy() {
            // definitions of any module (loader, siblings, transitive includes), undefined names
            for m in self.mods {
                cands.extend(m.sigs.iter().map(|(n, p)| (n.clone(), p.len())));
            }
            cands.push(("nope".to_string(), 0));
            cands.push((self.rng.pick(&FN_POOL).to_string(), self.rng.below(3)));
        }
        cands.retain(|(n, _)| !s.forbidden.contains(n));
        if cands.is_empty() {
            return self.fresh_tag(s, "nocall");
        }
        let (n, a) = self.rng.pick(&cands).clone();
        Tm::Call(n, self.gen_args(s, a, upto, depth))
    }

    fn gen_qcall(&mut self, s: &Scope, upto: usize, depth: usize) -> Tm {
        let imps: Vec<(String, String)> = self.mods[s.mi]
            .dirs
            .iter()
            .filter_map(|d| if let Dir::Imp(r, a) = d { Some((r.clone(), a.clone())) } else { None })
            .collect();
        if imps.is_empty() && !self.noisy() {
            return self.gen_call(s, upto, depth);
        }
        let (rel, alias) = if imps.is_empty() || self.noisy() {
            let m = self.rng.below(self.mods.len());
            (self.mods[m].path.clone(), self.rng.pick(&["ma", "mb", "mc", "zz"]).to_string())
        } else {
            self.rng.pick(&imps).clone()
        };
        let mut sigs: Vec<(String, usize)> =
            self.find_mod(&rel).map(|m| m.sigs.iter().map(|(n, p)| (n.clone(), p.len())).collect()).unwrap_or_default();
        if self.noisy() || sigs.is_empty() {
            sigs.push((self.rng.pick(&FN_POOL).to_string(), self.rng.below(2)));
        }
        let (n, a) = self.rng.pick(&sigs).clone();
        Tm::QCall(alias, n, self.gen_args(s, a, upto, depth))
    }

    fn gen_defs(&mut self, s: &Scope, upto: usize, depth: usize) -> (Vec<Def>, Scope) {
        let mut sc = s.clone();
        let mut defs = Vec::new();
        for _ in 0..1 + self.rng.below(2) {
            let name = self.rng.pick(&FN_POOL[..4]).to_string();
            let params = self.gen_params();
            let mut inner = sc.clone();
            inner.forbidden.push(name.clone());
            for p in &params {
                if p.starts_with('$') {
                    inner.vars.push(p.clone());
                } else {
                    inner.fns.push((p.clone(), 0));
                }
            }
            let body = self.gen_body(&inner, upto, depth + 1, &format!("{name}/{}", params.len()));
            sc.fns.push((name.clone(), params.len()));
            defs.push(Def { name, params, body });
        }
        (defs, sc)
    }

    fn gen_params(&mut self) -> Vec<String> {
        let n = [0, 0, 1, 1, 2][self.rng.below(5)];
        (0..n)
            .map(|_| {
                if self.rng.chance(1, 2) {
                    self.rng.pick(&VAR_POOL).to_string()
                } else {
                    self.rng.pick(&FPARAM_POOL).to_string()
                }
            })
            .collect()
    }

    fn gen_tm(&mut self, s: &Scope, upto: usize, depth: usize) -> Tm {
        let k = if depth >= 3 { self.rng.below(4) } else { self.rng.below(10) };
        match k {
            0 => self.fresh_tag(s, "t"),
            1 => self.gen_var(s),
            2 | 4 => self.gen_call(s, upto, depth),
            3 => self.gen_qcall(s, upto, depth),
            5 | 6 => {
                let x = self.rng.pick(&VAR_POOL).to_string();
                let v = self.gen_tm(s, upto, depth + 1);
                let mut inner = s.clone();
                inner.vars.push(x.clone());
                let b = self.gen_tm(&inner, upto, depth + 1);
                Tm::Bind(Box::new(v), x, Box::new(b))
            }
            7 => {
                let b = self.gen_tm(s, upto, depth + 1);
                Tm::Lbl(self.rng.pick(&["$l", "$x"]).to_string(), Box::new(b))
            }
            8 => {
                let (defs, sc) = self.gen_defs(s, upto, depth);
                let b = self.gen_tm(&sc, upto, depth + 1);
                Tm::Defs(defs, Box::new(b))
            }
            _ => {
                let n = 1 + self.rng.below(2);
                Tm::Arr((0..n).map(|_| self.gen_tm(s, upto, depth + 1)).collect())
            }
        }
    }

    /// `[tag, probe, …]`
    fn gen_body(&mut self, s: &Scope, upto: usize, depth: usize, what: &str) -> Tm {
        let mut v = vec![self.fresh_tag(s, what)];
        let n = if depth >= 2 { 1 } else { 1 + self.rng.below(3) };
        for _ in 0..n {
            v.push(self.gen_tm(s, upto, depth + 1));
        }
        Tm::Arr(v)
    }
}

/// Fill the modules (headers + signatures given) with bodies; the last entry of `mods` is main.
fn fill(rng: &mut Rng, noise: usize, mods: &[ModInfo], globals: &[String], bad: &[usize]) -> Case {
    fill_with(rng, noise, mods, globals, bad, false)
}

fn fill_with(rng: &mut Rng, noise: usize, mods: &[ModInfo], globals: &[String], bad: &[usize], cli: bool) -> Case {
    let mut files = Vec::new();
    let mut main = Src::Bad;
    let n = mods.len();
    let mut g = Gen { rng, noise, mods, globals, tagc: 0, cli };
    for (mi, m) in mods.iter().enumerate() {
        let base = Scope { mi, vars: Vec::new(), fns: Vec::new(), forbidden: Vec::new() };
        if mi == n - 1 {
            // main: own definitions inside the main term
            let (defs, sc) = if g.rng.chance(1, 2) { g.gen_defs(&base, 0, 0) } else { (Vec::new(), base.clone()) };
            let body = g.gen_body(&sc, 0, 0, "main");
            main = if bad.contains(&mi) { Src::Bad } else { Src::Main(m.dirs.clone(), Tm::Defs(defs, Box::new(body))) };
        } else {
            let mut defs = Vec::new();
            for (k, (name, params)) in m.sigs.iter().enumerate() {
                let mut sc = base.clone();
                sc.forbidden.push(name.clone());
                for p in params {
                    if p.starts_with('$') {
                        sc.vars.push(p.clone());
                    } else {
                        sc.fns.push((p.clone(), 0));
                    }
                }
                let body = g.gen_body(&sc, k, 1, &format!("{name}/{}", params.len()));
                defs.push(Def { name: name.clone(), params: params.clone(), body });
            }
            let src = if bad.contains(&mi) { Src::Bad } else { Src::Mod(m.dirs.clone(), defs) };
            files.push((m.path.clone(), src));
        }
    }
    Case { globals: globals.to_vec(), files, main_path: mods[n - 1].path.clone(), main }
}

fn gen_sigs(rng: &mut Rng) -> Vec<SigT> {
    let n = 1 + rng.below(3);
    (0..n)
        .map(|_| {
            let name = rng.pick(&FN_POOL[..5]).to_string();
            let np = [0, 0, 0, 1, 1, 2][rng.below(6)];
            let params = (0..np)
                .map(|_| if rng.chance(1, 2) { rng.pick(&VAR_POOL).to_string() } else { rng.pick(&FPARAM_POOL).to_string() })
                .collect();
            (name, params)
        })
        .collect()
}

fn edge(rng: &mut Rng, kind: usize, target: &str, alias_pool: &[&str]) -> Option<Dir> {
    match kind {
        0 => None,
        1 => Some(Dir::Inc(target.to_string())),
        _ => Some(Dir::Imp(target.to_string(), rng.pick(alias_pool).to_string())),
    }
}

fn maybe_data(rng: &mut Rng, dirs: &mut Vec<Dir>, p: usize) {
    for _ in 0..2 {
        if rng.below(100) < p {
            let rel = rng.pick(&["da", "db"]).to_string();
            let name = rng.pick(&["$d", "$e", "$x", "$g"]).to_string();
            let pos = rng.below(dirs.len() + 1);
            dirs.insert(pos, Dir::Data(rel, name));
        }
    }
}

fn gen_globals(rng: &mut Rng) -> Vec<String> {
    let n = [0, 0, 1, 2, 3][rng.below(5)];
    (0..n).map(|_| rng.pick(&["$g", "$d", "$x", "$G"]).to_string()).collect()
}

/// all shapes over modules a, b, c (forward edges only, each none / include / import)
fn exhaustive_case(rng: &mut Rng, shape: usize) -> Case {
    let mut s = shape;
    let mut next = || {
        let k = s % 3;
        s /= 3;
        k
    };
    let names = ["a", "b", "c"];
    let aliases = ["ma", "mb"];
    // edge kinds: main->a main->b main->c a->b a->c b->c
    let kinds: Vec<usize> = (0..6).map(|_| next()).collect();
    let mut dirs: Vec<Vec<Dir>> = vec![Vec::new(); 4]; // a b c main
    let pairs = [(3, 0), (3, 1), (3, 2), (0, 1), (0, 2), (1, 2)];
    for (i, (from, to)) in pairs.iter().enumerate() {
        if let Some(d) = edge(rng, kinds[i], names[*to], &aliases) {
            dirs[*from].push(d);
        }
    }
    for d in dirs.iter_mut() {
        if rng.chance(1, 2) {
            d.reverse();
        }
        maybe_data(rng, d, 25);
    }
    let mut mods: Vec<ModInfo> = Vec::new();
    for i in 0..3 {
        mods.push(ModInfo { path: names[i].to_string(), dirs: dirs[i].clone(), sigs: gen_sigs(rng) });
    }
    mods.push(ModInfo { path: "main".into(), dirs: dirs[3].clone(), sigs: Vec::new() });
    let globals = gen_globals(rng);
    let noise = if rng.chance(1, 4) { 15 } else { 0 };
    fill(rng, noise, &mods, &globals, &[])
}

/// larger random graphs with every irregularity
fn random_case(rng: &mut Rng) -> Case {
    random_case_with(rng, None, false)
}

fn random_case_with(rng: &mut Rng, forced_globals: Option<&[String]>, cli: bool) -> Case {
    let nm = 2 + rng.below(4);
    let names = ["a", "b", "c", "d", "e"];
    let aliases = ["ma", "mb", "mc"];
    let cyclic = rng.chance(1, 6);
    let mut mods: Vec<ModInfo> = Vec::new();
    for i in 0..=nm {
        // i == nm: main
        let mut dirs = Vec::new();
        let from_main = i == nm;
        for j in 0..nm {
            if j == i {
                if cyclic && rng.chance(1, 8) {
                    dirs.push(Dir::Inc(names[j].to_string())); // self include
                }
                continue;
            }
            let forward = from_main || j > i;
            let p = if forward { 45 } else if cyclic { 25 } else { 0 };
            if rng.below(100) < p {
                let mut target = names[j].to_string();
                if rng.chance(1, 6) {
                    target.push('@'); // another name for the same file
                }
                let k1 = 1 + rng.below(2);
                if let Some(d) = edge(rng, k1, &target, &aliases) {
                    dirs.push(d);
                    if rng.chance(1, 10) {
                        // the same module twice (again included or under another name)
                        let k2 = 1 + rng.below(2);
                        if let Some(d2) = edge(rng, k2, names[j], &aliases) {
                            dirs.push(d2);
                        }
                    }
                }
            }
        }
        if rng.chance(1, 25) {
            dirs.push(Dir::Inc("zz".into())); // missing file
        }
        if rng.chance(1, 40) {
            dirs.push(Dir::Inc("@".into())); // the reader answers the default path ""
        }
        // shuffle
        for k in (1..dirs.len()).rev() {
            let l = rng.below(k + 1);
            dirs.swap(k, l);
        }
        maybe_data(rng, &mut dirs, 35);
        let path = if from_main { if rng.chance(1, 12) { "a".to_string() } else { "main".to_string() } } else { names[i].to_string() };
        mods.push(ModInfo { path, dirs, sigs: if from_main { Vec::new() } else { gen_sigs(rng) } });
    }
    let mut bad = Vec::new();
    if rng.chance(1, 15) {
        bad.push(rng.below(nm + 1));
    }
    let globals = match forced_globals {
        Some(g) => g.to_vec(),
        None => gen_globals(rng),
    };
    let mut noise = [0, 0, 0, 10, 25][rng.below(5)];
    if cli {
        // errors are compared by class only on the command line: keep most programs compiling
        noise = noise.min(5);
    }
    let mut c = fill_with(rng, noise, &mods, &globals, &bad, cli);
    if rng.chance(1, 40) {
        c.files.push(("".into(), Src::Mod(Vec::new(), Vec::new())));
    }
    c
}


fn shuffle<T>(rng: &mut Rng, v: &mut Vec<T>) {
    for k in (1..v.len()).rev() {
        let l = rng.below(k + 1);
        v.swap(k, l);
    }
}

/// Structured families aimed at the interplay of data imports, global variables and the two
/// kinds of directive:
///   0  data chain: a dependency has its own data import(s) while a later module and main have
///      others under clashing names; globals of the same names
///   1  non-transitivity: main imports/includes `a`, `a` includes `b` (and `c`): what `b` defines
///      is not visible in main, neither plain nor as `ma::…`
///   2  one file reached as include AND as import (also under a second name) from main and from
///      another module
///   3  all of it: diamond with data imports at every level, globals next to them
fn targeted_layout(rng: &mut Rng, variant: usize, globals_extra: &[String]) -> (Vec<ModInfo>, Vec<String>, usize) {
    let aliases = ["ma", "mb", "mc"];
    let dnames = ["$d", "$e", "$g", "$x"];
    let data = |rng: &mut Rng, dirs: &mut Vec<Dir>, lo: usize, span: usize| {
        let n = lo + rng.below(span);
        for _ in 0..n {
            let rel = rng.pick(&["da", "db", "dc"]).to_string();
            let pos = rng.below(dirs.len() + 1);
            dirs.insert(pos, Dir::Data(rel, rng.pick(&dnames).to_string()));
        }
    };
    let inc_or_imp = |rng: &mut Rng, t: &str| -> Dir {
        if rng.chance(1, 2) { Dir::Inc(t.to_string()) } else { Dir::Imp(t.to_string(), rng.pick(&aliases).to_string()) }
    };
    let mut a = Vec::new();
    let mut b = Vec::new();
    let mut c = Vec::new();
    let mut m = Vec::new();
    match variant % 4 {
        0 => {
            // c <- b <- a <- main (+ main -> c), data everywhere
            b.push(inc_or_imp(rng, "c"));
            a.push(inc_or_imp(rng, "b"));
            m.push(inc_or_imp(rng, "a"));
            if rng.chance(1, 2) {
                m.push(inc_or_imp(rng, "c"));
            }
            data(rng, &mut c, 1, 2);
            data(rng, &mut b, 0, 2);
            data(rng, &mut a, 1, 2);
            data(rng, &mut m, 1, 2);
        }
        1 => {
            a.push(Dir::Inc("b".into()));
            if rng.chance(1, 2) {
                a.push(Dir::Inc("c".into()));
            } else {
                b.push(Dir::Inc("c".into()));
            }
            m.push(inc_or_imp(rng, "a"));
            if rng.chance(1, 3) {
                m.push(Dir::Imp("a".into(), rng.pick(&aliases).to_string()));
            }
            data(rng, &mut b, 0, 2);
            data(rng, &mut m, 0, 2);
        }
        2 => {
            m.push(Dir::Inc("a".into()));
            m.push(Dir::Imp(if rng.chance(1, 2) { "a@" } else { "a" }.into(), rng.pick(&aliases).to_string()));
            b.push(Dir::Imp("a".into(), rng.pick(&aliases).to_string()));
            if rng.chance(1, 2) {
                b.push(Dir::Inc("a@".into()));
            }
            m.push(inc_or_imp(rng, "b"));
            if rng.chance(1, 2) {
                a.push(inc_or_imp(rng, "c"));
            }
            shuffle(rng, &mut m);
            shuffle(rng, &mut b);
            data(rng, &mut a, 0, 2);
            data(rng, &mut m, 0, 2);
        }
        _ => {
            // diamond: main -> a, b ; a -> c ; b -> c
            a.push(inc_or_imp(rng, "c"));
            b.push(inc_or_imp(rng, "c"));
            m.push(inc_or_imp(rng, "a"));
            m.push(inc_or_imp(rng, "b"));
            if rng.chance(1, 3) {
                m.push(inc_or_imp(rng, "c"));
            }
            shuffle(rng, &mut m);
            data(rng, &mut c, 1, 1);
            data(rng, &mut a, 1, 2);
            data(rng, &mut b, 0, 2);
            data(rng, &mut m, 1, 2);
        }
    }
    let mut mods = Vec::new();
    for (name, dirs) in [("a", a), ("b", b), ("c", c)] {
        mods.push(ModInfo { path: name.to_string(), dirs, sigs: gen_sigs(rng) });
    }
    mods.push(ModInfo { path: "main".into(), dirs: m, sigs: Vec::new() });
    // globals clash with the data names on purpose
    let n = 1 + rng.below(3);
    let mut globals: Vec<String> = (0..n).map(|_| rng.pick(&["$g", "$d", "$e", "$G"]).to_string()).collect();
    globals.extend(globals_extra.iter().cloned());
    let noise = [0, 0, 0, 10, 20][rng.below(5)];
    (mods, globals, noise)
}

fn targeted_case(rng: &mut Rng, variant: usize) -> Case {
    let (mods, globals, noise) = targeted_layout(rng, variant, &[]);
    fill(rng, noise, &mods, &globals, &[])
}

// ---------------------------------------------------------------- programs for the jaq binary
fn hex(s: &str) -> String {
    s.bytes().map(|b| format!("{b:02x}")).collect()
}

/// text of a file for the command line: a second name of a file (`a@`) is spelt `./a`
fn cli_text(s: &Src) -> String {
    let t = show_src(s);
    let mut out = t.clone();
    for name in ["a", "b", "c", "d", "e"] {
        out = out.replace(&format!("\"{name}@@\""), &format!("\"././{name}\""));
        out = out.replace(&format!("\"{name}@\""), &format!("\"./{name}\""));
    }
    out
}

/// `c16 gencli`: module graphs run through the jaq binary with `--arg/--argjson/--slurpfile/
/// --rawfile`, data imports, `$ENV`, `$ARGS` and `input_filename` used inside modules.
/// One line per case: `CLI id \t named (kind|$name|value,…) \t model graph (files + main) \t
/// main text (hex) \t file=hex,…`
pub fn gencli(tier: &str) {
    let seed = prng::seed_from_env();
    let n = if tier == "thorough" { 700 } else { 160 };
    let mut rng = Rng::new(seed ^ 0xC116);
    for id in 0..n {
        // named variables: 0-4, kinds mixed, names clash with each other, with data names and with ENV
        let nn = [0, 1, 2, 2, 3, 4][rng.below(6)];
        let mut named: Vec<(String, String, String)> = Vec::new();
        for i in 0..nn {
            let kind = rng.pick(&["arg", "argjson", "slurpfile", "rawfile"]).to_string();
            let name = rng.pick(&["$g", "$d", "$e", "$G", "$ENV", "$x"]).to_string();
            named.push((kind.clone(), name.clone(), format!("{}:{}:{}", kind.to_uppercase(), &name[1..], i)));
        }
        // the order of the run-time vector (`binds`): by kind, not by position
        let mut names: Vec<String> = Vec::new();
        for k in ["arg", "rawfile", "slurpfile", "argjson"] {
            names.extend(named.iter().filter(|x| x.0 == k).map(|x| x.1.clone()));
        }
        names.push("$ARGS".into());
        names.push("$ENV".into());
        let c = if rng.chance(2, 3) {
            let (mods, globals, noise) = targeted_layout(&mut rng, id, &names);
            // drop the random globals of the layout: only what the command line defines exists
            let globals: Vec<String> = globals.into_iter().filter(|g| names.contains(g)).collect();
            fill_with(&mut rng, if noise == 20 { 4 } else { 0 }, &mods, &globals, &[], true)
        } else {
            loop {
                let c = random_case_with(&mut rng, Some(&names), true);
                if c.main_path == "main" && !c.files.iter().any(|(p, _)| p.is_empty()) {
                    break c;
                }
            }
        };
        let mut enc = c.clone();
        enc.globals = Vec::new();
        let files: Vec<String> = c.files.iter().map(|(p, s)| format!("{p}={}", hex(&cli_text(s)))).collect();
        println!(
            "CLI k{id}\t{}\t{}\t{}\t{}",
            named.iter().map(|(k, n, v)| format!("{k}|{n}|{v}")).collect::<Vec<_>>().join(","),
            enc_case(&enc),
            hex(&cli_text(&c.main)),
            files.join(",")
        );
    }
}

pub fn gen(tier: &str) {
    let seed = prng::seed_from_env();
    let mut id = 0usize;
    let mut emit = |c: &Case| {
        use std::io::Write;
        let req = enc_case(c);
        // the request is printed (and flushed) before the real code runs, so that a crash of the
        // process (stack overflow of a loader that does not stop on a cycle) names its input
        println!("REQ m{id}\tc16.run {req}");
        std::io::stdout().flush().ok();
        let real = match catch(|| run_case(c)) {
            Ok(s) => s,
            Err(m) => format!("PANIC {}", m.replace(['\n', '\t'], " ")),
        };
        println!("ANS m{id}\t{real}");
        id += 1;
    };
    let per_shape = if tier == "thorough" { 6 } else { 2 };
    for shape in 0..729 {
        for k in 0..per_shape {
            let mut rng = Rng::new(seed ^ ((shape as u64) << 8) ^ (k as u64) ^ 0x16);
            emit(&exhaustive_case(&mut rng, shape));
        }
    }
    let ntarget = if tier == "thorough" { 6000 } else { 1200 };
    let mut rng = Rng::new(seed ^ 0x7A16);
    for v in 0..ntarget {
        emit(&targeted_case(&mut rng, v));
    }
    let nrand = if tier == "thorough" { 30000 } else { 4000 };
    let mut rng = Rng::new(seed ^ 0x1616);
    for _ in 0..nrand {
        emit(&random_case(&mut rng));
    }
}

pub fn single() {
    use std::io::BufRead;
    for l in std::io::stdin().lock().lines() {
        let l = l.unwrap();
        let parts: Vec<&str> = l.splitn(3, '\t').collect();
        if parts.len() != 3 {
            continue;
        }
        let globals: Vec<String> = parts[1].split(',').filter(|s| !s.is_empty()).map(|s| s.to_string()).collect();
        let code = parts[2].to_string();
        let r = match catch(|| run_single(&globals, &code)) {
            Ok(s) => s,
            Err(m) => format!("PANIC {}", m.replace(['\n', '\t'], " ")),
        };
        println!("{}\t{}", parts[0], r);
    }
}

pub fn main(args: &[String]) {
    let tier = std::env::var("VERIF_TIER").unwrap_or_else(|_| "quick".into());
    match args.first().map(|s| s.as_str()) {
        Some("gen") => gen(&tier),
        Some("single") => single(),
        Some("gencli") => gencli(&tier),
        _ => {
            eprintln!("usage: c16 gen|single|gencli");
            std::process::exit(2);
        }
    }
}
