//! C08 — one consistent total order; equal values are interchangeable keys.
//!   gen            : `id \t request \t real` lines for the correspondence of `cmp`, `==`, the
//!                    `Hasher` calls of `Hash for Val`, and the order/equality based filters
//!   oracle         : property oracle on the real code alone; prints `FAIL …` and `STAT …` lines
//!   pair a b [c]   : both of the above for one pair / triple given in VX (replay)
use super::common::*;
use super::prng::{self, Rng};
use super::vx;
use jaq_all::data::Filter;
use jaq_json::{Num, Val};
use num_bigint::BigInt;
use num_traits::{ToPrimitive, Zero};
use std::cmp::Ordering;
use std::hash::{Hash, Hasher};

// ------------------------------------------------------------------ recording hasher

/// Logs every `Hasher` call made by `impl Hash for Val`.
struct Rec(Vec<String>);

impl Hasher for Rec {
    fn finish(&self) -> u64 {
        0
    }
    fn write(&mut self, b: &[u8]) {
        self.0.push(format!("w{}", vx::hex(b)));
    }
    fn write_u8(&mut self, i: u8) {
        self.0.push(format!("b{i}"));
    }
    fn write_usize(&mut self, i: usize) {
        self.0.push(format!("z{i}"));
    }
    fn write_isize(&mut self, i: isize) {
        self.0.push(format!("i{i}"));
    }
    fn write_u16(&mut self, i: u16) {
        self.0.push(format!("h{i}"));
    }
    fn write_u32(&mut self, i: u32) {
        self.0.push(format!("d{i}"));
    }
    fn write_u64(&mut self, i: u64) {
        self.0.push(format!("q{i}"));
    }
    fn write_i8(&mut self, i: i8) {
        self.0.push(format!("sb{i}"));
    }
    fn write_i32(&mut self, i: i32) {
        self.0.push(format!("sd{i}"));
    }
    fn write_i64(&mut self, i: i64) {
        self.0.push(format!("sq{i}"));
    }
}

fn rec_hash(v: &Val) -> String {
    // `Val::hash` sorts object entries: with NaN keys the order is not total and `sort` may panic
    catch(|| {
        let mut r = Rec(Vec::new());
        v.hash(&mut r);
        if r.0.is_empty() {
            "-".into()
        } else {
            r.0.join(" ")
        }
    })
    .unwrap_or_else(|p| format!("PANIC {}", p.replace(['\t', '\n'], " ")))
}

// ------------------------------------------------------------------ independent specification

/// exact value of a number: `Fin(n)` stands for `n * 2^-1074`
#[derive(Clone, Debug, PartialEq, Eq, PartialOrd, Ord)]
enum X {
    NegInf,
    Fin(BigInt),
    PosInf,
}

fn exact_f64(f: f64) -> Option<X> {
    if f.is_nan() {
        return None;
    }
    if f.is_infinite() {
        return Some(if f > 0.0 { X::PosInf } else { X::NegInf });
    }
    let bits = f.to_bits();
    let e = ((bits >> 52) & 0x7ff) as usize;
    let frac = bits & ((1u64 << 52) - 1);
    let (m, sh) = if e == 0 { (frac, 0) } else { (frac | (1u64 << 52), e - 1) };
    let mut n = BigInt::from(m) << sh;
    if bits >> 63 == 1 {
        n = -n;
    }
    Some(X::Fin(n))
}

fn exact(n: &Num) -> Option<X> {
    match n {
        Num::Int(i) => Some(X::Fin(BigInt::from(*i) << 1074usize)),
        Num::BigInt(i) => Some(X::Fin((**i).clone() << 1074usize)),
        Num::Float(f) => exact_f64(*f),
        Num::Dec(s) => exact_f64(s.parse::<f64>().unwrap_or(f64::NAN)),
    }
}

fn rank(v: &Val) -> u8 {
    match v {
        Val::Null => 0,
        Val::Bool(false) => 1,
        Val::Bool(true) => 2,
        Val::Num(_) => 3,
        Val::BStr(_) | Val::TStr(_) => 4,
        Val::Arr(_) => 5,
        Val::Obj(_) => 6,
    }
}

/// The documented order (docs/corelang.dj, property C08), written independently of jaq's
/// `Ord`: kinds by rank, numbers by exact value, strings bytewise, arrays lexicographically,
/// objects by sorted key sequence, then values in key order.  `None` on NaN.
fn spec_cmp(a: &Val, b: &Val) -> Option<Ordering> {
    let (ra, rb) = (rank(a), rank(b));
    if ra != rb {
        return Some(ra.cmp(&rb));
    }
    Some(match (a, b) {
        (Val::Num(x), Val::Num(y)) => exact(x)?.cmp(&exact(y)?),
        (Val::BStr(x) | Val::TStr(x), Val::BStr(y) | Val::TStr(y)) => x[..].cmp(&y[..]),
        (Val::Arr(x), Val::Arr(y)) => spec_lex(x.iter(), y.iter())?,
        (Val::Obj(x), Val::Obj(y)) => {
            let sorted = |o: &jaq_json::Map| -> Option<Vec<(Val, Val)>> {
                let mut v: Vec<(Val, Val)> = o.iter().map(|(k, v)| (k.clone(), v.clone())).collect();
                // insertion sort by the specification order (stable)
                for i in 1..v.len() {
                    let mut j = i;
                    while j > 0 && spec_cmp(&v[j - 1].0, &v[j].0)? == Ordering::Greater {
                        v.swap(j - 1, j);
                        j -= 1;
                    }
                }
                Some(v)
            };
            let (l, r) = (sorted(x)?, sorted(y)?);
            match spec_lex(l.iter().map(|p| &p.0), r.iter().map(|p| &p.0))? {
                Ordering::Equal => spec_lex(l.iter().map(|p| &p.1), r.iter().map(|p| &p.1))?,
                o => o,
            }
        }
        _ => Ordering::Equal,
    })
}

fn spec_lex<'a>(mut x: impl Iterator<Item = &'a Val>, mut y: impl Iterator<Item = &'a Val>) -> Option<Ordering> {
    loop {
        match (x.next(), y.next()) {
            (None, None) => return Some(Ordering::Equal),
            (None, Some(_)) => return Some(Ordering::Less),
            (Some(_), None) => return Some(Ordering::Greater),
            (Some(a), Some(b)) => match spec_cmp(a, b)? {
                Ordering::Equal => {}
                o => return Some(o),
            },
        }
    }
}

// ------------------------------------------------------------------ domain of the property

#[derive(Default, Clone, Copy)]
struct Facts {
    nan: bool,
    big_mag_int: bool, // an integer beyond 2^53 in magnitude
    finite_float: bool,
    inf_float: bool,
    huge_int: bool, // an integer whose conversion to f64 is infinite
    neg_zero: bool,
    dup_keys: bool, // an object with two keys that are equal by the specification order
}

fn facts(v: &Val, f: &mut Facts) {
    match v {
        Val::Num(n) => {
            let lim = BigInt::from(1u64 << 53);
            let mut int = |i: BigInt| {
                if i > lim || i < -lim.clone() {
                    f.big_mag_int = true;
                }
                if i.to_f64().map_or(true, |x| x.is_infinite()) {
                    f.huge_int = true;
                }
            };
            match n {
                Num::Int(i) => int(BigInt::from(*i)),
                Num::BigInt(i) => int((**i).clone()),
                Num::Float(_) | Num::Dec(_) => {
                    let x = match n {
                        Num::Float(x) => *x,
                        Num::Dec(s) => s.parse::<f64>().unwrap_or(f64::NAN),
                        _ => unreachable!(),
                    };
                    if x.is_nan() {
                        f.nan = true
                    } else if x.is_infinite() {
                        f.inf_float = true
                    } else {
                        f.finite_float = true;
                        if x == 0.0 && x.is_sign_negative() {
                            f.neg_zero = true
                        }
                    }
                }
            }
        }
        Val::Arr(a) => a.iter().for_each(|x| facts(x, f)),
        Val::Obj(o) => {
            let ks: Vec<&Val> = o.keys().collect();
            for i in 0..ks.len() {
                for j in 0..i {
                    if spec_cmp(ks[i], ks[j]) == Some(Ordering::Equal) {
                        f.dup_keys = true;
                    }
                }
            }
            o.iter().for_each(|(k, v)| {
                facts(k, f);
                facts(v, f)
            })
        }
        _ => {}
    }
}

fn facts_of(vs: &[&Val]) -> Facts {
    let mut f = Facts::default();
    vs.iter().for_each(|v| facts(v, &mut f));
    f
}

/// the property's domain: no NaN, integers beyond 2^53 only together with integers and
/// infinities; objects are maps (no two equal keys)
fn in_domain(f: &Facts) -> bool {
    !f.nan && !(f.big_mag_int && f.finite_float) && !f.dup_keys
}

fn tag(f: &Facts) -> &'static str {
    if f.huge_int && f.inf_float {
        "hugeinf"
    } else if f.neg_zero {
        "negzero"
    } else {
        "other"
    }
}

// ------------------------------------------------------------------ value pools

fn pow2(n: usize) -> BigInt {
    BigInt::from(1) << n
}
fn bigv(b: BigInt) -> Val {
    Val::Num(Num::big_int(b))
}
fn s(x: &str) -> Val {
    tstr(x.as_bytes())
}

fn atoms() -> Vec<Val> {
    let mut v = vec![Val::Null, Val::Bool(false), Val::Bool(true)];
    for i in [0isize, 1, -1, 2, 1 << 53, (1 << 53) + 1, -(1 << 53), -(1 << 53) - 1, isize::MAX, isize::MIN] {
        v.push(int(i));
    }
    v.push(bigv(BigInt::zero()));
    v.push(bigv(BigInt::from(1)));
    v.push(bigv(pow2(53)));
    v.push(bigv(pow2(63)));
    v.push(bigv(-pow2(63) - 1));
    v.push(bigv(pow2(64)));
    v.push(big("1000000000000000000000000000000"));
    v.push(bigv(pow2(1024) - pow2(970) - 1)); // largest integer whose conversion is finite
    v.push(bigv(pow2(1024) - pow2(970))); // smallest integer that converts to infinity
    v.push(bigv(pow2(1024)));
    v.push(bigv(-pow2(1024)));
    v.push(bigv(pow2(1100) + 1));
    for f in [0.0f64, -0.0, 1.0, -1.0, 0.5, 1.5, 2.0, 9007199254740992.0, 9007199254740994.0, -9007199254740992.0,
              9223372036854775808.0, -9223372036854775808.0, 18446744073709551616.0, 1e30, 1e300, f64::MAX, 5e-324,
              -5e-324, f64::INFINITY, f64::NEG_INFINITY, f64::NAN] {
        v.push(float(f));
    }
    for d in ["1e0", "1.0", "1.10", "0.0", "-0.0", "0e5", "1e1000", "-1e1000", "0.5", "1e-400", "-1e-400",
              "9007199254740993.0", "100000000000000000000.5", "1E30", "2"] {
        v.push(dec(d));
    }
    for b in [&b""[..], b"a", b"b", b"ab", "a\u{e9}".as_bytes(), b"\x00", b"\xff", b"a\xff"] {
        v.push(tstr(b));
        v.push(bstr(b));
    }
    v
}

/// small representative sub-pools used to build containers
fn elems() -> Vec<Val> {
    vec![int(0), float(-0.0), float(0.0), int(1), float(1.0), dec("1e0"), bigv(BigInt::from(1)), float(9007199254740992.0),
         bigv(pow2(64)), float(f64::INFINITY), float(f64::NEG_INFINITY), s("a"), bstr(b"a"), s("b"), Val::Null, Val::Bool(true),
         float(f64::NAN), bigv(pow2(1024))]
}

fn keys() -> Vec<Val> {
    vec![int(0), float(-0.0), float(0.0), dec("-0.0"), int(1), float(1.0), dec("1e0"), bigv(BigInt::from(1)), s("a"), bstr(b"a"), s("b"),
         s("x"), Val::Null, arr(vec![int(1)]), arr(vec![float(1.0)]), arr(vec![int(0)]), arr(vec![float(-0.0)]), bigv(pow2(64)),
         float(18446744073709551616.0), float(f64::INFINITY), bigv(pow2(1024))]
}

fn containers() -> Vec<Val> {
    let mut v = vec![arr(vec![]), obj(vec![])];
    let es = elems();
    for x in &es {
        v.push(arr(vec![x.clone()]));
    }
    let small: Vec<Val> = vec![int(0), float(-0.0), int(1), float(1.0), s("a"), Val::Null, int(2)];
    for x in &small {
        for y in &small {
            v.push(arr(vec![x.clone(), y.clone()]));
        }
    }
    let ks = keys();
    for k in &ks {
        v.push(obj(vec![(k.clone(), int(1))]));
    }
    // objects with two and three entries, in two insertion orders, values in two representations
    for (i, k1) in ks.iter().enumerate() {
        for (j, k2) in ks.iter().enumerate() {
            if i >= j || k1 == k2 {
                continue;
            }
            v.push(obj(vec![(k1.clone(), int(1)), (k2.clone(), int(2))]));
            v.push(obj(vec![(k2.clone(), float(2.0)), (k1.clone(), float(1.0))]));
        }
    }
    let three = [s("a"), s("b"), int(0)];
    let perm = [[0, 1, 2], [2, 1, 0], [1, 2, 0]];
    for p in perm {
        v.push(obj(p.iter().map(|&i| (three[i].clone(), int(i as isize))).collect()));
    }
    // nesting
    v.push(arr(vec![arr(vec![int(1)])]));
    v.push(arr(vec![arr(vec![float(1.0)])]));
    v.push(arr(vec![obj(vec![(s("a"), int(1)), (s("b"), int(2))])]));
    v.push(arr(vec![obj(vec![(s("b"), float(2.0)), (s("a"), int(1))])]));
    v.push(obj(vec![(s("a"), obj(vec![(s("x"), int(1)), (s("y"), int(2))])), (s("b"), int(0))]));
    v.push(obj(vec![(s("b"), float(-0.0)), (s("a"), obj(vec![(s("y"), int(2)), (s("x"), float(1.0))]))]));
    v.push(obj(vec![(obj(vec![(s("x"), int(1)), (s("y"), int(2))]), int(1)), (s("b"), int(0))]));
    v.push(obj(vec![(s("b"), int(0)), (obj(vec![(s("y"), int(2)), (s("x"), int(1))]), int(1))]));
    v
}

fn rand_atom(rng: &mut Rng, at: &[Val]) -> Val {
    rng.pick(at).clone()
}

fn rand_val(rng: &mut Rng, at: &[Val], depth: usize) -> Val {
    if depth == 0 || rng.chance(2, 5) {
        return rand_atom(rng, at);
    }
    let n = [0, 1, 2, 2, 3, 3, 4, 6][rng.below(8)];
    if rng.chance(1, 2) {
        arr((0..n).map(|_| rand_val(rng, at, depth - 1)).collect())
    } else {
        // keys inside the domain: entry order after sorting by a non-total order depends on the sort algorithm
        // (the same holds for keys that mix integers beyond 2^53 with finite floats)
        let mut ks: Vec<Val> = vec![];
        while ks.len() < n {
            let k = rand_val(rng, at, depth.min(2) - 1);
            ks.push(k);
            if !in_domain(&facts_of(&ks.iter().collect::<Vec<_>>())) {
                ks.pop();
            }
        }
        obj(ks.into_iter().map(|k| (k, rand_val(rng, at, depth - 1))).collect())
    }
}

/// a value that should be `==` to `v` but differs in representation
fn revar(rng: &mut Rng, v: &Val) -> Val {
    match v {
        Val::Num(n) => {
            let mut small = |i: &BigInt| -> Option<Val> {
                let x = i.to_i64()?;
                if x.unsigned_abs() > (1 << 53) {
                    return None;
                }
                Some(match rng.below(4) {
                    0 => int(x as isize),
                    1 => bigv(i.clone()),
                    2 => float(x as f64),
                    _ => dec(&format!("{x}.0")),
                })
            };
            match n {
                Num::Int(i) => small(&BigInt::from(*i)).unwrap_or_else(|| bigv(BigInt::from(*i))),
                Num::BigInt(i) => small(i).unwrap_or_else(|| v.clone()),
                Num::Float(f) if *f == 0.0 => float(if rng.chance(1, 2) { 0.0 } else { -0.0 }),
                Num::Float(f) if f.fract() == 0.0 && f.abs() <= 9007199254740992.0 => small(&BigInt::from(*f as i64)).unwrap(),
                _ => v.clone(),
            }
        }
        Val::TStr(b) => {
            if rng.chance(1, 2) {
                bstr(b)
            } else {
                v.clone()
            }
        }
        Val::BStr(b) => {
            if rng.chance(1, 2) {
                tstr(b)
            } else {
                v.clone()
            }
        }
        Val::Arr(a) => arr(a.iter().map(|x| revar(rng, x)).collect()),
        Val::Obj(o) => {
            let mut kvs: Vec<(Val, Val)> = o.iter().map(|(k, v)| (revar(rng, k), revar(rng, v))).collect();
            // rotate / reverse the insertion order
            if rng.chance(1, 2) {
                kvs.reverse()
            } else if !kvs.is_empty() {
                let r = rng.below(kvs.len());
                kvs.rotate_left(r)
            }
            obj(kvs)
        }
        v => v.clone(),
    }
}

// ------------------------------------------------------------------ templates through the filter language

struct Tmpl {
    name: &'static str,
    code: &'static str,
    pre: fn(&Val, &Val) -> bool,
    unary: bool,
}

fn any2(_: &Val, _: &Val) -> bool {
    true
}
fn arr_a(a: &Val, _: &Val) -> bool {
    matches!(a, Val::Arr(_))
}
fn arr_ab(a: &Val, b: &Val) -> bool {
    // `BTreeSet` look-up follows the tree's shape when the order is not total
    matches!(a, Val::Arr(_)) && matches!(b, Val::Arr(_)) && in_domain(&facts_of(&[a, b]))
}
fn sorted_a(a: &Val, b: &Val) -> bool {
    match a {
        Val::Arr(x) => in_domain(&facts_of(&[a, b])) && x.windows(2).all(|w| w[0] < w[1]),
        _ => false,
    }
}
fn sortable_a(a: &Val, _: &Val) -> bool {
    // the result of sorting by a non-total order depends on the sort algorithm
    matches!(a, Val::Arr(x) if x.len() <= 2 || in_domain(&facts_of(&[a])))
}

const TEMPLATES: &[Tmpl] = &[
    Tmpl { name: "ord", code: "[$a<$b, $a<=$b, $a==$b, $a!=$b, $a>=$b, $a>$b]", pre: any2, unary: false },
    Tmpl { name: "sort2", code: "[$b,$a]|sort", pre: any2, unary: false },
    Tmpl { name: "uniq2", code: "[$b,$a,$b]|unique", pre: any2, unary: false },
    Tmpl { name: "grp2", code: "[$b,$a,$b]|group_by(.)", pre: any2, unary: false },
    Tmpl { name: "minmax", code: "[([$a,$b]|min), ([$a,$b]|max), ([$b,$a]|min), ([$b,$a]|max)]", pre: any2, unary: false },
    Tmpl { name: "has", code: "{($a):1,x:2}|has($b)", pre: any2, unary: false },
    Tmpl { name: "get", code: "{($a):1,x:2}|.[$b]", pre: any2, unary: false },
    Tmpl { name: "has1", code: "{($a):1}|has($b)", pre: any2, unary: false },
    Tmpl { name: "sub", code: "[$a,null]-[$b]", pre: any2, unary: false },
    Tmpl { name: "idx", code: "[null,$a,$a]|indices($b)", pre: any2, unary: false },
    Tmpl { name: "index", code: "[null,$a]|index($b)", pre: any2, unary: false },
    Tmpl { name: "cont", code: "[([$a]|contains([$b])), ($a|contains($b)), ($a|inside($b))]", pre: any2, unary: false },
    Tmpl { name: "objadd", code: "{($a):1,x:2} + {($b):3}", pre: any2, unary: false },
    Tmpl { name: "objmul", code: "{($a):{p:1},x:2} * {($b):{q:2},y:{}}", pre: any2, unary: false },
    Tmpl { name: "mk", code: "{($a):1,($b):2}", pre: any2, unary: false },
    Tmpl { name: "set", code: "{($a):1,x:2}|.[$b] = 3", pre: any2, unary: false },
    Tmpl { name: "upd", code: "{($a):1,x:2}|.[$b] |= [.]", pre: any2, unary: false },
    Tmpl { name: "del", code: "{($a):1,x:2,y:3}|del(.[$b])", pre: any2, unary: false },
    Tmpl { name: "objeq", code: "[{($a):1,x:2} == {x:2,($b):1}, {($a):1,x:2} < {x:2,($b):1}, {($a):1} == {($b):1}]", pre: any2, unary: false },
    Tmpl { name: "arrsub", code: "$a - $b", pre: arr_ab, unary: false },
    Tmpl { name: "arridx", code: "$a|indices($b)", pre: arr_a, unary: false },
    Tmpl { name: "arrbs", code: "$a|bsearch($b)", pre: sorted_a, unary: false },
    Tmpl { name: "sort", code: "$a|sort", pre: sortable_a, unary: true },
    Tmpl { name: "unique", code: "$a|unique", pre: sortable_a, unary: true },
    Tmpl { name: "group", code: "$a|group_by(.)", pre: sortable_a, unary: true },
    Tmpl { name: "mm", code: "$a|[min,max]", pre: sortable_a, unary: true },
];

struct Compiled {
    t: &'static Tmpl,
    f: Filter,
}

fn compile_templates() -> Vec<Compiled> {
    let vars = vec!["a".to_string(), "b".to_string()];
    TEMPLATES
        .iter()
        .map(|t| Compiled { t, f: compile_vars(t.code, &vars).unwrap_or_else(|e| panic!("template {} does not compile: {e}", t.name)) })
        .collect()
}

fn run_t(c: &Compiled, a: &Val, b: &Val) -> Result<Vec<Item>, String> {
    let (a, b) = (a.clone(), b.clone());
    catch(move || run_with(&c.f, Val::Null, vec![a, b], vec![], 4))
}

fn show_items(r: &Result<Vec<Item>, String>) -> String {
    match r {
        Err(p) => format!("PANIC {}", p.replace(['\t', '\n'], " ")),
        Ok(items) => match &items[..] {
            [Item::Val(v)] => format!("V {}", vx::enc_canon(v)),
            [Item::Err(_)] => "E".into(),
            other => format!("? {}", enc_items(other)),
        },
    }
}

// ------------------------------------------------------------------ correspondence

struct Out {
    id: usize,
}

impl Out {
    fn line(&mut self, kind: &str, req: String, real: String) {
        println!("{kind}{}\t{req}\t{real}", self.id);
        self.id += 1;
    }
}

fn ord_str(o: Ordering) -> &'static str {
    match o {
        Ordering::Less => "lt",
        Ordering::Equal => "eq",
        Ordering::Greater => "gt",
    }
}

/// a structurally equal copy that shares no `Rc` (`Rc<T: Eq>` compares pointers first, which
/// is visible for values containing NaN)
fn fresh(v: &Val) -> Val {
    vx::dec(&vx::enc(v)).unwrap()
}

fn has_nan_inside_container(v: &Val) -> bool {
    matches!(v, Val::Arr(_) | Val::Obj(_)) && facts_of(&[v]).nan
}

fn corr_pair(out: &mut Out, a: &Val, b: &Val) {
    let (ea, eb) = (vx::enc(a), vx::enc(b));
    let b = &if has_nan_inside_container(b) { fresh(b) } else { b.clone() };
    let c = catch(|| a.cmp(b)).map(ord_str).unwrap_or("PANIC");
    let e = catch(|| a == b).map(|e| if e { "T" } else { "F" }).unwrap_or("PANIC");
    out.line("ce", format!("c08.ce {ea} {eb}"), format!("{c} {e}"));
}

/// one line for all applicable templates: `c08.all n1,n2,.. a b` -> `ans1;ans2;..`
fn corr_templates(out: &mut Out, ts: &[Compiled], a: &Val, b: &Val, unary_too: bool) {
    // filters use `$b` twice: a shared `Rc` makes `NaN`-containing containers equal to themselves
    if has_nan_inside_container(a) || has_nan_inside_container(b) {
        return;
    }
    let (ea, eb) = (vx::enc(a), vx::enc(b));
    let mut names = vec![];
    let mut answers = vec![];
    for c in ts {
        if c.t.unary && !unary_too {
            continue;
        }
        if !(c.t.pre)(a, b) {
            continue;
        }
        let r = run_t(c, a, b);
        names.push(c.t.name);
        answers.push(show_items(&r));
    }
    if !names.is_empty() {
        out.line("all", format!("c08.all {} {ea} {eb}", names.join(",")), answers.join(";"));
    }
}

fn corr_one(out: &mut Out, ts: &[Compiled], name: &str, a: &Val, b: &Val) {
    if has_nan_inside_container(a) || has_nan_inside_container(b) {
        return;
    }
    let c = ts.iter().find(|c| c.t.name == name).unwrap();
    out.line("all", format!("c08.all {name} {} {}", vx::enc(a), vx::enc(b)), show_items(&run_t(c, a, b)));
}

fn sizes(tier: &str) -> (usize, usize, usize, usize) {
    // (values in template pairs, values in triples, random pairs, random arrays)
    if tier == "thorough" {
        (260, 330, 60000, 20000)
    } else {
        (110, 130, 6000, 2500)
    }
}

/// deterministic sub-sample of `n` values that keeps the first `keep` (the atoms most relevant)
fn subsample(vals: &[Val], n: usize, rng: &mut Rng) -> Vec<Val> {
    if vals.len() <= n {
        return vals.to_vec();
    }
    let mut idx: Vec<usize> = (0..vals.len()).collect();
    // Fisher-Yates with the seeded generator
    for i in (1..idx.len()).rev() {
        idx.swap(i, rng.below(i + 1));
    }
    idx.truncate(n);
    idx.sort();
    idx.into_iter().map(|i| vals[i].clone()).collect()
}

/// the values most relevant for look-ups (all representations of 0 and 1, strings, boundary numbers)
fn core_vals() -> Vec<Val> {
    let mut v = vec![Val::Null, Val::Bool(false), Val::Bool(true)];
    v.extend(keys());
    v.extend([int(-1), int(1 << 53), int((1 << 53) + 1), float(9007199254740992.0), float(0.5), float(f64::NEG_INFINITY), float(f64::NAN),
              dec("1.10"), dec("1e1000"), bigv(pow2(63)), float(9223372036854775808.0), bigv(-pow2(1024)), bstr(b"\xff"), s(""), bstr(b""),
              arr(vec![]), obj(vec![]), arr(vec![int(0), int(1)]), arr(vec![float(-0.0), float(1.0)]), arr(vec![s("a")]), arr(vec![bstr(b"a")]),
              obj(vec![(s("a"), int(1)), (s("b"), int(2))]), obj(vec![(s("b"), float(2.0)), (s("a"), float(1.0))]),
              obj(vec![(int(0), int(1)), (s("b"), int(2))]), obj(vec![(s("b"), int(2)), (float(-0.0), int(1))]),
              obj(vec![(int(1), int(1)), (s("b"), int(2))]), obj(vec![(s("b"), int(2)), (float(1.0), int(1))]),
              obj(vec![(s("a"), int(1))]), obj(vec![(bstr(b"a"), float(1.0))]), obj(vec![(int(0), int(1))]), obj(vec![(float(-0.0), int(1))])]);
    v
}

fn dedup_vx(v: Vec<Val>) -> Vec<Val> {
    let mut seen = std::collections::HashSet::new();
    v.into_iter().filter(|x| seen.insert(vx::enc(x))).collect()
}

fn all_values() -> Vec<Val> {
    let mut v = atoms();
    v.extend(containers());
    dedup_vx(v)
}

fn gen(tier: &str) {
    let mut rng = Rng::new(prng::seed_from_env());
    let (n_tmpl, _n_tri, n_rand, n_arr) = sizes(tier);
    let mut out = Out { id: 0 };
    let vals = all_values();
    let at = atoms();
    // 1. hash feeds of every value
    for a in &vals {
        out.line("feed", format!("c08.feed {}", vx::enc(a)), rec_hash(a));
    }
    // 2. cmp / eq on all ordered pairs
    for a in &vals {
        for b in &vals {
            corr_pair(&mut out, a, b);
        }
    }
    // 3. templates on pairs of a smaller set
    let ts = compile_templates();
    let mut tv = core_vals();
    tv.extend(subsample(&vals, n_tmpl.saturating_sub(tv.len()), &mut rng));
    let tv = dedup_vx(tv);
    for a in &tv {
        for b in &tv {
            corr_templates(&mut out, &ts, a, b, false);
        }
    }
    // 4. random larger values: unrelated pairs and representation variants
    for i in 0..n_rand {
        let a = rand_val(&mut rng, &at, 3);
        let b = if i % 2 == 0 { revar(&mut rng, &a) } else { rand_val(&mut rng, &at, 3) };
        out.line("feed", format!("c08.feed {}", vx::enc(&a)), rec_hash(&a));
        corr_pair(&mut out, &a, &b);
        corr_pair(&mut out, &b, &a);
        if i % 4 < 2 {
            corr_templates(&mut out, &ts, &a, &b, false);
        }
    }
    // 5. arrays for sort / unique / group_by / min / max / bsearch / indices / subtraction
    let es: Vec<Val> = dedup_vx(elems().into_iter().chain(at.iter().cloned()).chain(containers().into_iter().step_by(7)).collect());
    let el = elems();
    for i in 0..n_arr {
        let n = [0, 1, 2, 3, 3, 4, 5, 8, 12, 25][rng.below(10)];
        let narrow = rng.chance(1, 2);
        let pick = |rng: &mut Rng| if narrow { el[rng.below(9)].clone() } else { rng.pick(&es).clone() };
        let xs: Vec<Val> = (0..n).map(|_| pick(&mut rng)).collect();
        let no_nan = !facts_of(&xs.iter().collect::<Vec<_>>()).nan;
        let a = arr(xs.clone());
        let b = if xs.is_empty() || rng.chance(1, 3) {
            pick(&mut rng)
        } else {
            let x = xs[rng.below(xs.len())].clone();
            revar(&mut rng, &x)
        };
        let dom = in_domain(&facts_of(&xs.iter().chain([&b]).collect::<Vec<_>>()));
        if dom || xs.len() <= 2 {
            for name in ["sort", "unique", "group", "mm"] {
                corr_one(&mut out, &ts, name, &a, &Val::Null);
            }
        }
        corr_one(&mut out, &ts, "arridx", &a, &b);
        if i % 2 == 0 {
            let k = rng.below(4);
            let ys: Vec<Val> = (0..k)
                .map(|_| {
                    if rng.chance(1, 2) && !xs.is_empty() {
                        let x = xs[rng.below(xs.len())].clone();
                        revar(&mut rng, &x)
                    } else {
                        pick(&mut rng)
                    }
                })
                .collect();
            // `BTreeSet` look-up follows the tree's shape when the order is not total
            if in_domain(&facts_of(&xs.iter().chain(ys.iter()).collect::<Vec<_>>())) {
                corr_one(&mut out, &ts, "arrsub", &a, &arr(ys));
            }
        }
        // bsearch on the sorted, deduplicated array (strictly ascending by the real order)
        if no_nan && dom {
            let mut sorted = xs.clone();
            sorted.sort();
            sorted.dedup_by(|x, y| (*x).cmp(y) == Ordering::Equal);
            let sa = arr(sorted);
            if sorted_a(&sa, &b) {
                corr_one(&mut out, &ts, "arrbs", &sa, &b);
            }
        }
    }
}

// ------------------------------------------------------------------ property oracle (real code only)

struct Oracle {
    fails: usize,
    printed: std::collections::HashMap<String, usize>,
    stats: std::collections::BTreeMap<&'static str, usize>,
}

impl Oracle {
    fn new() -> Self {
        Oracle { fails: 0, printed: Default::default(), stats: Default::default() }
    }
    fn count(&mut self, k: &'static str) {
        *self.stats.entry(k).or_default() += 1;
    }
    fn fail(&mut self, check: &str, f: &Facts, vals: &[&Val], detail: String) {
        self.fails += 1;
        let key = format!("{check}:{}", tag(f));
        let n = self.printed.entry(key).or_default();
        *n += 1;
        if *n > 12 {
            return;
        }
        let vs: Vec<String> = vals.iter().map(|v| vx::enc(v)).collect();
        println!("FAIL\t{check}\t{}\t{}\t{}", tag(f), vs.join("\t"), detail.replace(['\t', '\n'], " "));
    }
}

fn items_eq(x: &Result<Vec<Item>, String>, y: &Result<Vec<Item>, String>) -> bool {
    match (x, y) {
        (Ok(x), Ok(y)) => {
            x.len() == y.len()
                && x.iter().zip(y.iter()).all(|(p, q)| match (p, q) {
                    (Item::Val(p), Item::Val(q)) => p == q,
                    (Item::Err(_), Item::Err(_)) => true,
                    (p, q) => p == q,
                })
        }
        _ => false,
    }
}

fn oracle_pair(o: &mut Oracle, ts: &[Compiled], a: &Val, b: &Val, with_templates: bool) {
    let f = facts_of(&[a, b]);
    if !in_domain(&f) {
        o.count("pairs_outside_domain");
        return;
    }
    o.count("pairs_in_domain");
    let Ok((c, c2, e, e2)) = catch(|| (a.cmp(b), b.cmp(a), a == b, b == a)) else {
        o.fail("panic", &f, &[a, b], "cmp or == panics".into());
        return;
    };
    if c2 != c.reverse() {
        o.fail("antisymmetry", &f, &[a, b], format!("cmp(a,b)={c:?} cmp(b,a)={c2:?}"));
    }
    if e != e2 {
        o.fail("eq-symmetry", &f, &[a, b], format!("a==b {e}, b==a {e2}"));
    }
    if e != (c == Ordering::Equal) {
        o.fail("trichotomy", &f, &[a, b], format!("cmp(a,b)={c:?} but a==b is {e}: not exactly one of < == > holds"));
    }
    match spec_cmp(a, b) {
        Some(sc) if sc != c => o.fail("documented-order", &f, &[a, b], format!("cmp(a,b)={c:?}, documented order says {sc:?}")),
        _ => {}
    }
    if e {
        o.count("equal_pairs");
        let (ha, hb) = (rec_hash(a), rec_hash(b));
        if ha != hb {
            o.fail("hash", &f, &[a, b], format!("a==b but Hash differs: [{ha}] vs [{hb}]"));
        }
        if with_templates {
            for t in ts {
                if t.t.unary || !(t.t.pre)(a, b) || !(t.t.pre)(a, a) {
                    continue;
                }
                o.count("interchange_checks");
                let (rab, raa) = (run_t(t, a, b), run_t(t, a, a));
                if !items_eq(&rab, &raa) {
                    o.fail(&format!("interchange:{}", t.t.name), &f, &[a, b],
                           format!("`{}` gives {} with $b but {} with $b replaced by the equal $a", t.t.code, show_items(&rab), show_items(&raa)));
                }
            }
        }
    } else if with_templates {
        // the filters agree with the comparison that `Ord` reports
        let t = &ts[0];
        let r = run_t(t, a, b);
        let lt = c == Ordering::Less;
        let gt = c == Ordering::Greater;
        let want = arr(vec![lt.into(), (!gt).into(), false.into(), true.into(), (!lt).into(), gt.into()]);
        if !matches!(&r, Ok(items) if matches!(&items[..], [Item::Val(v)] if vx::enc(v) == vx::enc(&want))) {
            o.fail("operators", &f, &[a, b], format!("`{}` gives {} for cmp={c:?}", t.t.code, show_items(&r)));
        }
    }
}

fn oracle_refl(o: &mut Oracle, a: &Val) {
    let f = facts_of(&[a]);
    if !in_domain(&f) {
        return;
    }
    o.count("reflexivity_checks");
    let b = vx::dec(&vx::enc(a)).unwrap(); // a structurally equal copy that shares no `Rc`
    if catch(|| a.cmp(&b) != Ordering::Equal || *a != b || a.cmp(a) != Ordering::Equal || a != a).unwrap_or(true) {
        o.fail("reflexivity", &f, &[a], "a value is not equal to (a copy of) itself".into());
    }
}

fn oracle_triple(o: &mut Oracle, a: &Val, b: &Val, c: &Val, cab: Ordering, cbc: Ordering, cac: Ordering, dom: bool) {
    if !dom {
        return;
    }
    o.count("triples_in_domain");
    if cab != Ordering::Greater && cbc != Ordering::Greater {
        let strict = cab == Ordering::Less || cbc == Ordering::Less;
        let bad = if strict { cac != Ordering::Less } else { cac != Ordering::Equal };
        if bad {
            let f = facts_of(&[a, b, c]);
            o.fail("transitivity", &f, &[a, b, c], format!("cmp(a,b)={cab:?} cmp(b,c)={cbc:?} but cmp(a,c)={cac:?}"));
        }
    }
}

fn sort_oracle(o: &mut Oracle, ts: &[Compiled], xs: &[Val]) {
    let refs: Vec<&Val> = xs.iter().collect();
    let f = facts_of(&refs);
    if !in_domain(&f) {
        return;
    }
    o.count("sort_checks");
    let a = arr(xs.to_vec());
    let t = ts.iter().find(|t| t.t.name == "sort").unwrap();
    let r = run_t(t, &a, &Val::Null);
    // the stably sorted permutation by the documented order, computed independently
    let mut idx: Vec<usize> = (0..xs.len()).collect();
    for i in 1..idx.len() {
        let mut j = i;
        while j > 0 && spec_cmp(&xs[idx[j - 1]], &xs[idx[j]]) == Some(Ordering::Greater) {
            idx.swap(j - 1, j);
            j -= 1;
        }
    }
    let want = arr(idx.iter().map(|&i| xs[i].clone()).collect());
    let ok = matches!(&r, Ok(items) if matches!(&items[..], [Item::Val(v)] if vx::enc(v) == vx::enc(&want)));
    if !ok {
        o.fail("sort", &f, &[&a], format!("sort gives {} instead of the stably sorted permutation V {}", show_items(&r), vx::enc(&want)));
    }
}

fn oracle(tier: &str) {
    let mut rng = Rng::new(prng::seed_from_env() ^ 0x0c08);
    let (n_tmpl, n_tri, n_rand, n_arr) = sizes(tier);
    let ts = compile_templates();
    let vals = all_values();
    let at = atoms();
    let mut o = Oracle::new();
    for a in &vals {
        oracle_refl(&mut o, a);
    }
    let mut tv = core_vals();
    tv.extend(subsample(&vals, n_tmpl.saturating_sub(tv.len()), &mut rng));
    let tv = dedup_vx(tv);
    let tset: std::collections::HashSet<String> = tv.iter().map(vx::enc).collect();
    for a in &vals {
        for b in &vals {
            let wt = tset.contains(&vx::enc(a)) && tset.contains(&vx::enc(b));
            oracle_pair(&mut o, &ts, a, b, wt);
        }
    }
    // triples: transitivity on the real `Ord`
    let mut tri = core_vals();
    tri.extend(subsample(&vals, n_tri.saturating_sub(tri.len()), &mut rng));
    let tri = dedup_vx(tri);
    let n = tri.len();
    let fs: Vec<Facts> = tri.iter().map(|v| facts_of(&[v])).collect();
    let mut m = vec![Ordering::Equal; n * n];
    for i in 0..n {
        for j in 0..n {
            m[i * n + j] = catch(|| tri[i].cmp(&tri[j])).unwrap_or(Ordering::Equal);
        }
    }
    let join = |x: &Facts, y: &Facts| Facts {
        nan: x.nan || y.nan,
        big_mag_int: x.big_mag_int || y.big_mag_int,
        finite_float: x.finite_float || y.finite_float,
        inf_float: x.inf_float || y.inf_float,
        huge_int: x.huge_int || y.huge_int,
        neg_zero: x.neg_zero || y.neg_zero,
        dup_keys: x.dup_keys || y.dup_keys,
    };
    for i in 0..n {
        for j in 0..n {
            let fij = join(&fs[i], &fs[j]);
            if !in_domain(&fij) {
                continue;
            }
            for k in 0..n {
                let dom = in_domain(&join(&fij, &fs[k]));
                oracle_triple(&mut o, &tri[i], &tri[j], &tri[k], m[i * n + j], m[j * n + k], m[i * n + k], dom);
            }
        }
    }
    // random larger values
    for i in 0..n_rand {
        let a = rand_val(&mut rng, &at, 3);
        let b = if i % 2 == 0 { revar(&mut rng, &a) } else { rand_val(&mut rng, &at, 3) };
        oracle_refl(&mut o, &a);
        oracle_pair(&mut o, &ts, &a, &b, i % 4 < 2);
        let c = if i % 3 == 0 { revar(&mut rng, &b) } else { rand_val(&mut rng, &at, 2) };
        let fabc = facts_of(&[&a, &b, &c]);
        if let Ok((x, y, z)) = catch(|| (a.cmp(&b), b.cmp(&c), a.cmp(&c))) {
            oracle_triple(&mut o, &a, &b, &c, x, y, z, in_domain(&fabc));
        }
    }
    // sort: stably sorted permutation
    let es: Vec<Val> = dedup_vx(elems().into_iter().chain(at.iter().cloned()).chain(containers().into_iter().step_by(7)).collect());
    let el = elems();
    for _ in 0..n_arr {
        let n = [0, 1, 2, 3, 3, 4, 5, 8, 12, 25][rng.below(10)];
        let narrow = rng.chance(1, 2);
        let xs: Vec<Val> = (0..n).map(|_| if narrow { el[rng.below(9)].clone() } else { rng.pick(&es).clone() }).collect();
        sort_oracle(&mut o, &ts, &xs);
    }
    for (k, v) in &o.stats {
        println!("STAT\t{k}\t{v}");
    }
    println!("STAT\tfails\t{}", o.fails);
    println!("STAT\tvalues\t{}", vals.len());
}

fn pair(args: &[String]) {
    let vs: Vec<Val> = args.iter().map(|a| vx::dec(a).unwrap_or_else(|| panic!("bad VX {a}"))).collect();
    let ts = compile_templates();
    let mut out = Out { id: 0 };
    let mut o = Oracle::new();
    for a in &vs {
        out.line("feed", format!("c08.feed {}", vx::enc(a)), rec_hash(a));
        oracle_refl(&mut o, a);
        if matches!(a, Val::Arr(_)) {
            if let Val::Arr(xs) = a {
                sort_oracle(&mut o, &ts, xs);
            }
        }
    }
    for a in &vs {
        for b in &vs {
            corr_pair(&mut out, a, b);
            corr_templates(&mut out, &ts, a, b, true);
            oracle_pair(&mut o, &ts, a, b, true);
        }
    }
    if let [a, b, c] = &vs[..] {
        let f = facts_of(&[a, b, c]);
        if let Ok((x, y, z)) = catch(|| (a.cmp(b), b.cmp(c), a.cmp(c))) {
            oracle_triple(&mut o, a, b, c, x, y, z, in_domain(&f));
        }
    }
    println!("STAT\tfails\t{}", o.fails);
}

/// switches of the model that follow the repaired code: observed on the real code
fn cfg() {
    let z = rec_hash(&float(0.0)) == rec_hash(&float(-0.0)) && rec_hash(&dec("-0.0")) == rec_hash(&int(0));
    let (h, nh) = (bigv(pow2(1024)), bigv(-pow2(1024)));
    let (inf, ninf) = (float(f64::INFINITY), float(f64::NEG_INFINITY));
    let g = h.cmp(&inf) == Ordering::Less
        && inf.cmp(&h) == Ordering::Greater
        && nh.cmp(&ninf) == Ordering::Greater
        && ninf.cmp(&nh) == Ordering::Less;
    println!("CFG\thashNormalisesZero\t{z}");
    println!("CFG\thugeIntBelowInfinity\t{g}");
    println!("CFG\tlittleEndian\t{}", cfg!(target_endian = "little"));
}

pub fn main(args: &[String]) {
    let tier = std::env::var("VERIF_TIER").unwrap_or_else(|_| "quick".into());
    if std::env::var("C08_DEBUG").is_ok() {
        std::panic::set_hook(Box::new(|i| eprintln!("{i}")));
    }
    match args.first().map(|s| s.as_str()) {
        Some("gen") => gen(&tier),
        Some("oracle") => oracle(&tier),
        Some("pair") => pair(&args[1..]),
        Some("cfg") => cfg(),
        _ => eprintln!("c08 cfg|gen|oracle|pair <vx> <vx> [<vx>]"),
    }
}
