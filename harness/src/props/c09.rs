//! C09 — exact integers, operators follow the manual.
//!   gen : `id \t request \t real` lines for the correspondence of `+ - * / %` and unary `-`
//!   meta: representation independence of integer consumers (real code only); prints
//!         `META <ok|FAIL> <template> <n> …`
use super::common::*;
use super::prng::{self, Rng};
use super::vx;
use jaq_json::{Num, Val};
use num_bigint::BigInt;

fn show(r: Result<Val, jaq_json::Error>) -> String {
    match r {
        Ok(v) => format!("V {}", vx::enc_canon(&v)),
        Err(e) => format!("E {}", err_cls(&e)),
    }
}

fn binop(op: &str, a: Val, b: Val) -> Result<String, String> {
    catch(|| {
        show(match op {
            "add" => a + b,
            "sub" => a - b,
            "mul" => a * b,
            "div" => a / b,
            "rem" => a % b,
            _ => unreachable!(),
        })
    })
}

fn rand_int(rng: &mut Rng) -> Val {
    // integers clustered around representation boundaries and of random magnitude
    let bits = [1u32, 8, 31, 32, 53, 62, 63, 64, 65, 100, 127][rng.below(11)];
    let mut b = BigInt::from(0);
    for _ in 0..((bits + 63) / 64) {
        b = (b << 64) + BigInt::from(rng.next());
    }
    b = b >> ((64 - bits % 64) % 64);
    match rng.below(4) {
        0 => b = (BigInt::from(1) << bits) - BigInt::from(rng.below(3)),
        1 => b = (BigInt::from(1) << (bits - 1)) + BigInt::from(rng.below(3)),
        _ => {}
    }
    if rng.chance(1, 2) {
        b = -b;
    }
    use num_traits::ToPrimitive;
    match (b.to_isize(), rng.chance(1, 4)) {
        (Some(i), false) => int(i),
        _ => Val::Num(Num::big_int(b)), // also: small values in big representation
    }
}

pub fn gen(tier: &str) {
    let mut rng = Rng::new(prng::seed_from_env());
    let mut pool = num_pool();
    let nn = nonnum_pool();
    let mut id = 0usize;
    let ops = ["add", "sub", "mul", "div", "rem"];
    let mut emit = |op: &str, a: &Val, b: &Val| {
        // string repetition with a huge count exhausts memory (excepted by the property)
        if op == "mul" {
            let huge = |n: &Val| match n {
                Val::Num(Num::Int(i)) => *i > 1000,
                Val::Num(Num::BigInt(b)) => **b > BigInt::from(1000),
                _ => false,
            };
            let nonempty = |s: &Val| matches!(s, Val::TStr(b) | Val::BStr(b) if !b.is_empty());
            if (huge(a) && nonempty(b)) || (huge(b) && nonempty(a)) {
                return;
            }
        }
        let req = format!("c09.bin {op} {} {}", vx::enc(a), vx::enc(b));
        let real = binop(op, a.clone(), b.clone()).unwrap_or_else(|p| format!("PANIC {}", p.replace(['\t', '\n'], " ")));
        println!("bin{id}\t{req}\t{real}");
        id += 1;
    };
    // exhaustive over the number pool
    for a in &pool {
        for b in &pool {
            for op in ops {
                emit(op, a, b);
            }
        }
    }
    // numbers x non-numbers, non-numbers x non-numbers
    let small: Vec<Val> = vec![int(0), int(1), int(-1), int(3), big("2"), big("-2"), big("99999999999999999999"),
                                big("-99999999999999999999"), float(2.0), float(0.5), dec("2.0"), float(f64::NAN)];
    for a in &nn {
        for b in small.iter().chain(nn.iter()) {
            for op in ops {
                // avoid gigantic repetitions
                emit(op, a, b);
                emit(op, b, a);
            }
        }
    }
    // random integer pairs
    let n = if tier == "thorough" { 200000 } else { 12000 };
    for _ in 0..n {
        let a = rand_int(&mut rng);
        let b = rand_int(&mut rng);
        let op = ops[rng.below(5)];
        emit(op, &a, &b);
    }
    // random mixed pairs
    pool.extend(nn);
    for _ in 0..n / 4 {
        let a = if rng.chance(1, 2) { rand_int(&mut rng) } else { rng.pick(&pool).clone() };
        let b = if rng.chance(1, 2) { rand_int(&mut rng) } else { rng.pick(&pool).clone() };
        if matches!((&a, &b), (Val::TStr(_) | Val::BStr(_), Val::Num(_)) | (Val::Num(_), Val::TStr(_) | Val::BStr(_))) {
            continue; // string repetition with random counts: covered above with bounded counts
        }
        emit(ops[rng.below(5)], &a, &b);
    }
    // negation
    let mut negs = num_pool();
    negs.extend(nonnum_pool());
    for _ in 0..200 {
        negs.push(rand_int(&mut rng));
    }
    for a in &negs {
        let req = format!("c09.neg {}", vx::enc(a));
        let a2 = a.clone();
        let real = catch(move || show(-a2)).unwrap_or_else(|p| format!("PANIC {}", p.replace(['\t', '\n'], " ")));
        println!("neg{id}\t{req}\t{real}");
        id += 1;
    }
}

/// integer consumers: `$n` is bound to the integer under test
const CONSUMERS: &[&str] = &[
    "[1,2,3,4,5] | .[$n]", "[1,2,3,4,5] | .[$n:]", "[1,2,3,4,5] | .[:$n]", "[1,2,3,4,5] | .[$n:$n+2]",
    "\"abcde\" | .[$n:]", "\"abcde\" | .[:$n]", "\"abcde\" | tobytes | .[$n]", "\"abcde\" | tobytes | .[$n:]",
    "[limit($n; 1,2,3,4)]", "[skip($n; 1,2,3,4)]", "[range($n)] | length", "[range(0; $n)] | length", "[range($n; 3)]",
    "[limit(4; range(0; 10; $n))]", "[limit(4; range($n; $n + 4))]", "\"ab\" * $n", "$n * \"ab\"", "[$n] | implode", "[$n, 65] | tobytes",
    "$n | tobytes", "[1,2,3,4,5] | nth($n)", "nth($n; 1,2,3,4)", "[1,2,3,4,5] | has($n)", "{($n|tostring): 1} | keys",
    "{($n): 1} | has($n)", "{($n): 1} | .[$n]", "{(3): 1} | has($n)", "$n < 9223372036854775808", "$n > -9223372036854775809", "[9223372036854775808, $n, -9223372036854775809] | sort",
    "[$n, 9223372036854775808] | min", "[limit(3; range($n - 1; $n + 2))]", "[9223372036854775808, $n] | unique | length", "[$n] - [9223372036854775808]",
    "$n < 3", "$n == 3", "$n == 3.0", "[$n, 3, 3.5, -1] | sort",
    "[1,2,3,4,5] | .[$n] = 9", "[1,2,3,4,5] | del(.[$n])", "[1,2,3,4,5] | .[$n:] = [0]", "[1,2,3,4,5] | getpath([$n])",
    "[1,2,3,4,5] | setpath([$n]; 0)", "[1,2,3,4,5] | delpaths([[$n]])", "$n + 1", "$n - 1", "$n * 3", "$n % 3", "7 % $n", "-$n", "$n / 2",
    "$n | tostring", "$n | tojson", "$n | length", "$n | abs", "$n | floor", "$n | round", "$n | sqrt", "$n | tojson | fromjson",
    "ldexp(1.5; $n)", "scalb(1.5; $n)", "scalbln(1.5; $n)", "pow(2; $n)", "[1,[2,[3,[4]]]] | flatten($n)", "[[1,2],[3,4]] | .[$n][$n]?",
    "[1,2,1,3] | indices($n)", "[1,2,1,3] | index($n)", "[3,1,2] | bsearch($n)", "[1,2,3] | contains([$n])", "[1,2,3] - [$n]",
    "[1,2,3] | .[$n:][:$n]", "\"a,b,c\" | split(\",\") | .[$n]", "[.[]?] | first(range($n; 5))", "$n | todate", "$n | gmtime | mktime",
    "[$n] | .[0] as [$x] ?// $x | $x", "$n | @text", "$n | @json", "[$n] | @csv", "[1,2,3] | to_entries | .[$n]", "$n | isvalid(.)?", 
    "{a: $n} | .a |= . + 1", "[1,2,3,4] | .[$n] |= empty", "[$n, 1] | min", "[$n, 1] | unique", "[[$n, 1], [1, 1]] | group_by(.[0]) | length",
    "$n | ascii?", "[65 + $n] | implode", "$n | splits(\"a\")?", "[1,2,3] | combinations($n)?", "$n | significand", "$n | logb", "$n | tonumber", "$n | toboolean?",
    "[1,2,3,4,5] | first(.[$n:] | .[0])", "[1,2,3,4,5] | last(limit($n; .[]))", "until(. >= $n; . + 1)?", "[1,2,3,4,5] | .[$n]?", "try error($n) catch .",
    "[1,2,3,4,5] | pick(.[$n])?", "[1,2,3,4,5] | path(.[$n])", "[1,2,3,4,5] | [paths] | .[$n]", "$n | strftime(\"%Y\")?", "halt_error?", "@base64 \"\\($n)\"",
];

pub fn meta(_tier: &str) {
    let ns: Vec<isize> = vec![0, 1, -1, 2, -2, 3, 4, 5, -5, 6, 65, 255, 256, 1000, -1000, 1 << 31, isize::MAX, isize::MIN, isize::MIN + 1, 1 << 53];
    let vars = vec!["n".to_string()];
    for t in CONSUMERS {
        if t.contains("halt_error") {
            continue;
        }
        let f = match compile_vars(t, &vars) {
            Ok(f) => f,
            Err(e) => {
                println!("META SKIP {}\t{}", t, e);
                continue;
            }
        };
        for &n in &ns {
            // keep run times bounded
            if n.unsigned_abs() > 1000 && (t.contains("range(") || t.contains("* $n") || t.contains("$n *") || t.contains("until") || t.contains("combinations") || t.contains("limit($n") || t.contains("skip($n")) {
                continue;
            }
            let reps: Vec<(&str, Val)> = vec![
                ("int", int(n)),
                ("big", Val::Num(Num::big_int(BigInt::from(n)))),
            ];
            let mut outs = vec![];
            for (name, v) in &reps {
                let f = &f;
                let v = v.clone();
                let r = catch(move || {
                    let items = run_with(f, Val::Null, vec![v], vec![], 50);
                    let items: Vec<Item> = items
                        .into_iter()
                        .map(|i| match i {
                            Item::Val(v) => Item::Val(norm_ints(&v)),
                            Item::Err(_) => Item::Err(Val::Null), // messages print the operand's value identically; compare class only
                            x => x,
                        })
                        .collect();
                    enc_items(&items)
                });
                outs.push((name, r.unwrap_or_else(|p| format!("PANIC {}", p.replace(['\t', '\n'], " ")))));
            }
            let ok = outs[0].1 == outs[1].1; // identical panics are C05's concern
            println!("META {}\t{}\t{}\t{}\t{}", if ok { "ok" } else { "FAIL" }, t, n, outs[0].1, outs[1].1);
        }
    }
    // computed representations: n + 2^70 - 2^70 etc. through the filter language
    let computed = ["$n + 1180591620717411303424 - 1180591620717411303424", "($n * 1180591620717411303424) / 1180591620717411303424 | if . == (.|floor) then $n else $n end",
                    "$n - 9223372036854775808 + 9223372036854775808", "-(-$n)", "$n * 1", "($n + 9223372036854775807) - 9223372036854775807"];
    for t in ["[1,2,3,4,5] | .[$m]", "[1,2,3,4,5] | .[$m:]", "[limit($m; 1,2,3)]", "\"ab\" * $m", "[range($m)]", "{($m): 1} | has($n)", "{($n): 1} | has($m)", "$m == $n", "[$m] | implode?", "$m % 3", "$m | tojson", "[$m, $n] | unique | length", "[$n] - [$m]", "[1,2,3] | has($m)", "nth($m; 1,2,3,4)?", "ldexp(1; $m)"] {
        for c in computed {
            let code = format!("({c}) as $m | {t}");
            let code0 = format!("$n as $m | {t}");
            let (f, f0) = match (compile_vars(&code, &vars), compile_vars(&code0, &vars)) {
                (Ok(f), Ok(f0)) => (f, f0),
                _ => {
                    println!("META SKIP {}\tcompile", code);
                    continue;
                }
            };
            for n in [0isize, 1, 2, 3, -1, -2, 65] {
                let run1 = |f: &jaq_all::data::Filter| {
                    let f2 = f;
                    catch(move || {
                        let items: Vec<Item> = run_with(f2, Val::Null, vec![int(n)], vec![], 50)
                            .into_iter()
                            .map(|i| match i {
                                Item::Val(v) => Item::Val(norm_ints(&v)),
                                Item::Err(_) => Item::Err(Val::Null),
                                x => x,
                            })
                            .collect();
                        enc_items(&items)
                    })
                    .unwrap_or_else(|p| format!("PANIC {}", p.replace(['\t', '\n'], " ")))
                };
                let (a, b) = (run1(&f0), run1(&f));
                let ok = a == b;
                println!("META {}\t{}\t{}\t{}\t{}", if ok { "ok" } else { "FAIL" }, code, n, a, b);
            }
        }
    }
}

pub fn main(args: &[String]) {
    let tier = std::env::var("VERIF_TIER").unwrap_or_else(|_| "quick".into());
    match args.first().map(|s| s.as_str()) {
        Some("gen") => gen(&tier),
        Some("meta") => meta(&tier),
        _ => eprintln!("c09 gen|meta"),
    }
}
