//! C09 — exact integers, operators follow the manual.
//!   gen : `id \t request \t real` lines for the correspondence of `+ - * / %` and unary `-`
//!   cons: `id \t request \t real` lines for `c09.cmp/eq/len` and the integer consumers
//!         (`c09.idx/slice/limit/skip/range/tobytes/implode/i32/show/key/join`), plus `JOININV` oracle lines
//!   meta: representation independence of integer consumers (real code only); prints
//!         `META <ok|FAIL> <template> <n> …`
use super::common::*;
use super::prng::{self, Rng};
use super::vx;
use jaq_json::{Num, Val};
use num_bigint::BigInt;

fn show(r: Result<Val, jaq_json::Error>) -> String {
    match r {
        Ok(v) => format!("V {}", vx::enc_canon(&v)),
        Err(e) => format!("E {}", err_cls(&e)),
    }
}

fn binop(op: &str, a: Val, b: Val) -> Result<String, String> {
    catch(|| {
        show(match op {
            "add" => a + b,
            "sub" => a - b,
            "mul" => a * b,
            "div" => a / b,
            "rem" => a % b,
            _ => unreachable!(),
        })
    })
}

fn rand_int(rng: &mut Rng) -> Val {
    // integers clustered around representation boundaries and of random magnitude
    let bits = [1u32, 8, 31, 32, 53, 62, 63, 64, 65, 100, 127][rng.below(11)];
    let mut b = BigInt::from(0);
    for _ in 0..((bits + 63) / 64) {
        b = (b << 64) + BigInt::from(rng.next());
    }
    b = b >> ((64 - bits % 64) % 64);
    match rng.below(4) {
        0 => b = (BigInt::from(1) << bits) - BigInt::from(rng.below(3)),
        1 => b = (BigInt::from(1) << (bits - 1)) + BigInt::from(rng.below(3)),
        _ => {}
    }
    if rng.chance(1, 2) {
        b = -b;
    }
    use num_traits::ToPrimitive;
    match (b.to_isize(), rng.chance(1, 4)) {
        (Some(i), false) => int(i),
        _ => Val::Num(Num::big_int(b)), // also: small values in big representation
    }
}

pub fn gen(tier: &str) {
    let mut rng = Rng::new(prng::seed_from_env());
    let mut pool = num_pool();
    let nn = nonnum_pool();
    let mut id = 0usize;
    let ops = ["add", "sub", "mul", "div", "rem"];
    let mut emit = |op: &str, a: &Val, b: &Val| {
        // string repetition with a huge count exhausts memory (excepted by the property)
        if op == "mul" {
            let huge = |n: &Val| match n {
                Val::Num(Num::Int(i)) => *i > 1000,
                Val::Num(Num::BigInt(b)) => **b > BigInt::from(1000),
                _ => false,
            };
            let nonempty = |s: &Val| matches!(s, Val::TStr(b) | Val::BStr(b) if !b.is_empty());
            if (huge(a) && nonempty(b)) || (huge(b) && nonempty(a)) {
                return;
            }
        }
        let req = format!("c09.bin {op} {} {}", vx::enc(a), vx::enc(b));
        let real = binop(op, a.clone(), b.clone()).unwrap_or_else(|p| format!("PANIC {}", p.replace(['\t', '\n'], " ")));
        println!("bin{id}\t{req}\t{real}");
        id += 1;
    };
    // exhaustive over the number pool
    for a in &pool {
        for b in &pool {
            for op in ops {
                emit(op, a, b);
            }
        }
    }
    // numbers x non-numbers, non-numbers x non-numbers
    let small: Vec<Val> = vec![int(0), int(1), int(-1), int(3), big("2"), big("-2"), big("99999999999999999999"),
                                big("-99999999999999999999"), float(2.0), float(0.5), dec("2.0"), float(f64::NAN)];
    for a in &nn {
        for b in small.iter().chain(nn.iter()) {
            for op in ops {
                // avoid gigantic repetitions
                emit(op, a, b);
                emit(op, b, a);
            }
        }
    }
    // random integer pairs
    let n = if tier == "thorough" { 200000 } else { 12000 };
    for _ in 0..n {
        let a = rand_int(&mut rng);
        let b = rand_int(&mut rng);
        let op = ops[rng.below(5)];
        emit(op, &a, &b);
    }
    // random mixed pairs
    pool.extend(nn);
    for _ in 0..n / 4 {
        let a = if rng.chance(1, 2) { rand_int(&mut rng) } else { rng.pick(&pool).clone() };
        let b = if rng.chance(1, 2) { rand_int(&mut rng) } else { rng.pick(&pool).clone() };
        if matches!((&a, &b), (Val::TStr(_) | Val::BStr(_), Val::Num(_)) | (Val::Num(_), Val::TStr(_) | Val::BStr(_))) {
            continue; // string repetition with random counts: covered above with bounded counts
        }
        emit(ops[rng.below(5)], &a, &b);
    }
    // negation
    let mut negs = num_pool();
    negs.extend(nonnum_pool());
    for _ in 0..200 {
        negs.push(rand_int(&mut rng));
    }
    for a in &negs {
        let req = format!("c09.neg {}", vx::enc(a));
        let a2 = a.clone();
        let real = catch(move || show(-a2)).unwrap_or_else(|p| format!("PANIC {}", p.replace(['\t', '\n'], " ")));
        println!("neg{id}\t{req}\t{real}");
        id += 1;
    }
}

/// integer consumers: `$n` is bound to the integer under test
const CONSUMERS: &[&str] = &[
    "[1,2,3,4,5] | .[$n]", "[1,2,3,4,5] | .[$n:]", "[1,2,3,4,5] | .[:$n]", "[1,2,3,4,5] | .[$n:$n+2]",
    "\"abcde\" | .[$n:]", "\"abcde\" | .[:$n]", "\"abcde\" | tobytes | .[$n]", "\"abcde\" | tobytes | .[$n:]",
    "[limit($n; 1,2,3,4)]", "[skip($n; 1,2,3,4)]", "[range($n)] | length", "[range(0; $n)] | length", "[range($n; 3)]",
    "[limit(4; range(0; 10; $n))]", "[limit(4; range($n; $n + 4))]", "\"ab\" * $n", "$n * \"ab\"", "[$n] | implode", "[$n, 65] | tobytes",
    "$n | tobytes", "[1,2,3,4,5] | nth($n)", "nth($n; 1,2,3,4)", "[1,2,3,4,5] | has($n)", "{($n|tostring): 1} | keys",
    "{($n): 1} | has($n)", "{($n): 1} | .[$n]", "{(3): 1} | has($n)", "$n < 9223372036854775808", "$n > -9223372036854775809", "[9223372036854775808, $n, -9223372036854775809] | sort",
    "[$n, 9223372036854775808] | min", "[limit(3; range($n - 1; $n + 2))]", "[9223372036854775808, $n] | unique | length", "[$n] - [9223372036854775808]",
    "$n < 3", "$n == 3", "$n == 3.0", "[$n, 3, 3.5, -1] | sort",
    "[1,2,3,4,5] | .[$n] = 9", "[1,2,3,4,5] | del(.[$n])", "[1,2,3,4,5] | .[$n:] = [0]", "[1,2,3,4,5] | getpath([$n])",
    "[1,2,3,4,5] | setpath([$n]; 0)", "[1,2,3,4,5] | delpaths([[$n]])", "$n + 1", "$n - 1", "$n * 3", "$n % 3", "7 % $n", "-$n", "$n / 2",
    "$n | tostring", "$n | tojson", "$n | length", "$n | abs", "$n | floor", "$n | round", "$n | sqrt", "$n | tojson | fromjson",
    "ldexp(1.5; $n)", "scalb(1.5; $n)", "scalbln(1.5; $n)", "pow(2; $n)", "[1,[2,[3,[4]]]] | flatten($n)", "[[1,2],[3,4]] | .[$n][$n]?",
    "[1,2,1,3] | indices($n)", "[1,2,1,3] | index($n)", "[3,1,2] | bsearch($n)", "[1,2,3] | contains([$n])", "[1,2,3] - [$n]",
    "[1,2,3] | .[$n:][:$n]", "\"a,b,c\" | split(\",\") | .[$n]", "[.[]?] | first(range($n; 5))", "$n | todate", "$n | gmtime | mktime",
    "[$n] | .[0] as [$x] ?// $x | $x", "$n | @text", "$n | @json", "[$n] | @csv", "[1,2,3] | to_entries | .[$n]", "$n | isvalid(.)?", 
    "{a: $n} | .a |= . + 1", "[1,2,3,4] | .[$n] |= empty", "[$n, 1] | min", "[$n, 1] | unique", "[[$n, 1], [1, 1]] | group_by(.[0]) | length",
    "$n | ascii?", "[65 + $n] | implode", "$n | splits(\"a\")?", "[1,2,3] | combinations($n)?", "$n | significand", "$n | logb", "$n | tonumber", "$n | toboolean?",
    "[1,2,3,4,5] | first(.[$n:] | .[0])", "[1,2,3,4,5] | last(limit($n; .[]))", "until(. >= $n; . + 1)?", "[1,2,3,4,5] | .[$n]?", "try error($n) catch .",
    "[1,2,3,4,5] | pick(.[$n])?", "[1,2,3,4,5] | path(.[$n])", "[1,2,3,4,5] | [paths] | .[$n]", "$n | strftime(\"%Y\")?", "halt_error?", "@base64 \"\\($n)\"",
];

pub fn meta(_tier: &str) {
    let ns: Vec<isize> = vec![0, 1, -1, 2, -2, 3, 4, 5, -5, 6, 65, 255, 256, 1000, -1000, 1 << 31, isize::MAX, isize::MIN, isize::MIN + 1, 1 << 53];
    let vars = vec!["n".to_string()];
    for t in CONSUMERS {
        if t.contains("halt_error") {
            continue;
        }
        let f = match compile_vars(t, &vars) {
            Ok(f) => f,
            Err(e) => {
                println!("META SKIP {}\t{}", t, e);
                continue;
            }
        };
        for &n in &ns {
            // keep run times bounded
            if n.unsigned_abs() > 1000 && (t.contains("range(") || t.contains("* $n") || t.contains("$n *") || t.contains("until") || t.contains("combinations") || t.contains("limit($n") || t.contains("skip($n")) {
                continue;
            }
            let reps: Vec<(&str, Val)> = vec![
                ("int", int(n)),
                ("big", Val::Num(Num::big_int(BigInt::from(n)))),
            ];
            let mut outs = vec![];
            for (name, v) in &reps {
                let f = &f;
                let v = v.clone();
                let r = catch(move || {
                    let items = run_with(f, Val::Null, vec![v], vec![], 50);
                    let items: Vec<Item> = items
                        .into_iter()
                        .map(|i| match i {
                            Item::Val(v) => Item::Val(norm_ints(&v)),
                            Item::Err(_) => Item::Err(Val::Null), // messages print the operand's value identically; compare class only
                            x => x,
                        })
                        .collect();
                    enc_items(&items)
                });
                outs.push((name, r.unwrap_or_else(|p| format!("PANIC {}", p.replace(['\t', '\n'], " ")))));
            }
            let ok = outs[0].1 == outs[1].1; // identical panics are C05's concern
            println!("META {}\t{}\t{}\t{}\t{}", if ok { "ok" } else { "FAIL" }, t, n, outs[0].1, outs[1].1);
        }
    }
    // computed representations: n + 2^70 - 2^70 etc. through the filter language
    let computed = ["$n + 1180591620717411303424 - 1180591620717411303424", "($n * 1180591620717411303424) / 1180591620717411303424 | if . == (.|floor) then $n else $n end",
                    "$n - 9223372036854775808 + 9223372036854775808", "-(-$n)", "$n * 1", "($n + 9223372036854775807) - 9223372036854775807"];
    for t in ["[1,2,3,4,5] | .[$m]", "[1,2,3,4,5] | .[$m:]", "[limit($m; 1,2,3)]", "\"ab\" * $m", "[range($m)]", "{($m): 1} | has($n)", "{($n): 1} | has($m)", "$m == $n", "[$m] | implode?", "$m % 3", "$m | tojson", "[$m, $n] | unique | length", "[$n] - [$m]", "[1,2,3] | has($m)", "nth($m; 1,2,3,4)?", "ldexp(1; $m)"] {
        for c in computed {
            let code = format!("({c}) as $m | {t}");
            let code0 = format!("$n as $m | {t}");
            let (f, f0) = match (compile_vars(&code, &vars), compile_vars(&code0, &vars)) {
                (Ok(f), Ok(f0)) => (f, f0),
                _ => {
                    println!("META SKIP {}\tcompile", code);
                    continue;
                }
            };
            for n in [0isize, 1, 2, 3, -1, -2, 65] {
                let run1 = |f: &jaq_all::data::Filter| {
                    let f2 = f;
                    catch(move || {
                        let items: Vec<Item> = run_with(f2, Val::Null, vec![int(n)], vec![], 50)
                            .into_iter()
                            .map(|i| match i {
                                Item::Val(v) => Item::Val(norm_ints(&v)),
                                Item::Err(_) => Item::Err(Val::Null),
                                x => x,
                            })
                            .collect();
                        enc_items(&items)
                    })
                    .unwrap_or_else(|p| format!("PANIC {}", p.replace(['\t', '\n'], " ")))
                };
                let (a, b) = (run1(&f0), run1(&f));
                let ok = a == b;
                println!("META {}\t{}\t{}\t{}\t{}", if ok { "ok" } else { "FAIL" }, code, n, a, b);
            }
        }
    }
}


// ---------------------------------------------------------------------------------------------
// round 2: correspondence of comparison / equality / length and of the integer consumers
// ---------------------------------------------------------------------------------------------

/// like `run_with`, but the run goes on after an error item (as `skip` does); errors become `true`
fn run_all(f: &jaq_all::data::Filter, input: Val, vars: Vec<Val>, limit: usize) -> Vec<Val> {
    use jaq_all::data::{Ctx, Data, Runner};
    use jaq_core::Vars;
    use jaq_std::input::RcIter;
    let runner = Runner::default();
    let inputs: Box<dyn Iterator<Item = Result<Val, String>>> = Box::new(std::iter::empty());
    let rc = RcIter::new(inputs);
    let data = Data { runner: &runner, lut: &f.lut, inputs: &rc };
    let ctx = Ctx::new(&data, Vars::new(vars));
    let mut out = Vec::new();
    for y in f.id.run((ctx, input)).take(limit) {
        match y {
            Ok(v) => out.push(v),
            Err(_) => out.push(Val::Bool(true)),
        }
    }
    out
}

fn one(f: &jaq_all::data::Filter, input: Val, vars: Vec<Val>) -> Result<Val, jaq_json::Error> {
    use jaq_all::data::{Ctx, Data, Runner};
    use jaq_core::Vars;
    use jaq_std::input::RcIter;
    let runner = Runner::default();
    let inputs: Box<dyn Iterator<Item = Result<Val, String>>> = Box::new(std::iter::empty());
    let rc = RcIter::new(inputs);
    let data = Data { runner: &runner, lut: &f.lut, inputs: &rc };
    let ctx = Ctx::new(&data, Vars::new(vars));
    let mut it = f.id.run((ctx, input));
    match it.next() {
        Some(Ok(v)) => Ok(v),
        Some(Err(exn)) => match exn.get_err() {
            Ok(e) => Err(e),
            Err(_) => Ok(Val::Null),
        },
        None => Ok(Val::Null),
    }
}

/// integers at the boundaries that the consumers care about, each in every representation it has
fn special_ints() -> Vec<Val> {
    let mut v = vec![];
    let txt = ["0", "1", "-1", "2", "-2", "3", "4", "5", "-5", "6", "-6", "7", "65", "127", "128", "255", "256", "-255", "-256", "-254",
               "1000", "55295", "55296", "57343", "57344", "65535", "65536", "1114111", "1114112", "2147483647", "2147483648",
               "-2147483648", "-2147483649", "4294967295", "4294967296", "9007199254740993", "9223372036854775807",
               "9223372036854775808", "-9223372036854775808", "-9223372036854775809", "-9223372036854775807",
               "18446744073709551614", "18446744073709551615", "18446744073709551616", "-18446744073709551615",
               "-18446744073709551616", "36893488147419103232", "-36893488147419103232", "1180591620717411303424"];
    for t in txt {
        let b: BigInt = t.parse().unwrap();
        use num_traits::ToPrimitive;
        if let Some(i) = b.to_isize() {
            v.push(int(i));
        }
        v.push(Val::Num(Num::big_int(b)));
    }
    v
}

fn esc(s: String) -> String {
    s.replace(['\t', '\n'], " ")
}

pub fn cons(tier: &str) {
    use jaq_core::ValT;
    let mut rng = Rng::new(prng::seed_from_env() ^ 0x9e3779b97f4a7c15);
    let pool = num_pool();
    let specials = special_ints();
    let mut nums: Vec<Val> = pool.clone();
    nums.extend(specials.iter().cloned());
    let nrand = if tier == "thorough" { 20000 } else { 1500 };
    let mut id = 0usize;
    let mut emit = |req: String, real: Result<String, String>| {
        let real = real.unwrap_or_else(|p| format!("PANIC {}", esc(p)));
        println!("cons{id}\t{req}\t{real}");
        id += 1;
    };
    let ord = |o: std::cmp::Ordering| match o {
        std::cmp::Ordering::Less => "lt",
        std::cmp::Ordering::Equal => "eq",
        std::cmp::Ordering::Greater => "gt",
    };
    // cmp / eq: the full pool product and random integer pairs (also equal values in two representations)
    let mut pairs: Vec<(Val, Val)> = vec![];
    for a in &pool {
        for b in &pool {
            pairs.push((a.clone(), b.clone()));
        }
    }
    for a in &specials {
        for b in [&pool[0], &pool[21], &pool[40], &pool[58], &pool[59], &pool[60]] {
            pairs.push((a.clone(), b.clone()));
            pairs.push((b.clone(), a.clone()));
        }
    }
    for _ in 0..nrand {
        let a = rand_int(&mut rng);
        let b = match rng.below(4) {
            0 => match &a {
                Val::Num(Num::Int(i)) => Val::Num(Num::big_int(BigInt::from(*i))),
                x => x.clone(),
            },
            1 => (a.clone() + int(rng.below(3) as isize - 1)).unwrap(),
            2 => rng.pick(&pool).clone(),
            _ => rand_int(&mut rng),
        };
        pairs.push((a, b));
    }
    for (a, b) in &pairs {
        let (a1, b1) = (a.clone(), b.clone());
        emit(format!("c09.cmp {} {}", vx::enc(a), vx::enc(b)), catch(move || ord(a1.cmp(&b1)).to_string()));
        let (a1, b1) = (a.clone(), b.clone());
        emit(format!("c09.eq {} {}", vx::enc(a), vx::enc(b)), catch(move || if a1 == b1 { "T".to_string() } else { "F".to_string() }));
    }
    // length
    let flen = compile("length").unwrap();
    let mut lens = nums.clone();
    for _ in 0..nrand / 4 {
        lens.push(rand_int(&mut rng));
    }
    for a in &lens {
        let (f, a1) = (&flen, a.clone());
        emit(format!("c09.len {}", vx::enc(a)), catch(move || show(one(f, a1, vec![]))));
    }
    // indexing
    let conts: Vec<Val> = vec![
        arr(vec![]), arr(vec![int(10)]), arr(vec![int(10), tstr(b"x"), Val::Null, float(1.5), arr(vec![])]),
        bstr(b""), bstr(b"\x00\xffabc"),
    ];
    let mut idxs = nums.clone();
    idxs.extend([Val::Null, Val::Bool(true), tstr(b"a")]);
    for c in &conts {
        for i in &idxs {
            let (c1, i1) = (c.clone(), i.clone());
            emit(format!("c09.idx {} {}", vx::enc(c), vx::enc(i)), catch(move || show(c1.index(&i1))));
        }
    }
    // slicing: arrays, byte strings, text strings (with multi-byte and invalid sequences)
    let sconts: Vec<Val> = vec![
        arr(vec![]), arr(vec![int(1), int(2), int(3), int(4), int(5)]), bstr(b"\x00\xffabc"), tstr(b""), tstr(b"abcde"),
        tstr("a\u{e9}\u{20ac}\u{1f600}z".as_bytes()), tstr(b"x\xff\xe2\x82y"),
    ];
    let mut bounds: Vec<Val> = vec![Val::Null, float(1.5), float(f64::NAN), tstr(b"a"), dec("1.0")];
    for t in ["0", "1", "-1", "2", "-2", "3", "4", "5", "-5", "6", "-6", "9223372036854775807", "-9223372036854775808",
              "18446744073709551615", "18446744073709551616", "-18446744073709551616", "36893488147419103232", "-36893488147419103232"] {
        let b: BigInt = t.parse().unwrap();
        use num_traits::ToPrimitive;
        if let Some(i) = b.to_isize() {
            bounds.push(int(i));
        }
        bounds.push(Val::Num(Num::big_int(b)));
    }
    for c in &sconts {
        for lo in &bounds {
            for hi in &bounds {
                let (c1, l1, h1) = (c.clone(), lo.clone(), hi.clone());
                emit(format!("c09.slice {} {} {}", vx::enc(c), vx::enc(lo), vx::enc(hi)),
                     catch(move || show(c1.range(Some(&l1)..Some(&h1)))));
            }
        }
    }
    // limit / skip: counters of every kind of number; an `"E"` element makes the generator raise an error
    let gen_items = ".[] | if . == \"E\" then error else . end";
    let vars = vec!["n".to_string()];
    let flimit = compile_vars(&format!("limit($n; {gen_items})"), &vars).unwrap();
    let fskip = compile_vars(&format!("skip($n; {gen_items})"), &vars).unwrap();
    let lists: Vec<Val> = vec![
        arr(vec![]), arr(vec![int(1), int(2), int(3), int(4)]),
        arr(vec![int(1), tstr(b"E"), int(3), tstr(b"E"), int(5), int(6)]), arr(vec![tstr(b"E")]),
    ];
    for n in &nums {
        for l in &lists {
            for (name, f) in [("limit", &flimit), ("skip", &fskip)] {
                let (n1, l1) = (n.clone(), l.clone());
                emit(format!("c09.{name} {} {}", vx::enc(n), vx::enc(l)),
                     catch(move || format!("V {}", vx::enc_canon(&arr(run_all(f, l1, vec![n1], 20))))));
            }
        }
    }
    // range/3: integer, float and mixed steps; at most 12 outputs are pulled
    let frange = compile_vars("range($a; $b; $c)", &["a".to_string(), "b".to_string(), "c".to_string()]).unwrap();
    let rset: Vec<Val> = vec![
        int(0), int(3), int(-3), big("5"), int(isize::MAX - 2), int(isize::MIN + 2), big("9223372036854775809"), big("-9223372036854775810"),
        big("18446744073709551616"), float(0.5), float(2.0), float(-0.0), float(1e300), float(f64::INFINITY), float(f64::NAN), dec("1.5"),
        big("9007199254740993"), float(9007199254740992.0),
    ];
    let steps: Vec<Val> = vec![int(1), int(-1), int(2), int(0), big("3"), big("-2"), big("0"), big("9223372036854775808"), float(0.5), float(-1.5),
                                float(0.0), float(f64::NAN), float(f64::INFINITY), dec("0.25"), int(isize::MAX)];
    let mut triples: Vec<(Val, Val, Val)> = vec![];
    for a in &rset {
        for b in &rset {
            for c in &steps {
                triples.push((a.clone(), b.clone(), c.clone()));
            }
        }
    }
    for _ in 0..nrand {
        let a = rand_int(&mut rng);
        let c = if rng.chance(1, 2) { rand_int(&mut rng) } else { int(rng.below(7) as isize - 3) };
        let k = BigInt::from(rng.below(9) as isize - 2);
        let b = match (&a, &c) {
            (Val::Num(x), Val::Num(y)) => Val::Num(x.clone() + y.clone() * Num::big_int(k)),
            _ => unreachable!(),
        };
        triples.push((a, b, c));
    }
    for (a, b, c) in &triples {
        let (f, a1, b1, c1) = (&frange, a.clone(), b.clone(), c.clone());
        emit(format!("c09.range {} {} {}", vx::enc(a), vx::enc(b), vx::enc(c)),
             catch(move || format!("V {}", vx::enc_canon(&arr(run_all(f, Val::Null, vec![a1, b1, c1], 12))))));
    }
    // tobytes, implode, ldexp/scalbln exponent, decimal rendering
    let ftobytes = compile("tobytes").unwrap();
    let fimplode = compile("implode").unwrap();
    let fldexp = compile_vars("ldexp(1; $n)", &vars).unwrap();
    let fscalbln = compile_vars("scalbln(1; $n)", &vars).unwrap();
    let shows: Vec<_> = ["tostring", "tojson", "@text", "@json", "\"\\(.)\""].iter().map(|c| compile(c).unwrap()).collect();
    let mut cands = nums.clone();
    cands.extend([Val::Null, tstr(b"ab"), bstr(b"\xff")]);
    for _ in 0..nrand / 2 {
        cands.push(rand_int(&mut rng));
    }
    for n in &cands {
        let (f, n1) = (&ftobytes, n.clone());
        emit(format!("c09.tobytes {}", vx::enc(n)), catch(move || show(one(f, n1, vec![]))));
        let w = arr(vec![int(65), n.clone(), tstr(b"z"), arr(vec![n.clone()])]);
        let (f, w1) = (&ftobytes, w.clone());
        emit(format!("c09.tobytes {}", vx::enc(&w)), catch(move || show(one(f, w1, vec![]))));
        for w in [arr(vec![n.clone()]), arr(vec![int(97), n.clone(), int(-255)])] {
            let (f, w1) = (&fimplode, w.clone());
            emit(format!("c09.implode {}", vx::enc(&w)), catch(move || show(one(f, w1, vec![]))));
        }
        for f in [&fldexp, &fscalbln] {
            let n1 = n.clone();
            emit(format!("c09.i32 {}", vx::enc(n)), catch(move || show(one(f, Val::Null, vec![n1]))));
        }
        if matches!(n, Val::Num(Num::Int(_) | Num::BigInt(_))) {
            for f in &shows {
                let n1 = n.clone();
                emit(format!("c09.show {}", vx::enc(n)), catch(move || match one(f, n1, vec![]) {
                    Ok(Val::TStr(b)) => format!("H{}", vx::hex(&b)),
                    r => show(r),
                }));
            }
        }
    }
    // object keys: hash + eq (entries are inserted in order; the look-up key in every representation)
    // (integers that are `==` to a float only after rounding, like 2^63-1 and 2^63 as a float, make `==` non-transitive;
    // which of several "equal" keys an IndexMap probe meets first is C08's subject, not modelled here)
    let keyset: Vec<Val> = vec![int(0), big("0"), float(0.0), float(-0.0), int(1), big("1"), float(1.0), dec("1.0"), int(isize::MAX), big("9223372036854775807"),
                                 big("9223372036854775808"), int(1 << 53), big("9007199254740992"), int(255), big("255"), float(255.0),
                                 float(9007199254740992.0), int(isize::MIN), big("-9223372036854775808"), float(-9223372036854775808.0), tstr(b"1"), Val::Null,
                                 big("1180591620717411303424"), float(1180591620717411303424.0), float(f64::NAN), float(1.5)];
    let nkey = if tier == "thorough" { 20000 } else { 2500 };
    for _ in 0..nkey {
        let len = rng.below(5);
        let es: Vec<(Val, Val)> = (0..len).map(|j| (rng.pick(&keyset).clone(), int(j as isize))).collect();
        let k = rng.pick(&keyset).clone();
        let enc_es = arr(es.iter().map(|(k, v)| arr(vec![k.clone(), v.clone()])).collect());
        let (es1, k1) = (es.clone(), k.clone());
        emit(format!("c09.key {} {}", vx::enc(&enc_es), vx::enc(&k)), catch(move || {
            let o = obj(es1);
            let got = match &o {
                Val::Obj(m) => m.get(&k1).map(vx::enc_canon).unwrap_or_else(|| "-".to_string()),
                _ => unreachable!(),
            };
            format!("{} | {}", vx::enc_canon(&o), got)
        }));
    }
    // join as the inverse of string division (the real `/` then the real `join`), and `join` itself
    let fjoin = compile_vars("join($n)", &vars).unwrap();
    let strs: Vec<&[u8]> = vec![b"", b"a", b"ab", b"a,b,,c", b",", b",,", b"aXbXXc", b"XX", b"aaa", b"aa", "a\u{e9}\u{20ac}\u{1f600}".as_bytes(), b"x\xffy", b"\xe2\x82", b"abcabca"];
    for s in &strs {
        for sep in &strs {
            let parts = (tstr(s) / tstr(sep)).unwrap();
            let (f, p1, sep1) = (&fjoin, parts.clone(), tstr(sep));
            emit(format!("c09.join {} {}", vx::enc(&tstr(sep)), vx::enc(&parts)), catch(move || show(one(f, p1, vec![sep1]))));
            // property oracle on the real code alone: join inverts `/`
            let (f, p1, sep1, s1) = (&fjoin, parts.clone(), tstr(sep), tstr(s));
            let back = catch(move || one(f, p1, vec![sep1]).ok() == Some(s1));
            println!("JOININV {}\t{}\t{}", if back == Ok(true) { "ok" } else { "FAIL" }, vx::hex(s), vx::hex(sep));
        }
    }
}

pub fn main(args: &[String]) {
    let tier = std::env::var("VERIF_TIER").unwrap_or_else(|_| "quick".into());
    match args.first().map(|s| s.as_str()) {
        Some("gen") => gen(&tier),
        Some("meta") => meta(&tier),
        Some("cons") => cons(&tier),
        _ => eprintln!("c09 gen|meta|cons"),
    }
}
