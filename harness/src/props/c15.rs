//! C15 — parsing depends only on tokens, grammar, precedence and sugar.
//!   parse : reads hex-encoded program texts (one per line) from stdin, runs the REAL
//!           `jaq_core::load::parse(text, |p| p.term())` and prints the AST as an s-expression
//!           (from the public structure of `parse::Term`), `ERR` if rejected, `PANIC` on panic.
//!   lex   : same input; prints `OK <token trees>` (kind, source slice of simple tokens, string parts,
//!           blocks with their opening delimiter: everything the parser reads of a token) or `ERR`.
//!   matrix: the translator. For every ordered pair of binary operators prints how
//!           `a op1 b op2 c` is grouped by the real parser:
//!             OP <i> <hex of operator text>
//!             ROW <i> <string over L/R/?>   (L: `(a op1 b) op2 c`, R: `a op1 (b op2 c)`)
use super::common::catch;
use jaq_core::load::lex::StrPart;
use jaq_core::load::parse::{BinaryOp, Def, Pattern, Term};
use jaq_core::ops::{Cmp, Math};
use jaq_core::path::{Opt, Part};
use std::io::BufRead;

/// token tree as an s-expression (what the parser can observe of a token)
fn tok_sexp(t: &jaq_core::load::lex::Token<&str>) -> String {
    use jaq_core::load::lex::Tok;
    match &t.1 {
        Tok::Word => format!("(W {})", s(t.0)),
        Tok::Var => format!("(V {})", s(t.0)),
        Tok::Fmt => format!("(F {})", s(t.0)),
        Tok::Num => format!("(N {})", s(t.0)),
        Tok::Sym => format!("(Y {})", s(t.0)),
        Tok::Str(parts) => {
            let ps: String = parts
                .iter()
                .map(|p| match p {
                    StrPart::Str(x) => format!(" (L {})", s(x)),
                    StrPart::Term(t) => format!(" (T {})", tok_sexp(t)),
                    StrPart::Char(c) => format!(" (C {})", *c as u32),
                })
                .collect();
            format!("(S{ps})")
        }
        Tok::Block(ts) => {
            let xs: String = ts.iter().map(|t| format!(" {}", tok_sexp(t))).collect();
            format!("(B {}{xs})", s(&t.0[..t.0.chars().next().map_or(0, |c| c.len_utf8())]))
        }
    }
}

pub fn hex(b: &[u8]) -> String {
    b.iter().map(|x| format!("{x:02x}")).collect()
}

pub fn unhex(s: &str) -> Option<Vec<u8>> {
    if s.len() % 2 != 0 {
        return None;
    }
    (0..s.len() / 2).map(|i| u8::from_str_radix(s.get(2 * i..2 * i + 2)?, 16).ok()).collect()
}

/// strings: `'abc` if non-empty and all characters are ASCII alphanumerics or one of `_$@.:`, else `x<hex of UTF-8>`
fn s(x: &str) -> String {
    let safe = |c: char| c.is_ascii_alphanumeric() || "_$@.:".contains(c);
    if !x.is_empty() && x.chars().all(safe) {
        format!("'{x}")
    } else {
        format!("x{}", hex(x.as_bytes()))
    }
}

fn math(m: &Math) -> &'static str {
    match m {
        Math::Add => "Add",
        Math::Sub => "Sub",
        Math::Mul => "Mul",
        Math::Div => "Div",
        Math::Rem => "Rem",
    }
}

fn cmp(c: &Cmp) -> &'static str {
    match c {
        Cmp::Lt => "Lt",
        Cmp::Le => "Le",
        Cmp::Gt => "Gt",
        Cmp::Ge => "Ge",
        Cmp::Eq => "Eq",
        Cmp::Ne => "Ne",
    }
}

fn binop(o: &BinaryOp<&str>) -> String {
    match o {
        BinaryOp::Pipe(None) => "Pipe".into(),
        BinaryOp::Pipe(Some(p)) => format!("(As {})", pattern(p)),
        BinaryOp::Comma => "Comma".into(),
        BinaryOp::Alt => "Alt".into(),
        BinaryOp::Or => "Or".into(),
        BinaryOp::And => "And".into(),
        BinaryOp::Math(m) => math(m).into(),
        BinaryOp::Cmp(c) => cmp(c).into(),
        BinaryOp::Assign => "Assign".into(),
        BinaryOp::Update => "Update".into(),
        BinaryOp::UpdateMath(m) => format!("U{}", math(m)),
        BinaryOp::UpdateAlt => "UAlt".into(),
    }
}

fn pattern(p: &Pattern<&str>) -> String {
    match p {
        Pattern::Var(x) => format!("(PV {})", s(x)),
        Pattern::Arr(ps) => format!("(PA{})", ps.iter().map(|p| format!(" {}", pattern(p))).collect::<String>()),
        Pattern::Obj(es) => format!(
            "(PO{})",
            es.iter().map(|(k, p)| format!(" (E {} {})", term(k), pattern(p))).collect::<String>()
        ),
    }
}

fn opt_term(t: &Option<Term<&str>>) -> String {
    match t {
        None => "-".into(),
        Some(t) => term(t),
    }
}

fn list(ts: &[Term<&str>]) -> String {
    ts.iter().map(|t| format!(" {}", term(t))).collect()
}

pub fn term(t: &Term<&str>) -> String {
    match t {
        Term::Id => "Id".into(),
        Term::Recurse => "Rec".into(),
        Term::Num(n) => format!("(Num {})", s(n)),
        Term::Str(fmt, parts) => {
            let f = fmt.map_or("-".to_string(), |f| s(f));
            let ps: String = parts
                .iter()
                .map(|p| match p {
                    StrPart::Str(x) => format!(" (L {})", s(x)),
                    StrPart::Term(t) => format!(" (T {})", term(t)),
                    StrPart::Char(c) => format!(" (C {})", *c as u32),
                })
                .collect();
            format!("(Str {f}{ps})")
        }
        Term::Arr(None) => "(Arr)".into(),
        Term::Arr(Some(t)) => format!("(Arr {})", term(t)),
        Term::Obj(es) => format!(
            "(Obj{})",
            es.iter()
                .map(|(k, v)| match v {
                    None => format!(" (E {})", term(k)),
                    Some(v) => format!(" (E {} {})", term(k), term(v)),
                })
                .collect::<String>()
        ),
        Term::Neg(t) => format!("(Neg {})", term(t)),
        Term::BinOp(l, o, r) => format!("(Bin {} {} {})", binop(o), term(l), term(r)),
        Term::Label(x, t) => format!("(Label {} {})", s(x), term(t)),
        Term::Break(x) => format!("(Break {})", s(x)),
        Term::Fold(k, xs, p, args) => format!("(Fold {} {} {}{})", s(k), term(xs), pattern(p), list(args)),
        Term::TryCatch(t, None) => format!("(Try {})", term(t)),
        Term::TryCatch(t, Some(c)) => format!("(Try {} {})", term(t), term(c)),
        Term::IfThenElse(its, e) => format!(
            "(If{}{})",
            its.iter().map(|(c, t)| format!(" (B {} {})", term(c), term(t))).collect::<String>(),
            e.as_ref().map_or(String::new(), |e| format!(" (Else {})", term(e)))
        ),
        Term::Def(ds, t) => format!(
            "(Defs{} (In {}))",
            ds.iter()
                .map(|Def { name, args, body }| format!(
                    " (D {} (A{}) {})",
                    s(name),
                    args.iter().map(|a| format!(" {}", s(a))).collect::<String>(),
                    term(body)
                ))
                .collect::<String>(),
            term(t)
        ),
        Term::Call(n, args) => format!("(Call {}{})", s(n), list(args)),
        Term::Var(x) => format!("(Var {})", s(x)),
        Term::Path(t, p) => format!(
            "(Path {}{})",
            term(t),
            p.0.iter()
                .map(|(part, o)| {
                    let o = match o {
                        Opt::Optional => "?",
                        Opt::Essential => "!",
                    };
                    match part {
                        Part::Index(i) => format!(" (I {} {o})", term(i)),
                        Part::Range(a, b) => format!(" (R {} {} {o})", opt_term(a), opt_term(b)),
                    }
                })
                .collect::<String>()
        ),
    }
}

pub fn parse_sexp(text: &str) -> String {
    match catch(|| jaq_core::load::parse(text, |p| p.term()).map(|t| term(&t))) {
        Ok(Some(x)) => x,
        Ok(None) => "ERR".into(),
        Err(_) => "PANIC".into(),
    }
}

const OPS: [&str; 25] = [
    "|", ",", "as $x |", "=", "|=", "+=", "-=", "*=", "/=", "%=", "//=", "//", "or", "and", "==", "!=", "<",
    "<=", ">", ">=", "+", "-", "*", "/", "%",
];

fn matrix() {
    for (i, o) in OPS.iter().enumerate() {
        println!("OP {i} {}", hex(o.as_bytes()));
    }
    for (i, o1) in OPS.iter().enumerate() {
        let mut row = String::new();
        for o2 in OPS.iter() {
            let flat = parse_sexp(&format!("a {o1} b {o2} c"));
            let l = parse_sexp(&format!("(a {o1} b) {o2} c"));
            let r = parse_sexp(&format!("a {o1} (b {o2} c)"));
            row.push(if l == r || flat == "ERR" || flat == "PANIC" {
                '?'
            } else if flat == l {
                'L'
            } else if flat == r {
                'R'
            } else {
                '?'
            });
        }
        println!("ROW {i} {row}");
    }
}

/// (name, shorthand, documented expansion): both are run on every sample input and must give
/// the same outputs (values and errors, in order).
const SUGAR: &[(&str, &str, &str)] = &[
    ("path .a.b", ".a.b", ".a | .b"),
    ("path .a.b.c", ".a.b.c", ".a | .b | .c"),
    ("path .\"a\"", ".\"a\"", ".a"),
    ("path .[\"a\"]", ".[\"a\"]", ".a"),
    ("path .a[\"b\"]", ".a[\"b\"]", ".a.b"),
    ("path .a.\"b\"", ".a.\"b\"", ".a | .[\"b\"]"),
    ("path .a.[\"b\"]", ".a.[\"b\"]", ".a | .[\"b\"]"),
    ("path .a?", ".a?", "try .a"),
    ("path .a?.b?", ".a?.b?", "try (try .a | .b)"),
    ("f[]", "(.a, .b)[]", "(.a, .b) | .[]"),
    ("f[] call", "keys[]", "keys | .[]"),
    ("f[0]", "(.a, .b)[0]", "(.a, .b) | .[0]"),
    ("f.k", "(., .a).b", "(., .a) | .b"),
    ("f?", "(.a, error, .b)?", "try (.a, error, .b)"),
    ("f? call", "error?", "try error"),
    ("f??", "(.a[])??", "try (.a[])"),
    ("path part ?", ".a[]?", ".a | try .[]"),
    ("try without catch", "try (.a, error(1), .b)", "try (.a, error(1), .b) catch empty"),
    ("-f?", "[-.a?]", "[-(.a?)]"),
    ("-f[]", "[-.c[]]", "[-(.c[])]"),
    ("-f.a", "-.d.n", "-(.d.n)"),
    ("..", "[..]", "[recurse]"),
    ("{a}", "{a}", "{\"a\": .a}"),
    ("{a,b}", "{a, b}", "{\"a\": .a, \"b\": .b}"),
    ("{$x}", ".a as $x | {$x}", ".a as $x | {\"x\": $x}"),
    ("{\"a\"}", "{\"a\"}", "{\"a\": .a}"),
    ("{\"a\\(f)\": v}", "{\"a\\(1, 2)\": .a}", "{(\"a\\(1, 2)\"): .a}"),
    ("{\"a\\(f)\"}", "{\"a\\(1)\"}", "{\"a1\": .a1}"),
    ("{(k): v} product", "[{(\"a\", \"b\"): (1, 2)}]", "[(\"a\", \"b\") as $k | (1, 2) as $v | {$k: $v}]"),
    ("{(k): v} two", "[{(\"a\", \"b\"): 1, (\"c\"): (2, 3)}]", "[{(\"a\", \"b\"): 1} + {(\"c\"): (2, 3)}]"),
    ("{k1: v1, k2: v2}", "{a: .b, b: .a}", "{(\"a\"): .b} + {(\"b\"): .a}"),
    ("{$k: v}", "\"z\" as $k | {$k: .a}", "\"z\" as $k | {($k): .a}"),
    ("keyword key if", "{if: .a}", "{\"if\": .a}"),
    ("keyword keys", "{then: 1, else: 2, end: 3, and: 4, or: 5, reduce: 6, def: 7, as: 8, try: 9}", "{\"then\": 1, \"else\": 2, \"end\": 3, \"and\": 4, \"or\": 5, \"reduce\": 6, \"def\": 7, \"as\": 8, \"try\": 9}"),
    ("keyword path", ".if, .and, .end", ".[\"if\"], .[\"and\"], .[\"end\"]"),
    ("elif", "if .a then 1 elif .b then 2 else 3 end", "if .a then 1 else (if .b then 2 else 3 end) end"),
    ("elif elif", "if .a then 1 elif .b then 2 elif .c then 3 else 4 end", "if .a then 1 else (if .b then 2 else (if .c then 3 else 4 end) end) end"),
    ("missing else", "if .a then 1 end", "if .a then 1 else . end"),
    ("elif missing else", "if .a then 1 elif .b then 2 end", "if .a then 1 else (if .b then 2 else . end) end"),
    ("if stream", "[if (.a, .b) then 1 else 2 end]", "[(.a, .b) as $p | if $p then 1 else 2 end]"),
    ("interpolation", "\"x\\(.a)y\\(.b)z\"", "\"x\" + (.a | tostring) + \"y\" + (.b | tostring) + \"z\""),
    ("interpolation stream", "[\"x\\(1, 2)\"]", "[(1, 2) as $v | \"x\" + ($v | tostring)]"),
    ("@fmt string", "@json \"x\\(.a)y\"", "\"x\" + (.a | @json) + \"y\""),
    ("@base64 string", "@base64 \"\\(.s)=\"", "(.s | @base64) + \"=\""),
    ("@text string", "@text \"\\(.a)\"", "\"\\(.a)\""),
    ("def f($x)", "def f($x): [$x, $x + 1]; [f(.n, 10)]", "def f(x): x as $x | [$x, $x + 1]; [f(.n, 10)]"),
    ("def singleton($x)", "def singleton($x): [$x]; [singleton(1, 2, 3)]", "def singleton(x): x as $x | [$x]; [singleton(1, 2, 3)]"),
    ("def f($x1; x2; $x3; x4)", "def f($x1; x2; $x3; x4): [$x1, x2, $x3, x4]; [f(1, 2; 3, 4; 5, 6; 7, 8)]", "def f(x1; x2; x3; x4): x1 as $x1 | x3 as $x3 | [$x1, x2, $x3, x4]; [f(1, 2; 3, 4; 5, 6; 7, 8)]"),
    ("def f($x; g)", "def f($x; g): [$x, g]; f(.n; .a)", "def f(x; g): x as $x | [$x, g]; f(.n; .a)"),
    ("array pattern", ".p as [$x, [$y]] | [$x, $y]", ".p as $p | $p[0] as $x | $p[1][0] as $y | [$x, $y]"),
    ("object pattern", ".d as {n: $x, \"m\": $y} | [$x, $y]", ".d as $p | $p.n as $x | $p.m as $y | [$x, $y]"),
    ("object pattern {$x}", ".d as {$n} | $n", ".d as {n: $n} | $n"),
    ("object pattern (k)", ".d as {(\"n\", \"m\"): $x} | $x", ".d as $p | (\"n\", \"m\") as $k | $p[$k] as $x | $x"),
    ("reduce 2", "reduce (1, 2, 3) as $x (0; . + $x)", "0 | 1 as $x | . + $x | 2 as $x | . + $x | 3 as $x | . + $x"),
    ("foreach 2 = foreach 3 with .", "[foreach .c[] as $x (0; . + $x)]", "[foreach .c[] as $x (0; . + $x; .)]"),
    ("foreach 3", "[foreach (1, 2, 3) as $x (0; . + $x; [$x, .])]", "[0 | ( 1 as $x | . + $x | [$x, .], ( 2 as $x | . + $x | [$x, .], ( 3 as $x | . + $x | [$x, .], ( empty ))))]"),
    ("reduce pattern", "reduce ([1, 2], [3, 4]) as [$a, $b] (0; . + $a * $b)", "14"),
    ("as extends right", ".n as $x | 1 | $x", ".n as $x | (1 | $x)"),
    ("as extends right comma", "[.n as $x | $x, 2]", "[.n as $x | ($x, 2)]"),
    ("as left regular", "[1, .n as $x | [$x]]", "[1, (.n as $x | [$x])]"),
    ("label extends right", "[label $l | 1, break $l, 2]", "[label $l | (1, break $l, 2)]"),
    ("def extends right", "def f: 1; f, 2", "def f: 1; (f, 2)"),
    ("reduce body atomic", "reduce .c[] as $x (0; . + $x) | . + 1", "(reduce .c[] as $x (0; . + $x)) | . + 1"),
    ("comment", "1 # one \\\n two\n + 2", "1 + 2"),
    ("comment even", "1 # one \\\\\n + 2", "1 + 2"),
];

const SUGAR_INPUTS: &[&str] = &[
    "{\"a\": 1, \"b\": null, \"c\": [1, 2, 3], \"d\": {\"n\": 5, \"m\": 6}, \"n\": 7, \"p\": [1, [2]], \"s\": \"hi\", \"a1\": 9, \"if\": 1, \"and\": 2, \"end\": 3}",
    "{\"a\": false, \"b\": true, \"c\": [], \"d\": {}, \"n\": -1, \"p\": [], \"s\": \"\"}",
    "{\"a\": {\"b\": {\"c\": 1}}, \"b\": [1], \"c\": [4], \"d\": {\"n\": [1], \"m\": null}, \"n\": 0.5, \"p\": [null, [null]], \"s\": \"\\u00e9\"}",
    "null",
    "[1, 2]",
    "\"str\"",
];

fn sugar() {
    use super::common::{enc_items, run_code};
    for (name, short, long) in SUGAR {
        for input in SUGAR_INPUTS {
            let parse = |s: &str| -> Option<jaq_json::Val> {
                let f = super::common::compile(s).ok()?;
                match super::common::run(&f, jaq_json::Val::Null, 2).as_slice() {
                    [super::common::Item::Val(v)] => Some(v.clone()),
                    _ => None,
                }
            };
            let Some(v) = parse(input) else {
                println!("SUGAR-SKIP\t{name}\tcannot build input {input}");
                continue;
            };
            let run = |code: &str| match catch(|| run_code(code, v.clone(), 200)) {
                Ok(Ok(items)) => enc_items(&items),
                Ok(Err(e)) => format!("COMPILE-ERROR {e}"),
                Err(_) => "PANIC".to_string(),
            };
            let (a, b) = (run(short), run(long));
            let ok = a == b && !a.starts_with("COMPILE-ERROR") && a != "PANIC";
            let tag = if ok { "SUGAR-OK" } else { "SUGAR-FAIL" };
            let clean = |s: &str| s.replace(['\t', '\n'], " ");
            println!("{tag}\t{name}\t{}\t{}\t{}\t{a}\t{b}", clean(short), clean(long), clean(input));
        }
    }
}

pub fn main(args: &[String]) {
    match args.first().map(|s| s.as_str()) {
        Some("matrix") => matrix(),
        Some("sugar") => sugar(),
        Some(cmd @ ("parse" | "lex")) => {
            let stdin = std::io::stdin();
            let out = std::io::stdout();
            let mut out = std::io::BufWriter::new(out.lock());
            use std::io::Write;
            for l in stdin.lock().lines() {
                let l = l.unwrap();
                let ans = match unhex(l.trim()).and_then(|b| String::from_utf8(b).ok()) {
                    None => "BAD-INPUT".to_string(),
                    Some(text) if cmd == "parse" => parse_sexp(&text),
                    Some(text) => match catch(|| {
                        jaq_core::load::Lexer::new(&text).lex().map(|ts| ts.iter().map(|t| format!(" {}", tok_sexp(t))).collect::<String>())
                    }) {
                        Ok(Ok(n)) => format!("OK{n}"),
                        Ok(Err(_)) => "ERR".into(),
                        Err(_) => "PANIC".into(),
                    },
                };
                writeln!(out, "{ans}").unwrap();
            }
        }
        _ => {
            eprintln!("usage: jaqverif c15 parse|lex|matrix");
            std::process::exit(2);
        }
    }
}
