//! C05 — nothing can crash jaq.
//!
//! Two kinds of sub-commands:
//!  * SEARCH (not proof): `natives`, `filters`, `docs` workers that run the real code under
//!    `catch_unwind` (overflow-checks and debug-assertions on) over generated cases.  Workers are
//!    child processes of the check (`checks/c05.py`): they write the index of the running case to
//!    a progress file (so that a process death — abort, stack overflow, OOM — can be attributed),
//!    carry a watchdog thread (time budget per case) and are given an address-space limit by the
//!    parent.  Case `idx` is a pure function of (inventory of the CURRENT tree, pool, tier, seed).
//!  * CORRESPONDENCE: `kernels` prints `<id>\t<request>\t<real answer>` lines for the Lean
//!    kernels of `JaqVerif/C05/Kernels.lean` (see `c05_kernels.rs` part at the end of this file).
use crate::common::*;
use crate::prng::Rng;
use crate::vx;
use jaq_all::data::{Ctx, Data, Filter, Runner};
use jaq_core::Vars;
use jaq_json::{Num, Val};
use jaq_std::input::RcIter;
use num_bigint::BigInt;
use std::io::Write;
use std::sync::atomic::{AtomicU64, Ordering};
use std::sync::Mutex;

// ------------------------------------------------------------------------------------------
// panic capture
// ------------------------------------------------------------------------------------------

static LAST_PANIC: Mutex<Option<(String, String)>> = Mutex::new(None);

/// `…/repo/jaq-std/src/time.rs` → `jaq-std/src/time.rs`; registry crates → `<crate-ver>/src/…`
fn norm_path(p: &str) -> String {
    for root in ["jaq-core/", "jaq-std/", "jaq-json/", "jaq-fmts/", "jaq-all/", "jaq/src"] {
        if let Some(i) = p.rfind(root) {
            return p[i..].to_string();
        }
    }
    if let Some(i) = p.find("/registry/src/") {
        let rest = &p[i + "/registry/src/".len()..];
        if let Some(j) = rest.find('/') {
            return rest[j + 1..].to_string();
        }
    }
    if let Some(i) = p.find("/library/") {
        return format!("rust{}", &p[i..]);
    }
    p.to_string()
}

fn install_hook() {
    std::panic::set_hook(Box::new(|info| {
        let loc = info
            .location()
            .map(|l| format!("{}:{}", norm_path(l.file()), l.line()))
            .unwrap_or_else(|| "?".into());
        let p = info.payload();
        let msg = if let Some(s) = p.downcast_ref::<&str>() {
            s.to_string()
        } else if let Some(s) = p.downcast_ref::<String>() {
            s.clone()
        } else {
            "panic".to_string()
        };
        if let Ok(mut g) = LAST_PANIC.lock() {
            *g = Some((loc, msg));
        }
    }));
}

/// Run `f`; `Err((site, message))` if it panicked.
fn guarded<T>(f: impl FnOnce() -> T) -> Result<T, (String, String)> {
    let r = std::panic::catch_unwind(std::panic::AssertUnwindSafe(f));
    r.map_err(|_| {
        LAST_PANIC
            .lock()
            .ok()
            .and_then(|mut g| g.take())
            .unwrap_or_else(|| ("?".into(), "panic".into()))
    })
}

/// Panics that the property excepts: requests for more memory than can exist.
fn excepted(msg: &str) -> Option<&'static str> {
    if msg.contains("capacity overflow") || msg.contains("memory allocation") || msg.contains("alloc") && msg.contains("failed") {
        Some("alloc")
    } else {
        None
    }
}

fn one_line(s: &str) -> String {
    let mut o: String = s.chars().map(|c| if c == '\n' || c == '\t' || c == '\r' { ' ' } else { c }).collect();
    if o.len() > 300 {
        let mut i = 300;
        while !o.is_char_boundary(i) {
            i -= 1;
        }
        o.truncate(i);
    }
    o
}

// ------------------------------------------------------------------------------------------
// worker scaffold: sharding, progress file, watchdog
// ------------------------------------------------------------------------------------------

const IDLE: u64 = u64::MAX;
static CUR: AtomicU64 = AtomicU64::new(IDLE);
static CUR_START_MS: AtomicU64 = AtomicU64::new(0);

struct Opts {
    shard: u64,
    nshards: u64,
    start: u64,
    end: u64,
    progress: Option<std::fs::File>,
    thorough: bool,
    timeout_ms: u64,
    seed: u64,
    docs: Option<String>,
    only: Option<String>,
    describe: Option<u64>,
    t0: std::time::Instant,
    budget_ms: u64,
    /// only the first `probe` cases (in permuted order) of every target
    probe: u64,
    /// targets (by their first case index) that are not run at all
    skip: Vec<u64>,
    /// time budget per target in this worker (ms); the rest of the target is cut (reported)
    target_ms: u64,
    /// write the progress file only every n-th case of this worker (the parent re-runs the batch with 1)
    progress_every: u64,
    progress_count: u64,
    describe_many: Vec<u64>,
}

fn parse_opts(args: &[String]) -> Opts {
    let mut o = Opts {
        shard: 0,
        nshards: 1,
        start: 0,
        end: u64::MAX,
        progress: None,
        thorough: std::env::var("VERIF_TIER").map(|t| t == "thorough").unwrap_or(false),
        timeout_ms: 4000,
        seed: crate::prng::seed_from_env(),
        docs: None,
        only: None,
        describe: None,
        t0: std::time::Instant::now(),
        budget_ms: u64::MAX,
        probe: u64::MAX,
        skip: vec![],
        target_ms: u64::MAX,
        progress_every: 1,
        progress_count: 0,
        describe_many: vec![],
    };
    let mut i = 0;
    while i < args.len() {
        let val = || args.get(i + 1).cloned().unwrap_or_default();
        match args[i].as_str() {
            "--shard" => {
                let v = val();
                let (a, b) = v.split_once('/').unwrap_or(("0", "1"));
                o.shard = a.parse().unwrap_or(0);
                o.nshards = b.parse().unwrap_or(1);
                i += 1;
            }
            "--start" => {
                o.start = val().parse().unwrap_or(0);
                i += 1;
            }
            "--end" => {
                o.end = val().parse().unwrap_or(u64::MAX);
                i += 1;
            }
            "--progress" => {
                o.progress = std::fs::OpenOptions::new().create(true).write(true).open(val()).ok();
                i += 1;
            }
            "--tier" => {
                o.thorough = val() == "thorough";
                i += 1;
            }
            "--timeout" => {
                o.timeout_ms = val().parse().unwrap_or(4000);
                i += 1;
            }
            "--budget" => {
                o.budget_ms = val().parse().unwrap_or(u64::MAX);
                i += 1;
            }
            "--probe" => {
                o.probe = val().parse().unwrap_or(u64::MAX);
                i += 1;
            }
            "--skip" => {
                o.skip = val().split(',').filter_map(|x| x.parse().ok()).collect();
                i += 1;
            }
            "--target-ms" => {
                o.target_ms = val().parse().unwrap_or(u64::MAX);
                i += 1;
            }
            "--progress-every" => {
                o.progress_every = val().parse().unwrap_or(1).max(1);
                i += 1;
            }
            "--describe-many" => {
                o.describe_many = val().split(',').filter_map(|x| x.parse().ok()).collect();
                i += 1;
            }
            "--docs" => {
                o.docs = Some(val());
                i += 1;
            }
            "--only" => {
                o.only = Some(val());
                i += 1;
            }
            "--describe" => {
                o.describe = val().parse().ok();
                i += 1;
            }
            _ => {}
        }
        i += 1;
    }
    o
}

impl Opts {
    fn mine(&self, idx: u64) -> bool {
        idx >= self.start && idx < self.end && idx % self.nshards == self.shard
    }
    fn begin(&mut self, idx: u64) {
        if let Some(f) = &self.progress {
            if self.progress_count % self.progress_every == 0 {
                use std::os::unix::fs::FileExt;
                let _ = f.write_at(format!("{idx:020}").as_bytes(), 0);
            }
            self.progress_count += 1;
        }
        CUR_START_MS.store(self.t0.elapsed().as_millis() as u64, Ordering::SeqCst);
        CUR.store(idx, Ordering::SeqCst);
    }
    fn end_case(&self) {
        CUR.store(IDLE, Ordering::SeqCst);
    }
    fn out_of_budget(&self) -> bool {
        self.t0.elapsed().as_millis() as u64 > self.budget_ms
    }
    fn watchdog(&self) {
        let limit = self.timeout_ms;
        let t0 = self.t0;
        std::thread::spawn(move || loop {
            std::thread::sleep(std::time::Duration::from_millis(25));
            let cur = CUR.load(Ordering::SeqCst);
            if cur != IDLE {
                let st = CUR_START_MS.load(Ordering::SeqCst);
                let now = t0.elapsed().as_millis() as u64;
                if now > st + limit && CUR.load(Ordering::SeqCst) == cur {
                    let so = std::io::stdout();
                    let mut l = so.lock();
                    let _ = writeln!(l, "T {cur}");
                    let _ = l.flush();
                    std::process::exit(98);
                }
            }
        });
    }
}

/// CPU time (user+system) consumed by this process in ms (from /proc/self/stat; 10 ms ticks).
/// Budgets are expressed in CPU time so that coverage does not shrink on a loaded machine.
fn cpu_ms() -> u64 {
    let s = std::fs::read_to_string("/proc/self/stat").unwrap_or_default();
    let rest = s.rsplit_once(')').map(|x| x.1).unwrap_or("");
    let f: Vec<&str> = rest.split_whitespace().collect();
    // after the command name: state is field 0, utime field 11, stime field 12
    let g = |i: usize| f.get(i).and_then(|x| x.parse::<u64>().ok()).unwrap_or(0);
    (g(11) + g(12)) * 10
}

/// run the worker body on a thread with a large stack (deep-ish values must not look like crashes)
fn on_big_stack(f: impl FnOnce() + Send + 'static) {
    let h = std::thread::Builder::new().stack_size(256 << 20).spawn(f).unwrap();
    if h.join().is_err() {
        // a panic outside `guarded`: a bug of the harness itself
        let (site, msg) = LAST_PANIC.lock().ok().and_then(|mut g| g.take()).unwrap_or_default();
        eprintln!("harness worker panicked at {site}: {msg}");
        std::process::exit(3);
    }
}

// ------------------------------------------------------------------------------------------
// boundary pool
// ------------------------------------------------------------------------------------------

fn bigs(s: &str) -> Val {
    Val::Num(Num::big_int(s.parse::<BigInt>().unwrap()))
}

/// ~75 boundary values (the pool of the property's quantifier)
pub fn pool() -> Vec<Val> {
    let mut v = vec![Val::Null, Val::Bool(true), Val::Bool(false)];
    for i in [0isize, 1, -1, 2, 127, 255, 65536, 1 << 31, -(1 << 31), (1 << 31) - 1, 1 << 53, -(1 << 53), isize::MAX, isize::MIN, isize::MAX - 1, isize::MIN + 1, 1_000_000_007] {
        v.push(int(i));
    }
    // small values in the big-integer representation (results of big-integer arithmetic are never
    // normalised back: `$big - $big` is BigInt(0)) and the i64 boundaries as big integers
    for b in ["0", "1", "255", "-9223372036854775808", "9223372036854775807"] {
        v.push(bigs(b));
    }
    for b in ["5", "-1", "9223372036854775808", "-9223372036854775809", "18446744073709551615", "18446744073709551616", "-18446744073709551616", "1000000000000000000000000000000"] {
        v.push(bigs(b));
    }
    for f in [0.0f64, -0.0, 0.5, -1.5, 3.0, 2147483648.0, 9007199254740992.0, 9223372036854775808.0, -9223372036854775808.0, 1.8446744073709552e19, 1e18, 1e300, -1e300, 5e-324, f64::NAN, f64::INFINITY, f64::NEG_INFINITY, 253402300800.0, -62135596801.5] {
        v.push(float(f));
    }
    for d in ["1.10", "1e1000", "-1e1000", "1e-400"] {
        v.push(dec(d));
    }
    let huge: String = "a\u{e9}\u{20ac}\u{1f600}b ".repeat(700);
    for s in [&b""[..], b"a", b"abc", b"a,b, c\n", "a\u{e9}\u{20ac}\u{1f600}".as_bytes(), b"x\xffy", b"\xf0\x9f", b"\x00", huge.as_bytes(), b"2024-02-29T23:59:60Z", b"%Y-%m-%dT%H:%M:%SZ %j %Z %s %e %q %", b"12", b"[1,{\"a\":2}]", b"(a", b"gx", b"(?<n>a*)|b", b"-1e1000", b"  nan "] {
        v.push(tstr(s));
    }
    for s in [&b""[..], b"abc", b"\xff\x00\x80"] {
        v.push(bstr(s));
    }
    let six = |x: Val| arr((0..6).map(|_| x.clone()).collect());
    v.push(arr(vec![]));
    v.push(arr(vec![int(1)]));
    v.push(arr(vec![int(1), float(1.0), int(2), tstr(b"a"), Val::Null]));
    v.push(arr(vec![arr(vec![]), Val::Null]));
    v.push(arr(vec![arr(vec![int(1), arr(vec![int(2)])]), arr(vec![int(3)])]));
    v.push(arr(vec![tstr(b"a"), tstr(b"b")]));
    v.push(arr(vec![int(2024), int(1), int(29), int(23), int(59), float(59.5), int(1), int(59)]));
    v.push(six(int(isize::MAX)));
    v.push(six(int(isize::MIN)));
    v.push(six(float(1e300)));
    v.push(six(float(f64::NAN)));
    v.push(arr(vec![int(isize::MIN), int(isize::MAX)]));
    v.push(arr(vec![arr(vec![tstr(b"a"), int(0)]), int(1)]));
    let mut deep = arr(vec![]);
    for _ in 0..40 {
        deep = arr(vec![deep]);
    }
    v.push(deep);
    v.push(obj(vec![]));
    v.push(obj(vec![(tstr(b"a"), int(1))]));
    v.push(obj(vec![(tstr(b"a"), obj(vec![(tstr(b"x"), int(1))])), (int(1), int(2)), (Val::Null, Val::Null)]));
    v.push(obj(vec![(tstr(b"a"), arr(vec![int(1), int(2)])), (tstr(b"b"), Val::Null)]));
    v.push(obj(vec![(tstr(b"key"), tstr(b"k")), (tstr(b"value"), int(1))]));
    v.push(obj(vec![(tstr(b"t"), tstr(b"a")), (tstr(b"a"), obj(vec![(tstr(b"x"), tstr(b"1"))])), (tstr(b"c"), arr(vec![tstr(b"txt")]))]));
    v
}

/// structured extra inputs: a broken-down time / index vector with one boundary component
fn extras() -> Vec<Val> {
    let base = [2024isize, 1, 29, 23, 59, 59, 1, 59];
    let nums: Vec<Val> = vec![
        int(-1), int(12), int(31), int(60), int(127), int(128), int(-129), int(255), int(256), int(32767), int(65536), int(1 << 31), int(-(1 << 31) - 1),
        int(isize::MAX), int(isize::MIN), float(1e300), float(-1e300), float(f64::NAN), float(f64::INFINITY), float(0.5), float(2147483648.5), bigs("18446744073709551616"), tstr(b"x"), Val::Null,
    ];
    let mut v = vec![];
    for pos in 0..8 {
        for n in &nums {
            let mut a: Vec<Val> = base.iter().map(|i| int(*i)).collect();
            a[pos] = n.clone();
            v.push(arr(a.clone()));
            if pos < 6 {
                a.truncate(6);
                v.push(arr(a));
            }
        }
    }
    v
}

// ------------------------------------------------------------------------------------------
// inventory of the CURRENT tree
// ------------------------------------------------------------------------------------------

#[derive(Clone, Debug)]
struct Target {
    /// `native`, `def` or `core`
    kind: &'static str,
    /// filter text over `$a0 … $a{arity-1}`
    text: String,
    arity: usize,
    name: String,
    /// skip cases in which a string is repeated by a large count (allocation by argument)
    guard_rep: bool,
}

fn call_text(name: &str, args: &[String]) -> String {
    if args.is_empty() {
        name.to_string()
    } else {
        format!("{}({})", name, args.join("; "))
    }
}

fn inventory(thorough: bool) -> Vec<Target> {
    let mut out = vec![];
    let mut seen = std::collections::BTreeSet::new();
    let mut push_variants = |kind: &'static str, name: &str, is_fun: Vec<bool>, out: &mut Vec<Target>| {
        let n = is_fun.len();
        let base: Vec<String> = (0..n).map(|i| format!("$a{i}")).collect();
        let key = format!("{name}/{n}");
        if !seen.insert(key.clone()) {
            return;
        }
        out.push(Target { kind, text: call_text(name, &base), arity: n, name: key.clone(), guard_rep: false });
        // closure arguments also as non-constant filters
        let alts: &[&str] = if thorough { &[".", "empty", ".[]?", "error", "(.,$a0)"] } else { &[".", "empty", ".[]?"] };
        for (i, f) in is_fun.iter().enumerate() {
            if *f {
                for alt in alts {
                    if alt.contains("$a0") && n == 0 {
                        continue;
                    }
                    let mut a = base.clone();
                    a[i] = alt.to_string();
                    out.push(Target { kind, text: call_text(name, &a), arity: n, name: key.clone(), guard_rep: false });
                }
            }
        }
    };
    // natives: (name, binds, _) from the funs() iterators of the current tree
    for (name, binds, _f) in jaq_all::data::funs() {
        let is_fun: Vec<bool> = binds.iter().map(|b| matches!(b, jaq_core::Bind::Fun(()))).collect();
        push_variants("native", name, is_fun, &mut out);
    }
    // definitions of the standard library (core, std, json)
    for d in jaq_all::defs() {
        let is_fun: Vec<bool> = d.args.iter().map(|a| !a.starts_with('$')).collect();
        push_variants("def", d.name, is_fun, &mut out);
    }
    // core syntax forms (operators, paths, updates, patterns, folds, string interpolation)
    let core: &[(&str, usize, bool)] = &[
        (". + $a0", 1, false), (". - $a0", 1, false), (". * $a0", 1, true), (". / $a0", 1, false), (". % $a0", 1, false),
        ("-(.)", 0, false), (". < $a0", 1, false), (". == $a0", 1, false), ("[., $a0] | sort", 1, false),
        (".[$a0]", 1, false), (".[$a0]?", 1, false), (".[$a0:]", 1, false), (".[:$a0]", 1, false), (".[$a0:$a1]", 2, false),
        (".[$a0] = $a1", 2, false), (".[$a0] |= $a1", 2, false), (".[$a0:$a1] = $a2", 3, false), (".[$a0:] |= $a1", 2, false),
        (".[$a0] += $a1", 2, true), (".[]? //= $a0", 1, false), ("del(.[$a0])", 1, false), ("del(.[$a0:$a1])", 2, false),
        ("path(.[$a0])", 1, false), ("path(.[$a0:$a1])", 2, false), ("getpath([$a0, $a1])", 2, false), ("setpath([$a0]; $a1)", 2, false),
        ("delpaths([[$a0], [$a1]])", 2, false), ("to_entries", 0, false), ("[paths]", 0, false), ("[..]", 0, false), ("[.[]?]", 0, false),
        ("{(.): $a0}", 1, false), ("{a: ., $__loc__}", 0, false), ("\"x\\(.)y\"", 0, false), ("@json \"\\(.)\"", 0, false), ("@text \"\\(.)\"", 0, false),
        ("@csv \"\\(.)\"", 0, false), ("@tsv \"\\(.)\"", 0, false), ("@html \"\\(.)\"", 0, false), ("@uri \"\\(.)\"", 0, false), ("@sh \"\\(.)\"", 0, false),
        ("@base64 \"\\(.)\"", 0, false), ("@base64d \"\\(.)\"", 0, false), ("@base32 \"\\(.)\"", 0, false), ("@base32d \"\\(.)\"", 0, false), ("@urid \"\\(.)\"", 0, false),
        (". as [$x, {a: $y}] | [$x, $y]", 0, false), (". as {a: [$x]} ?// [$x] | $x", 0, false), ("reduce .[]? as $x ($a0; . + $x)", 1, true),
        ("foreach .[]? as [$x] ($a0; . - $x; [., $x])", 1, false), ("[limit($a0; .[]?)]", 1, false), ("try error catch .", 0, false),
        ("try error($a0) catch .", 1, false), (".. |= $a0", 1, false), ("[.[]?] | sort_by($a0)", 1, false), ("tojson | fromjson", 0, false), ("tostring", 0, false),
        ("if . then $a0 else $a0 | not end", 1, false), (". and $a0", 1, false), (". // $a0", 1, false), ("[.[$a0]?, .[$a1]?]", 2, false),
        ("label $l | ., break $l", 0, false), ("first(.[]?), last(.[]?)", 0, false), ("[splits($a0)]", 1, false), ("ascii", 0, false),
        ("input", 0, false), ("[inputs]", 0, false), ("$ENV | type", 0, false), ("input_line_number?", 0, false),
    ];
    for (t, a, g) in core {
        out.push(Target { kind: "core", text: t.to_string(), arity: *a, name: format!("core:{t}"), guard_rep: *g });
    }
    out
}

// ------------------------------------------------------------------------------------------
// native / definition / core-form sweep
// ------------------------------------------------------------------------------------------

struct Space {
    pool: Vec<Val>,
    /// pool followed by the structured extras
    ext: Vec<Val>,
    thorough: bool,
    seed: u64,
}

impl Space {
    fn ncases(&self, t: &Target) -> u64 {
        let p = self.pool.len() as u64;
        let e = self.ext.len() as u64;
        match t.arity {
            0 => e,
            1 => p * p + 2 * (e - p) * p / 4,
            2 => {
                if self.thorough {
                    p * p * p
                } else {
                    STRATA3 + p * p * 4
                }
            }
            _ => {
                if self.thorough {
                    200_000
                } else {
                    20_000
                }
            }
        }
    }

    /// case at position `k` of target number `ti`: (input, args).  Positions enumerate the case
    /// space in a fixed pseudo-random order (multiplication by a prime modulo the size), so that
    /// a prefix of the positions is a spread-out sample of the product.
    fn case(&self, ti: usize, t: &Target, k: u64) -> (Val, Vec<Val>) {
        if t.arity == 2 && !self.thorough {
            // quick tier: the first STRATA3 positions are a stratified cube — every combination of the
            // type classes of (input, $a0, $a1), each with a member of the class chosen by the seed — so that
            // the distinct type-error / conversion / boundary sites of a target are reached before its CPU
            // budget can cut the enumeration; the pseudo-random order over all argument pairs follows
            if k < STRATA3 {
                let classes = self.classes();
                let c = NCLASS as u64;
                let (ci, c0, c1) = (k / (c * c), k / c % c, k % c);
                let mut r = Rng::new(self.seed ^ (ti as u64) << 32 ^ k.wrapping_mul(0x9E3779B97F4A7C15));
                let mut pick = |cl: u64| {
                    let m = &classes[cl as usize];
                    self.pool[m[r.below(m.len())]].clone()
                };
                let i = pick(ci);
                return (i, vec![pick(c0), pick(c1)]);
            }
            return self.case_bulk(ti, t, k - STRATA3, self.ncases(t) - STRATA3);
        }
        self.case_bulk(ti, t, k, self.ncases(t))
    }

    /// indices of the pool members per type class
    fn classes(&self) -> Vec<Vec<usize>> {
        let mut out = vec![vec![]; NCLASS];
        for (i, v) in self.pool.iter().enumerate() {
            out[type_class(v)].push(i);
        }
        for (c, m) in out.iter_mut().enumerate() {
            if m.is_empty() {
                m.push(c % self.pool.len());
            }
        }
        out
    }

    fn case_bulk(&self, ti: usize, t: &Target, k: u64, n: u64) -> (Val, Vec<Val>) {
        let m = [1_000_003u64, 998_244_353, 7919, 104_729].into_iter().find(|m| n % m != 0 && gcd(n, *m) == 1).unwrap_or(1);
        let j = ((k as u128 * m as u128) % n as u128) as u64;
        let p = self.pool.len() as u64;
        let e = self.ext.len() as u64;
        let pl = |i: u64| self.pool[i as usize].clone();
        match t.arity {
            0 => (self.ext[j as usize].clone(), vec![]),
            1 => {
                if j < p * p {
                    (pl(j / p), vec![pl(j % p)])
                } else {
                    // a quarter of the structured extras (rotating with the argument) as input / as argument
                    let k = j - p * p;
                    let x = (e - p) / 4;
                    if k < x * p {
                        (self.ext[(p + (k / p) * 4 + k % 4) as usize].clone(), vec![pl(k % p)])
                    } else {
                        let k = (k - x * p) % (x * p);
                        (pl(k % p), vec![self.ext[(p + (k / p) * 4 + k % 4) as usize].clone()])
                    }
                }
            }
            2 => {
                if self.thorough {
                    (pl(j / (p * p)), vec![pl(j / p % p), pl(j % p)])
                } else {
                    // every pair of arguments with 4 inputs drawn from the four quarters of the pool
                    let pair = j / 4;
                    let mut r = Rng::new(self.seed ^ (ti as u64) << 32 ^ j.wrapping_mul(0x9E3779B97F4A7C15));
                    let inp = (j % 4) * (p / 4) + r.below((p / 4) as usize) as u64;
                    (pl(inp.min(p - 1)), vec![pl(pair / p), pl(pair % p)])
                }
            }
            n => {
                let mut r = Rng::new(self.seed ^ (ti as u64) << 32 ^ j.wrapping_mul(0x9E3779B97F4A7C15));
                let inp = pl(r.below(p as usize) as u64);
                (inp, (0..n).map(|_| pl(r.below(p as usize) as u64)).collect())
            }
        }
    }
}

const NCLASS: usize = 12;
const STRATA3: u64 = (NCLASS * NCLASS * NCLASS) as u64;

/// type class of a pool value (what built-ins dispatch on)
fn type_class(v: &Val) -> usize {
    match v {
        Val::Null => 0,
        Val::Bool(_) => 1,
        Val::Num(Num::Int(i)) => if i.unsigned_abs() < (1 << 32) { 2 } else { 3 },
        Val::Num(Num::BigInt(_)) => 4,
        Val::Num(Num::Float(f)) => if f.is_finite() { 5 } else { 6 },
        Val::Num(Num::Dec(_)) => 7,
        Val::TStr(_) => 8,
        Val::BStr(_) => 9,
        Val::Arr(_) => 10,
        Val::Obj(_) => 11,
    }
}

fn gcd(a: u64, b: u64) -> u64 {
    if b == 0 {
        a
    } else {
        gcd(b, a % b)
    }
}

fn space(o: &Opts) -> Space {
    let pool = pool();
    let mut ext = pool.clone();
    ext.extend(extras());
    Space { pool, ext, thorough: o.thorough, seed: o.seed }
}

fn is_big_count(v: &Val) -> bool {
    match v {
        Val::Num(Num::Int(i)) => *i > 100_000,
        Val::Num(Num::BigInt(b)) => **b > BigInt::from(100_000),
        Val::Num(Num::Float(f)) => *f > 100_000.0,
        Val::Num(Num::Dec(_)) => true,
        _ => false,
    }
}
fn is_nonempty_str(v: &Val) -> bool {
    match v {
        Val::TStr(b) | Val::BStr(b) => !b.is_empty(),
        Val::Arr(a) => a.iter().any(is_nonempty_str),
        Val::Obj(o) => o.iter().any(|(k, v)| is_nonempty_str(k) || is_nonempty_str(v)),
        _ => false,
    }
}

/// what one run did (for the evidence)
#[derive(Default, Clone)]
struct Tally {
    cases: u64,
    yielded: u64,
    errored: u64,
    empty: u64,
    halted: u64,
    skipped: u64,
    panics: u64,
    excepted: u64,
}

enum Outcome {
    Vals(usize),
    /// class of the error message (digits removed, first 32 characters, hashed)
    Err(u64),
    Empty,
    Halt,
}

fn msg_class(m: &[u8]) -> u64 {
    // first two words and the last word when it is a plain word ("cannot use … as integer"): the values
    // quoted inside a message do not make a new class
    let text = String::from_utf8_lossy(m);
    let words: Vec<&str> = text.split_whitespace().collect();
    let mut key: Vec<&str> = words.iter().take(2).copied().collect();
    if let Some(l) = words.last() {
        if words.len() > 2 && l.len() <= 10 && l.chars().all(|c| c.is_ascii_alphabetic()) {
            key.push(l);
        }
    }
    let mut h = 0xcbf29ce484222325u64;
    for b in key.join(" ").bytes() {
        h = (h ^ b as u64).wrapping_mul(0x100000001b3);
    }
    h
}

/// Run the filter with bounded pulls; render the first output and the error message as the CLI would.
fn run_case(filter: &Filter, input: Val, vars: Vec<Val>, limit: usize) -> Outcome {
    let runner = Runner::default();
    let inputs: Box<dyn Iterator<Item = Result<Val, String>>> = Box::new(vec![Ok(int(1)), Err("bad input".to_string()), Ok(Val::Null)].into_iter());
    let rc = RcIter::new(inputs);
    let data = Data { runner: &runner, lut: &filter.lut, inputs: &rc };
    let ctx = Ctx::new(&data, Vars::new(vars));
    let mut n = 0;
    for y in filter.id.run((ctx, input)).take(limit) {
        match y {
            Ok(v) => {
                if n == 0 {
                    let mut sink = SmallSink(0);
                    let _ = jaq_fmts::write::write(&mut sink, &runner.writer, &v);
                }
                n += 1;
            }
            Err(exn) => {
                return match exn.get_err() {
                    Ok(e) => {
                        let mut sink = SmallSink(0);
                        let _ = write!(sink, "{e}");
                        let mut head = HeadSink(Vec::new());
                        let _ = write!(head, "{e}");
                        let _ = e.into_val();
                        Outcome::Err(msg_class(&head.0))
                    }
                    Err(_) => Outcome::Halt,
                };
            }
        }
    }
    if n == 0 {
        Outcome::Empty
    } else {
        Outcome::Vals(n)
    }
}

/// a writer that keeps the first 96 bytes
struct HeadSink(Vec<u8>);
impl Write for HeadSink {
    fn write(&mut self, b: &[u8]) -> std::io::Result<usize> {
        let room = 96usize.saturating_sub(self.0.len());
        self.0.extend_from_slice(&b[..b.len().min(room)]);
        Ok(b.len())
    }
    fn flush(&mut self) -> std::io::Result<()> {
        Ok(())
    }
}

/// a writer that counts and forgets
struct SmallSink(usize);
impl Write for SmallSink {
    fn write(&mut self, b: &[u8]) -> std::io::Result<usize> {
        self.0 += b.len();
        Ok(b.len())
    }
    fn flush(&mut self) -> std::io::Result<()> {
        Ok(())
    }
}

fn b64(b: &[u8]) -> String {
    const T: &[u8; 64] = b"ABCDEFGHIJKLMNOPQRSTUVWXYZabcdefghijklmnopqrstuvwxyz0123456789+/";
    let mut o = String::new();
    for ch in b.chunks(3) {
        let n = (ch[0] as u32) << 16 | (*ch.get(1).unwrap_or(&0) as u32) << 8 | *ch.get(2).unwrap_or(&0) as u32;
        o.push(T[(n >> 18) as usize & 63] as char);
        o.push(T[(n >> 12) as usize & 63] as char);
        o.push(if ch.len() > 1 { T[(n >> 6) as usize & 63] as char } else { '=' });
        o.push(if ch.len() > 2 { T[n as usize & 63] as char } else { '=' });
    }
    o
}

/// a jq expression that evaluates (in jaq) to the value — used to confirm findings through the CLI
fn val_to_jq(v: &Val) -> String {
    match v {
        Val::Null => "null".into(),
        Val::Bool(b) => b.to_string(),
        Val::Num(Num::Int(i)) if *i == isize::MIN => "(-9223372036854775807 - 1)".into(),
        Val::Num(Num::Int(i)) if *i < 0 => format!("({i})"),
        Val::Num(Num::Int(i)) => i.to_string(),
        // keep the big-integer representation also for values a literal would read as machine integer
        Val::Num(Num::BigInt(b)) if i64::try_from(&**b).is_ok() => format!("(1180591620717411303424 - 1180591620717411303424 + ({b}))"),
        Val::Num(Num::BigInt(b)) => format!("({b})"),
        Val::Num(Num::Float(f)) if f.is_nan() => "nan".into(),
        Val::Num(Num::Float(f)) if f.is_infinite() => if *f > 0.0 { "infinite".into() } else { "(-infinite)".into() },
        Val::Num(Num::Float(f)) => format!("({f:?})"),
        Val::Num(Num::Dec(d)) => format!("({d})"),
        Val::TStr(b) => match std::str::from_utf8(b) {
            Ok(s) if s.len() < 200 => {
                let mut o = String::from("\"");
                for c in s.chars() {
                    match c {
                        '"' => o.push_str("\\\""),
                        '\\' => o.push_str("\\\\"),
                        c if (c as u32) < 0x20 => o.push_str(&format!("\\u{:04x}", c as u32)),
                        c => o.push(c),
                    }
                }
                o.push('"');
                o
            }
            _ => format!("(\"{}\" | @base64d | tostring)", b64(b)),
        },
        Val::BStr(b) => format!("(\"{}\" | @base64d | tobytes)", b64(b)),
        Val::Arr(a) => format!("[{}]", a.iter().map(val_to_jq).collect::<Vec<_>>().join(", ")),
        Val::Obj(o) => {
            if o.is_empty() {
                "{}".into()
            } else {
                format!("({})", o.iter().map(|(k, v)| format!("{{({}): {}}}", val_to_jq(k), val_to_jq(v))).collect::<Vec<_>>().join(" + "))
            }
        }
    }
}

fn cli_program(text: &str, input: &Val, args: &[Val]) -> String {
    let mut p = String::new();
    for (i, a) in args.iter().enumerate() {
        p.push_str(&format!("{} as $a{i} | ", val_to_jq(a)));
    }
    format!("{p}{} | {text}", val_to_jq(input))
}

fn vxs(vs: &[Val]) -> String {
    vs.iter().map(vx::enc).collect::<Vec<_>>().join(" ; ")
}

fn natives_main(args: &[String]) {
    let mut o = parse_opts(args);
    install_hook();
    if let Some(idx) = o.describe {
        let inv = inventory(o.thorough);
        let sp = space(&o);
        let mut off = 0u64;
        for (ti, t) in inv.iter().enumerate() {
            let n = sp.ncases(t);
            if idx < off + n {
                let (i, a) = sp.case(ti, t, idx - off);
                println!("{}\t{}\t{}\t{}\t{}", t.kind, t.name, t.text, vx::enc(&i), vxs(&a));
                return;
            }
            off += n;
        }
        println!("?");
        return;
    }
    o.watchdog();
    on_big_stack(move || {
        let inv = inventory(o.thorough);
        let sp = space(&o);
        let mut off = 0u64;
        let mut total = Tally::default();
        let so = std::io::stdout();
        for (ti, t) in inv.iter().enumerate() {
            let n = sp.ncases(t);
            let (lo, hi) = (off, off + n);
            off = hi;
            if hi <= o.start || lo >= o.end {
                continue;
            }
            if let Some(only) = &o.only {
                if !t.name.starts_with(only.as_str()) {
                    continue;
                }
            }
            let mut filter: Option<Filter> = None;
            let mut tally = Tally::default();
            let t_start = std::time::Instant::now();
            let vars: Vec<String> = (0..t.arity).map(|i| format!("a{i}")).collect();
            {
                let mut l = so.lock();
                let _ = writeln!(l, "G {lo} {hi} {}", t.text);
                let _ = l.flush();
            }
            if o.skip.contains(&lo) {
                continue;
            }
            let mut cut = 0u64;
            // behaviours seen so far (outcome class x error-message class x type classes of the arguments that
            // produced it first) and the position at which the last new one appeared
            let mut seen_beh = std::collections::BTreeSet::new();
            let mut last_new = 0u64;
            let (mut over, mut ticks, cpu_start) = (false, 0u64, cpu_ms());
            for j in 0..n.min(o.probe) {
                let idx = lo + j;
                if !o.mine(idx) {
                    continue;
                }
                if over {
                    cut += 1;
                    continue;
                }
                ticks += 1;
                if ticks % 32 == 0 && cpu_ms() > cpu_start.saturating_add(o.target_ms) {
                    over = true;
                }
                if filter.is_none() {
                    o.begin(idx);
                    match guarded(|| compile_vars(&t.text, &vars)) {
                        Ok(Ok(f)) => filter = Some(f),
                        Ok(Err(e)) => {
                            let mut l = so.lock();
                            let _ = writeln!(l, "C {idx}\t{}\t{}", t.text, e);
                            o.end_case();
                            break;
                        }
                        Err((site, msg)) => {
                            let mut l = so.lock();
                            let _ = writeln!(l, "P {idx}\t{site}\t{}\tcompile\t{}\t{}\t\t", one_line(&msg), t.name, t.text);
                            o.end_case();
                            break;
                        }
                    }
                    o.end_case();
                }
                let f = filter.as_ref().unwrap();
                let (inp, a) = sp.case(ti, t, j);
                if t.guard_rep && (is_nonempty_str(&inp) && a.iter().any(is_big_count) || is_big_count(&inp) && a.iter().any(is_nonempty_str)) {
                    tally.skipped += 1;
                    continue;
                }
                o.begin(idx);
                let r = guarded(|| run_case(f, inp.clone(), a.clone(), 40));
                o.end_case();
                tally.cases += 1;
                let beh = match &r {
                    Ok(Outcome::Vals(n)) => 1 + (*n).min(2) as u64,
                    Ok(Outcome::Err(c)) => *c | 8,
                    Ok(Outcome::Empty) => 4,
                    Ok(Outcome::Halt) => 5,
                    Err(_) => 6,
                };
                if seen_beh.insert(beh) {
                    last_new = j;
                }
                match r {
                    Ok(Outcome::Vals(_)) => tally.yielded += 1,
                    Ok(Outcome::Err(_)) => tally.errored += 1,
                    Ok(Outcome::Empty) => tally.empty += 1,
                    Ok(Outcome::Halt) => tally.halted += 1,
                    Err((site, msg)) => {
                        let tag = if excepted(&msg).is_some() {
                            tally.excepted += 1;
                            "X"
                        } else {
                            tally.panics += 1;
                            "P"
                        };
                        if tally.panics + tally.excepted <= 200 {
                            let mut l = so.lock();
                            let _ = writeln!(l, "{tag} {idx}\t{site}\t{}\t{}\t{}\t{}\t{}\t{}\t{}", one_line(&msg), t.kind, t.name, t.text, vx::enc(&inp), vxs(&a), vx::hex(cli_program(&t.text, &inp, &a).as_bytes()));
                        }
                    }
                }
            }
            if tally.cases + tally.skipped + cut > 0 {
                let mut l = so.lock();
                let _ = writeln!(l, "F {}\t{}\t{}\t{}\t{}\t{}\t{}\t{}\t{}\t{}\t{}\t{}\t{}\t{}\t{}\t{}", t.kind, t.text, tally.cases, tally.yielded, tally.errored, tally.empty, tally.halted, tally.skipped, tally.panics, tally.excepted, t_start.elapsed().as_millis(), cut, seen_beh.len(), last_new, t.name, t.arity);
            }
            total.cases += tally.cases;
        }
        let mut l = so.lock();
        let _ = writeln!(l, "DONE {} {}", total.cases, off);
        let _ = l.flush();
    });
}

fn inventory_main(args: &[String]) {
    let o = parse_opts(args);
    let inv = inventory(o.thorough);
    let sp = space(&o);
    let mut off = 0u64;
    for t in &inv {
        let n = sp.ncases(t);
        println!("{}\t{}\t{}\t{}\t{}\t{}", t.kind, t.name, t.arity, t.text, off, n);
        off += n;
    }
    println!("TOTAL\t{}\t{}\t{}", off, sp.pool.len(), sp.ext.len());
}

/// replay of one case: `c05 case <filter text> <input vx> [<arg vx> …]` (args separated by `;`)
fn case_main(args: &[String]) {
    install_hook();
    let text = args.first().cloned().unwrap_or_default();
    let toks: Vec<String> = args[1..].to_vec();
    let joined = toks.join(" ");
    let mut vals: Vec<Val> = vec![];
    for part in joined.split(" ; ") {
        let part = part.trim();
        if part.is_empty() {
            continue;
        }
        match vx::dec(part) {
            Some(v) => vals.push(v),
            None => {
                println!("bad-vx {part}");
                return;
            }
        }
    }
    if vals.is_empty() {
        vals.push(Val::Null);
    }
    let input = vals.remove(0);
    let vars: Vec<String> = (0..vals.len()).map(|i| format!("a{i}")).collect();
    let r = guarded(|| {
        let f = compile_vars(&text, &vars)?;
        Ok::<_, String>(run_with(&f, input.clone(), vals.clone(), vec![Ok(int(1))], 40))
    });
    match r {
        Ok(Ok(items)) => println!("OK {}", one_line(&enc_items(&items))),
        Ok(Err(e)) => println!("COMPILE-ERROR {e}"),
        Err((site, msg)) => println!("PANIC {site}\t{}", one_line(&msg)),
    }
}

// ------------------------------------------------------------------------------------------
// filter texts: lexer / parser / compiler / error reports / execution of mutants
// ------------------------------------------------------------------------------------------

/// examples of the manual: inline code and code blocks of `docs/*.dj` that contain `-->`
fn doc_examples(dir: &str) -> Vec<String> {
    let mut out = vec![];
    let mut files: Vec<_> = std::fs::read_dir(dir).map(|d| d.filter_map(|e| e.ok()).map(|e| e.path()).collect()).unwrap_or_default();
    files.sort();
    for f in files {
        if f.extension().and_then(|e| e.to_str()) != Some("dj") {
            continue;
        }
        let Ok(text) = std::fs::read_to_string(&f) else { continue };
        // fenced blocks
        let mut in_block = false;
        let mut block = String::new();
        let mut prose = String::new();
        for line in text.lines() {
            if line.trim_start().starts_with("```") {
                if in_block {
                    out.push(std::mem::take(&mut block));
                }
                in_block = !in_block;
            } else if in_block {
                block.push_str(line);
                block.push('\n');
            } else {
                prose.push_str(line);
                prose.push('\n');
            }
        }
        // inline code spans (single or double backticks)
        let b: Vec<char> = prose.chars().collect();
        let mut i = 0;
        while i < b.len() {
            if b[i] == '`' {
                let mut n = 0;
                while i + n < b.len() && b[i + n] == '`' {
                    n += 1;
                }
                let start = i + n;
                let mut j = start;
                let mut found = None;
                while j < b.len() {
                    if b[j] == '`' {
                        let mut m = 0;
                        while j + m < b.len() && b[j + m] == '`' {
                            m += 1;
                        }
                        if m == n {
                            found = Some(j);
                            break;
                        }
                        j += m;
                    } else {
                        j += 1;
                    }
                }
                match found {
                    Some(j) => {
                        out.push(b[start..j].iter().collect());
                        i = j + n;
                    }
                    None => i = start,
                }
            } else {
                i += 1;
            }
        }
    }
    let mut ex: Vec<String> = out
        .into_iter()
        .filter(|c| c.contains("-->"))
        .map(|c| c.split("-->").next().unwrap_or("").trim().to_string())
        .filter(|c| !c.is_empty())
        .collect();
    ex.dedup();
    ex
}

const FILTER_SEEDS: &[&str] = &[
    ".", "..", ".a.b[0]?", ".[1:-1]", ".[:2] = [9]", ".\"a\"?.[\"b\"]", "[.[] | select(. > 1)]", "{a: 1, \"b\": 2, (\"c\"): 3, $__loc__, @base64 \"x\": 4, \"\\(1)\": 5}",
    "def f(g; $x): g + $x; f(.; 1)", "def f: def g: 3; g * 2; f", "reduce .[] as [$a, {b: $c}] (0; . + $a + $c)", "foreach (1, 2) as $x (0; . + $x; [., $x])",
    "if . then 1 elif . == null then 2 else 3 end", "try error(\"x\") catch .", "label $out | 1, break $out, 2", ". as [$x, $y] | $x + $y", ". as {a: $x} ?// [$x] | $x",
    "\"a\\u00e9\\n\\(1 + 2)b\\(\"c\\(3)\")\"", "@json \"x\\(.)y\"", "1 as $x | 2 as $y | [$x, $y, $__loc__]", ".a |= . + 1", ".[] += 1", ".a //= 3", "1, 2 | 3, 4", "-1 - -2", "1e1000, 0.1e-2, 100000000000000000000",
    "include \"m\"; import \"d\" as $d; import \"e\" as e {search: \"./\"}; e::f($d)", "module {version: 1}; def f: .; f", "[limit(3; repeat(1))]", "first(range(10; 0; -3))", "path(..)", "paths(type == \"number\")",
    "to_entries | map(select(.value)) | from_entries", "input_line_number", "$ENV.PATH", "env | keys[0]", "ltrimstr(\"a\") | ascii_downcase | test(\"b\"; \"gx\")", "[.[] | tostring] | join(\",\")",
    "# comment\n1 # another \\\n still comment\n+ 2", "def fac: if . <= 1 then 1 else . * (. - 1 | fac) end; 5 | fac", "def f($a; $b): $a + $b; f(1; 2)", "getpath([\"a\", 0]) as [$x] | $x", "..?", ".[]?", ".a?.b?", "?//", "reduce range(5) as $i ([]; . + [$i]) | .[2:4] |= map(. * 2)",
    "tojson | fromjson", "@sh \"echo \\(.)\"", "splits(\", *\"; null)", "ascii, implode", "[.[] as {a: $x, $y, \"z\": [$z]} | $x, $y, $z]", "\"\\ud83d\\ude00\"", "\"\\t\\r\\b\\f\\/\\\\\\\"\"", "now | todate", "limit(0; 1)", "{} | .a.b.c = 1", "[1, [2]] | flatten(1)",
    "$x", "f(1)", "break $l", "m::f", "reduce . as $x (1)", "foreach . as $x (1; 2; 3; 4)", "@nope \"x\"", "include \"zz\"; .",
];

const FILTER_DICT: &[&str] = &[
    "def", "if", "then", "elif", "else", "end", "as", "reduce", "foreach", "try", "catch", "label", "break", "import", "include", "module", "and", "or", "not", "__loc__",
    "|", ",", ".", "..", ":", ";", "=", "|=", "+=", "-=", "*=", "/=", "%=", "//=", "//", "==", "!=", "<", "<=", ">", ">=", "+", "-", "*", "/", "%", "?", "?//", "(", ")", "[", "]", "{", "}", "\"", "\\(", "\\", "\\u", "\\ud800", "\\u00", "$", "@", "$x", "$__loc__", "$__prog_args", "$ENV", "@base64", "@x", "@json",
    "0", "1", "-1", "1.", ".5", "1e", "1e+", "0e0", "1e1000", "9223372036854775807", "9223372036854775808", "00012", "1.0e-400", "\"a\"", "\"\\(1)\"", "\"\\(", "\"\\u12\"", "\"\\x\"", ".a", ".\"a\"", ".[0]", ".[1:]", ".[:-1]", ".[]", ".a::b", "a::b", "a::", "::", "a::$b", "a::@b",
    "f", "f(1)", "f(1;2)", "map(.)", "empty", "error", "input", "limit(1; .)", "first", "range(3)", "recurse", "path(.)", "getpath([])", "#", "#\\\n", "\n", "\r\n", "\t", " ", "\u{a0}", "\u{e9}", "\u{1f4a3}", "\u{0}", "\u{feff}", "\u{2028}", "&", "`", "'", "~", "^", "!", "<>", "=>", "|||", "---", "++",
];

fn tokenize(s: &str) -> Vec<String> {
    let mut out = vec![];
    let cs: Vec<char> = s.chars().collect();
    let mut i = 0;
    while i < cs.len() {
        let c = cs[i];
        let start = i;
        if c.is_alphanumeric() || c == '_' || c == '$' || c == '@' {
            i += 1;
            while i < cs.len() && (cs[i].is_alphanumeric() || cs[i] == '_') {
                i += 1;
            }
        } else if c == '"' {
            i += 1;
            while i < cs.len() && cs[i] != '"' {
                if cs[i] == '\\' {
                    i += 1;
                }
                i += 1;
            }
            i = (i + 1).min(cs.len());
        } else if c.is_whitespace() {
            while i < cs.len() && cs[i].is_whitespace() {
                i += 1;
            }
        } else if "|=!<>+-*/%".contains(c) {
            while i < cs.len() && "|=!<>+-*/%".contains(cs[i]) {
                i += 1;
            }
        } else {
            i += 1;
        }
        out.push(cs[start..i.min(cs.len())].iter().collect());
    }
    out
}

fn mutate_filter(r: &mut Rng, seeds: &[String], kind: u64) -> Vec<u8> {
    let pick_seed = |r: &mut Rng| seeds[r.below(seeds.len())].clone();
    let dict = |r: &mut Rng| FILTER_DICT[r.below(FILTER_DICT.len())].to_string();
    let mut text: String = match kind {
        0 => pick_seed(r),
        8 => {
            let n = 1 + r.below(40);
            let sep = if r.chance(1, 2) { " " } else { "" };
            (0..n).map(|_| if r.chance(1, 6) { tokenize(&pick_seed(r)).into_iter().next().unwrap_or_default() } else { dict(r) }).collect::<Vec<_>>().join(sep)
        }
        7 => {
            let (a, b) = (tokenize(&pick_seed(r)), tokenize(&pick_seed(r)));
            let i = r.below(a.len() + 1);
            let j = r.below(b.len() + 1);
            a[..i].concat() + &b[j..].concat()
        }
        _ => {
            let mut t = tokenize(&pick_seed(r));
            let nops = 1 + r.below(4);
            for _ in 0..nops {
                if t.is_empty() {
                    t.push(dict(r));
                    continue;
                }
                let i = r.below(t.len());
                match r.below(9) {
                    0 => {
                        t.remove(i);
                    }
                    1 => {
                        let x = t[i].clone();
                        t.insert(i, x);
                    }
                    2 => {
                        let j = r.below(t.len());
                        t.swap(i, j);
                    }
                    3 | 4 => t[i] = dict(r),
                    5 => t.insert(i, dict(r)),
                    6 => {
                        // wrap a token range in delimiters
                        let j = i + r.below(t.len() - i);
                        let (o, c) = *r.pick(&[("(", ")"), ("[", "]"), ("{", "}"), ("\"\\(", ")\""), ("(", "]"), ("[", "")]);
                        t.insert(j + 1, c.to_string());
                        t.insert(i, o.to_string());
                    }
                    7 => {
                        // bounded deep nesting (stack exhaustion is excepted, so keep it moderate)
                        let maxd = if r.chance(1, 8) { 150 } else { 12 };
                        let depth = 1 + r.below(maxd);
                        let (o, c) = *r.pick(&[("(", ")"), ("[", "]"), ("{a:", "}"), ("-", ""), ("\"\\(", ")\""), ("try ", ""), (".[", "]"), ("if . then ", " end"), ("def f: ", "; f"), ("f(", ")")]);
                        t[i] = format!("{}{}{}", o.repeat(depth), t[i], c.repeat(depth));
                    }
                    _ => {
                        let s2 = tokenize(&pick_seed(r));
                        if !s2.is_empty() {
                            t[i] = s2[r.below(s2.len())].clone();
                        }
                    }
                }
            }
            t.concat()
        }
    };
    if text.len() > 4000 {
        let mut i = 4000;
        while !text.is_char_boundary(i) {
            i -= 1;
        }
        text.truncate(i);
    }
    let mut b = text.into_bytes();
    if kind == 9 || r.chance(1, 5) {
        for _ in 0..1 + r.below(3) {
            if b.is_empty() {
                b.push(r.next() as u8);
                continue;
            }
            let i = r.below(b.len());
            match r.below(5) {
                0 => b.truncate(i),
                1 => b[i] ^= 1 << r.below(8),
                2 => b.insert(i, r.next() as u8),
                3 => {
                    b.remove(i);
                }
                _ => b[i] = *r.pick(&[0u8, b'"', b'\\', b'(', b')', 0x80, 0xff, 0xe2, b'\n', b'#', b'$', b'.']),
            }
        }
    }
    b
}

fn span_ok(whole: &str, part: &str) -> bool {
    let w0 = whole.as_ptr() as usize;
    let p0 = part.as_ptr() as usize;
    p0 >= w0 && p0 + part.len() <= w0 + whole.len() && whole.is_char_boundary(p0 - w0) && whole.is_char_boundary(p0 - w0 + part.len())
}

fn paint_ansi(f: &mut std::fmt::Formatter, style: &Option<jaq_all::load::Color>, d: &dyn std::fmt::Display) -> std::fmt::Result {
    match style {
        Some(c) => c.ansi(f, d),
        None => d.fmt(f),
    }
}

/// render the reports as the CLI does (plain and coloured); the text must mention an error
fn render_reports(frs: &[jaq_all::load::FileReports]) -> Result<(), String> {
    use jaq_all::load::FileReportsDisp;
    for fr in frs {
        let plain = format!("{}", FileReportsDisp::new(fr));
        let col = format!("{}", FileReportsDisp::new(fr).with_paint(paint_ansi).with_path(|_| "[file]".into()));
        if !fr.1.is_empty() && (!plain.contains("Error: ") || !col.contains("Error: ")) {
            return Err(format!("report without an error line: {}", one_line(&plain)));
        }
    }
    Ok(())
}

/// A problem found with a filter text: (stage, site, message)
type Problem = (String, String, String);

struct ProbSink<'a>(&'a std::cell::RefCell<Vec<Problem>>);
impl ProbSink<'_> {
    fn push(&mut self, p: Problem) {
        self.0.borrow_mut().push(p)
    }
}

/// Everything jaq does with a filter text.  `full`: with the standard library (slow), else
/// with natives only (most names undefined → exercises the compile-error reports).
fn check_filter_text(code: &str, full: bool, run: bool) -> (Vec<Problem>, &'static str) {
    use jaq_core::load::{import, Arena, Error as LErr, File, Loader};
    let mut problems: Vec<Problem> = vec![];
    let mut outcome = "ok";
    // problems found before a panic must survive it
    let early: std::cell::RefCell<Vec<Problem>> = Default::default();
    let r = guarded(|| {
        let mut probs = ProbSink(&early);
        let arena = Arena::default();
        let defs: Vec<_> = if full { jaq_all::defs().collect() } else { vec![] };
        let loader = Loader::new(defs);
        let check_load = |errs: jaq_core::load::Errors<&str, ()>, probs: &mut ProbSink, stage: &str| {
            for (file, err) in &errs {
                let parts: Vec<&str> = match err {
                    LErr::Io(es) => es.iter().map(|(p, _)| *p).collect(),
                    LErr::Lex(es) => es
                        .iter()
                        .flat_map(|(exp, found)| {
                            let mut v = vec![*found];
                            if let jaq_core::load::lex::Expect::Delim(open) = exp {
                                v.push(*open);
                            }
                            v
                        })
                        .collect(),
                    LErr::Parse(es) => es.iter().map(|(_, found)| *found).collect(),
                };
                for part in parts {
                    if !span_ok(file.code, part) {
                        probs.push((stage.to_string(), "span".into(), format!("reported span outside the filter text or off a character boundary: {:?}", one_line(part))));
                    }
                }
            }
            let frs = jaq_all::load::load_errors(errs);
            if let Err(e) = render_reports(&frs) {
                probs.push((stage.to_string(), "render".into(), e));
            }
        };
        let modules = match loader.load(&arena, File { path: (), code }) {
            Ok(m) => m,
            Err(errs) => {
                let lex = errs.iter().any(|(_, e)| matches!(e, LErr::Lex(_)));
                check_load(errs, &mut probs, if lex { "lex-report" } else { "parse-report" });
                return if lex { "lex-error" } else { "parse-error" };
            }
        };
        if let Err(errs) = import(&modules, |_p| Err("file loading not supported".into())) {
            check_load(errs, &mut probs, "import-report");
            return "import-error";
        }
        let compiled = jaq_core::Compiler::default().with_funs(jaq_all::data::funs()).with_global_vars(["$__prog_args"]).compile(modules);
        match compiled {
            Err(errs) => {
                for (file, es) in &errs {
                    for (name, _undef) in es {
                        if !span_ok(file.code, name) {
                            probs.push(("compile-report".into(), "span".into(), format!("reported span outside the filter text: {:?}", one_line(name))));
                        }
                    }
                }
                let frs = jaq_all::load::compile_errors(errs);
                if let Err(e) = render_reports(&frs) {
                    probs.push(("compile-report".into(), "render".into(), e));
                }
                "compile-error"
            }
            Ok(filter) => {
                if run {
                    let inputs = [Val::Null, obj(vec![(tstr(b"a"), arr(vec![int(1), int(2), obj(vec![(tstr(b"b"), tstr(b"x"))])])), (tstr(b"b"), tstr(b"str"))]), arr(vec![int(3), float(0.5), tstr(b"s")])];
                    for inp in inputs {
                        let _ = run_case(&filter, inp, vec![arr(vec![])], 12);
                    }
                }
                "compiled"
            }
        }
    });
    problems.extend(early.take());
    match r {
        Ok(o) => outcome = o,
        Err((site, msg)) => {
            if excepted(&msg).is_none() {
                problems.push(("pipeline".into(), site, msg));
            }
            outcome = "panic";
        }
    }
    (problems, outcome)
}

fn filter_seeds(docs: &Option<String>) -> (Vec<String>, usize) {
    let mut seeds: Vec<String> = vec![];
    let mut nex = 0;
    if let Some(d) = docs {
        let ex = doc_examples(d);
        nex = ex.len();
        seeds.extend(ex);
        // the standard library sources as programs
        if let Some(root) = std::path::Path::new(d).parent() {
            for f in ["jaq-core/src/defs.jq", "jaq-std/src/defs.jq", "jaq-json/src/defs.jq"] {
                if let Ok(t) = std::fs::read_to_string(root.join(f)) {
                    // cut into chunks of a few definitions
                    let defs: Vec<&str> = t.split("\ndef ").collect();
                    for ch in defs.chunks(4) {
                        let mut s = ch.join("\ndef ");
                        if !s.trim_start().starts_with("def ") && !s.trim_start().starts_with('#') {
                            s = format!("def {s}");
                        }
                        seeds.push(format!("{s}\n."));
                    }
                }
            }
        }
    }
    seeds.extend(FILTER_SEEDS.iter().map(|s| s.to_string()));
    (seeds, nex)
}

fn filters_total(o: &Opts) -> u64 {
    if o.thorough {
        1_200_000
    } else {
        90_000
    }
}

fn filter_case(o: &Opts, seeds: &[String], idx: u64) -> (Vec<u8>, bool) {
    let mut r = Rng::new(o.seed ^ 0xF117 ^ idx.wrapping_mul(0x9E3779B97F4A7C15));
    let kind = if (idx as usize) < seeds.len() { 0 } else { 1 + idx % 9 };
    let bytes = if kind == 0 { seeds[idx as usize].clone().into_bytes() } else { mutate_filter(&mut r, seeds, kind) };
    // the full pipeline with the standard library costs ~20 ms: every seed, and 1 mutant in 12
    let full = kind == 0 || r.chance(1, 12);
    (bytes, full)
}

fn filters_main(args: &[String]) {
    let mut o = parse_opts(args);
    install_hook();
    let (seeds, nex) = filter_seeds(&o.docs);
    let total = filters_total(&o);
    if let Some(idx) = o.describe {
        let (b, full) = filter_case(&o, &seeds, idx);
        println!("{}\t{}", vx::hex(&b), full);
        return;
    }
    if !o.describe_many.is_empty() {
        for idx in &o.describe_many {
            let (b, full) = filter_case(&o, &seeds, *idx);
            println!("{}\t{}", vx::hex(&b), full);
        }
        return;
    }
    o.watchdog();
    on_big_stack(move || {
        let so = std::io::stdout();
        let mut counts: std::collections::BTreeMap<&'static str, u64> = Default::default();
        let (mut n, mut nfull, mut nprob) = (0u64, 0u64, 0u64);
        for idx in 0..total {
            if !o.mine(idx) {
                continue;
            }
            if o.out_of_budget() {
                break;
            }
            let (bytes, full) = filter_case(&o, &seeds, idx);
            let text = String::from_utf8_lossy(&bytes).into_owned();
            o.begin(idx);
            let (mut probs, mut outcome) = check_filter_text(&text, false, false);
            if full && outcome != "lex-error" && outcome != "parse-error" {
                let (p2, o2) = check_filter_text(&text, true, true);
                probs.extend(p2);
                outcome = o2;
                nfull += 1;
            }
            o.end_case();
            n += 1;
            *counts.entry(outcome).or_default() += 1;
            for (stage, site, msg) in probs {
                nprob += 1;
                if nprob <= 300 {
                    let mut l = so.lock();
                    let _ = writeln!(l, "P {idx}\t{site}\t{}\t{stage}\t{}", one_line(&msg), vx::hex(text.as_bytes()));
                }
            }
        }
        let mut l = so.lock();
        let cs: Vec<String> = counts.iter().map(|(k, v)| format!("{k}={v}")).collect();
        let _ = writeln!(l, "S texts={n} full={nfull} seeds={} doc_examples={nex} {}", seeds.len(), cs.join(" "));
        let _ = writeln!(l, "DONE {n} {total}");
        let _ = l.flush();
    });
}

/// replay: `c05 filter-case <hex of text>`
fn filter_case_main(args: &[String]) {
    install_hook();
    let bytes = vx::unhex(args.first().map(|s| s.as_str()).unwrap_or("")).unwrap_or_default();
    let text = String::from_utf8_lossy(&bytes).into_owned();
    let h = std::thread::Builder::new().stack_size(256 << 20).spawn(move || {
        let (mut probs, o1) = check_filter_text(&text, false, false);
        let (p2, o2) = check_filter_text(&text, true, true);
        probs.extend(p2);
        println!("OUTCOME {o1} {o2}");
        for (stage, site, msg) in probs {
            println!("PROBLEM {stage}\t{site}\t{}", one_line(&msg));
        }
    });
    let _ = h.unwrap().join();
}

// ------------------------------------------------------------------------------------------
// documents: every decoder (and the writers on what they produce)
// ------------------------------------------------------------------------------------------

const FORMATS: &[(&str, jaq_fmts::Format)] = &[
    ("json", jaq_fmts::Format::Json),
    ("yaml", jaq_fmts::Format::Yaml),
    ("cbor", jaq_fmts::Format::Cbor),
    ("toml", jaq_fmts::Format::Toml),
    ("xml", jaq_fmts::Format::Xml),
    ("csv", jaq_fmts::Format::Csv),
    ("tsv", jaq_fmts::Format::Tsv),
    ("raw", jaq_fmts::Format::Raw),
    ("raw0", jaq_fmts::Format::Raw0),
];

fn doc_seeds(fmt: &str) -> Vec<Vec<u8>> {
    let t = |xs: &[&str]| xs.iter().map(|s| s.as_bytes().to_vec()).collect::<Vec<_>>();
    match fmt {
        "json" => {
            let mut v = t(&[
                "null true false 0 -0 1.5e3 1E-2 100000000000000000000 -9223372036854775808 9223372036854775808 1e1000 -1e-1000",
                "{\"a\": [1, 2, {\"b\": null}], \"c\": \"x\\u00e9\\ud83d\\ude00\\n\\t\\\"\\\\\\/\\b\\f\\r\"}",
                "[[], {}, [[]], {\"\": {}}, \"\", 0.1, 1.10]",
                "[1,2]\n{\"a\":1}\n\"s\" 3",
                "NaN Infinity -Infinity nan",
                "{1: 2, null: 3, [1]: 4, {\"a\": 1}: 5, true: 6}",
                "b\"bytes\\xff\\x00\" \"text\"",
                "# comment\n[1, # c\n 2] /* c */",
                "[1,2,]",
                "{\"a\":1,}",
                "\u{feff}[1]",
                "\"\\ud800\" \"\\udc00\\ud800\"",
                "[1e400, -1e400, 0e0, 0.0e-0, 1.7976931348623157e308, 5e-324, 2.2250738585072014e-308]",
                "123456789012345678901234567890.123456789012345678901234567890e-10",
            ]);
            v.push(b"\"\xff\xfe\" \"\xf0\x9f\"".to_vec());
            v.push(format!("{}1{}", "[".repeat(60), "]".repeat(60)).into_bytes());
            v.push(format!("{}1{}", "{\"a\":".repeat(60), "}".repeat(60)).into_bytes());
            v
        }
        "yaml" => t(&[
            "a: 1\nb:\n  - x\n  - y: [1, 2, {z: null}]\nc: |\n  block\n  text\nd: >-\n  folded\n  text\n",
            "--- 1\n--- two\n...\n--- [3]\n",
            "&a [1, 2]\n",
            "a: &x {b: 1}\nc: *x\nd: *x\n",
            "<<: {a: 1}\nb: 2\n",
            "? [complex, key]\n: value\n? {a: 1}\n: 2\n",
            "!!binary aGVsbG8=\n",
            "!!str 123\n",
            "!!int \"12\"\n",
            "!!float 1\n",
            "!custom {a: 1}\n",
            "!!set {a, b}\n",
            "!!omap [a: 1]\n",
            "!!null x\n",
            "!!bool yes\n",
            "- 0x1F\n- 0o17\n- 1_000\n- .inf\n- -.INF\n- .nan\n- 1e3\n- +1\n- ~\n- yes\n- No\n- 2001-12-14t21:59:43.10-05:00\n- 0b101\n- 012\n- 1:30\n",
            "\"dq \\x41 \\u00e9 \\U0001F600 \\n \\\n  cont\"\n",
            "'sq ''x'' '\n",
            "{a: [b, {c: d}], e: \"f\"}\n",
            "a:\n\tb: 1\n",
            "- - - - 1\n",
            "%YAML 1.2\n%TAG !e! tag:example.com,2000:\n---\n!e!foo bar\n",
            "a: *unknown\n",
            "&a [*a]\n",
            "key: |2\n    indented\n",
            "key: |+\n  keep\n\n\n",
            "- ? a\n  : b\n",
            "123456789012345678901234567890: 1\n-9223372036854775809: 2\n",
            "a: !!binary |\n  R0lGODlhDAAMAIQAAP\n",
            "\u{feff}a: 1\n",
            "a: 1 # comment\n# c\n",
            "- !!binary \"not base64!\"\n- !!int abc\n- !!float x\n- !!bool maybe\n",
        ]),
        "toml" => t(&[
            "a = 1\nb = \"s\"\nc = 1.5\nd = true\ne = [1, 2, [3]]\nf = {x = 1, y = {z = 2}}\n",
            "[t]\na = 1\n[t.u]\nb = 2\n[[arr]]\nx = 1\n[[arr]]\nx = 2\n[[arr.sub]]\ny = 3\n",
            "a.b.c = 1\n\"quoted key\".x = 2\n'lit' = 3\n\"\" = 4\n",
            "d1 = 1979-05-27T07:32:00Z\nd2 = 1979-05-27T00:32:00.999999-07:00\nd3 = 1979-05-27 07:32:00\nd4 = 1979-05-27\nd5 = 07:32:00\n",
            "i1 = 0xDEADBEEF\ni2 = 0o755\ni3 = 0b1101\ni4 = 1_000\ni5 = +99\ni6 = -9223372036854775808\ni7 = 9223372036854775807\ni8 = 9223372036854775808\n",
            "f1 = inf\nf2 = -inf\nf3 = nan\nf4 = +nan\nf5 = 6.626e-34\nf6 = 1e400\nf7 = 224_617.445_991_228\n",
            "s1 = \"\"\"multi\nline \\\n   trimmed\"\"\"\ns2 = '''lit\n'''\ns3 = \"\\u00e9\\U0001F600\\t\\\\\"\n",
            "a = [\n 1, # c\n 2,\n]\n# comment\n",
            "a = 1\na = 2\n",
            "[t]\n[t]\n",
            "a = {b = 1, b = 2}\n",
            "a = [1, \"x\", 1.5, {}]\n",
            "= 1\n",
            "a = \n",
            "[[a]]\n[a]\n",
        ]),
        "xml" => t(&[
            "<a/>",
            "<a b=\"1\" c='2'>text<d/>more<!-- comment --><![CDATA[ <cdata> ]]><?pi data?></a>",
            "<?xml version=\"1.0\" encoding=\"UTF-8\" standalone=\"yes\"?>\n<!DOCTYPE a [<!ENTITY e \"x\"><!ELEMENT a ANY>]>\n<a>&e;&amp;&lt;&gt;&quot;&apos;&#65;&#x41;&#xD800;&#0;&#1114112;</a>",
            "<ns:a xmlns:ns=\"u\" ns:b=\"1\"><ns:c/></ns:a>",
            "<a><b><c><d><e>deep</e></d></c></b></a>",
            "<a>1</a><b>2</b> text <c/>",
            "text only",
            "<a>&unknown;</a>",
            "<a><b></a></b>",
            "<a",
            "<a b=1>",
            "</a>",
            "<a></b>",
            "<!-- c --><a/><!-- d -->",
            "<?xml version=\"1.0\"?><?xml version=\"1.0\"?><a/>",
            "<a xmlns=\"u\" xmlns:x=\"v\" x:y=\"1\" y=\"2\"/>",
            "<a>\u{e9}\u{1f600}</a>",
            "<!DOCTYPE a SYSTEM \"x.dtd\"><a/>",
            "<!DOCTYPE a PUBLIC \"p\" \"s\" [ <!-- c --> <?pi?> ]><a/>",
            "<a b=\"&lt;&#10;\"/>",
            "<\u{e9}l\u{e9}ment attr\u{e9}=\"1\"/>",
        ]),
        "csv" => t(&[
            "a,b,c\n1,2,3\n",
            "\"q,1\",\"with \"\"quote\"\"\",\"multi\nline\"\r\n1,,\r\n",
            "1,2\n3\n\n4,5,6,7\n",
            "\"unclosed,1\n2",
            "a\"b,c\n",
            "\"a\"b,c\n",
            ",,\n",
            "1.5,-2e3,true,null,0x1,\u{e9}\n",
            "\"\"\n",
            "\"",
            "a,b\r",
            "\u{feff}a,b\n",
        ]),
        "tsv" => t(&[
            "a\tb\tc\n1\t2\t3\n",
            "x\\ty\\nz\\\\w\\r\t2\n",
            "bad\\escape\\q\t1\n",
            "trailing\\",
            "1\t\t\n\n\t\n",
            "a\tb\r\nc\td\r\n",
            "\u{e9}\t\u{1f600}\n",
            "\\",
            "\\\n",
        ]),
        "raw" | "raw0" => {
            let mut v = t(&["line1\nline2\r\nline3", "", "\n\n", "no newline"]);
            v.push(b"a\0b\0\0c\0".to_vec());
            v.push(b"\xff\xfe\n\x80\0".to_vec());
            v
        }
        "cbor" => {
            let hx = |s: &str| vx::unhex(s).unwrap();
            let mut v: Vec<Vec<u8>> = [
                "00", "17", "1818", "1903e8", "1a000f4240", "1b000000e8d4a51000", "1bffffffffffffffff", "20", "3863", "3903e7", "3bffffffffffffffff", "3b7fffffffffffffff",
                "3b8000000000000000", "c249010000000000000000", "c349010000000000000000", "c240", "c340", "c2420000", "c25f42010243030405ff", "c26161", "c200", "f90000", "f98000",
                "f93c00", "f97bff", "f97c00", "f97e00", "f9fc00", "fa47c35000", "fa7f800000", "fb3ff199999999999a", "fb7e37e43c8800759c", "fbfff0000000000000", "fb7ff8000000000000",
                "f4", "f5", "f6", "f7", "f0", "f818", "f8ff", "f800", "ff", "40", "4401020304", "60", "6161", "6449455446", "62225c", "62c3bc", "64f0908591", "62c328",
                "7f657374726561646d696e67ff", "5f42010243030405ff", "7f61ff", "5f6161ff", "7f4161ff", "80", "83010203", "8301820203820405",
                "98190102030405060708090a0b0c0d0e0f101112131415161718181819", "9f018202039f0405ffff", "9fff", "9f", "83018202039f0405ff", "826161a161626163", "a0", "a201020304",
                "a26161016162820203", "a56161614161626142616361436164614461656145", "bf61610161629f0203ffff", "bf6346756ef563416d7421ff", "a1a10102a10304", "a1820102820304",
                "a1f6f6", "a2010201030a", "bf01ff", "a101", "c074323031332d30332d32315432303a30343a30305a", "c11a514b67b0", "d74401020304", "d818456449455446",
                "d82076687474703a2f2f7777772e6578616d706c652e636f6d", "d9d9f783010203", "dbffffffffffffffff00", "9bffffffffffffffff01", "bbffffffffffffffff0102",
                "5bffffffffffffffff41", "7bffffffffffffffff61", "9a0001000001", "5a7fffffff00", "7a00100000", "1c", "1f", "3c", "5c", "7c", "9c", "bc", "dc", "fc", "fd", "fe",
                "0001f6", "8200", "a16161", "1800", "190000",
            ]
            .iter()
            .map(|s| hx(s))
            .collect();
            // deep-ish nesting
            let mut d = vec![0x81u8; 200];
            d.push(0);
            v.push(d);
            let mut d = vec![];
            for _ in 0..100 {
                d.extend([0xa1u8, 0x61, 0x61]);
            }
            d.push(0xf6);
            v.push(d);
            v
        }
        _ => vec![],
    }
}

const DOC_DICT: &[&[u8]] = &[
    b"{", b"}", b"[", b"]", b":", b",", b"\"", b"'", b"\\", b"\\u", b"\\ud800", b"\n", b"\r\n", b"\t", b" ", b"-", b"--- ", b"...", b"&a ", b"*a", b"!!binary ", b"!!int ", b"!",
    b"|", b">", b"?", b"# ", b"<<: ", b"<", b">", b"</", b"/>", b"<!--", b"-->", b"<![CDATA[", b"]]>", b"<?", b"?>", b"&", b"&#", b";", b"&#x110000;", b"<!DOCTYPE ", b"=", b"[[",
    b"]]", b"1979-05-27T07:32:00Z", b"0x", b"1e400", b"-0", b"nan", b"inf", b".inf", b"NaN", b"Infinity", b"9223372036854775808", b"-9223372036854775809", b"1e", b"1.",
    b"\xff", b"\x00", b"\xc3", b"\xf0\x9f\x98\x80", b"\xef\xbb\xbf", b"\xe2\x80\xa8", b"b\"", b"null", b"true", b"\x9f", b"\xbf", b"\x5f", b"\x7f", b"\xc2", b"\x1b", b"\x3b",
    b"\xf9", b"\xfb", b"\x9b\xff\xff\xff\xff\xff\xff\xff\xff", b"\xbb\xff\xff\xff\xff\xff\xff\xff\xff",
];

fn mutate_doc(r: &mut Rng, seeds: &[Vec<u8>]) -> Vec<u8> {
    let mut b = seeds[r.below(seeds.len())].clone();
    let nops = r.below(5);
    for _ in 0..nops {
        if b.is_empty() {
            b.extend_from_slice(DOC_DICT[r.below(DOC_DICT.len())]);
            continue;
        }
        let i = r.below(b.len());
        match r.below(10) {
            0 => b.truncate(i),
            1 => b[i] ^= 1 << r.below(8),
            2 => b.insert(i, r.next() as u8),
            3 => {
                b.remove(i);
            }
            4 | 5 => {
                let d = DOC_DICT[r.below(DOC_DICT.len())];
                b.splice(i..i, d.iter().copied());
            }
            6 => {
                // splice with another seed
                let o = &seeds[r.below(seeds.len())];
                if !o.is_empty() {
                    let j = r.below(o.len());
                    b.truncate(i);
                    b.extend_from_slice(&o[j..]);
                }
            }
            7 => {
                // duplicate a range
                let span = (b.len() - i).min(24) + 1;
                let j = i + r.below(span);
                let seg = b[i..j].to_vec();
                let times = 1 + r.below(4);
                for _ in 0..times {
                    b.splice(i..i, seg.iter().copied());
                }
            }
            8 => {
                // bounded nesting
                let pairs: [(&[u8], &[u8]); 9] = [(b"[", b"]"), (b"{\"a\":", b"}"), (b"<a>", b"</a>"), (b"- ", b""), (b"\x81", b""), (b"\xa1\x00", b""), (b"{a: ", b"}"), (b"[[", b"]]"), (b"\x9f", b"\xff")];
                let (o, c) = pairs[r.below(pairs.len())];
                let depth = 1 + r.below(80);
                let mut n: Vec<u8> = vec![];
                for _ in 0..depth {
                    n.extend_from_slice(o);
                }
                n.extend_from_slice(&b);
                for _ in 0..depth {
                    n.extend_from_slice(c);
                }
                b = n;
            }
            _ => {
                let j = r.below(b.len());
                b.swap(i, j);
            }
        }
        if b.len() > 6000 {
            b.truncate(6000);
        }
    }
    b
}

struct DocFilters {
    from: Vec<(&'static str, Filter)>,
    to: Vec<(&'static str, Filter)>,
}

fn doc_filters() -> DocFilters {
    let c = |t: &'static str| (t, compile(t).unwrap_or_else(|e| panic!("{t}: {e}")));
    DocFilters {
        from: vec![c("fromjson"), c("fromyaml"), c("fromcbor"), c("fromtoml"), c("fromxml"), c("fromcsv"), c("fromtsv")],
        to: vec![
            c("tojson"),
            c("toyaml"),
            c("tocbor"),
            c("totoml"),
            c("toxml"),
            c("tocsv"),
            c("totsv"),
            c("tostring"),
            c("[..]|length"),
            c("[paths]|length"),
            c("tojson|fromjson"),
            c("toyaml|fromyaml"),
            c("tocbor|fromcbor"),
            c("[.[]?]|sort|unique|length"),
            c("@text, @json, @html, @uri, @sh?, @base64, @csv?, @tsv?"),
        ],
    }
}

/// Everything jaq does with a document in format `fi`; returns problems and (values, errors) counts.
fn check_doc(fi: usize, bytes: &[u8], df: &DocFilters, variant: u64) -> (Vec<Problem>, u64, u64) {
    use jaq_fmts::write::Writer;
    let (fname, fmt) = FORMATS[fi];
    let mut probs = vec![];
    let (mut nv, mut ne) = (0u64, 0u64);
    let mut vals: Vec<Val> = vec![];
    let slurp = variant % 2 == 1;
    // the CLI's two reading paths: memory-mapped file (`parse`) and stream (`read`)
    let r = guarded(|| {
        let b = bytes::Bytes::from(bytes.to_vec());
        let mut out = vec![];
        let mut errs = 0;
        match jaq_fmts::read::bytes_str(fmt, &b) {
            Err(e) => {
                let _ = e.to_string();
                errs += 1;
            }
            Ok(s) => {
                for y in jaq_fmts::read::parse(fmt, &b, s, slurp).take(60) {
                    match y {
                        Ok(v) => out.push(v),
                        Err(e) => {
                            let _ = e.to_string();
                            errs += 1;
                            break;
                        }
                    }
                }
                for y in jaq_fmts::read::read(fmt, &b[..], s, slurp).take(60) {
                    match y {
                        Ok(_) => {}
                        Err(e) => {
                            let _ = e.to_string();
                            break;
                        }
                    }
                }
            }
        }
        (out, errs)
    });
    match r {
        Ok((v, e)) => {
            nv += v.len() as u64;
            ne += e;
            vals = v;
        }
        Err((site, msg)) => {
            if excepted(&msg).is_none() {
                probs.push((format!("read-{fname}"), site, msg));
            }
        }
    }
    // the from* filters on the same bytes as text string and as byte string
    if fi < df.from.len() {
        let (name, f) = &df.from[fi];
        for inp in [Val::utf8_str(bytes.to_vec()), Val::byte_str(bytes.to_vec())] {
            if let Err((site, msg)) = guarded(|| run_case(f, inp, vec![], 60)) {
                if excepted(&msg).is_none() {
                    probs.push((name.to_string(), site, msg));
                }
            }
        }
    }
    // writers on the values that were read
    for v in vals.iter().take(3) {
        let mut w = Writer::default();
        for (wname, wfmt) in FORMATS {
            w.format = *wfmt;
            w.join = variant % 3 == 0;
            w.pp.indent = match variant % 4 {
                0 => None,
                1 => Some("  ".into()),
                2 => Some("\t".into()),
                _ => Some(String::new()),
            };
            w.pp.sort_keys = variant % 5 == 0;
            w.pp.sep_space = variant % 7 < 3;
            let mut sink = SmallSink(0);
            if let Err((site, msg)) = guarded(|| jaq_fmts::write::write(&mut sink, &w, v).map_err(|e| e.to_string())) {
                if excepted(&msg).is_none() {
                    probs.push((format!("write-{wname}"), site, msg));
                }
            }
        }
        for (name, f) in &df.to {
            if let Err((site, msg)) = guarded(|| run_case(f, v.clone(), vec![], 20)) {
                if excepted(&msg).is_none() {
                    probs.push((format!("filter:{name}"), site, msg));
                }
            }
        }
    }
    (probs, nv, ne)
}

fn docs_total(o: &Opts) -> u64 {
    if o.thorough {
        2_400_000
    } else {
        160_000
    }
}

fn doc_case(o: &Opts, seeds: &[Vec<Vec<u8>>], idx: u64) -> (usize, Vec<u8>) {
    let fi = (idx % FORMATS.len() as u64) as usize;
    let k = idx / FORMATS.len() as u64;
    let ss = &seeds[fi];
    if (k as usize) < ss.len() {
        return (fi, ss[k as usize].clone());
    }
    let mut r = Rng::new(o.seed ^ 0xD0C5 ^ idx.wrapping_mul(0x9E3779B97F4A7C15));
    (fi, mutate_doc(&mut r, ss))
}

fn docs_main(args: &[String]) {
    let mut o = parse_opts(args);
    install_hook();
    let total = docs_total(&o);
    if let Some(idx) = o.describe {
        let seeds: Vec<Vec<Vec<u8>>> = FORMATS.iter().map(|(n, _)| doc_seeds(n)).collect();
        let (fi, b) = doc_case(&o, &seeds, idx);
        println!("{}\t{}", FORMATS[fi].0, vx::hex(&b));
        return;
    }
    if !o.describe_many.is_empty() {
        let seeds: Vec<Vec<Vec<u8>>> = FORMATS.iter().map(|(n, _)| doc_seeds(n)).collect();
        for idx in &o.describe_many {
            let (fi, b) = doc_case(&o, &seeds, *idx);
            println!("{}\t{}", FORMATS[fi].0, vx::hex(&b));
        }
        return;
    }
    o.watchdog();
    on_big_stack(move || {
        let seeds: Vec<Vec<Vec<u8>>> = FORMATS.iter().map(|(n, _)| doc_seeds(n)).collect();
        let df = doc_filters();
        let so = std::io::stdout();
        let mut per: Vec<(u64, u64, u64)> = vec![(0, 0, 0); FORMATS.len()];
        let (mut n, mut nprob) = (0u64, 0u64);
        for idx in 0..total {
            if !o.mine(idx) {
                continue;
            }
            if o.out_of_budget() {
                break;
            }
            let (fi, bytes) = doc_case(&o, &seeds, idx);
            o.begin(idx);
            let (probs, nv, ne) = check_doc(fi, &bytes, &df, idx / 9);
            o.end_case();
            n += 1;
            per[fi].0 += 1;
            per[fi].1 += (nv > 0) as u64;
            per[fi].2 += (ne > 0) as u64;
            for (stage, site, msg) in probs {
                nprob += 1;
                if nprob <= 300 {
                    let mut l = so.lock();
                    let _ = writeln!(l, "P {idx}\t{site}\t{}\t{stage}\t{}\t{}", one_line(&msg), FORMATS[fi].0, vx::hex(&bytes));
                }
            }
        }
        let mut l = so.lock();
        let cs: Vec<String> = per.iter().enumerate().map(|(i, (c, v, e))| format!("{}={c}/{v}/{e}", FORMATS[i].0)).collect();
        let _ = writeln!(l, "S docs={n} {}", cs.join(" "));
        let _ = writeln!(l, "DONE {n} {total}");
        let _ = l.flush();
    });
}

/// replay: `c05 doc-case <format> <hex>`
fn doc_case_main(args: &[String]) {
    install_hook();
    let fname = args.first().cloned().unwrap_or_default();
    let bytes = vx::unhex(args.get(1).map(|s| s.as_str()).unwrap_or("")).unwrap_or_default();
    let h = std::thread::Builder::new().stack_size(256 << 20).spawn(move || {
        let Some(fi) = FORMATS.iter().position(|(n, _)| *n == fname) else {
            println!("unknown format");
            return;
        };
        let df = doc_filters();
        let mut all = vec![];
        for variant in 0..12 {
            let (p, _, _) = check_doc(fi, &bytes, &df, variant);
            all.extend(p);
        }
        all.sort();
        all.dedup();
        println!("OUTCOME {}", if all.is_empty() { "ok" } else { "problems" });
        for (stage, site, msg) in all {
            println!("PROBLEM {stage}\t{site}\t{}", one_line(&msg));
        }
    });
    let _ = h.unwrap().join();
}

// ------------------------------------------------------------------------------------------
// kernels: correspondence cases `<id>\t<request>\t<real answer>` for JaqVerif/C05/Kernels.lean
// ------------------------------------------------------------------------------------------

fn kernel_ints() -> Vec<Val> {
    let mut v: Vec<Val> = [0isize, 1, -1, 2, -2, 3, -3, 4, -4, 5, -5, 6, -6, 7, -7, 11, -11, 12, -12, 255, -255, 256, isize::MAX, isize::MIN, isize::MAX - 1, isize::MIN + 1]
        .iter()
        .map(|i| int(*i))
        .collect();
    for b in ["9223372036854775808", "-9223372036854775809", "18446744073709551615", "-18446744073709551615", "18446744073709551616", "-18446744073709551616", "3", "-2", "0"] {
        v.push(bigs(b));
    }
    v
}

fn bound_tok(v: &Option<Val>) -> String {
    match v {
        None => "-".into(),
        Some(v) => vx::enc(v),
    }
}

/// run a filter with variables; `Ok(values)`, `Err("err")`, or `Err("P\tsite")`
fn kernel_run(f: &Filter, input: Val, vars: Vec<Val>) -> Result<Vec<Val>, String> {
    match guarded(|| run_with(f, input, vars, vec![], 10)) {
        Err((site, _msg)) => Err(format!("P\t{site}")),
        Ok(items) => {
            let mut out = vec![];
            for i in items {
                match i {
                    Item::Val(v) => out.push(v),
                    _ => return Err("err".into()),
                }
            }
            Ok(out)
        }
    }
}

fn kernels_main(args: &[String]) {
    install_hook();
    // a panic while the filters of the cases are being compiled (e.g. an assertion of the compiler that
    // fires for every program) is a finding of its own, not a failure of the harness
    if let Err((site, msg)) = guarded(|| kernels_body(args)) {
        let req = if site.contains("compile.rs") { "c05.cwalk L" } else { "c05.setup x" };
        eprintln!("kernels: panic while preparing the cases: {site}: {}", one_line(&msg));
        println!("k0\t{req}\tP\t{site}");
    }
}

fn kernels_body(args: &[String]) {
    let ints = kernel_ints();
    let mut bounds: Vec<Option<Val>> = vec![None];
    bounds.extend(ints.iter().cloned().map(Some));
    let ans = |r: &Result<Vec<Val>, String>| -> Option<String> {
        match r {
            Err(e) => Some(e.split('\t').next().unwrap().to_string()),
            Ok(_) => None,
        }
    };
    let site = |r: &Result<Vec<Val>, String>| -> String {
        match r {
            Err(e) if e.starts_with("P\t") => e[2..].to_string(),
            _ => String::new(),
        }
    };
    let mut n = 0;
    let mut emit = |req: String, real: String, site: String| {
        n += 1;
        println!("k{n}\t{req}\t{real}\t{site}");
    };
    // 1. `.[i]` on arrays: abs_index + indexing
    let f_idx = compile_vars(".[$a0]", &["a0".into()]).unwrap();
    for len in [0usize, 1, 2, 5] {
        let a = arr((0..len as isize).map(int).collect());
        for i in &ints {
            let r = kernel_run(&f_idx, a.clone(), vec![i.clone()]);
            let real = ans(&r).unwrap_or_else(|| match r.as_ref().unwrap().first() {
                Some(Val::Num(Num::Int(k))) => format!("some {k}"),
                _ => "none".into(),
            });
            emit(format!("c05.index {} {len}", vx::enc(i)), real, site(&r));
        }
    }
    // 2. `.[a:b]` on arrays: skip_take + range
    let f_sl = compile_vars(".[$a0:$a1]", &["a0".into(), "a1".into()]).unwrap();
    let opt = |o: &Option<Val>| o.clone().unwrap_or(Val::Null);
    for len in [0usize, 1, 3, 6] {
        let a = arr((0..len as isize).map(int).collect());
        for lo in &bounds {
            for hi in &bounds {
                let r = kernel_run(&f_sl, a.clone(), vec![opt(lo), opt(hi)]);
                let real = ans(&r).unwrap_or_else(|| match r.as_ref().unwrap().first() {
                    Some(Val::Arr(x)) if !x.is_empty() => match &x[0] {
                        Val::Num(Num::Int(k)) => format!("{k} {}", x.len()),
                        _ => "?".into(),
                    },
                    Some(Val::Arr(_)) => "- 0".into(),
                    _ => "?".into(),
                });
                emit(format!("c05.skiptake {} {} {len}", bound_tok(lo), bound_tok(hi)), real, site(&r));
            }
        }
    }
    // 3. `.[a:b]` on text strings: skip_take_chars (distinct characters of 1..4 bytes)
    for text in ["a\u{e9}\u{20ac}\u{1f600}b", "", "xyz", "\u{1f600}\u{e9}"] {
        let starts: Vec<String> = text.char_indices().map(|(i, _)| i.to_string()).collect();
        let st = if starts.is_empty() { "-".to_string() } else { starts.join(",") };
        for lo in &bounds {
            for hi in &bounds {
                let r = kernel_run(&f_sl, tstr(text.as_bytes()), vec![opt(lo), opt(hi)]);
                let real = ans(&r).unwrap_or_else(|| match r.as_ref().unwrap().first() {
                    Some(Val::TStr(b)) if !b.is_empty() => {
                        let sub = std::str::from_utf8(b).unwrap_or("?");
                        match text.find(sub) {
                            Some(off) => format!("{off} {}", b.len()),
                            None => "?".into(),
                        }
                    }
                    Some(Val::TStr(_)) => "- 0".into(),
                    _ => "?".into(),
                });
                emit(format!("c05.stc {} {st} {} {}", text.len(), bound_tok(lo), bound_tok(hi)), real, site(&r));
            }
        }
    }
    // 4. `.[a:b] = r` on byte and text strings: bytes_splice
    let f_up = compile_vars(".[$a0:$a1] = $a2", &["a0".into(), "a1".into(), "a2".into()]).unwrap();
    let small: Vec<Option<Val>> = bounds.iter().filter(|b| match b {
        None => true,
        Some(Val::Num(Num::Int(i))) => i.unsigned_abs() <= 7 || *i == isize::MAX || *i == isize::MIN,
        Some(_) => false,
    }).cloned().collect();
    for (op, mk) in [("c05.spliceb", bstr as fn(&[u8]) -> Val), ("c05.splicec", tstr as fn(&[u8]) -> Val)] {
        for base in ["abcdef", "a\u{e9}\u{20ac}\u{1f600}b", ""] {
            for rep in ["", "XY", "UVWXYZ0123456"] {
                for lo in &small {
                    for hi in &small {
                        let r = kernel_run(&f_up, mk(base.as_bytes()), vec![opt(lo), opt(hi), mk(rep.as_bytes())]);
                        let real = ans(&r).unwrap_or_else(|| match r.as_ref().unwrap().first() {
                            Some(Val::TStr(b)) | Some(Val::BStr(b)) => format!("x{}", vx::hex(b)),
                            _ => "?".into(),
                        });
                        emit(format!("{op} {} {} x{} x{}", bound_tok(lo), bound_tok(hi), vx::hex(base.as_bytes()), vx::hex(rep.as_bytes())), real, site(&r));
                    }
                }
            }
        }
    }
    // 5. `[i] | implode`
    let f_imp = compile("implode").unwrap();
    let mut is: Vec<isize> = vec![0, 1, -1, 65, -65, 127, 128, -128, 255, -255, 256, -256, 0x7ff, 0x800, 0xd7ff, 0xd800, 0xdfff, 0xe000, 0xffff, 0x10000, 0x10ffff, 0x110000, -0x110000, u32::MAX as isize, u32::MAX as isize + 1, isize::MAX, isize::MIN, isize::MIN + 1, isize::MIN + 255, isize::MIN + 256];
    let mut r = Rng::new(crate::prng::seed_from_env() ^ 0x1347);
    for _ in 0..200 {
        let x = r.next() as isize;
        is.push(x >> r.below(64));
    }
    for i in is {
        let r = kernel_run(&f_imp, arr(vec![int(i)]), vec![]);
        let real = ans(&r).unwrap_or_else(|| match r.as_ref().unwrap().first() {
            Some(Val::TStr(b)) => format!("x{}", vx::hex(b)),
            _ => "?".into(),
        });
        emit(format!("c05.implode {i}"), real, site(&r));
    }
    // 6. lexer `space`: the span of the error reported right after whitespace and comments
    let spaces = [
        "", " ", "#", "# c", "# c\n", "# c\n ", " \t\r\n# a\n# b", "#\\\n x", "# a\\\\\n y", "# a\\\r\n still comment\n z", "#\\", "#\\\\", "\u{a0}\u{2028}#x\n\u{3000}", "x", "  x#", "#\n#\n#",
        "# \u{e9}\n\u{e9}", "#a\\\n", "#a\\\n\n", "\u{85}\u{1680}", "\u{b}\u{c}#\r", "#\r", "#\r\n", "# x \\\r", "\n\n\n", "#\n\\",
    ];
    for s in spaces {
        let code = format!("({s}");
        // the error `(Expect::Delim("("), self.i)` is pushed after `tokens()` and `space()`;
        // only cases in which `s` lexes to no token exercise `space` alone
        let r = guarded(|| {
            match jaq_core::load::Lexer::new(&code).lex() {
                Ok(_) => "lexed".to_string(),
                Err(errs) => {
                    let found = errs.iter().find_map(|(e, f)| matches!(e, jaq_core::load::lex::Expect::Delim(_)).then_some(*f));
                    match found {
                        None => "other-error".into(),
                        Some(f) => {
                            if span_ok(&code, f) {
                                format!("in {}", f.chars().count())
                            } else {
                                "detached".into()
                            }
                        }
                    }
                }
            }
        });
        let real = match r {
            Ok(x) => x,
            Err(_) => "P".into(),
        };
        // only texts that lex to no token at all are pure `space` cases
        let pure = matches!(guarded(|| jaq_core::load::Lexer::new(s).lex().map(|t| t.len())), Ok(Ok(0)));
        if !pure {
            continue;
        }
        emit(format!("c05.space x{}", vx::hex(s.as_bytes())), real, String::new());
    }
    // 7. CBOR negative integers
    for nn in [0u64, 1, 23, 24, 255, 256, 65535, 65536, u32::MAX as u64, u32::MAX as u64 + 1, i64::MAX as u64 - 1, i64::MAX as u64, i64::MAX as u64 + 1, u64::MAX - 1, u64::MAX] {
        let mut b = vec![0x3bu8];
        b.extend_from_slice(&nn.to_be_bytes());
        let r = guarded(|| jaq_fmts::read::cbor::parse_many(&b).next().map(|r| r.map_err(|e| e.to_string())));
        let real = match r {
            Err(_) => "P".to_string(),
            Ok(Some(Ok(Val::Num(Num::Int(i))))) => i.to_string(),
            Ok(Some(Ok(Val::Num(Num::BigInt(i))))) => i.to_string(),
            Ok(_) => "?".to_string(),
        };
        emit(format!("c05.cborneg {nn}"), real, String::new());
    }
    kernels_round2(args, &mut emit);
}

// ------------------------------------------------------------------------------------------
// round 2 kernels: regex offsets, strip_fix, conversions, bsearch, indices, native environments,
// the compiler's `Locals`
// ------------------------------------------------------------------------------------------

/// skeleton of a parsed term: exactly the operations `Compiler::term` performs on `self.locals`
/// (mirrors `CTm` in lean/JaqVerif/C05/Compile.lean)
enum Sk {
    L,
    V(usize),
    B(usize),
    C(usize, usize, Box<Sk>),
    N(Box<Sk>, Box<Sk>),
    La(usize, Box<Sk>),
    Bi(Vec<usize>, Box<Sk>, Box<Sk>, Box<Sk>),
    D(usize, Vec<(bool, usize)>, Box<Sk>, Box<Sk>),
}

#[derive(Default)]
struct SkCtx {
    names: std::collections::BTreeMap<String, usize>,
    binders: usize,
}

impl SkCtx {
    fn id(&mut self, s: &str) -> usize {
        let n = self.names.len();
        *self.names.entry(s.to_string()).or_insert(n)
    }
    fn seq(items: Vec<Sk>) -> Sk {
        let mut acc = Sk::L;
        for i in items.into_iter().rev() {
            acc = Sk::N(Box::new(i), Box::new(acc));
        }
        acc
    }
    fn pat_keys(&mut self, p: &jaq_core::load::parse::Pattern<&str>, out: &mut Vec<Sk>) {
        use jaq_core::load::parse::Pattern;
        match p {
            Pattern::Var(_) => {}
            Pattern::Arr(a) => a.iter().for_each(|p| self.pat_keys(p, out)),
            Pattern::Obj(o) => {
                for (k, p) in o {
                    out.push(self.term(k));
                    self.pat_keys(p, out);
                }
            }
        }
    }
    fn pat_vars(&mut self, p: &jaq_core::load::parse::Pattern<&str>, out: &mut Vec<usize>) {
        use jaq_core::load::parse::Pattern;
        match p {
            Pattern::Var(x) => out.push(self.id(x)),
            Pattern::Arr(a) => a.iter().for_each(|p| self.pat_vars(p, out)),
            Pattern::Obj(o) => o.iter().for_each(|(_, p)| self.pat_vars(p, out)),
        }
    }
    fn empty_call(&mut self) -> Sk {
        Sk::C(self.id("!empty"), 0, Box::new(Sk::L))
    }
    fn defs(&mut self, defs: &[jaq_core::load::parse::Def<&str>], rest: Sk) -> Sk {
        let mut acc = rest;
        for d in defs.iter().rev() {
            self.binders += 1;
            let args = d.args.iter().map(|a| (a.starts_with('$'), self.id(a))).collect();
            let body = self.term(&d.body);
            acc = Sk::D(self.id(d.name), args, Box::new(body), Box::new(acc));
        }
        acc
    }
    fn term(&mut self, t: &jaq_core::load::parse::Term<&str>) -> Sk {
        use jaq_core::load::parse::{BinaryOp, Term};
        use jaq_core::path::Part;
        match t {
            Term::Id | Term::Recurse | Term::Num(_) => Sk::L,
            Term::Arr(None) => self.empty_call(),
            Term::Arr(Some(t)) | Term::Neg(t) => self.term(t),
            Term::Label(x, t) => {
                self.binders += 1;
                Sk::La(self.id(x), Box::new(self.term(t)))
            }
            Term::Break(x) => Sk::B(self.id(x)),
            Term::IfThenElse(its, else_) => {
                let mut v = vec![];
                for (i, t) in its {
                    v.push(self.term(i));
                    v.push(self.term(t));
                }
                if let Some(e) = else_ {
                    v.push(self.term(e));
                }
                Self::seq(v)
            }
            Term::Var(x) => Sk::V(self.id(x)),
            Term::Call(name, args) => {
                let a: Vec<Sk> = args.iter().map(|t| self.term(t)).collect();
                let n = a.len();
                if name.contains("::") {
                    Self::seq(a)
                } else {
                    Sk::C(self.id(name), n, Box::new(Self::seq(a)))
                }
            }
            Term::Def(defs, t) => {
                let rest = self.term(t);
                self.defs(defs, rest)
            }
            Term::TryCatch(a, b) => {
                let a = self.term(a);
                let b = match b {
                    Some(b) => self.term(b),
                    None => self.empty_call(),
                };
                Self::seq(vec![a, b])
            }
            Term::Fold(name, xs, pat, args) => {
                if args.len() < 2 {
                    return Sk::L;
                }
                self.binders += 1;
                let mut vars = vec![];
                self.pat_vars(pat, &mut vars);
                let mut v = vec![self.term(xs)];
                self.pat_keys(pat, &mut v);
                v.push(self.term(&args[0]));
                let upd = self.term(&args[1]);
                v.push(Sk::Bi(vars.clone(), Box::new(Sk::L), Box::new(upd), Box::new(Sk::L)));
                if *name == "foreach" && args.len() == 3 {
                    let proj = self.term(&args[2]);
                    v.push(Sk::Bi(vars, Box::new(Sk::L), Box::new(proj), Box::new(Sk::L)));
                }
                Self::seq(v)
            }
            Term::BinOp(l, op, r) => {
                let l = self.term(l);
                match op {
                    BinaryOp::Pipe(Some(pat)) => {
                        self.binders += 1;
                        let mut vars = vec![];
                        self.pat_vars(pat, &mut vars);
                        let r = self.term(r);
                        let mut keys = vec![];
                        self.pat_keys(pat, &mut keys);
                        Sk::Bi(vars, Box::new(l), Box::new(r), Box::new(Self::seq(keys)))
                    }
                    _ => {
                        let r = self.term(r);
                        Sk::N(Box::new(l), Box::new(r))
                    }
                }
            }
            Term::Path(t, path) => {
                let mut v = vec![self.term(t)];
                for (part, _opt) in &path.0 {
                    match part {
                        Part::Index(i) => v.push(self.term(i)),
                        Part::Range(a, b) => {
                            if let Some(a) = a {
                                v.push(self.term(a));
                            }
                            if let Some(b) = b {
                                v.push(self.term(b));
                            }
                        }
                    }
                }
                Self::seq(v)
            }
            Term::Str(fmt, parts) => {
                let mut v = vec![];
                if let Some(fmt) = fmt {
                    v.push(Sk::C(self.id(fmt), 0, Box::new(Sk::L)));
                }
                for p in parts {
                    if let jaq_core::load::lex::StrPart::Term(f) = p {
                        v.push(self.term(f));
                    }
                }
                Self::seq(v)
            }
            Term::Obj(o) => {
                let mut v = vec![];
                for (k, val) in o {
                    v.push(self.term(k));
                    if let Some(val) = val {
                        v.push(self.term(val));
                    }
                }
                Self::seq(v)
            }
        }
    }
}

fn sk_tokens(t: &Sk, out: &mut Vec<String>) {
    match t {
        Sk::L => out.push("L".into()),
        Sk::V(x) => {
            out.push("V".into());
            out.push(x.to_string());
        }
        Sk::B(x) => {
            out.push("B".into());
            out.push(x.to_string());
        }
        Sk::C(n, a, args) => {
            out.push("C".into());
            out.push(n.to_string());
            out.push(a.to_string());
            sk_tokens(args, out);
        }
        Sk::N(l, r) => {
            out.push("N".into());
            sk_tokens(l, out);
            sk_tokens(r, out);
        }
        Sk::La(x, t) => {
            out.push("La".into());
            out.push(x.to_string());
            sk_tokens(t, out);
        }
        Sk::Bi(vars, l, r, k) => {
            out.push("Bi".into());
            out.push(vars.len().to_string());
            out.extend(vars.iter().map(|v| v.to_string()));
            sk_tokens(l, out);
            sk_tokens(r, out);
            sk_tokens(k, out);
        }
        Sk::D(name, args, body, rest) => {
            out.push("D".into());
            out.push(name.to_string());
            out.push(args.len().to_string());
            out.extend(args.iter().map(|(v, x)| format!("{}{x}", if *v { "v" } else { "f" })));
            sk_tokens(body, out);
            sk_tokens(rest, out);
        }
    }
}

/// random filter text rich in binders (definitions with `$`/filter arguments, nested and sibling
/// definitions, patterns with computed keys, labels, folds, shadowing)
fn gen_binder_text(r: &mut Rng, depth: u32) -> String {
    let v = ["$x", "$y", "$z", "$x"][r.below(4) as usize];
    let f = ["f", "g", "h", "f"][r.below(4) as usize];
    if depth == 0 {
        return match r.below(8) {
            0 => ".".into(),
            1 => v.into(),
            2 => f.into(),
            3 => format!("{f}({v})"),
            4 => format!("{f}(.; {v})"),
            5 => "break $l".into(),
            6 => format!("{f}({f})"),
            _ => "1".into(),
        };
    }
    let a = gen_binder_text(r, depth - 1);
    let b = gen_binder_text(r, depth - 1);
    match r.below(14) {
        0 => format!("def {f}: {a}; {b}"),
        1 => format!("def {f}({v}): {a}; {b}"),
        2 => format!("def {f}(g; {v}): {a}; def g(f): {b}; {f}(.; 1) | g(.)"),
        3 => format!("({a}) as {v} | {b}"),
        4 => format!("({a}) as [{v}, {{a: $y, ({b}): [$z]}}] | {v}, $y, $z"),
        5 => format!("({a}) as {{{v}}} ?// [{v}] | {b}"),
        6 => format!("label $l | ({a}), ({b})"),
        7 => format!("reduce ({a}) as {v} (0; {b})"),
        8 => format!("foreach ({a}) as [{v}, $y] (0; {b}; {v}, $y)"),
        9 => format!("def {f}({f}): def {f}: {a}; {f}; {f}({b})"),
        10 => format!("[{a}, {b}]"),
        11 => format!("{{({a}): {v}, {v}}} | \"s\\({b})\""),
        12 => format!("if {a} then {b} else {f} end"),
        _ => format!("try ({a}) catch ({b})"),
    }
}

fn kernels_round2(args: &[String], emit: &mut dyn FnMut(String, String, String)) {
    let ans = |r: &Result<Vec<Val>, String>| -> Option<String> {
        match r {
            Err(e) => Some(e.split('\t').next().unwrap().to_string()),
            Ok(_) => None,
        }
    };
    let site = |r: &Result<Vec<Val>, String>| -> String {
        match r {
            Err(e) if e.starts_with("P\t") => e[2..].to_string(),
            _ => String::new(),
        }
    };
    let mut rng = Rng::new(crate::prng::seed_from_env() ^ 0x52e9);
    let nums = |v: &[usize]| if v.is_empty() { "-".to_string() } else { v.iter().map(|x| x.to_string()).collect::<Vec<_>>().join(",") };

    // 8. regex: `ByteChar::char_of_byte` / `Match::new` over capture groups whose starts are not ordered.
    // Family A: `(?:(A)|(B))+` over texts of characters of 1..4 bytes; the byte offsets of the groups are
    // computed here by a naive matcher (a maximal run of A/B characters is one match; a group holds its
    // LAST occurrence in the run), independently of the code under test.
    let f_off = compile("[match($a0; \"g\") | .offset, (.captures[] | .offset)]");
    let f_off = match f_off {
        Ok(f) => f,
        Err(_) => compile_vars("[match($a0; \"g\") | .offset, (.captures[] | .offset)]", &["a0".into()]).unwrap(),
    };
    let alphabet = ["a", "b", "\u{e9}", "\u{20ac}", "\u{1f600}", "x", "-"];
    for case in 0..160 {
        let n = 1 + rng.below(9) as usize;
        let ca = alphabet[rng.below(5) as usize];
        let mut cb = alphabet[rng.below(5) as usize];
        if cb == ca {
            cb = if ca == "a" { "b" } else { "a" };
        }
        let mut text = String::new();
        for _ in 0..n {
            let k = rng.below(10);
            text.push_str(if k < 4 { ca } else if k < 8 { cb } else { alphabet[5 + rng.below(2) as usize] });
        }
        if case == 0 {
            text = "ba".into();
        }
        let (ca, cb) = if case == 0 { ("a", "b") } else { (ca, cb) };
        // naive matcher
        let mut starts: Vec<usize> = vec![];
        let mut run: Option<(usize, Option<usize>, Option<usize>)> = None;
        for (i, ch) in text.char_indices() {
            let s = ch.to_string();
            if s == ca || s == cb {
                let mut cur = run.unwrap_or((i, None, None));
                if s == ca {
                    cur.1 = Some(i)
                } else {
                    cur.2 = Some(i)
                }
                run = Some(cur);
            } else if let Some((w, a, b)) = run.take() {
                starts.push(w);
                starts.extend(a);
                starts.extend(b);
            }
        }
        if let Some((w, a, b)) = run.take() {
            starts.push(w);
            starts.extend(a);
            starts.extend(b);
        }
        let re = format!("(?:({ca})|({cb}))+");
        let r = kernel_run(&f_off, tstr(text.as_bytes()), vec![tstr(re.as_bytes())]);
        let real = ans(&r).unwrap_or_else(|| match r.as_ref().unwrap().first() {
            Some(Val::Arr(x)) => {
                let v: Vec<usize> = x.iter().filter_map(|v| match v { Val::Num(Num::Int(i)) => Some(*i as usize), _ => None }).collect();
                if v.len() == x.len() { nums(&v) } else { "?".into() }
            }
            _ => "?".into(),
        });
        emit(format!("c05.regexoff x{} {}", vx::hex(text.as_bytes()), nums(&starts)), real, site(&r));
    }
    // Family B: other shapes of regexes (empty matches, optional and named groups, lazy quantifiers);
    // the byte starts are recomputed from the reported character offsets (consistency + no panic)
    for (text, re) in [
        ("a\u{e9}b\u{20ac}", ""), ("a\u{e9}b\u{20ac}", "(?<x>.)(?<y>.)?"), ("\u{1f600}ab\u{1f600}", "(.*?)(b)"), ("abcabc", "(c)?(b)?(a)?"),
        ("\u{e9}\u{e9}\u{e9}", "(\u{e9})*?"), ("x\u{20ac}y", "\\b"), ("aXbXc", "(?:(X)|(.))*"), ("", "()"), ("ab", "(?:(b)|(a)|())+"),
    ] {
        let r = kernel_run(&f_off, tstr(text.as_bytes()), vec![tstr(re.as_bytes())]);
        let bounds: Vec<usize> = text.char_indices().map(|(i, _)| i).chain(std::iter::once(text.len())).collect();
        let (real, starts) = match ans(&r) {
            Some(e) => (e, vec![]),
            None => match r.as_ref().unwrap().first() {
                Some(Val::Arr(x)) => {
                    let v: Vec<usize> = x.iter().filter_map(|v| match v { Val::Num(Num::Int(i)) => Some(*i as usize), _ => None }).collect();
                    if v.len() == x.len() && v.iter().all(|c| *c < bounds.len()) {
                        (nums(&v), v.iter().map(|c| bounds[*c]).collect())
                    } else {
                        ("?".into(), vec![])
                    }
                }
                _ => ("?".into(), vec![]),
            },
        };
        emit(format!("c05.regexoff x{} {}", vx::hex(text.as_bytes()), nums(&starts)), real, site(&r));
    }
    // 9. regex: the mismatch slices of `split_`/`splits` (ASCII texts: bytes = characters)
    let f_m = compile_vars("[match($a0; \"g\") | [.offset, .length]], [splits($a0) | length]", &["a0".into()]).unwrap();
    for (text, re) in [
        ("a1b22c", "[0-9]+"), ("a1b22c", "[0-9]*"), ("", "x"), ("", ""), ("abc", ""), ("aaa", "a"), ("aaa", "a*"), ("a,b,,c,", ","),
        ("xaby", "(a)(b)?"), ("abab", "(?:ab)+"), ("hello world", "o|$"), ("hello", "^|l"), ("abc", "abc"), ("abc", "(?:)b(?:)"),
    ] {
        let r = kernel_run(&f_m, tstr(text.as_bytes()), vec![tstr(re.as_bytes())]);
        let (ms, real) = match ans(&r) {
            Some(e) => ("-".to_string(), e),
            None => {
                let out = r.as_ref().unwrap();
                let ms: Vec<String> = match out.first() {
                    Some(Val::Arr(x)) => x.iter().filter_map(|m| match m {
                        Val::Arr(p) => match (&p[0], &p[1]) {
                            (Val::Num(Num::Int(o)), Val::Num(Num::Int(l))) => Some(format!("{o}:{}", o + l)),
                            _ => None,
                        },
                        _ => None,
                    }).collect(),
                    _ => vec![],
                };
                let lens: Vec<usize> = match out.get(1) {
                    Some(Val::Arr(x)) => x.iter().filter_map(|v| match v { Val::Num(Num::Int(i)) => Some(*i as usize), _ => None }).collect(),
                    _ => vec![],
                };
                (if ms.is_empty() { "-".into() } else { ms.join(",") }, nums(&lens))
            }
        };
        emit(format!("c05.mismatch {} {ms}", text.len()), real, site(&r));
    }
    // 10. `ltrimstr` / `rtrimstr`: strip_fix + as_sub_str (text and byte strings)
    let f_l = compile_vars("ltrimstr($a0)", &["a0".into()]).unwrap();
    let f_r = compile_vars("rtrimstr($a0)", &["a0".into()]).unwrap();
    let strs = ["", "a", "ab", "abc", "abcabc", "c", "bc", "abcd", "\u{e9}", "a\u{e9}", "\u{e9}a", "\u{20ac}\u{e9}\u{20ac}", "\u{20ac}"];
    for (mk_name, mk) in [("t", tstr as fn(&[u8]) -> Val), ("b", bstr as fn(&[u8]) -> Val)] {
        for s in strs {
            for fix in strs {
                for (kind, f) in [("pre", &f_l), ("suf", &f_r)] {
                    // mixed kinds too: a byte-string fix on a text string
                    let fixv = if mk_name == "t" && fix.len() == 2 { bstr(fix.as_bytes()) } else { mk(fix.as_bytes()) };
                    let r = kernel_run(f, mk(s.as_bytes()), vec![fixv]);
                    let real = ans(&r).unwrap_or_else(|| match r.as_ref().unwrap().first() {
                        Some(Val::TStr(b)) | Some(Val::BStr(b)) => {
                            if kind == "pre" && b.len() != s.len() { format!("{} {}", s.len() - b.len(), b.len()) } else { format!("0 {}", b.len()) }
                        }
                        _ => "?".into(),
                    });
                    emit(format!("c05.stripfix {kind} x{} x{}", vx::hex(s.as_bytes()), vx::hex(fix.as_bytes())), real, site(&r));
                }
            }
        }
    }
    // 11. conversions: `[n] | tobytes` (as_isize + u8::try_from), `ldexp(1; n)` (try_as_i32)
    let f_tb = compile_vars("[$a0] | tobytes", &["a0".into()]).unwrap();
    let f_ld = compile_vars("ldexp(1; $a0) | 0", &["a0".into()]).unwrap();
    let mut convs: Vec<Val> = kernel_ints();
    for i in [127isize, 128, 254, 257, -128, i32::MAX as isize, i32::MAX as isize + 1, i32::MIN as isize, i32::MIN as isize - 1, u32::MAX as isize] {
        convs.push(int(i));
    }
    for b in ["255", "256", "-1", "1", "2147483647", "2147483648", "-2147483648", "-2147483649", "9223372036854775807", "-9223372036854775808"] {
        convs.push(bigs(b));
    }
    for f in [0.0f64, 1.0, 255.0, 1.5, f64::NAN] {
        convs.push(float(f));
    }
    for n in &convs {
        let r = kernel_run(&f_tb, Val::Null, vec![n.clone()]);
        let real = ans(&r).map(|e| if e == "err" { "none".to_string() } else { e }).unwrap_or_else(|| match r.as_ref().unwrap().first() {
            Some(Val::BStr(b)) if b.len() == 1 => format!("some {}", b[0]),
            _ => "?".into(),
        });
        emit(format!("c05.conv byte {}", vx::enc(n)), real, site(&r));
        let r = kernel_run(&f_ld, Val::Null, vec![n.clone()]);
        let real = ans(&r).map(|e| if e == "err" { "none".to_string() } else { e }).unwrap_or_else(|| "some".into());
        emit(format!("c05.conv i32 {}", vx::enc(n)), real, site(&r));
    }
    // 12. `bsearch` on sorted arrays without duplicates: position computed here by a linear scan
    let f_bs = compile_vars("bsearch($a0)", &["a0".into()]).unwrap();
    for len in [0usize, 1, 2, 3, 7, 8] {
        let a: Vec<Val> = (0..len as isize).map(|i| int(2 * i + 1)).collect();
        for x in -1..(2 * len as isize + 2) {
            let pos = a.iter().filter(|e| **e < int(x)).count();
            let found = a.iter().any(|e| *e == int(x));
            let r = kernel_run(&f_bs, arr(a.clone()), vec![int(x)]);
            let real = ans(&r).unwrap_or_else(|| match r.as_ref().unwrap().first() {
                Some(Val::Num(Num::Int(i))) => i.to_string(),
                _ => "?".into(),
            });
            emit(format!("c05.bsearch {} {pos}", if found { "ok" } else { "err" }), real, site(&r));
        }
    }
    // 13. `indices`: which arm runs (`windows(0)` must be unreachable)
    let f_ix = compile_vars("indices($a0) | 0", &["a0".into()]).unwrap();
    let shapes: Vec<(String, Val, String)> = {
        let mut v = vec![("o".to_string(), Val::Null, "-".to_string()), ("o".to_string(), int(1), "-".to_string()), ("o".to_string(), obj(vec![]), "-".to_string())];
        for s in ["", "a", "a\u{e9}\u{20ac}", "abab"] {
            let st: Vec<usize> = s.char_indices().map(|(i, _)| i).collect();
            v.push((format!("t{}", s.len()), tstr(s.as_bytes()), nums(&st)));
            v.push((format!("b{}", s.len()), bstr(s.as_bytes()), "-".to_string()));
        }
        for n in [0usize, 1, 3] {
            v.push((format!("a{n}"), arr((0..n as isize).map(int).collect()), "-".to_string()));
        }
        v
    };
    for (sx, vx_, st) in &shapes {
        for (sy, vy, _) in &shapes {
            let r = kernel_run(&f_ix, vx_.clone(), vec![vy.clone()]);
            let real = ans(&r).unwrap_or_else(|| "ok".into());
            emit(format!("c05.indices {sx} {sy} {st}"), real, site(&r));
        }
    }
    // 14. `native_env_shape`: every native of the CURRENT tree, called once with an environment built by
    // `bind_vars` for its signature; a panic in `pop_var`/`pop_fun` (jaq-core/src/filter.rs) is the defect
    for (name, binds, _f) in jaq_all::data::funs() {
        let sig: String = binds.iter().map(|b| if matches!(b, jaq_core::Bind::Fun(())) { 'f' } else { 'v' }).collect();
        let argv: Vec<String> = binds.iter().enumerate().map(|(i, b)| if matches!(b, jaq_core::Bind::Fun(())) { ".".to_string() } else { format!("$a{i}") }).collect();
        let vars: Vec<String> = (0..binds.len()).map(|i| format!("a{i}")).collect();
        let text = call_text(name, &argv);
        let Ok(f) = compile_vars(&text, &vars) else { continue };
        if ["input", "inputs", "halt", "halt_error", "stderr_empty", "debug_empty"].contains(&name) {
            // reads stdin / ends the process / logs: the shape theorem still applies, the call is skipped
            continue;
        }
        let r = kernel_run(&f, Val::Null, vec![Val::Null; binds.len()]);
        let real = match &r {
            Err(e) if e.starts_with("P\t") && e.contains("filter.rs") => "P".to_string(),
            _ => "ok 0".to_string(),
        };
        let s = if real == "P" { site(&r) } else { String::new() };
        emit(format!("c05.envshape {}", if sig.is_empty() { "-".to_string() } else { sig }), real, s);
        let _ = name;
    }
    // 15. the compiler's `Locals`: skeletons extracted from the REAL parse tree of manual examples, the
    // standard library and generated binder-rich texts; the real compiler must not fire an assertion
    let mut texts: Vec<String> = FILTER_SEEDS.iter().map(|s| s.to_string()).collect();
    if let Some(i) = args.iter().position(|a| a == "--docs") {
        if let Some(d) = args.get(i + 1) {
            texts.extend(doc_examples(d));
        }
    }
    for k in 0..400u32 {
        texts.push(gen_binder_text(&mut rng, 1 + k % 4));
    }
    let mut seen = std::collections::BTreeSet::new();
    for code in &texts {
        if code.len() > 4000 || !seen.insert(code.clone()) {
            continue;
        }
        let Some(t) = jaq_core::load::parse(code, |p| p.term()) else { continue };
        let mut cx = SkCtx::default();
        let sk = cx.term(&t);
        if cx.binders == 0 {
            continue;
        }
        let mut toks = vec![];
        sk_tokens(&sk, &mut toks);
        if toks.len() > 6000 {
            continue;
        }
        let real = match guarded(|| compile(code).is_ok()) {
            Ok(_) => "ok 0".to_string(),
            Err((s, _)) => format!("P\t{s}"),
        };
        let (real, s) = match real.split_once('\t') {
            Some((a, b)) => (a.to_string(), b.to_string()),
            None => (real, String::new()),
        };
        emit(format!("c05.cwalk {}", toks.join(" ")), real, s);
    }
    // the standard library itself: `module(defs)` = all definitions opened, then closed in reverse
    for (label, defs) in [("core", jaq_core::defs().collect::<Vec<_>>()), ("std", jaq_std::defs().collect()), ("json", jaq_json::defs().collect())] {
        let mut cx = SkCtx::default();
        let sk = cx.defs(&defs, Sk::L);
        let mut toks = vec![];
        sk_tokens(&sk, &mut toks);
        let real = match guarded(|| compile(".").is_ok()) {
            Ok(_) => "ok 0".to_string(),
            Err(_) => "P".to_string(),
        };
        let _ = label;
        emit(format!("c05.cwalk {}", toks.join(" ")), real, String::new());
    }
}

pub fn main(args: &[String]) {
    let Some(cmd) = args.first() else {
        eprintln!("usage: jaqverif c05 <inventory|natives|case|filters|filter-case|docs|doc-case|kernels> …");
        std::process::exit(2);
    };
    let rest = &args[1..];
    match cmd.as_str() {
        "inventory" => inventory_main(rest),
        "natives" => natives_main(rest),
        "case" => case_main(rest),
        "filters" => filters_main(rest),
        "filter-case" => filter_case_main(rest),
        "docs" => docs_main(rest),
        "kernels" => kernels_main(rest),
        "doc-case" => doc_case_main(rest),
        _ => {
            eprintln!("c05: unknown sub-command {cmd}");
            std::process::exit(2);
        }
    }
}
