//! C19 — a compiled filter is immutable shared data.
//!
//! This file holds everything that does NOT need `Filter: Send + Sync` to compile (so that a tree
//! violating the property cannot break the shared harness build): the program/input generator,
//! the sequential ("isolated") reference runs, the sequential non-interference check and the
//! executor of copy-on-write scripts on real `Val` arrays.  The multi-threaded part lives in
//! `/verif/harness-c19` (own crate, built with and without `jaq-json/sync`), which includes this
//! file by `#[path]` and re-uses the functions below.
//!
//!   gen            : `id \t program \t input-json \t inputs(json, \x01-separated)` case lines
//!   seq [rev]      : cases on stdin → `id \t outputs` (fresh compile per case, run alone; `rev`: in reverse order)
//!   interfere      : cases on stdin → compile/run A, compile/run others, run A again, recompile A;
//!                    prints `INTERFERE id …` on a difference, `STAT …` at the end
//!   cow-gen        : copy-on-write scripts (requests of the model op `c19.cow`)
//!   cow            : requests on stdin → `id \t request \t real` with real `jaq_json::Rc` values
use super::common::*;
use super::prng::{self, Rng};
use jaq_json::{Rc, Val};

pub const SEP: char = '\u{1}';
/// at most this many outputs are pulled per run
pub const LIMIT: usize = 300;

#[derive(Clone, Debug)]
pub struct Case {
    pub id: String,
    pub prog: String,
    pub input: String,
    pub inputs: Vec<String>,
}

impl Case {
    pub fn line(&self) -> String {
        format!("{}\t{}\t{}\t{}", self.id, self.prog, self.input, self.inputs.join(&SEP.to_string()))
    }
    pub fn parse(l: &str) -> Option<Case> {
        let p: Vec<&str> = l.split('\t').collect();
        if p.len() < 3 {
            return None;
        }
        let inputs = match p.get(3) {
            Some(s) if !s.is_empty() => s.split(SEP).map(|x| x.to_string()).collect(),
            _ => Vec::new(),
        };
        Some(Case { id: p[0].into(), prog: p[1].into(), input: p[2].into(), inputs })
    }
}

pub fn read_cases() -> Vec<Case> {
    use std::io::BufRead;
    std::io::stdin().lock().lines().filter_map(|l| Case::parse(&l.ok()?)).collect()
}

pub fn parse_json(s: &str) -> Val {
    jaq_json::read::parse_single(s.as_bytes()).unwrap_or(Val::Null)
}

/// Run an already compiled filter on a case's input (fresh context, fresh input stream).
pub fn run_filter(f: &jaq_all::data::Filter, input: Val, inputs: Vec<Val>) -> String {
    let r = catch(|| enc_items(&run_with(f, input, Vec::new(), inputs.into_iter().map(Ok).collect(), LIMIT)));
    r.unwrap_or_else(|p| format!("PANIC {}", p.replace(['\t', '\n'], " ")))
}

pub fn run_case(f: &jaq_all::data::Filter, c: &Case) -> String {
    run_filter(f, parse_json(&c.input), c.inputs.iter().map(|s| parse_json(s)).collect())
}

/// Compile + run alone: the isolated run of the property.
pub fn isolated(c: &Case) -> String {
    match catch(|| compile(&c.prog)) {
        Ok(Ok(f)) => run_case(&f, c),
        Ok(Err(_)) => "COMPILE-ERROR".into(),
        Err(p) => format!("COMPILE-PANIC {}", p.replace(['\t', '\n'], " ")),
    }
}

// ------------------------------------------------------------------------------- generator

/// Hand-written programs: every area named by the property (core language, recursion,
/// reduce/foreach, updates, sort/group, strings, big integers, paths, formats, input stream).
pub fn curated() -> Vec<&'static str> {
    vec![
        ".", ".[]?", "..", "[..]|length", ".a?, .b?", "[.[]?]|length", "keys?", "[paths]", "[paths(scalars)]",
        "tojson", "tojson|fromjson", "[.[]?|tostring]", "type", "length?", "[.[]?|numbers]",
        "def f: if . < 10 then .+1|f else . end; 0|f",
        "def fac: if . <= 1 then 1 else . * (.-1|fac) end; [range(0;25)|fac]",
        "def fib: if . < 2 then . else (.-1|fib) + (.-2|fib) end; [range(0;15)|fib]",
        "def ack(m;n): if m == 0 then n+1 elif n == 0 then ack(m-1;1) else ack(m-1;ack(m;n-1)) end; ack(2;3)",
        "[recurse(if . < 5 then .+1 else empty end)]|length? // 0",
        "[limit(20; repeat(1))]|add", "first(range(10;20))", "[range(0;50)]|map(.*.)|add",
        "reduce range(0;100) as $i (0; .+$i)", "reduce (.[]?) as $x (null; . + ($x|tojson|length))",
        "[foreach range(0;10) as $i (0; .+$i; [$i,.])]", "[foreach (.[]?) as $x ([]; .+[$x]; length)]",
        "reduce range(0;30) as $i ([]; .+[$i*$i])|map(select(.%2==0))|length",
        "reduce range(0;20) as $i ({}; .[\"k\\($i)\"] = $i)|to_entries|map(.value)|add",
        "[limit(5; foreach range(0;1000) as $i (0; .+$i))]",
        ".a |= 1", "(.a,.b) |= 2", ".[]? |= tojson", "(..|numbers) |= .+1", ".a += 1", ".a.b.c = [1,2]",
        "to_entries?", "with_entries(.value |= tojson)?", "del(.a)?", "del(.[0])?", "delpaths([[\"a\"],[0]])?",
        "[paths(type == \"number\")]", "getpath([\"a\",\"b\"])?", "setpath([\"x\",0]; 1)?", "path(..)",
        "map_values(tojson)?", "walk(if type == \"array\" then reverse else . end)",
        "[.[]?]|sort", "[.[]?]|sort_by(tojson)", "[.[]?]|group_by(type)", "[.[]?]|unique_by(type)|length",
        "[.[]?]|min_by(tojson), max_by(tojson)", "[.[]?|tojson]|sort|join(\",\")", "[.[]?]|unique", "[.[]?]|reverse",
        "[3,1,2,1,3,2,9,0]|sort, unique, group_by(.%2), (sort_by(-.)|first), min, max, add, any(.>8), all(.>=0)",
        "[{a:2,b:1},{a:1,b:2},{a:2,b:0}]|sort_by(.a), sort_by(.a,.b), group_by(.a), unique_by(.a), min_by(.b)",
        "flatten?", "[.[]?]|flatten(1)|length", "transpose?", "add?", "any?, all?", "[.[]?|select(type==\"number\")]|add",
        "\"a,b, c\"|split(\", \"), split(\",\"), ascii_upcase, ltrimstr(\"a\"), rtrimstr(\"c\"), length, utf8bytelength, explode, (explode|implode)",
        "\"héllo wörld €😀\"|length, utf8bytelength, ascii_downcase, explode, (explode|implode), .[2:5], test(\"w.r\"), [match(\"l+\";\"g\").offset]",
        "\"abc abd xbc\"|[scan(\"[ax]b.\")], sub(\"b\";\"B\"), gsub(\"b(?<x>.)\";\"<\\(.x)>\"), capture(\"(?<p>a)(?<q>b)\"), [splits(\" +\")], test(\"ABD\";\"i\")",
        "[.[]?|strings|ascii_downcase, length, (.*2), test(\"a\")]", "\"x\" * 5, (\"ab\" * 0), ([\"a\",\"b\"]|join(\"-\"))",
        "@json, @text, (tojson|@base64, (@base64|@base64d))", "[.[]?|@json]|@csv?", "[1,\"a\",null]|@csv, @tsv, @html, @uri, @sh",
        "\"\\(.)-\\(1+2)\"", "\"1 2\"|[splits(\" \")]|map(tonumber)|add", "[.[]?|tostring|ascii_downcase]?",
        "100000000000000000000 + 1, (99999999999999999999 * 99999999999999999999), (9223372036854775807 + 1), (-9223372036854775808 - 1)",
        "[limit(30; recurse(numbers | . * 3))]|last|tostring|length? // 0", "reduce range(1;40) as $i (1; . * $i)", "reduce range(0;70) as $i (1; . * 2) | ., (. % 1000000007), tostring",
        "[12345678901234567890123, 1e1000, 0.1, 1.5, -0.0, 3.0]|map(. + 1), map(tojson), sort",
        "123456789012345678901234567890 | ., -(.), (. % 97), (. - 1), tojson, (tostring|tonumber)",
        "try error(\"x\") catch .", "try (1, error({a:1}), 3) catch .", "[.[]?|try (1/.) catch \"div\"]", "error(null)?", ".a.b.c?", "try error catch .",
        "[label $out | 1, 2, break $out, 3]", "[label $a | label $b | 1, break $b, 2], [label $a | (label $b | 1, break $a, 2), 3]",
        "[.[]? as [$a,$b] | {a:$a,b:$b}]", ". as {a:$x} | $x", "[.[]? as $x | $x | type]", ". as $d | [1,2] | map(. + ($d|length? // 0))",
        "[1,2,3] as [$a] | $a", "[[1,2],[3,4]] | [.[] as [$a,$b] | $a*$b]", "{a:1} | .b = .a | .c = (.b|.+1) | keys",
        "def m(f): [.[]?|f]; m(tojson)|length", "def g($a; $b): $a + $b; g(1;2), g(\"a\";\"b\"), g([1];[2])",
        "def f(x): x | x; 2 | f(. * .)", "def r: def s: .+1; s|s; 1|r", "[range(0;5)] | map(select(. % 2 == 0) | . * 10)",
        "if . then 1 else 2 end", "if .a? then .a elif .b? then .b else null end", "[.[]? | if type == \"object\" then keys else . end]",
        ".a? // \"dflt\"", "[.[]? | . // 0]", "(.a? and .b?), (.a? or false)", "[.[]?|not]", ". == ., (. < null), ([.] | contains([.]))?",
        "[paths] | map(tojson)", "[paths(..)] == [paths]", "[.[]?|tojson|fromjson] == [.[]?]", "input", "[inputs]", "[., input, (inputs|type)]", "[limit(1; inputs)], [inputs]",
        "first(inputs), ([inputs]|length)", "try input catch \"no more\"", "[splits(\"a\")]?", "ltrimstr(\"a\")?", "ascii_downcase?", "tonumber?",
        "[.[]?|tojson]|map(fromjson)|tojson", "indices(1)?", "index(\"a\")?", "inside([1,2,3])?", "has(\"a\")?, has(0)?", "in({a:1})?",
        "[1,[2,[3,[4]]]] | flatten, flatten(1), getpath([1,1,0]), [paths]|length, [paths(scalars)]|length, [..|numbers]",
        "{a:[{b:1},{b:2}],c:{d:[3,4]}} | [.a[].b], .c.d[1], [..|numbers], (.a |= map(.b)), (del(.c) | keys), [paths|join(\"/\")?]",
        "[range(0;10)] | .[2:5], .[-3:], .[:2], (.[2:4] = [\"x\"]), (.[1:3] |= map(.*10)), del(.[0:8]), (to_entries|map(.key)|add)",
        "{} | .a.b.c = 1 | .a.b.d = [1,2,3] | .a.b.d[1] = {x:null} | tojson",
        "0 | todate, (1700000000|todate), (\"2024-02-29T12:00:00Z\"|fromdate), (1700000000|gmtime|mktime), (1700000000|strftime(\"%A %d %B %Y\"))",
        "[1,2,3] | tojson, toyaml?, (tojson|fromjson)", "{a:[1,{b:null}],\"c d\":\"é\"} | tojson, (tojson|fromjson), toyaml, (toyaml|fromyaml), tocbor?, (tocbor|fromcbor)?",
        "[splits(\", *\")]?", "@base32?", "ltrimstr(1)?", "min, max?", "[.[]?]|add", "tojson|length",
        "[.[]?] | map(tojson) | sort | unique | length",
        "[..|strings|test(\"a\")]", "[..|strings|test(\"A\";\"i\")]", "[..|strings|test(\"a\";\"i\")]", "[..|strings|test(\"A\")]",
        "[..|strings|[match(\"b|c\";\"g\").offset]]", "[..|strings|[match(\"b|c\").offset]]", "[..|strings|sub(\"B\";\"x\";\"i\")]", "[..|strings|sub(\"B\";\"x\")]",
        "[..|strings|test(\"a b\";\"x\")]", "[..|strings|test(\"a b\")]", "[..] | map(type) | group_by(.) | map([.[0], length])",
        "[.. | scalars] | sort", "[.. | select(type == \"string\")] | map(length) | add", "reduce (..|numbers) as $n (0; . + $n)",
        "[limit(10; .. )] | length", "first(..), ([..]|last)", "[getpath(paths)] | length", "[paths] | map(length) | max",
    ]
}

const LEAVES: &[&str] = &[
    ".", ".", ".a", ".b", ".[0]", ".[1]", ".[]?", ".[]?", ".a?", "..", "1", "2", "0", "-1", "3.5", "null", "true", "false",
    "\"a\"", "\"bc\"", "\"\"", "[]", "{}", "[1,2,3]", "[3,1,2]", "{a:1,b:[2]}", "{a:{b:2}}", "10000000000000000000000", "9223372036854775807",
    "length?", "keys?", "type", "tojson", "tostring", "not", "add?", "first?", "last?", "reverse?", "sort?", "unique?", "flatten?",
    "to_entries?", "floor?", "sqrt?", "ascii_downcase?", "explode?", "tonumber?", "utf8bytelength?", "min?", "max?", "any?", "all?",
    "input?", "empty", "@json", "ascii_upcase?", "ltrimstr(\"a\")?",
];

/// random program over the core language; bounded by construction (no `repeat`/`while`/`until`,
/// literal `range` bounds, multiplication only by small literals)
pub fn gen_prog(rng: &mut Rng, depth: usize) -> String {
    if depth == 0 || rng.chance(1, 5) {
        return rng.pick(LEAVES).to_string();
    }
    let d = depth - 1;
    let g = |r: &mut Rng| gen_prog(r, d);
    match rng.below(34) {
        0 | 1 | 2 => format!("{} | {}", g(rng), g(rng)),
        3 | 4 => format!("({}, {})", g(rng), g(rng)),
        5 => format!("({} + {})", g(rng), g(rng)),
        6 => format!("({} - {})", g(rng), g(rng)),
        7 => format!("({} * {})", g(rng), ["0", "1", "2", "3", "-1", "0.5"][rng.below(6)]),
        8 => format!("({} / {})", g(rng), g(rng)),
        9 => format!("({} % {})", g(rng), ["2", "3", "7", "0", "-5"][rng.below(5)]),
        10 => format!("({} {} {})", g(rng), ["==", "!=", "<", "<=", ">", ">="][rng.below(6)], g(rng)),
        11 => format!("({} {} {})", g(rng), ["and", "or"][rng.below(2)], g(rng)),
        12 => format!("({} // {})", g(rng), g(rng)),
        13 => format!("if {} then {} else {} end", g(rng), g(rng), g(rng)),
        14 => format!("try ({}) catch ({})", g(rng), g(rng)),
        15 => format!("({})?", g(rng)),
        16 => format!("[{}]", g(rng)),
        17 => format!("{{a: {}, b: {}}}", g(rng), g(rng)),
        18 => format!("{{({}|tostring): {}}}", g(rng), g(rng)),
        19 => format!("({}) as $x | [$x, ({})]", g(rng), g(rng)),
        20 => format!("reduce ({}) as $x ({}; [., $x] | {})", g(rng), g(rng), g(rng)),
        21 => format!("[foreach ({}) as $x ({}; . + 1; [$x, .])]", g(rng), ["0", "1", "-3"][rng.below(3)]),
        22 => format!("(def f: {}; [f, ({} | f)])", g(rng), g(rng)),
        23 => format!("(def f(g): [g, g]; f({}))", g(rng)),
        24 => format!("(def f($v): [$v, .]; f({}))", g(rng)),
        25 => format!("[{}] | map({})", g(rng), g(rng)),
        26 => format!("[{}] | {}({})", g(rng), ["sort_by", "group_by", "unique_by", "min_by", "max_by", "map", "map_values"][rng.below(7)], g(rng)),
        27 => format!("([{}] | .[{}] |= ({}))?", g(rng), rng.below(3), g(rng)),
        28 => format!("({{a:[1,{{b:2}}],c:\"s\"}} | {} {} ({}))", [".a", ".a[0]", ".a[1].b", ".c", ".[]", "..", ".a[]", ".x.y"][rng.below(8)],
                      ["|=", "=", "+=", "-=", "*=", "//="][rng.below(6)], g(rng)),
        29 => format!("[path({})]?", g(rng)),
        30 => format!("[limit({}; {})]", rng.below(4), g(rng)),
        31 => format!("first({})", g(rng)),
        32 => format!("[label $l | {}, break $l, {}]", g(rng), g(rng)),
        _ => format!("[range({};{})] | map({})", rng.below(3), rng.below(6), g(rng)),
    }
}

pub fn input_pool() -> Vec<&'static str> {
    vec![
        "null", "3", "\"a,b c\"", "[1,2,3]", "[3,1,[2,\"x\"],null,{\"a\":1}]", "{\"a\":1,\"b\":[1,2,{\"c\":null}]}",
        "{\"a\":{\"b\":{\"c\":5}},\"b\":\"str\"}", "[[1,2],[3,4],[1,2]]", "[\"b\",\"a\",\"B\",\"é\",\"\"]",
        "[10000000000000000000000,1.5,-7,0.1,1e300]", "{\"b\":2,\"a\":1,\"c\":{\"z\":[],\"y\":{}}}", "[{\"a\":2,\"b\":1},{\"a\":1,\"b\":2},{\"a\":2,\"b\":0}]",
        "true", "[]", "{}", "\"2024-02-29T12:00:00Z\"",
    ]
}

pub fn cases(tier: &str, seed: u64) -> Vec<Case> {
    let mut rng = Rng::new(seed ^ 0xC19);
    let pool = input_pool();
    let mut out = Vec::new();
    let per_prog = if tier == "thorough" { 4 } else { 2 };
    let nrand = if tier == "thorough" { 1500 } else { 250 };
    let mut progs: Vec<String> = curated().into_iter().map(String::from).collect();
    for _ in 0..nrand {
        let d = 2 + rng.below(3);
        progs.push(gen_prog(&mut rng, d));
    }
    for (pi, p) in progs.iter().enumerate() {
        for k in 0..per_prog {
            let input = if k == 0 { pool[pi % pool.len()] } else { *rng.pick(&pool) };
            let n_in = rng.below(4);
            let inputs = (0..n_in).map(|_| rng.pick(&pool).to_string()).collect();
            out.push(Case { id: format!("p{pi}i{k}"), prog: p.clone(), input: input.to_string(), inputs });
        }
    }
    out
}

// ------------------------------------------------------- sequential non-interference

/// compile/run A; compile and run other programs; run A again; recompile A and run: all equal.
pub fn interfere(cases: &[Case]) {
    let mut checked = 0usize;
    let mut bad = 0usize;
    let n = cases.len();
    for (i, c) in cases.iter().enumerate() {
        let Ok(Ok(f)) = catch(|| compile(&c.prog)) else { continue };
        let o1 = run_case(&f, c);
        // others: compile and run two different cases in between (and keep their filters alive)
        let others: Vec<_> = [1usize, 7].iter().map(|d| &cases[(i + d) % n]).collect();
        let kept: Vec<_> = others.iter().filter_map(|o| catch(|| compile(&o.prog)).ok()?.ok().map(|g| (run_case(&g, o), g, *o))).collect();
        let o2 = run_case(&f, c);
        let f2 = compile(&c.prog).ok();
        let o3 = f2.as_ref().map(|g| run_case(g, c)).unwrap_or_else(|| "COMPILE-ERROR".into());
        let o4 = run_case(&f, c); // (Filter is not Clone: sharing is by reference only)
        // the others are not influenced by A either
        let mut others_ok = true;
        for (out, g, o) in kept.iter() {
            if &run_case(g, o) != out {
                others_ok = false;
            }
        }
        checked += 1;
        if o1 != o2 || o1 != o3 || o1 != o4 || !others_ok {
            bad += 1;
            println!("INTERFERE\t{}\tfirst={}\tagain={}\trecompiled={}\tcloned={}\tothers_ok={}", c.line(), o1, o2, o3, o4, others_ok);
        }
    }
    println!("STAT interfere checked={checked} bad={bad}");
}

// ------------------------------------------------------------- copy-on-write scripts

fn arr_of(ints: &[i64]) -> Val {
    ints.iter().map(|i| int(*i as isize)).collect()
}

fn show_arr(v: &Val) -> String {
    match v {
        Val::Arr(a) if a.is_empty() => "e".into(),
        Val::Arr(a) => a.iter().map(|x| match x {
            Val::Num(jaq_json::Num::Int(i)) => i.to_string(),
            other => format!("?{other}"),
        }).collect::<Vec<_>>().join("."),
        other => format!("?{other}"),
    }
}

fn parse_arr(s: &str) -> Option<Vec<i64>> {
    if s == "e" {
        return Some(vec![]);
    }
    s.split('.').map(|x| x.parse().ok()).collect()
}

/// Execute a `c19.cow` request on real values (`Val::Arr(Rc<Vec<Val>>)`), through jaq's own
/// code paths: `Val + Val` (`Rc::make_mut`), `ValT::values` (`rc_unwrap_or_clone`), `Clone`, `Drop`.
pub fn cow_real(req: &str) -> String {
    use jaq_core::ValT;
    let toks: Vec<&str> = req.split(' ').collect();
    if toks.len() < 3 || toks[0] != "c19.cow" {
        return "bad-request".into();
    }
    let Ok(n) = toks[1].parse::<usize>() else { return "bad-request".into() };
    let init: Vec<Vec<i64>> = if toks[2] == "-" { vec![] } else {
        match toks[2].split(',').map(parse_arr).collect() { Some(v) => v, None => return "bad-request".into() }
    };
    let originals: Vec<Val> = init.iter().map(|a| arr_of(a)).collect();
    let mut hs: Vec<Vec<Val>> = (0..n).map(|_| originals.clone()).collect();
    drop(originals);
    let mut out: Vec<Vec<Val>> = vec![Vec::new(); n];
    for op in &toks[3..] {
        let (c, rest) = op.split_at(1);
        let f: Vec<&str> = rest.split(':').collect();
        let Some(t) = f.first().and_then(|x| x.parse::<usize>().ok()) else { return "bad-request".into() };
        if t >= n {
            continue;
        }
        let idx = f.get(1).and_then(|x| x.parse::<usize>().ok());
        match (c, idx) {
            ("N", _) => {
                let Some(a) = f.get(1).and_then(|x| parse_arr(x)) else { return "bad-request".into() };
                hs[t].push(arr_of(&a));
            }
            ("C", Some(i)) if i < hs[t].len() => {
                let v = hs[t][i].clone();
                hs[t].push(v);
            }
            ("D", Some(i)) if i < hs[t].len() => drop(hs[t].remove(i)),
            ("M", Some(i)) if i < hs[t].len() => {
                let Some(x) = f.get(2).and_then(|x| x.parse::<i64>().ok()) else { return "bad-request".into() };
                let v = hs[t].remove(i);
                let v2 = (v + arr_of(&[x])).unwrap_or(Val::Null);
                hs[t].insert(i, v2);
            }
            ("T", Some(i)) if i < hs[t].len() => {
                let v = hs[t].remove(i);
                let items: Vec<Val> = v.values().map(|r| r.unwrap_or(Val::Null)).collect();
                out[t].push(items.into_iter().collect());
            }
            ("R", Some(i)) if i < hs[t].len() => {
                let copy = match &hs[t][i] {
                    Val::Arr(rc) => Val::Arr(Rc::new((**rc).clone())),
                    v => v.clone(),
                };
                out[t].push(copy);
            }
            _ => {}
        }
    }
    let mut seen: Vec<*const Vec<Val>> = Vec::new();
    let mut lines = Vec::new();
    for t in 0..n {
        let mut h = Vec::new();
        for v in &hs[t] {
            if let Val::Arr(rc) = v {
                let p = Rc::as_ptr(rc);
                let k = match seen.iter().position(|q| *q == p) {
                    Some(k) => k,
                    None => {
                        seen.push(p);
                        seen.len() - 1
                    }
                };
                h.push(format!("{}@{}#{}", show_arr(v), k, Rc::strong_count(rc)));
            } else {
                h.push(format!("?{v}"));
            }
        }
        let o: Vec<String> = out[t].iter().map(show_arr).collect();
        lines.push(format!("h={};o={}", h.join(","), o.join("|")));
    }
    lines.join(" / ")
}

fn op_string(kind: usize, t: usize, i: usize, x: i64) -> String {
    match kind {
        0 => format!("N{t}:{}", if x % 3 == 0 { "e".to_string() } else { format!("{x}.{}", x + 1) }),
        1 => format!("C{t}:{i}"),
        2 => format!("D{t}:{i}"),
        3 => format!("M{t}:{i}:{x}"),
        4 => format!("T{t}:{i}"),
        _ => format!("R{t}:{i}"),
    }
}

/// requests: exhaustive scripts of length ≤ 3 (2 threads, 1 shared array, positions 0..1) + random longer ones
pub fn cow_requests(tier: &str, seed: u64) -> Vec<String> {
    let mut reqs = Vec::new();
    let mut alphabet = Vec::new();
    for t in 0..2 {
        alphabet.push(op_string(0, t, 0, 7));
        for kind in 1..6 {
            for i in 0..2 {
                alphabet.push(op_string(kind, t, i, 5));
            }
        }
    }
    let max_len = if tier == "thorough" { 4 } else { 3 };
    let mut frontier: Vec<Vec<usize>> = vec![vec![]];
    for _ in 0..max_len {
        let mut next = Vec::new();
        for s in &frontier {
            for a in 0..alphabet.len() {
                let mut s2 = s.clone();
                s2.push(a);
                next.push(s2);
            }
        }
        for s in &next {
            let ops: Vec<&str> = s.iter().map(|a| alphabet[*a].as_str()).collect();
            reqs.push(format!("c19.cow 2 1.2 {}", ops.join(" ")));
        }
        frontier = next;
        if frontier.len() > 30000 && tier != "thorough" {
            break;
        }
    }
    let mut rng = Rng::new(seed ^ 0xC0);
    let nrand = if tier == "thorough" { 20000 } else { 3000 };
    for _ in 0..nrand {
        let n = rng.below(5);
        let k = rng.below(4);
        let init: Vec<String> = (0..k).map(|j| if rng.chance(1, 4) { "e".to_string() } else { format!("{}.{}", j, j + 10) }).collect();
        let mut lens = vec![k; n.max(1)];
        let len = 1 + rng.below(40);
        let mut ops = Vec::new();
        for _ in 0..len {
            let t = if rng.chance(1, 20) { n + rng.below(2) } else { rng.below(n.max(1)) };
            let kind = rng.below(6);
            let cur = *lens.get(t).unwrap_or(&0);
            let i = if rng.chance(1, 12) || cur == 0 { cur + rng.below(2) } else { rng.below(cur) };
            let x = rng.below(100) as i64 - 20;
            ops.push(op_string(kind, t, i, x));
            if t < n {
                match kind {
                    0 => lens[t] += 1,
                    1 if i < cur => lens[t] += 1,
                    2 | 4 if i < cur => lens[t] -= 1,
                    _ => {}
                }
            }
        }
        reqs.push(format!("c19.cow {} {} {}", n, if init.is_empty() { "-".to_string() } else { init.join(",") }, ops.join(" ")));
    }
    reqs
}

pub fn main(args: &[String]) {
    let tier = std::env::var("VERIF_TIER").unwrap_or_else(|_| "quick".into());
    let seed = prng::seed_from_env();
    match args.first().map(|s| s.as_str()) {
        Some("gen") => {
            for c in cases(&tier, seed) {
                println!("{}", c.line());
            }
        }
        Some("seq") => {
            // `seq rev`: the same isolated runs in reverse order (executions must not depend on
            // what was compiled/run before them in the process)
            let mut cs = read_cases();
            if args.get(1).map(|s| s.as_str()) == Some("rev") {
                cs.reverse();
            }
            for c in cs {
                println!("{}\t{}", c.id, isolated(&c));
            }
        }
        Some("interfere") => interfere(&read_cases()),
        Some("cow-gen") => {
            for r in cow_requests(&tier, seed) {
                println!("{r}");
            }
        }
        Some("cow") => {
            use std::io::BufRead;
            for (i, l) in std::io::stdin().lock().lines().enumerate() {
                let l = l.unwrap();
                let real = catch(|| cow_real(&l)).unwrap_or_else(|p| format!("PANIC {p}"));
                println!("cow{i}\t{l}\t{real}");
            }
        }
        _ => {
            eprintln!("usage: jaqverif c19 gen|seq|interfere|cow-gen|cow");
            std::process::exit(2);
        }
    }
}
