//! C02 — `path(f)`, `getpath` and updates agree on the positions a filter denotes.
//!
//!   gen <shard> <nshards>   correspondence lines `C \t id \t request \t real` (real code vs Lean model) and
//!                            oracle lines `O \t ok|FAIL \t rule \t progA \t progB \t input \t resA \t resB`
//!                            (manual's defining expression evaluated by the same binary; model-free)
//!   emit-defs               token form of the prelude definitions the Lean theorems speak about
//!   one <program> <vx…>     run one program on one input (replay): prints request and real answer
//!
//! Programs are jq text, parsed by the *real* parser; the model request is printed from that AST
//! (`conv`): definitions and filter arguments are inlined (closures are substituted with fresh
//! variable names), parameterless recursive definitions become `fix r body` / `rcall r`.
use super::common::*;
use super::prng::{self, Rng};
use super::vx;
use jaq_core::load::lex::StrPart;
use jaq_core::load::parse::{BinaryOp, Def, Pattern, Term};
use jaq_core::path::{Opt, Part};
use jaq_json::Val;
use std::collections::HashMap;
use std::rc::Rc;

type T = Term<&'static str>;

// ------------------------------------------------------------------------------------------
// real parser's AST  →  token syntax of lean/Driver/C02.lean
// ------------------------------------------------------------------------------------------

enum Entry {
    Var { src: String, dst: String },
    Fun { name: String, term: Rc<T>, scope: Scope },
    Def { name: String, params: Vec<String>, body: Rc<T> },
}
struct Node {
    e: Entry,
    next: Scope,
}
type Scope = Option<Rc<Node>>;

fn push(scope: &Scope, e: Entry) -> Scope {
    Some(Rc::new(Node { e, next: scope.clone() }))
}

struct Conv {
    fresh: usize,
    /// definitions being expanded: (node, fix name if parameterless, used recursively)
    stack: Vec<(*const Node, Option<String>, bool)>,
    depth: usize,
}

type R = Result<String, String>;

fn math_tok(op: &jaq_core::ops::Math) -> &'static str {
    use jaq_core::ops::Math::*;
    match op {
        Add => "add",
        Sub => "sub",
        Mul => "mul",
        Div => "div",
        Rem => "rem",
    }
}
fn cmp_tok(op: &jaq_core::ops::Cmp) -> &'static str {
    use jaq_core::ops::Cmp::*;
    match op {
        Eq => "eq",
        Ne => "ne",
        Lt => "lt",
        Le => "le",
        Gt => "gt",
        Ge => "ge",
    }
}

const EMPTY_TOK: &str = "path obj0 it! end";

impl Conv {
    fn new() -> Self {
        Conv { fresh: 0, stack: vec![], depth: 0 }
    }
    fn fresh(&mut self, base: &str) -> String {
        self.fresh += 1;
        format!("{}_{}", base, self.fresh)
    }

    fn var(&self, scope: &Scope, x: &str) -> R {
        let mut s = scope;
        while let Some(n) = s {
            if let Entry::Var { src, dst } = &n.e {
                if src == x {
                    return Ok(format!("var {dst}"));
                }
            }
            s = &n.next;
        }
        Err(format!("unbound variable {x}"))
    }

    fn lookup(&self, scope: &Scope, name: &str, arity: usize) -> Option<Rc<Node>> {
        let mut s = scope;
        while let Some(n) = s {
            match &n.e {
                Entry::Fun { name: f, .. } if arity == 0 && f == name => return Some(n.clone()),
                Entry::Def { name: f, params, .. } if f == name && params.len() == arity => return Some(n.clone()),
                _ => {}
            }
            s = &n.next;
        }
        None
    }

    fn call(&mut self, scope: &Scope, name: &str, args: &[T]) -> R {
        let Some(node) = self.lookup(scope, name, args.len()) else {
            return self.native(scope, name, args);
        };
        match &node.e {
            Entry::Fun { term, scope: fscope, .. } => self.conv(term, fscope),
            Entry::Def { params, body, .. } => {
                let ptr = Rc::as_ptr(&node);
                if let Some(pos) = self.stack.iter().rposition(|s| s.0 == ptr) {
                    return match self.stack[pos].1.clone() {
                        Some(r) if params.is_empty() => {
                            self.stack[pos].2 = true;
                            Ok(format!("rcall {r}"))
                        }
                        _ => Err(format!("recursive definition with parameters: {name}")),
                    };
                }
                let mut bscope: Scope = Some(node.clone());
                let mut binds = vec![];
                for (p, a) in params.iter().zip(args) {
                    if p.starts_with('$') {
                        let dst = self.fresh(p);
                        binds.push((self.conv(a, scope)?, dst.clone()));
                        bscope = push(&bscope, Entry::Var { src: p.clone(), dst });
                    } else {
                        bscope = push(&bscope, Entry::Fun { name: p.clone(), term: Rc::new(a.clone()), scope: scope.clone() });
                    }
                }
                let fixname = if params.is_empty() { Some(self.fresh("r")) } else { None };
                self.stack.push((ptr, fixname.clone(), false));
                let b = self.conv(body, &bscope);
                let (_, _, used) = self.stack.pop().unwrap();
                let mut b = b?;
                if used {
                    b = format!("fix {} {}", fixname.unwrap(), b);
                }
                for (a, x) in binds.into_iter().rev() {
                    b = format!("bind {a} {x} {b}");
                }
                Ok(b)
            }
            Entry::Var { .. } => unreachable!(),
        }
    }

    fn native(&mut self, scope: &Scope, name: &str, args: &[T]) -> R {
        let a = |i: usize, c: &mut Conv| c.conv(&args[i], scope);
        Ok(match (name, args.len()) {
            ("first", 1) => format!("first {}", a(0, self)?),
            ("last", 1) => format!("last {}", a(0, self)?),
            ("limit", 2) => format!("limit {} {}", a(0, self)?, a(1, self)?),
            ("skip", 2) => format!("skip {} {}", a(0, self)?, a(1, self)?),
            ("path", 1) => format!("pathof {}", a(0, self)?),
            ("path_value", 1) => format!("pathvalue {}", a(0, self)?),
            ("error_empty", 0) => "error_empty".into(),
            ("keys_unsorted", 0) => "keys_unsorted".into(),
            _ => return Err(format!("unsupported native {name}/{}", args.len())),
        })
    }

    fn conv(&mut self, t: &T, scope: &Scope) -> R {
        self.depth += 1;
        if self.depth > 200 {
            self.depth -= 1;
            return Err("too deep".into());
        }
        let r = self.conv_(t, scope);
        self.depth -= 1;
        r
    }

    fn conv_(&mut self, t: &T, scope: &Scope) -> R {
        Ok(match t {
            Term::Id => ".".into(),
            Term::Recurse => "..".into(),
            Term::Num(n) => match n.parse::<isize>() {
                Ok(i) => format!("lit I{i}"),
                Err(_) => return Err(format!("unsupported number {n}")),
            },
            Term::Str(None, parts) => {
                let mut b = Vec::new();
                for p in parts {
                    match p {
                        StrPart::Str(s) => b.extend_from_slice(s.as_bytes()),
                        StrPart::Char(c) => b.extend_from_slice(c.to_string().as_bytes()),
                        StrPart::Term(_) => return Err("string interpolation".into()),
                    }
                }
                format!("lit S{}", vx::hex(&b))
            }
            Term::Str(Some(_), _) => return Err("format string".into()),
            Term::Arr(None) => format!("arr {EMPTY_TOK}"),
            Term::Arr(Some(f)) => format!("arr {}", self.conv(f, scope)?),
            Term::Obj(es) => {
                if es.is_empty() {
                    "obj0".into()
                } else {
                    let mut parts = vec![];
                    for (k, v) in es {
                        let Some(v) = v else { return Err("object shorthand".into()) };
                        parts.push(format!("obj1 {} {}", self.conv(k, scope)?, self.conv(v, scope)?));
                    }
                    let mut acc = parts.pop().unwrap();
                    while let Some(x) = parts.pop() {
                        acc = format!("math add {x} {acc}");
                    }
                    acc
                }
            }
            Term::Neg(f) => format!("neg {}", self.conv(f, scope)?),
            Term::BinOp(l, op, r) => {
                let lt = self.conv(l, scope)?;
                match op {
                    BinaryOp::Pipe(None) => format!("pipe {lt} {}", self.conv(r, scope)?),
                    BinaryOp::Pipe(Some(Pattern::Var(x))) => {
                        let dst = self.fresh(x);
                        let s2 = push(scope, Entry::Var { src: x.to_string(), dst: dst.clone() });
                        format!("bind {lt} {dst} {}", self.conv(r, &s2)?)
                    }
                    BinaryOp::Pipe(Some(_)) => return Err("destructuring pattern".into()),
                    BinaryOp::Comma => format!("comma {lt} {}", self.conv(r, scope)?),
                    BinaryOp::Alt => format!("alt {lt} {}", self.conv(r, scope)?),
                    BinaryOp::Or => format!("or {lt} {}", self.conv(r, scope)?),
                    BinaryOp::And => format!("and {lt} {}", self.conv(r, scope)?),
                    BinaryOp::Math(m) => format!("math {} {lt} {}", math_tok(m), self.conv(r, scope)?),
                    BinaryOp::Cmp(c) => format!("cmp {} {lt} {}", cmp_tok(c), self.conv(r, scope)?),
                    BinaryOp::Assign => format!("assign {lt} {}", self.conv(r, scope)?),
                    BinaryOp::Update => format!("upd {lt} {}", self.conv(r, scope)?),
                    BinaryOp::UpdateMath(m) => format!("updmath {} {lt} {}", math_tok(m), self.conv(r, scope)?),
                    BinaryOp::UpdateAlt => format!("updalt {lt} {}", self.conv(r, scope)?),
                }
            }
            Term::Label(..) | Term::Break(_) => return Err("label/break".into()),
            Term::Fold(name, xs, pat, args) => {
                let Pattern::Var(x) = pat else { return Err("destructuring pattern".into()) };
                let xs = self.conv(xs, scope)?;
                let dst = self.fresh(x);
                let s2 = push(scope, Entry::Var { src: x.to_string(), dst: dst.clone() });
                if args.len() < 2 {
                    return Err("fold arity".into());
                }
                let init = self.conv(&args[0], scope)?;
                let upd = self.conv(&args[1], &s2)?;
                match (*name, args.len()) {
                    ("reduce", 2) => format!("reduce {xs} {dst} {init} {upd}"),
                    ("foreach", 2) => format!("foreach {xs} {dst} {init} {upd}"),
                    ("foreach", 3) => format!("foreachp {xs} {dst} {init} {upd} {}", self.conv(&args[2], &s2)?),
                    _ => return Err("fold arity".into()),
                }
            }
            Term::TryCatch(f, None) => format!("try {}", self.conv(f, scope)?),
            Term::TryCatch(_, Some(_)) => return Err("try-catch with handler".into()),
            Term::IfThenElse(its, els) => {
                let mut acc = match els {
                    Some(e) => self.conv(e, scope)?,
                    None => ".".into(),
                };
                for (c, t) in its.iter().rev() {
                    acc = format!("ite {} {} {acc}", self.conv(c, scope)?, self.conv(t, scope)?);
                }
                acc
            }
            Term::Def(defs, t) => {
                let mut s = scope.clone();
                for d in defs {
                    s = push(&s, def_entry(d));
                }
                self.conv(t, &s)?
            }
            Term::Call(name, args) => self.call(scope, name, args)?,
            Term::Var(x) => self.var(scope, x)?,
            Term::Path(f, path) => {
                let mut out = format!("path {}", self.conv(f, scope)?);
                for (part, opt) in &path.0 {
                    let o = match opt {
                        Opt::Optional => "?",
                        Opt::Essential => "!",
                    };
                    match part {
                        Part::Index(i) => out += &format!(" ix{o} {}", self.conv(i, scope)?),
                        Part::Range(None, None) => out += &format!(" it{o}"),
                        Part::Range(Some(i), None) => out += &format!(" rf{o} {}", self.conv(i, scope)?),
                        Part::Range(None, Some(j)) => out += &format!(" rt{o} {}", self.conv(j, scope)?),
                        Part::Range(Some(i), Some(j)) => {
                            out += &format!(" rb{o} {} {}", self.conv(i, scope)?, self.conv(j, scope)?)
                        }
                    }
                }
                out + " end"
            }
        })
    }
}

fn def_entry(d: &Def<&'static str>) -> Entry {
    Entry::Def {
        name: d.name.to_string(),
        params: d.args.iter().map(|a| a.to_string()).collect(),
        body: Rc::new(d.body.clone()),
    }
}

fn prelude() -> Scope {
    let mut s: Scope = None;
    for d in jaq_all::defs() {
        s = push(&s, def_entry(&d));
    }
    s
}

fn leak(s: &str) -> &'static str {
    Box::leak(s.to_string().into_boxed_str())
}

fn to_tokens(prel: &Scope, text: &str, free_vars: &[&str]) -> R {
    let text = leak(text);
    let t: T = jaq_core::load::parse(text, |p| p.term()).ok_or_else(|| format!("does not parse: {text}"))?;
    let mut s = prel.clone();
    for v in free_vars {
        s = push(&s, Entry::Var { src: v.to_string(), dst: v.to_string() });
    }
    Conv::new().conv(&t, &s)
}

// ------------------------------------------------------------------------------------------
// running the real code
// ------------------------------------------------------------------------------------------

const PULLS: usize = 3000;
const FUEL: usize = 400;

/// outputs and terminator of the real run: `v ; v | ok`, `… | E <class>`, `… | X` (limit / other exception)
fn real_run(f: &jaq_all::data::Filter, input: &Val) -> (Vec<Val>, String) {
    use jaq_all::data::{Ctx, Data, Runner};
    use jaq_core::Vars;
    use jaq_std::input::RcIter;
    let runner = Runner::default();
    let inputs: Box<dyn Iterator<Item = Result<Val, String>>> = Box::new(std::iter::empty());
    let rc = RcIter::new(inputs);
    let data = Data { runner: &runner, lut: &f.lut, inputs: &rc };
    let ctx = Ctx::new(&data, Vars::new(Vec::new()));
    let mut out = Vec::new();
    let mut n = 0;
    for y in f.id.run((ctx, input.clone())) {
        n += 1;
        if n > PULLS {
            return (out, "X toomany".into());
        }
        match y {
            Ok(v) => out.push(v),
            Err(exn) => {
                return match exn.get_err() {
                    Ok(e) => (out, format!("E {}", err_cls(&e))),
                    Err(_) => (out, "X exn".into()),
                }
            }
        }
    }
    (out, "ok".into())
}

fn show_run(r: &(Vec<Val>, String)) -> String {
    let v: Vec<String> = r.0.iter().map(vx::enc_canon).collect();
    format!("{} | {}", v.join(" ; "), r.1)
}

/// order-insensitive rendering (jaq's `==` ignores the order of object keys)
fn unordered(v: &Val) -> String {
    match v {
        Val::Arr(a) => format!("[{}]", a.iter().map(unordered).collect::<Vec<_>>().join(",")),
        Val::Obj(o) => {
            let mut es: Vec<String> = o.iter().map(|(k, v)| format!("{}:{}", unordered(k), unordered(v))).collect();
            es.sort();
            format!("{{{}}}", es.join(","))
        }
        v => vx::enc_canon(&norm_ints(v)),
    }
}

/// comparison form for oracles: values modulo key order, errors as such (class not compared:
/// the manual's `fail` is `error`)
fn show_unordered(r: &(Vec<Val>, String)) -> String {
    let v: Vec<String> = r.0.iter().map(unordered).collect();
    let t = if r.1.starts_with("E ") { "E" } else { &r.1 };
    format!("{} | {}", v.join(" ; "), t)
}

static RUN_START: std::sync::atomic::AtomicU64 = std::sync::atomic::AtomicU64::new(0);
static CURRENT: std::sync::Mutex<String> = std::sync::Mutex::new(String::new());

fn now_ms() -> u64 {
    std::time::SystemTime::now().duration_since(std::time::UNIX_EPOCH).map(|d| d.as_millis() as u64).unwrap_or(0)
}

/// a single real run that takes longer than this is reported as non-termination
const RUN_LIMIT_MS: u64 = 300_000;

fn watchdog() {
    std::thread::spawn(|| loop {
        std::thread::sleep(std::time::Duration::from_millis(500));
        let t = RUN_START.load(std::sync::atomic::Ordering::SeqCst);
        if t != 0 && now_ms() > t + RUN_LIMIT_MS {
            eprintln!("RUN {}", CURRENT.lock().map(|s| s.clone()).unwrap_or_default());
            eprintln!("watchdog: run exceeds {RUN_LIMIT_MS} ms");
            std::process::exit(3);
        }
    });
}

/// names of all filters called in a term (over-approximation of what it needs from the prelude)
fn calls(t: &T, out: &mut std::collections::HashSet<String>) {
    fn pat(p: &Pattern<&'static str>, out: &mut std::collections::HashSet<String>) {
        match p {
            Pattern::Var(_) => {}
            Pattern::Arr(ps) => ps.iter().for_each(|p| pat(p, out)),
            Pattern::Obj(es) => es.iter().for_each(|(k, p)| {
                calls(k, out);
                pat(p, out)
            }),
        }
    }
    match t {
        Term::Id | Term::Recurse | Term::Num(_) | Term::Var(_) | Term::Break(_) => {}
        Term::Str(fmt, parts) => {
            if let Some(f) = fmt {
                out.insert(f.to_string());
            }
            for p in parts {
                if let StrPart::Term(t) = p {
                    calls(t, out)
                }
            }
        }
        Term::Arr(a) => {
            if let Some(a) = a {
                calls(a, out)
            }
        }
        Term::Obj(es) => es.iter().for_each(|(k, v)| {
            calls(k, out);
            if let Some(v) = v {
                calls(v, out)
            }
        }),
        Term::Neg(f) | Term::Label(_, f) => calls(f, out),
        Term::BinOp(l, op, r) => {
            calls(l, out);
            if let BinaryOp::Pipe(Some(p)) = op {
                pat(p, out)
            }
            calls(r, out)
        }
        Term::Fold(_, xs, p, args) => {
            calls(xs, out);
            pat(p, out);
            args.iter().for_each(|a| calls(a, out))
        }
        Term::TryCatch(f, c) => {
            calls(f, out);
            if let Some(c) = c {
                calls(c, out)
            }
        }
        Term::IfThenElse(its, e) => {
            for (c, t) in its {
                calls(c, out);
                calls(t, out)
            }
            if let Some(e) = e {
                calls(e, out)
            }
        }
        Term::Def(defs, t) => {
            defs.iter().for_each(|d| calls(&d.body, out));
            calls(t, out)
        }
        Term::Call(name, args) => {
            out.insert(name.to_string());
            args.iter().for_each(|a| calls(a, out))
        }
        Term::Path(f, path) => {
            calls(f, out);
            for (part, _) in &path.0 {
                match part {
                    Part::Index(i) => calls(i, out),
                    Part::Range(a, b) => {
                        if let Some(a) = a {
                            calls(a, out)
                        }
                        if let Some(b) = b {
                            calls(b, out)
                        }
                    }
                }
            }
        }
    }
}

/// the real compiler on the program and on exactly those real prelude definitions it can reach
/// (compiling all ~200 definitions for every program dominates the run time otherwise)
fn compile_needed(all: &[Def<&'static str>], text: &str) -> Option<jaq_all::data::Filter> {
    let t: T = jaq_core::load::parse(leak(text), |p| p.term())?;
    let mut need = std::collections::HashSet::new();
    calls(&t, &mut need);
    need.insert("!empty".to_string());
    need.insert("empty".to_string());
    loop {
        let n = need.len();
        for d in all {
            if need.contains(d.name) {
                calls(&d.body, &mut need);
            }
        }
        if need.len() == n {
            break;
        }
    }
    let defs = all.iter().filter(|d| need.contains(d.name)).cloned();
    jaq_all::compile_with(text, defs, jaq_all::data::funs(), &[]).ok()
}

struct Progs {
    all_defs: Vec<Def<&'static str>>,
    prel: Scope,
    cache: HashMap<String, Option<Rc<jaq_all::data::Filter>>>,
    toks: HashMap<String, Option<String>>,
}

impl Progs {
    fn filter(&mut self, text: &str) -> Option<Rc<jaq_all::data::Filter>> {
        if let Some(f) = self.cache.get(text) {
            return f.clone();
        }
        if self.cache.len() > 20000 {
            self.cache.clear();
        }
        let all = &self.all_defs;
        let f = catch(|| compile_needed(all, text)).ok().flatten().map(Rc::new);
        self.cache.insert(text.to_string(), f.clone());
        f
    }
    fn tokens(&mut self, text: &str) -> Option<String> {
        if let Some(t) = self.toks.get(text) {
            return t.clone();
        }
        if self.toks.len() > 20000 {
            self.toks.clear();
        }
        let t = to_tokens(&self.prel, text, &[]).ok();
        self.toks.insert(text.to_string(), t.clone());
        t
    }
    fn run(&mut self, text: &str, input: &Val) -> Option<(Vec<Val>, String)> {
        let f = self.filter(text)?;
        if std::env::var("C02_TRACE").is_ok() {
            eprintln!("RUN {text} <- {}", vx::enc(input));
        }
        if let Ok(mut c) = CURRENT.lock() {
            *c = format!("{text} <- {}", vx::enc(input));
        }
        RUN_START.store(now_ms(), std::sync::atomic::Ordering::SeqCst);
        let r = catch(|| real_run(&f, input));
        RUN_START.store(0, std::sync::atomic::Ordering::SeqCst);
        match r {
            Ok(r) => Some(r),
            Err(m) => Some((vec![], format!("PANIC {}", m.replace(['\t', '\n'], " ")))),
        }
    }
}

// ------------------------------------------------------------------------------------------
// generators
// ------------------------------------------------------------------------------------------

/// a path expression with the structure the oracles need
#[derive(Clone)]
struct Ex {
    /// jq text
    t: String,
    /// text with `f // g` replaced by the manual's `if first(f // false) then f else g end` in path positions
    ta: String,
    /// top-level shape and the texts of its parts (for the update rules)
    shape: Shape,
    has_recurse_def: bool,
    free_x: bool,
    size: usize,
}

impl Ex {
    /// occurrences of `..` / `recurse`
    fn rec_count(&self) -> usize {
        self.t.matches("..").count() + self.t.matches("recurse").count()
    }
}

#[derive(Clone)]
enum Shape {
    Atom,
    Other,
    Pipe(String, String),
    Comma(String, String),
    Bind(String, String),
    Ite(String, String, String),
    Alt(String, String),
}

fn atom(t: &str) -> Ex {
    Ex {
        t: t.into(),
        ta: t.into(),
        shape: Shape::Atom,
        has_recurse_def: t.contains("recurse"),
        free_x: t.contains("$x"),
        size: 1,
    }
}

fn atoms(tier_full: bool) -> Vec<Ex> {
    let mut v: Vec<&str> = vec![".", "..", ".[]", ".[]?", ".a", ".a?", ".[0]", ".[-1]", ".[1:]", ".[:1]?", "recurse", "empty", "error"];
    if tier_full {
        v.extend([".a[]?", ".[]?.a?", ".[0][1:]?", ".[(0,1)]?", ".[\"a\",\"b\"]?", ".[:-1]", ".b", ".[1]?", ".[$x]?", ".[1:][0]",
                  "getpath([\"a\"])", "getpath([0,\"a\"])", ".[]?[]?", ".[-1:]?"]);
    } else {
        v.extend([".a[]?", ".[$x]?", "getpath([\"a\"])", ".[(0,1)]?"]);
    }
    v.into_iter().map(atom).collect()
}

fn un(name: &str, e: &Ex) -> Ex {
    let w = |s: &str| match name {
        "first" => format!("first({s})"),
        "last" => format!("last({s})"),
        "limit" => format!("limit(1; {s})"),
        "skip" => format!("skip(1; {s})"),
        "getpath" => format!("getpath(path({s}))"),
        "try" => format!("try ({s})"),
        "def" => format!("def f: {s}; f"),
        "defarg" => format!("def f(g): g; f({s})"),
        _ => unreachable!(),
    };
    Ex { t: w(&e.t), ta: w(&e.ta), shape: Shape::Other, size: e.size + 1, ..e.clone() }
}

/// `select(c)` keeps `.`; the condition is not a path position
fn select(c: &Ex) -> Ex {
    let t = format!("select({})", c.t);
    Ex { t: t.clone(), ta: t, shape: Shape::Other, size: c.size + 1, ..c.clone() }
}

fn bin(op: &str, l: &Ex, r: &Ex) -> Ex {
    let (t, ta, shape, fx) = match op {
        "pipe" => (
            format!("({} | {})", l.t, r.t),
            format!("({} | {})", l.ta, r.ta),
            Shape::Pipe(l.t.clone(), r.t.clone()),
            l.free_x || r.free_x,
        ),
        "comma" => (
            format!("({}, {})", l.t, r.t),
            format!("({}, {})", l.ta, r.ta),
            Shape::Comma(l.t.clone(), r.t.clone()),
            l.free_x || r.free_x,
        ),
        "alt" => (
            format!("({} // {})", l.t, r.t),
            format!("(if first({} // false) then {} else {} end)", l.t, l.ta, r.ta),
            Shape::Alt(l.t.clone(), r.t.clone()),
            l.free_x || r.free_x,
        ),
        "bind" => (
            format!("({} as $x | {})", l.t, r.t),
            format!("({} as $x | {})", l.t, r.ta),
            Shape::Bind(l.t.clone(), r.t.clone()),
            l.free_x,
        ),
        _ => unreachable!(),
    };
    Ex { t, ta, shape, has_recurse_def: l.has_recurse_def || r.has_recurse_def, free_x: fx, size: l.size + r.size + 1 }
}

fn ite(c: &Ex, t: &Ex, e: &Ex) -> Ex {
    Ex {
        t: format!("if {} then {} else {} end", c.t, t.t, e.t),
        ta: format!("if {} then {} else {} end", c.t, t.ta, e.ta),
        shape: Shape::Ite(c.t.clone(), t.t.clone(), e.t.clone()),
        has_recurse_def: c.has_recurse_def || t.has_recurse_def || e.has_recurse_def,
        free_x: c.free_x || t.free_x || e.free_x,
        size: c.size + t.size + e.size + 1,
    }
}

fn fold(kind: &str, xs: &Ex, init: &Ex, upd: &Ex, proj: Option<&Ex>) -> Ex {
    let w = |i: &str, u: &str, p: Option<&str>| match p {
        None => format!("{kind} {} as $x ({i}; {u})", xs.t),
        Some(p) => format!("{kind} {} as $x ({i}; {u}; {p})", xs.t),
    };
    Ex {
        t: w(&init.t, &upd.t, proj.map(|p| &*p.t)),
        ta: w(&init.ta, &upd.ta, proj.map(|p| &*p.ta)),
        shape: Shape::Other,
        has_recurse_def: xs.has_recurse_def || init.has_recurse_def || upd.has_recurse_def || proj.map_or(false, |p| p.has_recurse_def),
        free_x: xs.free_x || init.free_x,
        size: xs.size + init.size + upd.size + 1,
    }
}

fn conds() -> Vec<Ex> {
    // several with more than one output: the update evaluator must thread all branch updates through one value
    [".", ".a?", ".[]?", "(true, false)", "(.[0]? // false)", "(false, true, true)", "(.[]? | . == 1)"].iter().map(|s| atom(s)).collect()
}
fn xss() -> Vec<Ex> {
    ["(0, \"a\")", ".[]?", "empty", "(1, error)"].iter().map(|s| atom(s)).collect()
}

/// all expressions of the next depth built from `sub` (every constructor with every argument tuple)
fn grow(sub: &[Ex], small: &[Ex]) -> Vec<Ex> {
    let mut out = vec![];
    for e in sub {
        for u in ["first", "last", "limit", "skip", "getpath", "try", "def", "defarg"] {
            out.push(un(u, e));
        }
        out.push(select(e));
    }
    for l in sub {
        for r in sub {
            for op in ["pipe", "comma", "alt", "bind"] {
                out.push(bin(op, l, r));
            }
        }
    }
    for c in conds() {
        for t in small {
            for e in small {
                out.push(ite(&c, t, e));
            }
        }
    }
    for xs in xss() {
        for i in small {
            for u in small {
                out.push(fold("reduce", &xs, i, u, None));
                out.push(fold("foreach", &xs, i, u, None));
            }
        }
    }
    for xs in xss().iter().take(2) {
        for u in small.iter().take(6) {
            for p in small.iter().take(6) {
                out.push(fold("foreach", xs, &atom("."), u, Some(p)));
            }
        }
    }
    out
}

fn rand_expr(rng: &mut Rng, at: &[Ex], depth: usize) -> Ex {
    if depth <= 1 || rng.chance(1, 5) {
        return rng.pick(at).clone();
    }
    let sub = |rng: &mut Rng| rand_expr(rng, at, depth - 1);
    match rng.below(16) {
        0 => un("first", &sub(rng)),
        1 => un("last", &sub(rng)),
        2 => un("limit", &sub(rng)),
        3 => un("skip", &sub(rng)),
        4 => un("getpath", &sub(rng)),
        5 => select(&sub(rng)),
        6 | 7 => bin("pipe", &sub(rng), &sub(rng)),
        8 => bin("comma", &sub(rng), &sub(rng)),
        9 => bin("alt", &sub(rng), &sub(rng)),
        10 => bin("bind", &sub(rng), &sub(rng)),
        11 => {
            let c = if rng.chance(1, 2) { rng.pick(&conds()).clone() } else { sub(rng) };
            ite(&c, &sub(rng), &sub(rng))
        }
        12 => fold("reduce", &rng.pick(&xss()).clone(), &sub(rng), &sub(rng), None),
        13 => {
            let p = if rng.chance(1, 2) { Some(sub(rng)) } else { None };
            fold("foreach", &rng.pick(&xss()).clone(), &sub(rng), &sub(rng), p.as_ref())
        }
        14 => un(if rng.chance(1, 2) { "def" } else { "defarg" }, &sub(rng)),
        _ => un("try", &sub(rng)),
    }
}

/// all JSON trees with exactly `n` nodes over the atom set
fn trees(n: usize, memo: &mut HashMap<usize, Vec<Val>>) -> Vec<Val> {
    if let Some(v) = memo.get(&n) {
        return v.clone();
    }
    let mut out = vec![];
    if n == 1 {
        out = vec![Val::Null, int(1), tstr(b"a"), Val::Bool(false), arr(vec![]), obj(vec![])];
    } else if n > 1 {
        // children sequences with total size n-1
        let seqs = seqs(n - 1, memo);
        for s in &seqs {
            out.push(arr(s.clone()));
            let keysets: Vec<Vec<&[u8]>> = match s.len() {
                1 => vec![vec![b"a"], vec![b"b"]],
                2 => vec![vec![b"a", b"b"], vec![b"b", b"a"]],
                3 => vec![vec![b"a", b"b", b"c"], vec![b"c", b"a", b"b"]],
                _ => {
                    let all: Vec<&[u8]> = vec![b"a", b"b", b"c", b"d", b"e"];
                    vec![all[..s.len().min(5)].to_vec()]
                }
            };
            for ks in keysets {
                if ks.len() == s.len() {
                    out.push(obj(ks.iter().zip(s).map(|(k, v)| (tstr(k), v.clone())).collect()));
                }
            }
        }
    }
    memo.insert(n, out.clone());
    out
}

fn seqs(total: usize, memo: &mut HashMap<usize, Vec<Val>>) -> Vec<Vec<Val>> {
    if total == 0 {
        return vec![vec![]];
    }
    let mut out = vec![];
    for first in 1..=total {
        let heads: Vec<Val> = trees(first, memo).into_iter().filter(|v| first > 1 || !matches!(v, Val::Bool(_))).collect();
        let rests = seqs(total - first, memo);
        for h in &heads {
            for r in &rests {
                let mut s = vec![h.clone()];
                s.extend(r.iter().cloned());
                out.push(s);
            }
        }
    }
    out
}

/// update filters: no output, one, two (first ≠ last), three distinct (first / last / all differ), one then an
/// error (taking the first output vs collecting all), an error, a growing one
const US: [&str; 8] = ["empty", ".", "(., 0)", ".+1", "error", "[.]", "(1, ., 2)", "(., error)"];
const WS: [&str; 4] = ["(1, 2)", "empty", ".", ".[]?"];

/// updates through a conditional whose condition yields several outputs, with the manual's reading
/// (`reduce c as $c (.; if $c then f |= u else g |= u end)`) as reference where it is a plain rewriting
const MULTI_COND: [&str; 12] = [
    "[if (true, false) then .a else .b end |= 1]",
    "[if (true, false) then .a else .b end += 1]",
    "[if (true, false) then .a else .b end = (1, 2)]",
    "[select(.[]?) |= 5]",
    "[select((true, true)) |= (., 0)]",
    "[if .[]? then .[0]? else .[1]? end |= (., 0)]",
    "[if (false, true, true) then . else .[]? end |= [.]]",
    "[(.[]? | select((true, false, true))) |= (1, ., 2)]",
    "[if (true, false) then .[0]? else .a? end |= empty]",
    "[if (true, error) then .a else .b end |= 1]",
    "[if (.[]? | . == 1) then .[0]? else .[-1]? end //= 3]",
    "[del(if (true, false) then .a else .b end)]",
];
const MULTI_COND_REF: [Option<&str>; 12] = [
    Some("[reduce (true, false) as $c (.; if $c then .a |= 1 else .b |= 1 end)]"),
    Some("[reduce (true, false) as $c (.; if $c then .a |= .+1 else .b |= .+1 end)]"),
    Some("[(1, 2) as $w | reduce (true, false) as $c (.; if $c then .a |= $w else .b |= $w end)]"),
    Some("[reduce .[]? as $c (.; if $c then . |= 5 else empty |= 5 end)]"),
    Some("[reduce (true, true) as $c (.; if $c then . |= (., 0) else . end)]"),
    Some("[reduce .[]? as $c (.; if $c then .[0]? |= (., 0) else .[1]? |= (., 0) end)]"),
    Some("[reduce (false, true, true) as $c (.; if $c then . |= [.] else .[]? |= [.] end)]"),
    Some("[.[]? |= reduce (true, false, true) as $c (.; if $c then . |= (1, ., 2) else . end)]"),
    Some("[reduce (true, false) as $c (.; if $c then .[0]? |= empty else .a? |= empty end)]"),
    Some("[reduce (true, error) as $c (.; if $c then .a |= 1 else .b |= 1 end)]"),
    None,
    Some("[reduce (true, false) as $c (.; if $c then .a |= empty else .b |= empty end)]"),
];

struct Emit {
    shard: usize,
    nshards: usize,
    counter: usize,
    ncorr: usize,
    noracle: HashMap<String, (usize, usize)>,
    skipped: usize,
}

impl Emit {
    fn mine(&mut self) -> bool {
        self.counter += 1;
        self.counter % self.nshards == self.shard
    }

    /// real code vs model on `prog`
    fn corr(&mut self, ps: &mut Progs, prog: &str, input: &Val) {
        let Some(toks) = ps.tokens(prog) else {
            self.skipped += 1;
            return;
        };
        let Some(r) = ps.run(prog, input) else {
            self.skipped += 1;
            return;
        };
        if r.1.starts_with('X') {
            self.skipped += 1;
            return;
        }
        self.ncorr += 1;
        println!("C\t{}\tc02.eval {} {} {}\t{}\t{}", self.ncorr, FUEL, vx::enc(input), toks, show_run(&r), prog);
    }

    /// two programs that the manual says are equal
    fn oracle(&mut self, ps: &mut Progs, rule: &str, a: &str, b: &str, input: &Val, unordered: bool) {
        let (Some(ra), Some(rb)) = (ps.run(a, input), ps.run(b, input)) else {
            self.skipped += 1;
            return;
        };
        if ra.1.starts_with('X') || rb.1.starts_with('X') {
            self.skipped += 1;
            return;
        }
        let (sa, sb) = if unordered { (show_unordered(&ra), show_unordered(&rb)) } else { (show_eq(&ra), show_eq(&rb)) };
        let e = self.noracle.entry(rule.to_string()).or_insert((0, 0));
        e.0 += 1;
        if sa != sb {
            e.1 += 1;
            println!("O\tFAIL\t{rule}\t{a}\t{b}\t{}\t{sa}\t{sb}", vx::enc(input));
        } else if e.0 <= 2 {
            println!("O\tok\t{rule}\t{a}\t{b}\t{}\t{sa}\t{sb}", vx::enc(input));
        }
    }
}

/// exact values, errors as such
fn show_eq(r: &(Vec<Val>, String)) -> String {
    let v: Vec<String> = r.0.iter().map(|v| vx::enc_canon(&norm_ints(v))).collect();
    let t = if r.1.starts_with("E ") { "E" } else { &r.1 };
    format!("{} | {}", v.join(" ; "), t)
}

fn manual_defs() -> String {
    std::env::var("VERIF_C02_MANUAL").ok().and_then(|p| std::fs::read_to_string(p).ok()).unwrap_or_default()
}

fn cases_for(em: &mut Emit, ps: &mut Progs, e: &Ex, vals: &[Val], manual: &str, us: &[&str]) {
    if e.free_x {
        return;
    }
    if !em.mine() {
        return;
    }
    let p = &e.t;
    for (vi, v) in vals.iter().enumerate() {
        // the three evaluators against the model
        em.corr(ps, &format!("[{p}]"), v);
        em.corr(ps, &format!("[path({p})]"), v);
        em.corr(ps, &format!("[path_value({p})]"), v);
        // the evaluators against each other (no model involved)
        em.oracle(ps, "getpath-path", &format!("[{}]", e.ta), &format!("[getpath(path({p}))]"), v, false);
        em.oracle(ps, "path_value", &format!("[path_value({p})]"), &format!("[path({p}) as $q | [$q, getpath($q)]]"), v, false);
        let is_fold = e.t.contains("foreach") || e.t.contains("reduce");
        let heavy = e.rec_count() >= 2 || (e.rec_count() >= 1 && is_fold);
        for u in us {
            if *u == "[.]" && e.rec_count() >= 1 {
                // `recurse |= [.]` does not terminate (updates from the root down); `..` with a growing
                // update inside a fold is finite but astronomically large
                continue;
            }
            if heavy && !matches!(*u, "empty" | "." | "error") {
                continue; // nested recursion with a growing update explodes (finite but huge)
            }
            em.corr(ps, &format!("[{p} |= {u}]"), v);
            let a = format!("[{p} |= {u}]");
            match &e.shape {
                Shape::Pipe(f, g) => em.oracle(ps, "upd-pipe", &a, &format!("[{f} |= ({g} |= {u})]"), v, true),
                Shape::Comma(f, g) => em.oracle(ps, "upd-comma", &a, &format!("[({f} |= {u}) | ({g} |= {u})]"), v, true),
                Shape::Bind(f, g) => em.oracle(ps, "upd-bind", &a, &format!("[reduce {f} as $x (.; {g} |= {u})]"), v, true),
                Shape::Ite(c, t, el) => em.oracle(
                    ps,
                    "upd-ite",
                    &a,
                    &format!("[reduce ({c}) as $c (.; if $c then {t} |= {u} else {el} |= {u} end)]"),
                    v,
                    true,
                ),
                Shape::Alt(f, g) => em.oracle(
                    ps,
                    "upd-alt",
                    &a,
                    &format!("[if first({f} // false) then {f} |= {u} else {g} |= {u} end]"),
                    v,
                    true,
                ),
                Shape::Atom => {
                    let b = match p.as_str() {
                        "." => Some(format!("[{u}]")),
                        "empty" => Some("[.]".to_string()),
                        ".." => Some(format!("[def rec_up: (.[]? | rec_up), .; rec_up |= {u}]")),
                        ".[]" => Some(format!("[{manual} iter_upd({u}; error)]")),
                        ".[]?" => Some(format!("[{manual} iter_upd({u}; .)]")),
                        ".a" => Some(format!("[{manual} index_upd(\"a\"; {u}; error)]")),
                        ".a?" => Some(format!("[{manual} index_upd(\"a\"; {u}; .)]")),
                        ".b" => Some(format!("[{manual} index_upd(\"b\"; {u}; error)]")),
                        ".[0]" => Some(format!("[{manual} index_upd(0; {u}; error)]")),
                        ".[1]?" => Some(format!("[{manual} index_upd(1; {u}; .)]")),
                        ".[-1]" => Some(format!("[{manual} index_upd(-1; {u}; error)]")),
                        ".[1:]" => Some(format!("[{manual} slice_upd(1; length; {u}; error)]")),
                        ".[:1]?" => Some(format!("[{manual} slice_upd(0; 1; {u}; .)]")),
                        ".[:-1]" => Some(format!("[{manual} slice_upd(0; -1; {u}; error)]")),
                        // (`length` fails on booleans before `fail` is consulted; the manual's row is read with an open end there)
                        ".[-1:]?" => Some(format!("[{manual} slice_upd(-1; (try length catch null); {u}; .)]")),
                        ".a[]?" => Some(format!("[.a |= (.[]? |= {u})]")),
                        ".[]?.a?" => Some(format!("[.[]? |= (.a? |= {u})]")),
                        ".[0][1:]?" => Some(format!("[.[0] |= (.[1:]? |= {u})]")),
                        ".[]?[]?" => Some(format!("[.[]? |= (.[]? |= {u})]")),
                        _ => None,
                    };
                    if let (Some(b), false) = (b, manual.is_empty()) {
                        em.oracle(ps, &format!("upd-atom {p}"), &a, &b, v, true);
                    }
                }
                Shape::Other => {}
            }
        }
        // `=`, `op=`, `//=` with multi-valued right-hand sides
        // `recurse = .` and the like grow the value under the cursor for ever (updates from the root down)
        let w = if e.has_recurse_def || heavy { WS[(em.counter + vi) % 2] } else { WS[(em.counter + vi) % WS.len()] };
        em.corr(ps, &format!("[{p} = {w}]"), v);
        em.corr(ps, &format!("[{p} += {w}]"), v);
        em.corr(ps, &format!("[{p} //= {w}]"), v);
        em.oracle(ps, "assign", &format!("[{p} = {w}]"), &format!("[{w} as $w | {p} |= $w]"), v, false);
        em.oracle(ps, "update-math", &format!("[{p} += {w}]"), &format!("[{w} as $w | {p} |= . + $w]"), v, false);
        em.oracle(ps, "update-alt", &format!("[{p} //= {w}]"), &format!("[{w} as $w | {p} |= (. // $w)]"), v, false);
        // derived filters
        em.oracle(ps, "del", &format!("[del({p})]"), &format!("[{p} |= empty]"), v, false);
    }
}

/// derived filters that do not depend on a path expression
fn derived(em: &mut Emit, ps: &mut Progs, vals: &[Val]) {
    for v in vals {
        if !em.mine() {
            continue;
        }
        // conditions with several outputs inside `if` / `select` in update position (round 2)
        for (i, prog) in MULTI_COND.iter().enumerate() {
            em.corr(ps, prog, v);
            if let Some(b) = MULTI_COND_REF[i] {
                em.oracle(ps, "upd-multi-cond", prog, b, v, true);
            }
        }
        for prog in ["[paths]", "[..]", "[path(..)]", "keys_unsorted", "[paths(. == 1)]", "[getpath([\"a\"], [0], [\"a\", 0], [])]",
                     "[setpath([\"a\"]; 7)]", "[setpath([0]; 7)]", "[delpaths([[\"a\"], [0]])]", "[delpaths([path(..)])]",
                     "map_values(empty)", "map_values(., .)", "walk(1)", "[.[] |= (.[]? |= empty)]", "[limit(2; ..)]"] {
            em.corr(ps, prog, v);
        }
        em.oracle(ps, "paths", "[paths]", "[path(..)] | .[1:]", v, false);
        em.oracle(ps, "paths-getpath", "[paths as $p | getpath($p)]", "[..] | .[1:]", v, false);
        em.oracle(ps, "keys_unsorted", "keys_unsorted", "[path(.[]) | .[0]]", v, false);
        em.oracle(ps, "to_entries-keys", "[to_entries[] | .key]", "[path(.[]) | .[0]]", v, false);
        em.oracle(ps, "to_entries-values", "[to_entries[] | .value]", "[.[]]", v, false);
        em.oracle(ps, "paths(f)", "[paths(. == 1)]", "[path(..) as $p | select($p != [] and (getpath($p) == 1)) | $p]", v, false);
        em.oracle(ps, "setpath", "[setpath([\"a\"]; 7)]", "[.a = 7]", v, false);
        em.oracle(ps, "setpath-getpath", "[setpath([\"a\", 0]; 7) | getpath([\"a\", 0])]", "[setpath([\"a\", 0]; 7) | 7]", v, false);
        em.oracle(ps, "delpaths", "[delpaths([[\"a\"], [0]])]", "[(.a |= empty) | (.[0] |= empty)]", v, false);
        em.oracle(ps, "delpaths-del", "[delpaths([[\"a\"]])]", "[del(.a)]", v, false);
        em.oracle(ps, "map_values", "[map_values(.+1)]", "[.[] |= .+1]", v, false);
        em.oracle(ps, "walk", "[walk(if . == 1 then 2 end)]", "[.. |= (if . == 1 then 2 end)]", v, false);
        em.oracle(ps, "pick", "[pick(.a)]", "[{a: .a}]", v, true);
        em.oracle(ps, "pick-mul", "[pick(.a, .b)]", "[pick(.a) * pick(.b)]", v, true);
        em.oracle(ps, "compound-path", "[.[]?[(0, \"a\")]?[1:]?]",
                  "[. as $f | (0, \"a\") as $x | 1 as $y | $f | .[]? | .[$x]? | .[$y:]?]", v, false);
    }
}

pub fn gen(shard: usize, nshards: usize) {
    watchdog();
    let tier = std::env::var("VERIF_TIER").unwrap_or_else(|_| "quick".into());
    let thorough = tier == "thorough";
    let mut rng = Rng::new(prng::seed_from_env());
    let mut ps = Progs { all_defs: jaq_all::defs().collect(), prel: prelude(), cache: HashMap::new(), toks: HashMap::new() };
    let manual = manual_defs();
    let mut em = Emit { shard, nshards, counter: 0, ncorr: 0, noracle: HashMap::new(), skipped: 0 };

    // values: every tree up to 2 (quick) / 3 (thorough) nodes, seeded random sample of larger ones
    let mut memo = HashMap::new();
    let mut vals: Vec<Val> = vec![];
    for n in 1..=2 {
        vals.extend(trees(n, &mut memo));
    }
    let mut big: Vec<Val> = vec![];
    for n in 3..=5 {
        big.extend(trees(n, &mut memo));
    }
    let nbig = if thorough { 70 } else { 14 };
    for _ in 0..nbig {
        vals.push(rng.pick(&big).clone());
    }
    // fixed interesting values
    vals.push(obj(vec![(tstr(b"a"), arr(vec![int(1), obj(vec![(tstr(b"a"), int(2))])])), (tstr(b"b"), Val::Null), (tstr(b"c"), int(3))]));
    vals.push(arr(vec![arr(vec![int(1), int(2)]), obj(vec![(tstr(b"a"), arr(vec![Val::Null]))]), tstr(b"ab")]));
    vals.push(tstr("a\u{e9}b".as_bytes()));
    vals.push(bstr(b"ab"));
    println!("INFO\tvalues\t{}", vals.len());

    let at = atoms(thorough);
    let small: Vec<Ex> = at.iter().take(if thorough { 13 } else { 8 }).cloned().collect();
    let us: Vec<&str> = US.to_vec();

    derived(&mut em, &mut ps, &vals);
    // depth 1
    for e in &at {
        cases_for(&mut em, &mut ps, e, &vals, &manual, &us);
    }
    // depth 2: every constructor with every argument tuple (quick: binary constructors over the first 13 atoms)
    let sub: Vec<Ex> = if thorough { at.clone() } else { at.iter().take(13).cloned().collect() };
    let mut d2 = grow(&sub, &small);
    if !thorough {
        // the remaining atoms under the unary constructors and in one binary context each
        for (i, e) in at.iter().enumerate().skip(13) {
            for u in ["first", "last", "limit", "skip", "getpath", "try", "def", "defarg"] {
                d2.push(un(u, e));
            }
            d2.push(select(e));
            let o = &at[i % 9];
            d2.push(bin(["pipe", "comma", "alt", "bind"][i % 4], o, e));
            d2.push(bin(["pipe", "comma", "alt", "bind"][(i + 1) % 4], e, o));
        }
    }
    println!("INFO\tdepth2\t{}", d2.len());
    for (i, e) in d2.iter().enumerate() {
        // every expression on a rotating fifth of the values and two (thorough: three) of the update filters
        let vs: Vec<Val> = vals.iter().enumerate().filter(|(j, _)| (i + j) % 5 == 0).map(|(_, v)| v.clone()).collect();
        let us2: Vec<&str> = if thorough {
            vec![us[i % us.len()], us[(i + 2) % us.len()], us[(i + 4) % us.len()]]
        } else {
            vec![us[i % us.len()], us[(i + 3) % us.len()]]
        };
        cases_for(&mut em, &mut ps, e, &vs, &manual, &us2);
    }
    // depth 3 and 4: seeded random
    let n3 = if thorough { 10000 } else { 1500 };
    for i in 0..n3 {
        let e = rand_expr(&mut rng, &at, if i % 4 == 0 { 4 } else { 3 });
        if e.size > 14 {
            continue;
        }
        let vs: Vec<Val> = (0..3).map(|_| rng.pick(&vals).clone()).collect();
        let us2 = vec![us[i % us.len()]];
        cases_for(&mut em, &mut ps, &e, &vs, &manual, &us2);
    }
    for (rule, (n, bad)) in &em.noracle {
        println!("OSUM\t{rule}\t{n}\t{bad}");
    }
    println!("INFO\tcorr\t{}", em.ncorr);
    println!("INFO\tskipped\t{}", em.skipped);
}

/// prelude definitions in token form, for `lean/JaqVerif/Gen/C02Defs.lean`
fn emit_defs() {
    let prel = prelude();
    let holes = ["$F", "$G", "$P", "$X"];
    for (name, text) in [
        ("empty", "empty"),
        ("error", "error"),
        ("select", "select($F)"),
        ("recurse1", "recurse($F)"),
        ("recurse0", "recurse"),
        ("getpath", "getpath($P)"),
        ("setpath", "setpath($P; $X)"),
        ("delpaths", "delpaths($P)"),
        ("paths", "paths"),
        ("pathsf", "paths($F)"),
        ("del", "del($F)"),
        ("map_values", "map_values($F)"),
        ("walk", "walk($F)"),
        ("first0", "first"),
        ("last0", "last"),
    ] {
        match to_tokens(&prel, text, &holes) {
            Ok(t) => println!("DEF\t{name}\t{text}\t{t}"),
            Err(e) => println!("DEFERR\t{name}\t{text}\t{e}"),
        }
    }
}

pub fn main(args: &[String]) {
    match args.first().map(|s| s.as_str()) {
        Some("gen") => {
            let shard = args.get(1).and_then(|s| s.parse().ok()).unwrap_or(0);
            let n = args.get(2).and_then(|s| s.parse().ok()).unwrap_or(1);
            let h = std::thread::Builder::new().stack_size(1 << 30).spawn(move || gen(shard, n)).unwrap();
            h.join().unwrap()
        }
        Some("emit-defs") => emit_defs(),
        Some("one") => {
            let prog = &args[1];
            let toks: Vec<&str> = args[2..].iter().flat_map(|s| s.split(' ')).collect();
            let v = vx::dec_tokens(&mut toks.into_iter()).expect("input VX");
            let mut ps = Progs { all_defs: jaq_all::defs().collect(), prel: prelude(), cache: HashMap::new(), toks: HashMap::new() };
            match to_tokens(&ps.prel, prog, &[]) {
                Ok(t) => println!("request\tc02.eval {} {} {}", FUEL, vx::enc(&v), t),
                Err(e) => println!("request\t<unsupported: {e}>"),
            }
            match ps.run(prog, &v) {
                Some(r) => println!("real\t{}", show_run(&r)),
                None => println!("real\t<does not compile>"),
            }
        }
        _ => {
            eprintln!("usage: jaqverif c02 gen <shard> <nshards> | emit-defs | one <program> <vx>");
            std::process::exit(2);
        }
    }
}
