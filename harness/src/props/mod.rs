//! One module per property.  `dispatch` routes `jaqverif cNN …`.
#[allow(unused_imports)]
pub use crate::{common, prng, vx};

pub mod c09;

pub fn dispatch(cmd: &str, args: &[String]) -> bool {
    match cmd {
        "c09" => c09::main(args),
        _ => return false,
    }
    #[allow(unreachable_code)]
    true
}
