//! C13 — string codecs invert, positions count characters, escaping is safe.
//!   tables : per-byte outputs of the REAL escaping code (translator input for Gen/C13Tables.lean)
//!            `T <name> <index> <hex of output bytes>`
//!   gen    : `id \t request \t real` lines for the correspondence with the Lean model
//!            (requests `c13.f <op> <vx args…>`, `c13.fmt …`, `c13.rx …`)
//!   props  : property oracles evaluated by the real code alone (in-language equations);
//!            `PROP <ok|FAIL> \t <name> \t <input vx> \t <detail>`
//!   rx1    : first-match results of generated regexes on valid UTF-8 for the Python `re` oracle
use super::common::*;
use super::prng::{self, Rng};
use super::vx;
use jaq_all::data::Filter;
use jaq_json::Val;

/// (op name, jq code, number of `$a $b` arguments)
const OPS: &[(&str, &str, usize)] = &[
    ("html", "@html", 0),
    ("htmld", "@htmld", 0),
    ("uri", "@uri", 0),
    ("urid", "@urid", 0),
    ("base64", "@base64", 0),
    ("base64d", "@base64d", 0),
    ("sh", "@sh", 0),
    ("csv", "@csv", 0),
    ("tsv", "@tsv", 0),
    ("json", "@json", 0),
    ("text", "@text", 0),
    ("explode", "explode", 0),
    ("implode", "implode", 0),
    ("tobytes", "tobytes", 0),
    ("tostring", "tostring", 0),
    ("down", "ascii_downcase", 0),
    ("up", "ascii_upcase", 0),
    ("length", "length", 0),
    ("bytelen", "utf8bytelength", 0),
    ("split", "split($a)", 1),
    ("join", "join($a)", 1),
    ("indices", "indices($a)", 1),
    ("slice", ".[$a:$b]", 2),
    ("ltrimstr", "ltrimstr($a)", 1),
    ("rtrimstr", "rtrimstr($a)", 1),
    ("startswith", "startswith($a)", 1),
    ("endswith", "endswith($a)", 1),
];

fn vars() -> Vec<String> {
    vec!["a".to_string(), "b".to_string()]
}

struct Ops(Vec<(&'static str, usize, Filter)>);

impl Ops {
    fn new() -> Self {
        let vs = vars();
        Ops(OPS
            .iter()
            .map(|(n, code, k)| (*n, *k, compile_vars(code, &vs).unwrap_or_else(|e| panic!("{n}: {e}"))))
            .collect())
    }
    fn get(&self, name: &str) -> (&Filter, usize) {
        let (_, k, f) = self.0.iter().find(|(n, _, _)| *n == name).unwrap();
        (f, *k)
    }
}

/// one output value → `V vx`; an error → `E`; anything else → `X n`
fn show_items(items: &[Item]) -> String {
    match items {
        [Item::Val(v)] => format!("V {}", vx::enc_canon(v)),
        _ if items.iter().any(|i| matches!(i, Item::Err(_))) => "E".into(),
        _ => format!("X {}", items.len()),
    }
}

fn run_f(f: &Filter, input: Val, a: Val, b: Val) -> String {
    catch(|| show_items(&run_with(f, input, vec![a, b], vec![], 4)))
        .unwrap_or_else(|p| format!("PANIC {}", p.replace(['\t', '\n'], " ")))
}

/// atoms of the exhaustive string enumeration: shell/CSV/HTML/URL/JSON metacharacters, letters,
/// 2-, 3- and 4-byte characters, an invalid byte, a truncated sequence
fn atoms() -> Vec<Vec<u8>> {
    let mut v: Vec<Vec<u8>> = b"'\"\\&<>,\t\n\r %+=/$`!*?~#;".iter().map(|b| vec![*b]).collect();
    v.push(b"a".to_vec());
    v.push(b"Z".to_vec());
    v.push(b"1".to_vec());
    v.push(vec![0]);
    v.push("\u{e9}".as_bytes().to_vec());
    v.push("\u{20ac}".as_bytes().to_vec());
    v.push("\u{1f600}".as_bytes().to_vec());
    v.push(vec![0xff]);
    v.push(vec![0xe2, 0x82]);
    v
}

fn strings_upto(atoms: &[Vec<u8>], n: usize) -> Vec<Vec<u8>> {
    let mut out = vec![vec![]];
    let mut last = vec![vec![]];
    for _ in 0..n {
        let mut next = Vec::with_capacity(last.len() * atoms.len());
        for s in &last {
            for a in atoms {
                let mut t: Vec<u8> = s.clone();
                t.extend_from_slice(a);
                next.push(t);
            }
        }
        out.extend(next.iter().cloned());
        last = next;
    }
    out
}

fn rand_bytes(rng: &mut Rng, atoms: &[Vec<u8>], maxlen: usize) -> Vec<u8> {
    let n = rng.below(maxlen + 1);
    let mut s = vec![];
    for _ in 0..n {
        match rng.below(10) {
            0 => s.push(rng.below(256) as u8),
            1 => s.extend_from_slice(char::from_u32(rng.below(0x2000) as u32).unwrap_or('x').to_string().as_bytes()),
            2 => s.push(b'a' + rng.below(26) as u8),
            _ => {
                let a: &Vec<u8> = rng.pick(atoms);
                s.extend_from_slice(a)
            }
        }
    }
    s
}

fn scalar_pool() -> Vec<Val> {
    vec![Val::Null, Val::Bool(true), Val::Bool(false), int(0), int(-17), int(255), int(256), int(1114112), int(55296),
         int(-1), int(-255), int(-256), big("123456789012345678901234567890"), bstr(b"x'y"), bstr(b"\xff"),
         arr(vec![]), arr(vec![int(1)]), obj(vec![])]
}

struct Out {
    id: usize,
}
impl Out {
    fn emit(&mut self, req: String, real: String) {
        println!("c{}\t{}\t{}", self.id, req, real);
        self.id += 1;
    }
}

fn case0(ops: &Ops, out: &mut Out, op: &str, input: &Val) {
    let (f, _) = ops.get(op);
    out.emit(format!("c13.f {op} {}", vx::enc(input)), run_f(f, input.clone(), Val::Null, Val::Null));
}
fn case1(ops: &Ops, out: &mut Out, op: &str, input: &Val, a: &Val) {
    let (f, _) = ops.get(op);
    out.emit(format!("c13.f {op} {} {}", vx::enc(input), vx::enc(a)), run_f(f, input.clone(), a.clone(), Val::Null));
}
fn case2(ops: &Ops, out: &mut Out, op: &str, input: &Val, a: &Val, b: &Val) {
    let (f, _) = ops.get(op);
    out.emit(format!("c13.f {op} {} {} {}", vx::enc(input), vx::enc(a), vx::enc(b)), run_f(f, input.clone(), a.clone(), b.clone()));
}

const STR_OPS: &[&str] = &["html", "htmld", "uri", "urid", "base64", "sh", "json", "text", "explode", "tobytes", "tostring", "down", "up", "length", "bytelen"];

pub fn gen(tier: &str) {
    let thorough = tier == "thorough";
    let mut rng = Rng::new(prng::seed_from_env() ^ 0xC13);
    let ops = Ops::new();
    let mut out = Out { id: 0 };
    let at = atoms();
    let small = strings_upto(&at, if thorough { 3 } else { 2 });
    let tiny = strings_upto(&at, 1);
    let nrand = if thorough { 20000 } else { 3000 };
    let mut rand: Vec<Vec<u8>> = (0..nrand).map(|_| rand_bytes(&mut rng, &at, 24)).collect();
    // quick tier: a seeded sample of the length-3 strings (thorough enumerates all of them)
    if !thorough {
        for _ in 0..6000 {
            let mut s = vec![];
            for _ in 0..3 {
                let a: &Vec<u8> = rng.pick(&at);
                s.extend_from_slice(a);
            }
            rand.push(s);
        }
    }
    // 1. unary string filters on every small string and on random longer ones
    for s in small.iter().chain(rand.iter()) {
        let v = tstr(s);
        for op in STR_OPS {
            case0(&ops, &mut out, op, &v);
        }
        // explode | implode through the real filters is checked in `props`; the model of implode
        // is exercised on the real explode output
        let (f, _) = ops.get("explode");
        if let [Item::Val(e)] = &run_with(f, v.clone(), vec![Val::Null, Val::Null], vec![], 2)[..] {
            case0(&ops, &mut out, "implode", e);
        }
    }
    // every single byte (the domain of the generated tables) through every unary filter and the row formatters
    for b in 0..=255u8 {
        let v = tstr(&[b]);
        for op in STR_OPS {
            case0(&ops, &mut out, op, &v);
        }
        for op in ["csv", "tsv", "sh"] {
            case0(&ops, &mut out, op, &arr(vec![v.clone(), int(b as isize)]));
        }
    }
    // glue: the same filters on non-strings (type errors, tostring of scalars)
    for v in scalar_pool() {
        for op in STR_OPS.iter().chain(["implode", "base64d", "csv", "tsv"].iter()) {
            if *op == "json" && matches!(v, Val::BStr(_)) {
                continue; // `write_bytes!` (b"…" literals) is C07's subject
            }
            case0(&ops, &mut out, op, &v);
        }
    }
    // implode on arbitrary integer arrays
    let ipool: Vec<isize> = vec![0, 1, 65, 127, 128, 255, 256, 0x7ff, 0x800, 0xd7ff, 0xd800, 0xdfff, 0xe000, 0xffff, 0x10000, 0x10ffff, 0x110000,
                                 -1, -65, -127, -128, -255, -256, -300, isize::MAX, isize::MIN];
    for &i in &ipool {
        case0(&ops, &mut out, "implode", &arr(vec![int(i)]));
        for &j in &ipool {
            case0(&ops, &mut out, "implode", &arr(vec![int(i), int(j)]));
        }
    }
    case0(&ops, &mut out, "implode", &arr(vec![tstr(b"a")]));
    case0(&ops, &mut out, "implode", &arr(vec![float(65.0)]));
    case0(&ops, &mut out, "implode", &arr(vec![big("65")]));
    // tobytes on arrays of numbers / strings (nested)
    for v in [arr(vec![int(0), int(255)]), arr(vec![int(256)]), arr(vec![int(-1)]), arr(vec![tstr(b"ab"), arr(vec![int(1), bstr(b"\xff")])]),
              arr(vec![Val::Null]), arr(vec![float(1.0)]), arr(vec![big("7")]), int(7), int(300)] {
        case0(&ops, &mut out, "tobytes", &v);
    }
    // 2. base64 decoding: every string up to length 5 over a small alphabet incl. padding and junk,
    // the real encodings, and mutations of real encodings
    let b64at: Vec<Vec<u8>> = b"AQR/=+ -_g".iter().map(|b| vec![*b]).collect();
    for s in strings_upto(&b64at, if thorough { 5 } else { 4 }) {
        case0(&ops, &mut out, "base64d", &tstr(&s));
    }
    let (fenc, _) = ops.get("base64");
    for s in tiny.iter().chain(rand.iter().take(nrand / 2)) {
        if let [Item::Val(Val::TStr(e))] = &run_with(fenc, tstr(s), vec![Val::Null, Val::Null], vec![], 2)[..] {
            let e: Vec<u8> = e.to_vec();
            case0(&ops, &mut out, "base64d", &tstr(&e));
            if !e.is_empty() {
                let mut m = e.clone();
                let i = rng.below(m.len());
                match rng.below(4) {
                    0 => m[i] = *rng.pick(&b"=A/ \n-_B"[..]),
                    1 => {
                        m.remove(i);
                    }
                    2 => m.insert(i, *rng.pick(&b"=A \nB"[..])),
                    _ => m.truncate(i),
                }
                case0(&ops, &mut out, "base64d", &tstr(&m));
            }
        }
    }
    // 3. percent / html decoding of arbitrary (also malformed) input
    let pctat: Vec<Vec<u8>> = b"%4a1GfF&;lt#".iter().map(|b| vec![*b]).collect();
    for s in strings_upto(&pctat, if thorough { 5 } else { 4 }) {
        case0(&ops, &mut out, "urid", &tstr(&s));
    }
    let ents: Vec<Vec<u8>> = ["&", "lt;", "gt;", "amp;", "apos;", "quot;", "&lt;", "&amp;", "l", ";", "<", "'", "&quot", "x"].iter().map(|s| s.as_bytes().to_vec()).collect();
    for s in strings_upto(&ents, if thorough { 4 } else { 3 }) {
        case0(&ops, &mut out, "htmld", &tstr(&s));
    }
    // 4. rows of scalars for the row formatters and join
    let fields: Vec<Val> = {
        let mut f: Vec<Val> = vec![Val::Null, Val::Bool(true), Val::Bool(false), int(0), int(-12), big("18446744073709551616")];
        for s in [&b""[..], b"a", b",", b"\"", b"\n", b"\r", b"\t", b"\\", b"\0", b"'", b" ", b"a,b", b"\"\"", b"\r\n", b"\\n", b"\\", b"1", b"true", b"\xff", "\u{e9}".as_bytes(), b"a b", b"$x", b"`id`", b"-n"] {
            f.push(tstr(s));
        }
        f
    };
    let mut rows: Vec<Val> = vec![arr(vec![])];
    for a in &fields {
        rows.push(arr(vec![a.clone()]));
        for b in &fields {
            rows.push(arr(vec![a.clone(), b.clone()]));
        }
    }
    for _ in 0..(if thorough { 6000 } else { 1500 }) {
        let n = rng.below(5);
        rows.push(arr((0..n).map(|_| if rng.chance(1, 3) { rng.pick(&fields).clone() } else { tstr(&rand_bytes(&mut rng, &at, 4)) }).collect()));
    }
    rows.push(arr(vec![bstr(b"x")]));
    rows.push(arr(vec![arr(vec![int(1)])]));
    rows.push(arr(vec![obj(vec![])]));
    for r in &rows {
        for op in ["csv", "tsv", "sh"] {
            case0(&ops, &mut out, op, r);
        }
        for sep in [&b","[..], b"", b" < ", b"\xff"] {
            case1(&ops, &mut out, "join", r, &tstr(sep));
        }
    }
    case1(&ops, &mut out, "join", &arr(vec![tstr(b"a"), tstr(b"b")]), &int(1));
    case1(&ops, &mut out, "join", &arr(vec![tstr(b"a")]), &int(1));
    case1(&ops, &mut out, "join", &arr(vec![]), &int(1));
    case1(&ops, &mut out, "join", &tstr(b"a"), &tstr(b","));
    // 5. binary string filters
    let seps: Vec<Vec<u8>> = {
        let mut v = strings_upto(&at, 1);
        for s in [&b"ab"[..], b",,", b"a,", b"\xe2", b"\x82", b"\xe2\x82\xac", "\u{e9}a".as_bytes(), b"''", b"aa"] {
            v.push(s.to_vec());
        }
        v
    };
    let hay: Vec<Vec<u8>> = small.iter().filter(|s| s.len() <= 4).cloned().chain(rand.iter().take(if thorough { 3000 } else { 600 }).cloned()).collect();
    for (i, s) in hay.iter().enumerate() {
        for (j, sep) in seps.iter().enumerate() {
            // the full product is large: take every pair in the thorough tier, a deterministic third otherwise
            if !thorough && (i + j) % 3 != 0 {
                continue;
            }
            let (s, sep) = (tstr(s), tstr(sep));
            for op in ["split", "indices", "ltrimstr", "rtrimstr", "startswith", "endswith"] {
                case1(&ops, &mut out, op, &s, &sep);
            }
        }
    }
    // separators built from the haystack itself (so that matches are frequent)
    for s in rand.iter().take(if thorough { 6000 } else { 1500 }) {
        if s.is_empty() {
            continue;
        }
        let i = rng.below(s.len());
        let j = (i + 1 + rng.below(3)).min(s.len());
        let (sv, sep) = (tstr(s), tstr(&s[i..j]));
        for op in ["split", "indices", "ltrimstr", "rtrimstr", "startswith", "endswith"] {
            case1(&ops, &mut out, op, &sv, &sep);
        }
    }
    for (s, sep) in [(Val::Null, tstr(b",")), (tstr(b"a"), Val::Null), (bstr(b"a,b"), bstr(b",")), (bstr(b"a,b"), tstr(b",")), (tstr(b"a,b"), bstr(b",")), (int(1), int(1))] {
        for op in ["split", "indices", "ltrimstr", "rtrimstr", "startswith", "endswith"] {
            case1(&ops, &mut out, op, &s, &sep);
        }
    }
    // 6. slices by character positions
    let bounds: Vec<Val> = (-5..=5).map(int).chain([Val::Null]).collect();
    let sl: Vec<Vec<u8>> = vec![b"".to_vec(), b"abc".to_vec(), "a\u{e9}\u{20ac}\u{1f600}z".as_bytes().to_vec(), b"a\xffb".to_vec(), b"\xe2\x82a\xf0\x9f".to_vec(),
                                b"\xe2\x82\xe2\x82\xac".to_vec()];
    for s in sl.iter().chain(rand.iter().take(if thorough { 300 } else { 60 })) {
        for a in &bounds {
            for b in &bounds {
                case2(&ops, &mut out, "slice", &tstr(s), a, b);
            }
        }
    }
    // 7. format strings: interpolations pipe through the formatter, literal parts do not
    let lits: [(&str, &str, &str); 4] = [("", "", ""), ("echo ", " ", ""), ("x=", "&y=", "#"), ("<b>", "</b><i>", "</i>")];
    let fvals: Vec<Val> = {
        let mut f = vec![Val::Null, Val::Bool(true), int(-3)];
        for s in tiny.iter() {
            f.push(tstr(s));
        }
        for s in rand.iter().take(if thorough { 400 } else { 60 }) {
            f.push(tstr(s));
        }
        f.push(arr(vec![tstr(b"a b"), int(1), tstr(b"'")]));
        f
    };
    for name in ["sh", "html", "uri", "csv", "tsv", "json", "base64", "text", "urid", "htmld", "base64d"] {
        for (l0, l1, l2) in lits {
            let code = format!("@{name} \"{l0}\\(.[0]){l1}\\(.[1]){l2}\"");
            let f = compile_vars(&code, &vars()).unwrap_or_else(|e| panic!("{code}: {e}"));
            for (i, v0) in fvals.iter().enumerate() {
                let v1 = &fvals[(i * 7 + 3) % fvals.len()];
                let (v0, v1) = if name == "csv" || name == "tsv" { (arr(vec![v0.clone()]), arr(vec![v1.clone(), v0.clone()])) } else { (v0.clone(), v1.clone()) };
                if (name == "csv" || name == "tsv") && matches!(fvals[i], Val::Arr(_)) {
                    continue;
                }
                let input = arr(vec![v0.clone(), v1.clone()]);
                out.emit(format!("c13.fmt {name} {} {} {} {} {}", vx::enc(&tstr(l0.as_bytes())), vx::enc(&v0), vx::enc(&tstr(l1.as_bytes())), vx::enc(&v1), vx::enc(&tstr(l2.as_bytes()))),
                         run_f(&f, input, Val::Null, Val::Null));
            }
        }
    }
    // 7b. ROUND 2: format strings with ANY interleaving of literal and interpolated parts (0..=5 parts, adjacent
    // interpolations, adjacent / empty literals, literals that contain the formatter's own metacharacters)
    let lit_pool: [&str; 20] = ["", "x", "echo ", " ", "&", "%4", "%", "<b>", "\"", "\\", "'", "\u{e9}", ",", "\n", "\t", "&am", "=", "a b", "$(", ";"];
    let jq_lit = |l: &str| -> String {
        let mut o = String::new();
        for c in l.chars() {
            match c {
                '"' => o.push_str("\\\""),
                '\\' => o.push_str("\\\\"),
                '\n' => o.push_str("\\n"),
                '\t' => o.push_str("\\t"),
                c => o.push(c),
            }
        }
        o
    };
    let nshapes = if thorough { 1500 } else { 300 };
    for name in ["sh", "html", "uri", "csv", "tsv", "json", "base64", "text", "urid", "htmld", "base64d"] {
        for _ in 0..nshapes {
            let nparts = rng.below(6);
            let mut code = format!("@{name} \"");
            let mut req = format!("c13.fmtn {name}");
            let mut inputs = vec![];
            for _ in 0..nparts {
                if rng.below(2) == 0 {
                    let l = lit_pool[rng.below(lit_pool.len())];
                    code.push_str(&jq_lit(l));
                    req.push_str(&format!(" L {}", vx::enc(&tstr(l.as_bytes()))));
                } else {
                    let mut v = fvals[rng.below(fvals.len())].clone();
                    if (name == "csv" || name == "tsv") && rng.below(4) != 0 && !matches!(v, Val::Arr(_)) {
                        v = if rng.below(2) == 0 { arr(vec![v]) } else { arr(vec![v, fvals[rng.below(fvals.len())].clone()]) };
                        if let Val::Arr(a) = &v {
                            if a.iter().any(|x| matches!(x, Val::Arr(_))) {
                                v = arr(vec![tstr(b"a,\"b")]);
                            }
                        }
                    }
                    code.push_str(&format!("\\(.[{}])", inputs.len()));
                    req.push_str(&format!(" I {}", vx::enc(&v)));
                    inputs.push(v);
                }
            }
            code.push('"');
            let f = compile_vars(&code, &vars()).unwrap_or_else(|e| panic!("{code}: {e}"));
            out.emit(req, run_f(&f, arr(inputs), Val::Null, Val::Null));
        }
    }
    rx_gen(&mut rng, &mut out, thorough, &at);
}

// ------------------------------------------------------------------------------------ regex

/// independent segmentation of a byte string into "characters" (valid scalar or maximal invalid
/// prefix, Unicode Table 3-7) — written for the harness, shares no code with jaq/bstr
fn seg_starts(s: &[u8]) -> Vec<usize> {
    let mut starts = vec![];
    let mut i = 0;
    while i < s.len() {
        starts.push(i);
        let b0 = s[i];
        let (n, lo, hi) = match b0 {
            0x00..=0x7f => (1, 0, 0),
            0xc2..=0xdf => (2, 0x80, 0xbf),
            0xe0 => (3, 0xa0, 0xbf),
            0xed => (3, 0x80, 0x9f),
            0xe1..=0xef => (3, 0x80, 0xbf),
            0xf0 => (4, 0x90, 0xbf),
            0xf4 => (4, 0x80, 0x8f),
            0xf1..=0xf3 => (4, 0x80, 0xbf),
            _ => (0, 0, 0),
        };
        if n <= 1 {
            i += 1;
            continue;
        }
        let mut k = 1;
        while k < n && i + k < s.len() {
            let b = s[i + k];
            let ok = if k == 1 { lo <= b && b <= hi } else { (0x80..=0xbf).contains(&b) };
            if !ok {
                break;
            }
            k += 1;
        }
        i += k; // complete sequence (k == n) or maximal invalid prefix (k < n)
    }
    starts.push(s.len());
    starts
}

fn regex_pool() -> Vec<&'static str> {
    vec!["", "a", ".", "a*", "a+", "[^a]", "\\w+", "\\s", "(a)(b)?", "(?P<x>.)(?P<y>a)?", "a|b|", "\u{e9}", "[\u{e9}\u{20ac}]+", ".?", "(.)(.)", "\\W", "^", "$", "^.|.$", "(?:a|(b))+",
         "[a-z]*", "\\d", "(?P<n>[0-9]+)|(?P<l>[a-z]+)", "b*?", "(a*)(b*)", "x*", "\\b", ",", "'|\"", "\\\\", "[\u{1f600}]", ".{2}", "(.)\\s*", "A", "(?i)z",
         "(?:(a)|(b))+", "(?:(a)|(b)|(,))*", "(?:(?P<x>\u{e9})|(?P<y>.))+"]
}

fn rand_regex(rng: &mut Rng, depth: usize) -> String {
    let atom = |rng: &mut Rng| -> String {
        match rng.below(12) {
            0 => ".".into(),
            1 => "a".into(),
            2 => "b".into(),
            3 => "[ab]".into(),
            4 => "[^a]".into(),
            5 => "\\w".into(),
            6 => "\\s".into(),
            7 => "\u{e9}".into(),
            8 => "\u{20ac}".into(),
            9 => ",".into(),
            10 => "\\d".into(),
            _ => "Z".into(),
        }
    };
    if depth == 0 {
        return atom(rng);
    }
    match rng.below(9) {
        0 => format!("{}{}", rand_regex(rng, depth - 1), rand_regex(rng, depth - 1)),
        1 => format!("{}|{}", rand_regex(rng, depth - 1), rand_regex(rng, depth - 1)),
        2 => format!("({})", rand_regex(rng, depth - 1)),
        3 => format!("(?:{})*", rand_regex(rng, depth - 1)),
        4 => format!("(?:{})+", rand_regex(rng, depth - 1)),
        5 => format!("(?:{})?", rand_regex(rng, depth - 1)),
        6 => format!("(?P<n{}>{})", rng.below(100), rand_regex(rng, depth - 1)),
        7 => format!("(?:{})*?", rand_regex(rng, depth - 1)),
        _ => atom(rng),
    }
}

const RX_FLAGS: &[&str] = &["", "g", "n", "gn", "i", "gi", "x", "gs", "gm", "gl", "gp", "gx", "ng"];

/// decode the array of match objects printed by `matches`: per capture (offset, length, string, name)
fn caps_of(v: &Val) -> Option<Vec<Vec<(usize, usize, Vec<u8>, Option<Vec<u8>>)>>> {
    let Val::Arr(ms) = v else { return None };
    let mut out = vec![];
    for m in ms.iter() {
        let Val::Arr(cs) = m else { return None };
        let mut caps = vec![];
        for c in cs.iter() {
            let Val::Obj(o) = c else { return None };
            let get = |k: &str| o.get(&tstr(k.as_bytes())).cloned();
            let (Some(Val::Num(off)), Some(Val::Num(len)), Some(Val::TStr(st))) = (get("offset"), get("length"), get("string")) else { return None };
            let name = match get("name") {
                Some(Val::TStr(n)) => Some(n.to_vec()),
                _ => None,
            };
            let off: usize = format!("{off}").parse().ok()?;
            let len: usize = format!("{len}").parse().ok()?;
            caps.push((off, len, st.to_vec(), name));
        }
        out.push(caps);
    }
    Some(out)
}

fn rx_gen(rng: &mut Rng, out: &mut Out, thorough: bool, at: &[Vec<u8>]) {
    let vs = vars();
    let natives: Vec<(&str, Filter)> = ["matches", "split_matches", "split_"].iter().map(|n| (*n, compile_vars(&format!("{n}($a; $b)"), &vs).unwrap())).collect();
    let mut subjects: Vec<Vec<u8>> = vec![b"".to_vec(), b"a".to_vec(), b"ab".to_vec(), b"aab,ba".to_vec(), "a\u{e9}b\u{20ac}a".as_bytes().to_vec(), "\u{1f600}a\u{1f600}".as_bytes().to_vec(),
                                          b"a\xffb".to_vec(), b"\xe2\x82a".to_vec(), b"\xff".to_vec(), b"a\xe2\x82".to_vec(), b"\xf0\x9f\x98a\xc3".to_vec(), b"a b\tc\nd".to_vec(), b"Zz'\"\\".to_vec(), b"12 ab 3".to_vec()];
    for _ in 0..(if thorough { 400 } else { 60 }) {
        subjects.push(rand_bytes(rng, at, 8));
    }
    let mut regexes: Vec<String> = regex_pool().into_iter().map(String::from).collect();
    for _ in 0..(if thorough { 300 } else { 50 }) {
        regexes.push(rand_regex(rng, 3));
    }
    for (ri, re) in regexes.iter().enumerate() {
        for (si, s) in subjects.iter().enumerate() {
            let sv = tstr(s);
            // the engine's complete (global, empty matches kept) result, turned into byte ranges with the
            // harness's own segmentation; flags that change what the engine matches stay as they are
            for (fi, fl) in RX_FLAGS.iter().enumerate() {
                if !thorough && (ri + si + fi) % 4 != 0 {
                    continue;
                }
                let engine_flags: String = fl.chars().filter(|c| *c != 'n' && *c != 'g').collect::<String>() + "g";
                let all = catch(|| run_with(&natives[0].1, sv.clone(), vec![tstr(re.as_bytes()), tstr(engine_flags.as_bytes())], vec![], 2));
                let all = match all {
                    Ok(items) => items,
                    Err(p) => {
                        out.emit(format!("c13.rxpanic {} {} {}", vx::enc(&sv), vx::enc(&tstr(re.as_bytes())), engine_flags), format!("PANIC {}", p.replace(['\t', '\n'], " ")));
                        continue;
                    }
                };
                let [Item::Val(allv)] = &all[..] else { continue }; // invalid regex
                let Some(caps) = caps_of(allv) else { continue };
                let starts = seg_starts(s);
                let mut toks = vec![];
                let mut consistent = true;
                toks.push(format!("{}", caps.len()));
                for m in &caps {
                    toks.push(format!("{}", m.len()));
                    for (off, _len, st, name) in m {
                        let Some(&b0) = starts.get(*off) else {
                            consistent = false;
                            break;
                        };
                        let b1 = b0 + st.len();
                        if b1 > s.len() || &s[b0..b1] != &st[..] {
                            consistent = false;
                            break;
                        }
                        toks.push(format!("{b0}"));
                        toks.push(format!("{b1}"));
                        toks.push(match name {
                            Some(n) => format!("S{}", vx::hex(n)),
                            None => "N".into(),
                        });
                    }
                }
                if !consistent {
                    // reported by `props` (offset does not address the matched string); no model request possible
                    continue;
                }
                let g = fl.contains('g');
                let n = fl.contains('n');
                for (name, f) in &natives {
                    let real = catch(|| show_items(&run_with(f, sv.clone(), vec![tstr(re.as_bytes()), tstr(fl.as_bytes())], vec![], 2)))
                        .unwrap_or_else(|p| format!("PANIC {}", p.replace(['\t', '\n'], " ")));
                    out.emit(format!("c13.rx {name} {} {} {} {}", if g { "T" } else { "F" }, if n { "T" } else { "F" }, vx::enc(&sv), toks.join(" ")), real);
                }
            }
        }
    }
}

// ------------------------------------------------------------------------- property oracles

/// in-language equations, evaluated by the real code; each must yield `true`
const PROPS: &[(&str, &str)] = &[
    ("implode_explode", "(explode | implode) == ."),
    ("tostring_tobytes", "(tobytes | tostring) == ."),
    ("base64d_base64", "(@base64 | @base64d) == ."),
    ("urid_uri", "(@uri | @urid) == ."),
    ("htmld_html", "(@html | @htmld) == ."),
    ("fromjson_json", "(@json | fromjson) == ."),
    ("ascii_case_len", "(ascii_downcase | length) == length and (ascii_upcase | utf8bytelength) == utf8bytelength"),
    ("length_chars", "length == (split(\"\") | length)"),
    ("chars_reassemble", "(split(\"\") | join(\"\")) == ."),
    ("slice_partition", ". as $s | all(range(0; length + 2); . as $i | ($s[:$i] + $s[$i:]) == $s)"),
    ("slice_length", ". as $s | all(range(0; length + 1); . as $i | ($s[:$i] | length) == $i)"),
    ("csv_row_roundtrip", "([.] | @csv | [fromcsv]) == [[.]]"),
    ("uri_only_unreserved", "@uri | explode | all(. == 37 or . == 45 or . == 46 or . == 95 or . == 126 or (. >= 48 and . <= 57) or (. >= 65 and . <= 90) or (. >= 97 and . <= 122))"),
    ("html_no_meta", "@html | explode | all(. != 60 and . != 62 and . != 34 and . != 39)"),
];

/// with `$a` a second string
const PROPS2: &[(&str, &str)] = &[
    ("join_split", "(split($a) | join($a)) == ."),
    ("indices_slice", ". as $s | ($a | length) as $n | all(indices($a)[]; . as $i | $s[$i:][:$n] == $a)"),
    ("indices_complete", ". as $s | ($a | length) as $n | if $n == 0 then indices($a) == [] else [range(0; length + 1) | select(. as $i | $s[$i:][:$n] == $a)] == indices($a) end"),
    ("trimstr", "(if startswith($a) then $a + ltrimstr($a) else ltrimstr($a) end) == . and (if endswith($a) then rtrimstr($a) + $a else rtrimstr($a) end) == ."),
];

/// with `$a` a regex, `$b` flags
const PROPS_RX: &[(&str, &str)] = &[
    ("match_slice_eq_string", ". as $s | all(match($a; $b) | (., .captures[]) | select(.offset != null); . as $m | $s[$m.offset : $m.offset + $m.length] == $m.string)"),
    ("match_length_chars", "all(match($a; $b) | (., .captures[]) | select(.string != null); (.string | length) == .length)"),
    ("splits_interleave_reassemble", ". as $s | ([split_matches($a; $b)[] | if isarray then .[0].string else . end] | join(\"\")) == $s"),
    ("splits_are_mismatches", "[splits($a; $b)] == [split_matches($a; \"g\" + $b)[] | select(isarray | not)]"),
    ("scan_is_match_string", "[scan($a; $b)] == [match($a; $b) | .string]"),
    ("gsub_empty_is_splits_joined", "gsub($a; \"\"; $b) == ([splits($a; $b)] | join(\"\"))"),
];

pub fn props(tier: &str) {
    let thorough = tier == "thorough";
    let mut rng = Rng::new(prng::seed_from_env() ^ 0xC13C13);
    let vs = vars();
    let at = atoms();
    let small = strings_upto(&at, 2);
    let nrand = if thorough { 20000 } else { 4000 };
    let rand: Vec<Vec<u8>> = (0..nrand).map(|_| rand_bytes(&mut rng, &at, 24)).collect();
    let report = |name: &str, f: &Filter, input: &Val, a: &Val, b: &Val| {
        let r = run_f(f, input.clone(), a.clone(), b.clone());
        let ok = r == "V T";
        println!("PROP {}\t{}\t{} {} {}\t{}", if ok { "ok" } else { "FAIL" }, name, vx::enc(input), vx::enc(a), vx::enc(b), r);
    };
    for (name, code) in PROPS {
        let f = compile_vars(code, &vs).unwrap_or_else(|e| panic!("{name}: {e}"));
        for s in small.iter().chain(rand.iter()) {
            if *name == "fromjson_json" && std::str::from_utf8(s).is_err() {
                continue; // JSON text with invalid UTF-8 is C07's subject
            }
            if name.starts_with("slice_") && s.len() > 12 {
                continue;
            }
            report(name, &f, &tstr(s), &Val::Null, &Val::Null);
        }
    }
    let seps: Vec<Vec<u8>> = strings_upto(&at, 1).into_iter().chain([b"ab".to_vec(), b",,".to_vec(), b"\xe2".to_vec(), b"\x82".to_vec(), b"aa".to_vec()]).collect();
    for (name, code) in PROPS2 {
        let f = compile_vars(code, &vs).unwrap_or_else(|e| panic!("{name}: {e}"));
        for (i, s) in small.iter().chain(rand.iter().take(nrand / 4)).enumerate() {
            for (j, sep) in seps.iter().enumerate() {
                if !thorough && (i + j) % 4 != 0 {
                    continue;
                }
                report(name, &f, &tstr(s), &tstr(sep), &Val::Null);
            }
            if !s.is_empty() {
                let i = rng.below(s.len());
                let j = (i + 1 + rng.below(3)).min(s.len());
                report(name, &f, &tstr(s), &tstr(&s[i..j]), &Val::Null);
            }
        }
    }
    let mut subjects: Vec<Vec<u8>> = vec![b"".to_vec(), b"a".to_vec(), b"aab,ba".to_vec(), "a\u{e9}b\u{20ac}a".as_bytes().to_vec(), "\u{1f600}a\u{1f600}".as_bytes().to_vec(), b"a\xffb".to_vec(), b"\xe2\x82a".to_vec(),
                                          b"a\xe2\x82".to_vec(), b"\xf0\x9f\x98a\xc3".to_vec(), b"a b\tc\nd".to_vec(), b"12 ab 3".to_vec()];
    for _ in 0..(if thorough { 600 } else { 100 }) {
        subjects.push(rand_bytes(&mut rng, &at, 8));
    }
    let mut regexes: Vec<String> = regex_pool().into_iter().map(String::from).collect();
    for _ in 0..(if thorough { 300 } else { 60 }) {
        regexes.push(rand_regex(&mut rng, 3));
    }
    for (name, code) in PROPS_RX {
        let f = compile_vars(code, &vs).unwrap_or_else(|e| panic!("{name}: {e}"));
        for (ri, re) in regexes.iter().enumerate() {
            for (si, s) in subjects.iter().enumerate() {
                for (fi, fl) in RX_FLAGS.iter().enumerate() {
                    if !thorough && (ri + si + fi) % 3 != 0 {
                        continue;
                    }
                    let (a, b) = (tstr(re.as_bytes()), tstr(fl.as_bytes()));
                    let r = run_f(&f, tstr(s), a.clone(), b.clone());
                    if r == "E" {
                        continue; // invalid regex / flags
                    }
                    let ok = r == "V T";
                    println!("PROP {}\t{}\t{} {} {}\t{}", if ok { "ok" } else { "FAIL" }, name, vx::enc(&tstr(s)), vx::enc(&a), vx::enc(&b), r);
                }
            }
        }
    }
}

/// first matches on valid UTF-8 subjects for the Python `re` oracle:
/// `RX1 \t <hex subject> \t <hex regex> \t <flags> \t <real output of [match($re; $flags)]>`
pub fn rx1(tier: &str) {
    let thorough = tier == "thorough";
    let mut rng = Rng::new(prng::seed_from_env() ^ 0x13C);
    let vs = vars();
    let f = compile_vars("[match($a; $b)]", &vs).unwrap();
    let mut subjects: Vec<String> = ["", "a", "ab", "aab,ba", "a\u{e9}b\u{20ac}a", "\u{1f600}a\u{1f600}", "a b\tc d", "Zz'\"\\", "12 ab 3", "\u{e9}\u{e9}a\u{20ac}\u{1f600}b1 ,Z"].iter().map(|s| s.to_string()).collect();
    let ch: Vec<char> = "ab,Z1 \u{e9}\u{20ac}\u{1f600}\t".chars().collect();
    for _ in 0..(if thorough { 500 } else { 80 }) {
        let n = rng.below(9);
        subjects.push((0..n).map(|_| *rng.pick(&ch)).collect());
    }
    let mut regexes: Vec<String> = regex_pool().into_iter().map(String::from).collect();
    for _ in 0..(if thorough { 400 } else { 80 }) {
        regexes.push(rand_regex(&mut rng, 3));
    }
    for re in &regexes {
        for s in &subjects {
            for fl in ["", "i", "s", "x"] {
                let r = run_f(&f, tstr(s.as_bytes()), tstr(re.as_bytes()), tstr(fl.as_bytes()));
                println!("RX1\t{}\t{}\t{}\t{}", vx::hex(s.as_bytes()), vx::hex(re.as_bytes()), fl, r);
            }
        }
    }
}

// ------------------------------------------------------------------------------- translator

pub fn tables() {
    let vs = vars();
    let one = |code: &str, input: Val| -> Vec<u8> {
        let f = compile_vars(code, &vs).unwrap_or_else(|e| panic!("{code}: {e}"));
        match &run_with(&f, input, vec![Val::Null, Val::Null], vec![], 2)[..] {
            [Item::Val(Val::TStr(b))] => b.to_vec(),
            other => panic!("table entry of `{code}` is not a single text string: {other:?}"),
        }
    };
    // name, code, wrap the byte in an array?
    let tabs: &[(&str, &str, bool)] = &[
        ("html", "@html", false),
        ("uri", "@uri", false),
        ("shQ", "@sh", false),
        ("csvQ", "@csv", true),
        ("tsvF", "@tsv", true),
        ("jsonQ", "@json", false),
        ("down", "ascii_downcase", false),
        ("up", "ascii_upcase", false),
    ];
    for (name, code, wrap) in tabs {
        let f = compile_vars(code, &vs).unwrap();
        for b in 0..=255u8 {
            let s = tstr(&[b]);
            let input = if *wrap { arr(vec![s]) } else { s };
            let r = match &run_with(&f, input, vec![Val::Null, Val::Null], vec![], 2)[..] {
                [Item::Val(Val::TStr(o))] => o.to_vec(),
                other => panic!("table entry {name}[{b}] is not a single text string: {other:?}"),
            };
            println!("T {name} {b} {}", vx::hex(&r));
        }
    }
    // base64 alphabet: the first symbol of the encoding of [v << 2, 0, 0] is the symbol of sextet v;
    // the padding symbol is the last symbol of the encoding of a single byte
    for v in 0..64u8 {
        let r = one("@base64", tstr(&[v << 2, 0, 0]));
        println!("T b64 {v} {}", vx::hex(&r[..1]));
    }
    let r = one("@base64", tstr(&[0]));
    println!("T b64pad 0 {}", vx::hex(&r[r.len() - 1..]));
}

/// replay: request lines (`c13.f …`, `c13.fmt …`, `c13.prop <name> <vx> <vx> <vx>`) on stdin → `request \t real`
pub fn eval() {
    use std::io::BufRead;
    let ops = Ops::new();
    let vs = vars();
    for line in std::io::stdin().lock().lines() {
        let line = line.unwrap();
        let toks: Vec<&str> = line.split(' ').filter(|t| !t.is_empty()).collect();
        let mut vals = vec![];
        let mut it = toks.iter().skip(2).copied();
        let mut it2 = it.by_ref().peekable();
        while it2.peek().is_some() {
            match vx::dec_tokens(&mut it2) {
                Some(v) => vals.push(v),
                None => break,
            }
        }
        let get = |i: usize| vals.get(i).cloned().unwrap_or(Val::Null);
        let real = match toks.first().copied() {
            Some("c13.f") if OPS.iter().any(|o| o.0 == toks[1]) => run_f(ops.get(toks[1]).0, get(0), get(1), get(2)),
            Some("c13.fmt") => {
                let lit = |v: Val| match v {
                    Val::TStr(b) => String::from_utf8_lossy(&b).to_string(),
                    _ => String::new(),
                };
                let code = format!("@{} \"{}\\(.[0]){}\\(.[1]){}\"", toks[1], lit(get(0)), lit(get(2)), lit(get(4)));
                match compile_vars(&code, &vs) {
                    Ok(f) => run_f(&f, arr(vec![get(1), get(3)]), Val::Null, Val::Null),
                    Err(e) => e,
                }
            }
            Some("c13.fmtn") => {
                // c13.fmtn <name> (L <vx> | I <vx>)*
                let mut code = format!("@{} \"", toks[1]);
                let mut inputs = vec![];
                let mut it = toks.iter().skip(2).copied().peekable();
                let mut ok = true;
                while let Some(tag) = it.next() {
                    let Some(v) = vx::dec_tokens(&mut it) else {
                        ok = false;
                        break;
                    };
                    if tag == "L" {
                        if let Val::TStr(b) = &v {
                            for c in String::from_utf8_lossy(b).chars() {
                                match c {
                                    '"' => code.push_str("\\\""),
                                    '\\' => code.push_str("\\\\"),
                                    '\n' => code.push_str("\\n"),
                                    '\t' => code.push_str("\\t"),
                                    c => code.push(c),
                                }
                            }
                        }
                    } else {
                        code.push_str(&format!("\\(.[{}])", inputs.len()));
                        inputs.push(v);
                    }
                }
                code.push('"');
                match (ok, compile_vars(&code, &vs)) {
                    (true, Ok(f)) => run_f(&f, arr(inputs), Val::Null, Val::Null),
                    (_, Err(e)) => e,
                    _ => "bad-request".into(),
                }
            }
            Some("c13.prop") => {
                let code = PROPS.iter().chain(PROPS2.iter()).chain(PROPS_RX.iter()).find(|p| p.0 == toks[1]).map(|p| p.1);
                match code.map(|c| compile_vars(c, &vs)) {
                    Some(Ok(f)) => run_f(&f, get(0), get(1), get(2)),
                    _ => "unknown-prop".into(),
                }
            }
            _ => "unknown-request".into(),
        };
        println!("{line}\t{real}");
    }
}

pub fn main(args: &[String]) {
    let tier = std::env::var("VERIF_TIER").unwrap_or_else(|_| "quick".into());
    match args.first().map(|s| s.as_str()) {
        Some("tables") => tables(),
        Some("gen") => gen(&tier),
        Some("props") => props(&tier),
        Some("rx1") => rx1(&tier),
        Some("eval") => eval(),
        _ => eprintln!("c13 tables|gen|props|rx1"),
    }
}
