//! Harness of the jaq verification framework: runs the *real* jaq code and prints, per case,
//! `<case-id>\t<model request>\t<real answer>` lines (or property-specific reports).
//! One sub-command per property; see DESIGN.md.
pub mod common;
pub mod prng;
pub mod vx;

#[allow(dead_code)]
mod props;

fn main() {
    std::panic::set_hook(Box::new(|_| {}));
    let args: Vec<String> = std::env::args().skip(1).collect();
    let Some(cmd) = args.first() else {
        eprintln!("usage: jaqverif <command> [args]");
        std::process::exit(2);
    };
    let rest = &args[1..];
    if cmd == "vx-roundtrip" {
        // read VX lines, decode, re-encode (self test of the codec)
        use std::io::BufRead;
        for l in std::io::stdin().lock().lines() {
            let l = l.unwrap();
            match vx::dec(&l) {
                Some(v) => println!("{}", vx::enc(&v)),
                None => println!("?"),
            }
        }
        return;
    }
    if !props::dispatch(cmd, rest) {
        eprintln!("unknown command {cmd}");
        std::process::exit(2);
    }
}
