//! SplitMix64: the single source of randomness of the harness (seeded by VERIF_SEED).
#[derive(Clone, Debug)]
pub struct Rng(pub u64);

impl Rng {
    pub fn new(seed: u64) -> Self {
        Rng(seed ^ 0x9E37_79B9_7F4A_7C15)
    }
    pub fn next(&mut self) -> u64 {
        self.0 = self.0.wrapping_add(0x9E37_79B9_7F4A_7C15);
        let mut z = self.0;
        z = (z ^ (z >> 30)).wrapping_mul(0xBF58_476D_1CE4_E5B9);
        z = (z ^ (z >> 27)).wrapping_mul(0x94D0_49BB_1331_11EB);
        z ^ (z >> 31)
    }
    pub fn below(&mut self, n: usize) -> usize {
        if n == 0 {
            0
        } else {
            (self.next() % n as u64) as usize
        }
    }
    pub fn pick<'a, T>(&mut self, xs: &'a [T]) -> &'a T {
        &xs[self.below(xs.len())]
    }
    pub fn chance(&mut self, num: usize, den: usize) -> bool {
        self.below(den) < num
    }
}

pub fn seed_from_env() -> u64 {
    std::env::var("VERIF_SEED")
        .ok()
        .and_then(|s| s.parse::<i64>().ok())
        .map(|i| i as u64)
        .unwrap_or(20260922)
}
